"""C06 — n-gram lookup LM = Katz back-off: correspondence between /repo's LookupLanguageModel /
parse_arpa_lm and PV.C06.Model, plus translation validation of the implementation's ACTUAL trie
buffers with the verified validator PV.C06.Spec.trie_okb."""
import io
import itertools
import json
import math
import os
import re
import warnings

import torch

torch.set_num_threads(1)

import vlib
from vlib import cl, cn, clz, cp, cz, coq_eval_bools, coq_eval_print, exc_kind, shrink

IMPORTS = "From PV Require Import C06.Model C06.Spec.\n"
NEG = "-inf"
WIDTH = {"torch.uint8": 0, "torch.int16": 1, "torch.int32": 2, "torch.int64": 3}
THEOREMS = ["c06_validator_sound", "c06_lookup_is_katz", "c06_one_index_is_katz", "c06_per_element_index_is_katz",
            "c06_call_with_index_is_katz", "c06_call_with_index_vector_is_katz", "c06_call_full_is_katz",
            "c06_full_is_katz_any_chunk", "c06_chunked_eq_pointwise", "c06_batch_elements_independent",
            "c06_reload_same_partial"]

warnings.filterwarnings("ignore")


# ----------------------------------------------------------------------------------------
# encoding of values and Coq literals
# ----------------------------------------------------------------------------------------

def fl(x):
    return -math.inf if x == NEG else x / 8.0


def enc(f):
    f = float(f)
    if f != f:
        return "nan"
    if f == -math.inf:
        return NEG
    if f == math.inf:
        return "+inf"
    k = f * 8
    return int(k) if k == int(k) else "offgrid"


def cv(x):
    if x == NEG:
        return "NInf"
    if x == "nan":
        return "NaN"
    if not isinstance(x, int):
        raise ValueError("unrepresentable value %r" % (x,))
    return f"(Fin {cz(x)})"


def clv(xs):
    return cl([cv(x) for x in xs])


def c_rows(rows):
    return cl([clv(r) for r in rows])


def c_hist(h):
    return cl([clz(r) for r in h])


def c_dict(ents):
    return cl([cp(clz(k), cp(cv(p), cv(b))) for k, p, b in ents])


def c_dicts(dicts):
    return cl([c_dict(d) for d in dicts])


def c_tab(case):
    return c_dict([e for d in case["dicts"] for e in d])


def c_bufs(b):
    return f"(mkBufs {clz(b['offsets'])} {clz(b['ids'])} {clv(b['logps'])} {clv(b['logbs'])})"


def c_shape(case, b):
    return f"(mkShape {cz(case['V'])} {cz(case['sos'])} {cn(b['N'])} {cz(b['G'])} {cn(b['S'])})"


def representable(obj):
    """no +inf / off-grid value anywhere in an implementation output"""
    if isinstance(obj, str):
        return obj in (NEG, "nan")
    if isinstance(obj, list):
        return all(representable(x) for x in obj)
    return True


# ----------------------------------------------------------------------------------------
# the implementation
# ----------------------------------------------------------------------------------------

def prob_dicts(case):
    N = len(case["dicts"])
    out = []
    for n, ents in enumerate(case["dicts"], 1):
        d = {}
        for k, p, b in ents:
            key = k[0] if n == 1 else tuple(k)
            d[key] = fl(p) if n == N else (fl(p), fl(b))
        out.append(d)
    return out


def build(case):
    import logging
    from pydrobert.torch.modules import LookupLanguageModel
    opt = case.get("opt", 0)  # 0 plain, 1 destructive=True, 2 logger, 3 deprecated prob_list keyword
    pd = prob_dicts(case)
    if opt == 1:
        return LookupLanguageModel(case["V"], case["sos"], pd, destructive=True)
    if opt == 2:
        lg = logging.getLogger("verif.c06")
        lg.addHandler(logging.NullHandler())
        lg.propagate = False
        lg.setLevel(logging.INFO)
        return LookupLanguageModel(case["V"], case["sos"], pd, logger=lg)
    if opt == 3:
        return LookupLanguageModel(case["V"], case["sos"], prob_list=pd)
    return LookupLanguageModel(case["V"], case["sos"], pd)


def bufs_of(lm):
    return dict(offsets=[int(x) for x in lm.offsets.tolist()], ids=[int(x) for x in lm.ids.tolist()],
                logps=[enc(x) for x in lm.logps.tolist()], logbs=[enc(x) for x in lm.logbs.tolist()],
                N=int(lm.max_ngram), G=int(lm.max_ngram_nodes), S=int(lm.max_direct_descendants),
                ow=WIDTH.get(str(lm.offsets.dtype), 9), iw=WIDTH.get(str(lm.ids.dtype), 9))


def ht(hist, B):
    if not hist:
        return torch.empty((0, B), dtype=torch.long)
    return torch.tensor(hist, dtype=torch.long)


LAYOUTS = ["contig", "offset", "cols", "transposed", "rowstep", "colstep", "cols+offset"]


def as_layout(h, layout):
    """the same logical (T, B) history as a view with another memory layout (what a caller holding a slice of a
    larger time-major buffer, a pruned beam or a batch-first tensor passes in)"""
    T, B = h.shape
    if layout in (None, "contig"):
        return h
    if layout == "offset":
        big = torch.full((T + 3, B), -7, dtype=h.dtype)
        big[3:] = h
        return big[3:]
    if layout == "cols":
        wide = torch.full((T, B + 3), -7, dtype=h.dtype)
        wide[:, :B] = h
        return wide[:, :B]
    if layout == "cols+offset":
        wide = torch.full((T + 2, B + 3), -7, dtype=h.dtype)
        wide[2:, 2:B + 2] = h
        return wide[2:, 2:B + 2]
    if layout == "transposed":
        return h.t().contiguous().t()
    if layout == "rowstep":
        big = torch.full((2 * T + 1, B), -7, dtype=h.dtype)
        big[1::2] = h
        return big[1::2]
    if layout == "colstep":
        wide = torch.full((T, 2 * B), -7, dtype=h.dtype)
        wide[:, ::2] = h
        return wide[:, ::2]
    raise ValueError(layout)


def enc_t(t):
    return [[enc(x) for x in row] for row in t.tolist()] if t.dim() == 2 else \
        [[[enc(x) for x in row] for row in mat] for mat in t.tolist()]


def idx_arg(q, idx):
    """the index argument in the form the query asks for: python int, 0-dim tensor, 1-element tensor (scalars); int64 /
    int32 vector"""
    form = q.get("idx_form", "int")
    if isinstance(idx, list):
        return torch.tensor(idx, dtype=torch.int32 if form == "i32" else torch.long)
    if form == "t0":
        return torch.tensor(idx)
    if form == "t0i32":
        return torch.tensor(idx, dtype=torch.int32)
    if form == "t1":
        return torch.tensor([idx])
    return idx


def idx_result(r):
    """lm(hist, idx=...) returns the pair (log-probabilities, next state); anything else is not the documented result
    (a full (T+1, B, V) tensor indexed with [0] would pass for the idx=0 answer)"""
    if not (isinstance(r, tuple) and len(r) == 2 and isinstance(r[0], torch.Tensor) and isinstance(r[1], dict)):
        raise TypeError("lm(hist, idx=...) did not return (tensor, dict)")
    return r[0]


def full_result(r):
    if not isinstance(r, torch.Tensor):
        raise TypeError("lm(hist) did not return a tensor")
    return r


def run_query(lm, q):
    """canonical implementation output of one query, or 'exc:<kind>'.  q['call'] picks the public entry point:
    kw = lm(h, idx=i); pos = lm(h, None, i) (what the library's own tests do); prev = an explicit state dict;
    method = calc_idx_log_probs / calc_full_log_probs directly (valid queries only)"""
    h = as_layout(ht(q["hist"], q["B"]), q.get("layout"))
    if q.get("hdtype") == "i32":
        h = h.int()
    before = h.clone()
    call = q.get("call", "kw")
    T = len(q["hist"])
    try:
        if q.get("chunk") is not None:
            if call == "kw":
                out = lm.calc_full_log_probs_chunked(hist=h, prev=dict(), chunk_size=q["chunk"])
            elif call == "default" and q["chunk"] == 1:
                out = lm.calc_full_log_probs_chunked(h, dict())
            else:
                out = lm.calc_full_log_probs_chunked(h, dict(), q["chunk"])
            out = enc_t(full_result(out))
        elif q["idx"] is None:
            if call == "pos":
                out = lm(h, None, None)
            elif call == "prev":
                out = lm(h, dict())
            elif call == "method":
                out = lm.calc_full_log_probs(h, dict())
            else:
                out = lm(h)
            out = enc_t(full_result(out))
        else:
            idx = idx_arg(q, q["idx"])
            if call == "method" and query_valid(q):
                norm = [i % (T + 1) for i in q["idx"]] if isinstance(q["idx"], list) else q["idx"] % (T + 1)
                if isinstance(norm, list) and len(norm) == 1:
                    norm = norm[0]
                r = lm.calc_idx_log_probs(h, dict(), torch.tensor(norm))
            elif call == "pos":
                r = lm(h, None, idx)
            elif call == "prev":
                r = lm(h, dict(), idx=idx)
            else:
                r = lm(h, idx=idx)
            out = enc_t(idx_result(r))
        if not torch.equal(before, h):
            return "exc:history-modified-in-place"
        return out
    except Exception as e:  # noqa: BLE001
        return "exc:" + exc_kind(e)


def reload(case, lm, through_file):
    """state dict -> freshly constructed instance (the documented way)"""
    from pydrobert.torch.modules import LookupLanguageModel
    sd = lm.state_dict()
    if through_file:
        f = io.BytesIO()
        torch.save(sd, f)
        f.seek(0)
        sd = torch.load(f)
    lm2 = LookupLanguageModel(case["V"], case["sos"])
    if case.get("detour", (len(case["dicts"]) + len(case["dicts"][-1])) % 2 == 1):
        # the receiving instance has held other tables before (a unigram model, then a two-entry bigram model: smaller shape constants than most tables): load_state_dict
        # resizes the buffers and re-infers the shape constants every time
        toks = toks_of(case["V"], case["sos"])
        # (the order-1 table is also the F37 signature when there are >= 258 unigram nodes: corpus/C06/f37_*.json)
        other = [LookupLanguageModel(case["V"], case["sos"], [{t: -1.0 for t in range(case["V"])}]),
                 LookupLanguageModel(case["V"], case["sos"], [{t: (-1.0, -0.5) for t in toks},
                                                                {(a, toks[0]): -2.0 for a in toks[-2:]}])]
        for o in other:
            lm2.load_state_dict(o.state_dict())
    lm2.load_state_dict(sd)
    return lm2


def metamorphic(case, lm, lm2):
    """the relations the property states, on the implementation alone.  Returns a list of
    (what, detail) for every broken one.  Every all-positions query gets the basic battery (every chunk size, every
    index as int / negative int / 0-dim tensor, three per-element patterns, the reloaded model, every layout); the first
    one of a case additionally gets the entry-point / call-history battery, whose variants rotate with the position
    and the query so that a run covers all of them on every kind of position at a bounded cost."""
    bad = []
    V = case["V"]
    rich_done = False
    for q in case["queries"]:
        if q.get("chunk") is not None or q["idx"] is not None:
            continue
        h, T, B = ht(q["hist"], q["B"]), len(q["hist"]), q["B"]
        rich, rich_done = not rich_done, True
        rot = T + B + len(case["dicts"][-1])
        long_ = T > 40      # size-threshold stream: every all-positions pass costs T lookups; sampled positions, two layouts
        rich = rich and not long_
        where = dict(hist=q["hist"], B=B)
        try:
            full = lm(h)
            if full.shape != (T + 1, B, V):
                bad.append(("shape of full output", list(full.shape)))
                continue
            for c in sorted({1, 2, 3, max(T, 1), T + 1, T + 4} | {c for c in (16, 17, 32, 33, 64, 65, 128, 129) if c <= T}):
                got = lm.calc_full_log_probs_chunked(h, dict(), c)
                if not torch.equal(got, full):
                    bad.append(("chunk_size=%d differs from chunk_size=1" % c, where))
            # every position of a short history; of a long one (size-threshold stream) both ends, the positions next to
            # the powers of two and a stride that rotates with the case
            posns = range(T + 1) if T <= 40 else sorted(
                {i for i in list(range(6)) + [15, 16, 17, 31, 32, 33, 63, 64, 65, 127, 128, 129, 255, 256, T - 2, T - 1, T] if i <= T}
                | set(range(rot % 11, T + 1, 11)))
            for i in posns:
                # a scalar index anywhere in the history (not only at its end), in the forms a caller may use
                forms = [("int", lambda: lm(h, idx=i)), ("negative int", lambda: lm(h, idx=i - T - 1)),
                         ("0-dim tensor", lambda: lm(h, idx=torch.tensor(i)))]
                extra = [("1-element tensor", lambda: lm(h, idx=torch.tensor([i]))), ("positional int", lambda: lm(h, None, i)),
                         ("int32 0-dim tensor", lambda: lm(h, dict(), torch.tensor(i, dtype=torch.int32))),
                         ("calc_idx_log_probs", lambda: lm.calc_idx_log_probs(h, dict(), torch.tensor(i))),
                         ("negative 1-element tensor", lambda: lm(h, idx=torch.tensor([i - T - 1])))]
                if B > 1:
                    extra.append(("constant vector", lambda: lm(h, idx=torch.full((B,), i, dtype=torch.long))))
                if rich:
                    forms += [extra[0], extra[(rot + i) % (len(extra) - 1) + 1]]
                for name, f in forms:
                    if not torch.equal(idx_result(f()), full[i]):
                        bad.append(("idx=%d (%s) of a length-%d history differs from the all-positions result" % (i, name, T), where))
            # a different index per batch element: a few deterministic patterns
            for pat in range(3):
                ix = [(b * (pat + 1) + pat) % (T + 1) for b in range(B)]
                out = idx_result(lm(h, idx=torch.tensor(ix, dtype=torch.int32 if rich and pat == rot % 3 else torch.long)))
                want = torch.stack([full[ix[b], b] for b in range(B)])
                if not torch.equal(out, want):
                    bad.append(("per-element idx differs from the all-positions result", dict(hist=q["hist"], B=B, idx=ix)))
            if lm2 is not None and not torch.equal(lm2(h), full):
                bad.append(("reloaded model differs", where))
            if rich:
                alt = [("lm(hist, {})", lambda: lm(h, dict())), ("calc_full_log_probs", lambda: lm.calc_full_log_probs(h, dict())),
                       ("an int32 history", lambda: lm(h.int())), ("lm(hist, None, None)", lambda: lm(h, None, None))][rot % 4]
                if not torch.equal(full_result(alt[1]()), full):
                    bad.append((alt[0] + " differs from lm(hist)", where))
            if rich and T:
                # call history: the SAME tensor object overwritten in place and passed again; one state dict object reused
                h2, P = h.clone(), dict()
                r1 = lm(h2, P)
                other = torch.flip(h, [0, 1]) if B > 1 or T > 1 else torch.full_like(h, case["sos"])
                h2.copy_(other)
                r2, r3 = lm(h2, P), lm(h2, P, idx=T)
                want = lm(other.clone())
                if not (torch.equal(r1, full) and torch.equal(r2, want) and torch.equal(idx_result(r3), want[T]) and torch.equal(h2, other)):
                    bad.append(("a history tensor overwritten in place and passed again gives a stale / different result",
                                dict(hist=q["hist"], B=B, then=other.tolist())))
                if not torch.equal(lm(h), full):
                    bad.append(("the same history gives another result after other calls", where))
            # the result is a function of the history's contents, not of its memory layout
            lays = list(enumerate(LAYOUTS[1:]))
            for li, lay in ([lays[(rot + k) % len(lays)] for k in (0, 3)] if long_ else lays):
                hv = as_layout(h, lay)
                keep = hv.clone()
                det = dict(hist=q["hist"], B=B, layout=lay)
                if not torch.equal(lm(hv), full):
                    bad.append(("history passed as a %s view differs from the contiguous one" % lay, det))
                    continue
                if T and not torch.equal(idx_result(lm(hv, idx=T)), full[T]):
                    bad.append(("idx=%d on a %s view differs from the contiguous one" % (T, lay), det))
                if rich and T:
                    i = (rot + li) % T   # strictly inside the history
                    arg = [i, torch.tensor([i]), torch.tensor(i), i - T - 1][(rot + li) % 4]
                    if not torch.equal(idx_result(lm(hv, idx=arg)), full[i]):
                        bad.append(("idx=%d (inside the history) on a %s view differs from the contiguous one" % (i, lay), det))
                    if B > 1 and (rot + li) % 2 == 0:
                        ix = [(b + 1 + li) % (T + 1) for b in range(B)]
                        if not torch.equal(idx_result(lm(hv, idx=torch.tensor(ix))), torch.stack([full[ix[b], b] for b in range(B)])):
                            bad.append(("per-element idx on a %s view differs from the contiguous one" % lay, dict(det, idx=ix)))
                    elif not torch.equal(lm.calc_full_log_probs_chunked(hv, dict(), 2 + li % 2), full):
                        bad.append(("chunked evaluation on a %s view differs from the contiguous one" % lay, det))
                if not torch.equal(hv, keep):
                    bad.append(("a %s view was modified in place by the call" % lay, det))
        except Exception as e:  # noqa: BLE001
            bad.append(("exception " + exc_kind(e) + ": " + str(e)[:200], where))
    return bad


# ----------------------------------------------------------------------------------------
# a reference recursion in Python (used only for the table too large for vm_compute and for
# cheap pre-filtering; the judging reference is PV.C06.Spec.katz evaluated in Coq)
# ----------------------------------------------------------------------------------------

def py_katz(tab, ctx, v):
    key = tuple(ctx) + (v,)
    e = tab.get(key)
    if not ctx:
        return e[0] if e is not None else NEG
    if e is not None and e[0] != NEG:
        return e[0]
    bo = tab.get(tuple(ctx), (NEG, 0))[1]
    r = py_katz(tab, ctx[1:], v)
    return NEG if (r == NEG or bo == NEG) else bo + r


def py_context(N, sos, col):
    return ([sos] * (N - 1) + list(col))[len(col):] if N > 1 else []


# ----------------------------------------------------------------------------------------
# generators
# ----------------------------------------------------------------------------------------

def toks_of(V, sos):
    return list(range(V)) + ([sos] if not (0 <= sos < V) else [])


def val_of_key(k, salt=0):
    return -((sum((i + 2) * (t + 3) for i, t in enumerate(k)) * 7 + salt) % 41)


def gen_queries(rng, case, nq=4):
    V, sos, N = case["V"], case["sos"], len(case["dicts"])
    toks = toks_of(V, sos) + [sos]
    qs = []
    # one all-positions batch that also feeds the metamorphic relations
    T, B = rng.randint(0, 6), rng.randint(1, 3)
    qs.append(dict(hist=[[rng.choice(toks) for _ in range(B)] for _ in range(T)], B=B, idx=None))
    for _ in range(nq):
        T = rng.choice([0, 1, N - 1, N, rng.randint(0, 6)])
        B = rng.randint(1, 3)
        hist = [[rng.choice(toks) for _ in range(B)] for _ in range(T)]
        r = rng.random()
        if r < 0.15:
            q = dict(hist=hist, B=B, idx=None)
        elif r < 0.40:
            q = dict(hist=hist, B=B, idx=rng.randint(-T - 1, T))
        elif r < 0.70:
            q = dict(hist=hist, B=B, idx=[rng.randint(-T - 1, T) for _ in range(B)])
        elif r < 0.75:  # a one-element index vector is squeezed to a scalar
            q = dict(hist=hist, B=B, idx=[rng.randint(-T - 1, T)])
        elif r < 0.95:
            q = dict(hist=hist, B=B, idx=None, chunk=rng.choice([1, 2, 3, T + 1, T + 3]))
        else:  # the documented failure modes of idx / chunk_size
            q = rng.choice([dict(hist=hist, B=B, idx=T + 1), dict(hist=hist, B=B, idx=-T - 2),
                            dict(hist=hist, B=B, idx=[0] * (B + 1)), dict(hist=hist, B=B, idx=None, chunk=0)])
        if T and rng.random() < 0.4:
            q["layout"] = rng.choice(LAYOUTS[1:])
        q["call"] = rng.choice(["kw", "kw", "pos", "prev", "method", "default"])
        if q.get("idx") is not None:
            q["idx_form"] = rng.choice(["i64", "i64", "i32"]) if isinstance(q["idx"], list) else rng.choice(["int", "int", "t0", "t1", "t0i32"])
        if rng.random() < 0.2:
            q["hdtype"] = "i32"
        qs.append(q)
    # a scalar index strictly inside a longer history, in each of its three forms
    T, B = rng.randint(2, 6), rng.randint(1, 3)
    hist = [[rng.choice(toks) for _ in range(B)] for _ in range(T)]
    qs.append(dict(hist=hist, B=B, idx=rng.randint(0, T - 1) - rng.choice([0, T + 1]), idx_form=rng.choice(["int", "t0", "t1"]),
                   call=rng.choice(["kw", "pos", "prev"])))
    return qs


def gen_table(rng):
    V = rng.choice([1, 2, 2, 3, 3, 4])
    N = rng.choice([1, 2, 2, 3, 3, 3, 4, 4])
    sos = rng.choice([0, V - 1, -1, V, V + 2, rng.randrange(V)])
    toks = toks_of(V, sos)
    dicts = []
    for n in range(1, N + 1):
        allk = list(itertools.product(toks, repeat=n))
        dens = rng.choice([0.0, 0.1, 0.3, 0.6, 0.9, 1.0])
        if len(allk) > 30:
            dens = min(dens, rng.choice([8.0, 14.0, 24.0]) / len(allk))
        ks = [k for k in allk if rng.random() < dens]
        if n == N and not ks:
            ks = [rng.choice(allk)]
        ents = []
        for k in ks:
            p = NEG if rng.random() < 0.12 else -rng.randint(0, 40)
            b = (NEG if rng.random() < 0.03 else -rng.randint(0, 16)) if rng.random() < 0.8 else 0
            ents.append([list(k), p, 0 if n == N else b])
        rng.shuffle(ents)
        dicts.append(ents)
    case = dict(kind="lm", V=V, sos=sos, dicts=dicts, opt=rng.choice([0, 0, 0, 1, 1, 2, 3]), script=rng.choice([False] * 13 + [True, "reloaded"]),
                detour=rng.random() < 0.5)
    case["queries"] = gen_queries(rng, case)
    return case


def fanout_table(rng):
    """deeper levels branch more than the unigram level (max_direct_descendants is decided below
    level 1): one suffix chain, every token as its oldest-token extension"""
    V = rng.choice([2, 3, 4])
    N = rng.choice([3, 3, 4])
    sos = rng.choice([0, -1, V])
    toks = toks_of(V, sos)
    dicts = [[] for _ in range(N)]
    for _ in range(rng.choice([1, 1, 2])):
        suffix = [rng.choice(toks) for _ in range(N - 1)]
        lvl = rng.choice([N, N, N - 1]) if N > 3 else N
        suf = suffix[N - lvl:]
        for z in toks:
            if rng.random() < 0.85:
                k = [z] + suf
                if k not in [e[0] for e in dicts[lvl - 1]]:
                    dicts[lvl - 1].append([k, -rng.randint(0, 40), 0 if lvl == N else -rng.randint(0, 9)])
    if not dicts[N - 1]:
        dicts[N - 1].append([[rng.choice(toks) for _ in range(N)], -3, 0])
    for t in range(V):
        if rng.random() < 0.7:
            dicts[0].append([[t], -rng.randint(0, 40), -rng.randint(0, 9)])
    case = dict(kind="lm", V=V, sos=sos, dicts=dicts, opt=0)
    qs = gen_queries(rng, case, nq=2)
    # histories that end in the chain
    top = dicts[N - 1]
    cols = [e[0][:-1] for e in top[:3]] + [e[0][1:] for e in top[:2]]
    for c in cols:
        qs.append(dict(hist=[[x] for x in c], B=1, idx=len(c)))
    case["queries"] = qs
    return case


def exhaustive_tables(tier):
    """V=2, order 2, start symbol in (0) and out (2) of the vocabulary: EVERY presence pattern of
    unigrams and bigrams (values a fixed function of the key, -inf for a few), queried on all
    histories of length <= 3.  quick tier: a slice."""
    out = []
    for sos in (0, 2):
        toks = toks_of(2, sos)
        uni = [(t,) for t in toks]
        bi = list(itertools.product(toks, repeat=2))
        allk = uni + bi
        total = 2 ** len(allk)
        step = 1 if tier == "thorough" else (7 if sos == 0 else 97)
        hists = {T: [list(h) for h in itertools.product(toks, repeat=T)] for T in range(4)}
        for mask in range(0, total, step):
            ks = [k for i, k in enumerate(allk) if mask >> i & 1]
            d2 = [[list(k), NEG if sum(k) % 5 == 4 else val_of_key(k), 0] for k in ks if len(k) == 2]
            if not d2:
                continue
            d1 = [[list(k), val_of_key(k), val_of_key(k, 3) // 4] for k in ks if len(k) == 1]
            qs = []
            for T in range(4):
                cols = hists[T]
                qs.append(dict(hist=[[c[t] for c in cols] for t in range(T)], B=len(cols), idx=None))
            out.append(dict(kind="lm", V=2, sos=sos, dicts=[d1, d2], queries=qs[:1] + qs[2:] if mask % 3 else qs))
    return out


def boundary_table(rng, nbig, V=16):
    """order-2 table with exactly nbig bigrams: the largest offset is nbig + 1 (255 / 256 / ...)"""
    allk = list(itertools.product(range(V), repeat=2))
    rng.shuffle(allk)
    d2 = [[list(k), val_of_key(k), 0] for k in allk[:nbig]]
    d1 = [[[t], -t - 1, -(t % 5)] for t in range(V) if t % 7 != 3]
    case = dict(kind="lm", V=V, sos=rng.choice([0, V]), dicts=[d1, d2])
    toks = list(range(V))
    case["queries"] = [dict(hist=[[rng.choice(toks) for _ in range(3)] for _ in range(2)], B=3, idx=None),
                       dict(hist=[[rng.choice(toks) for _ in range(2)] for _ in range(3)], B=2, idx=[3, 1])]
    return case


def dtype_boundary_table(V, nbig, sos):
    """order-2 table, S = V (+1 if sos is out of vocabulary) unigrams (only unigram 0 listed, the others are
    auto-completed) and nbig bigrams (w, 0), all children of unigram node 0: the largest offset written is
    S + nbig (the childless node 1 right after the parent of all children; S + 1 for node 0 when nbig = 1),
    the value _build_trie must size the offsets dtype for (F33: it used S + nbig - 1)."""
    d1 = [[[0], -8, -4]]
    d2 = [[[w, 0], val_of_key((w, 0)), 0] for w in range(nbig)]
    case = dict(kind="lm", V=V, sos=sos, dicts=[d1, d2])
    case["queries"] = [dict(hist=[[0, 1]], B=2, idx=1), dict(hist=[[0], [1]], B=1, idx=None),
                       dict(hist=[[1, 0], [0, 0]], B=2, idx=[2, 1])]
    return case


def deep_table(rng):
    """order-3 table whose level-2 / level-3 offsets exceed 255 (int16 offsets, several levels)"""
    V = 7
    tri = list(itertools.product(range(V), repeat=3))
    rng.shuffle(tri)
    d3 = [[list(k), val_of_key(k), 0] for k in tri[:rng.choice([250, 262, 300])]]
    bi = list(itertools.product(range(V), repeat=2))
    d2 = [[list(k), val_of_key(k, 1), -(sum(k) % 9)] for k in bi if rng.random() < 0.5]
    d1 = [[[t], -t - 1, -(t % 5)] for t in range(V)]
    case = dict(kind="lm", V=V, sos=rng.choice([1, -1]), dicts=[d1, d2, d3])
    toks = list(range(V)) + [case["sos"]]
    case["queries"] = [dict(hist=[[rng.choice(toks) for _ in range(4)] for _ in range(4)], B=4, idx=None),
                       dict(hist=[[rng.choice(toks) for _ in range(3)] for _ in range(4)], B=3, idx=[4, 0, 2])]
    return case


# ----------------------------------------------------------------------------------------
# size thresholds: ONE tensor extent of the lookup at 17 / 31..33 / 63..65 / 127..129 / 255..257 (where library
# kernels and tempting rewrites change algorithm: sort / topk at 16, vectorised and blocked reductions at 32 / 64 / 128,
# int8 / uint8 index tensors at 128 / 256), the other extents small so that the case stays an ordinary `lm` case
# judged by the model and by Spec.katz inside Coq.  Every case has an element that FILLS the extent and whose
# answer is read from the last cell (last token / last sorted n-gram / last child / last batch column / last
# position / last chunk), and payloads that are pairwise different so that a permuted, dropped or repeated cell shows.
# ----------------------------------------------------------------------------------------

SIZES = [17, 31, 32, 33, 63, 64, 65, 127, 128, 129]
SIZES_BIG = [255, 256, 257]


def dval(j):
    """pairwise different log-probabilities (still multiples of 1/8, sums exact in float32)"""
    return -(j + 1)


def dbo(j):
    return -((5 * j + 2) % 23)


def sorted_level(V, sos, ents):
    """the entries of one order in the order _build_trie lays them out (reversed key, sos renamed to V when outside)"""
    out = not 0 <= sos < V
    return sorted(ents, key=lambda e: [V if (out and x == sos) else x for x in e[0]][::-1])


def cols_to_hist(cols):
    return [[c[t] for c in cols] for t in range(len(cols[0]))] if cols and cols[0] else []


def small_dense_table(rng, V, sos, N, dens=0.6):
    """every order listed with density dens, pairwise different values, a few -inf"""
    toks = toks_of(V, sos)
    dicts, j = [], 0
    for n in range(1, N + 1):
        ents = []
        for k in itertools.product(toks, repeat=n):
            if n == 1 or rng.random() < dens:
                j += 1
                ents.append([list(k), NEG if (n > 1 and rng.random() < 0.08) else dval(j), 0 if n == N else dbo(j)])
        if not ents:
            ents.append([[toks[-1]] * n, dval(j), 0])
        rng.shuffle(ents)
        dicts.append(ents)
    return dicts


def size_vocab_table(rng, V, N=None):
    """extent = vocabulary size (M = B*V cells, vrange, ids dtype): few n-grams, all of them around the LAST token.
    N = 1: unigrams only (the bypass `last_logps.expand(B, V)`; with 258+ unigram nodes the F37 signature)"""
    sos = rng.choice([0, V - 1, V, -1])
    N = N or rng.choice([2, 2, 3])
    toks = toks_of(V, sos)
    last = V - 1
    d1 = [[[t], dval(t), dbo(t) if N > 1 else 0] for t in toks if t == last or t == sos or rng.random() < 0.97]
    if N == 1:
        case = dict(kind="lm", V=V, sos=sos, dicts=[d1], opt=rng.choice([0, 1]), detour=False)
        case["queries"] = [dict(hist=[[last, 0]], B=2, idx=None), dict(hist=[[last], [0]], B=1, idx=rng.choice([0, 2, -1]))]
        return case
    pairs = {(last, last), (0, last), (last, 0), (sos, last), (last - 1, last), (last, last - 1), (15, 16), (16, 15)}
    while len(pairs) < 12:
        pairs.add((rng.choice(toks), rng.choice(toks)))
    pairs = sorted(pairs)
    d2 = [[list(p), dval(V + 1 + i), 0 if N == 2 else dbo(i + 3)] for i, p in enumerate(pairs)]
    dicts = [d1, d2]
    if N == 3:
        tri = {(last, last, last), (last - 1, last, 0), (sos, sos, last), (0, last, last), (last, 0, last)}
        dicts.append([[list(k), dval(2 * V + 20 + i), 0] for i, k in enumerate(sorted(tri))])
    case = dict(kind="lm", V=V, sos=sos, dicts=dicts, opt=rng.choice([0, 0, 1]), detour=rng.random() < 0.5)
    cols = [[last, last], [last - 1, last], [sos, last], [last, 0], [rng.choice(toks), rng.choice(toks)]]
    rng.shuffle(cols)
    big = V > 200
    cols = cols[:2] if big else cols[:3]
    B = len(cols)
    qs = [dict(hist=cols_to_hist(cols), B=B, idx=None, call=rng.choice(["kw", "pos", "method"])),
          dict(hist=cols_to_hist(cols[::-1]), B=B, idx=[2, 1, 0][:B], idx_form=rng.choice(["i64", "i32"]))]
    if not big:
        qs.append(dict(hist=[[last], [last], [last]], B=1, idx=3, idx_form=rng.choice(["int", "t0", "t1"])))
        qs.append(dict(hist=cols_to_hist(cols), B=B, idx=None, chunk=2))
    case["queries"] = qs
    return case


def size_ngrams_table(rng, n, level):
    """extent = number of n-grams of one order (a level of the trie: offsets / ids / logps cells, the sort in
    _build_trie): exactly n bigrams (level 2 of an order-2 or order-3 table) or n trigrams (level 3); fan-out small.
    Queried at the FIRST and LAST entries of the level in layout order and around positions 15..17."""
    N = 3 if level == 3 else rng.choice([2, 3])
    V = 6 if level == 3 else 20
    if level == 3 and n > 200:
        V = 7
    sos = rng.choice([0, V, -1])
    toks = toks_of(V, sos)
    allk = list(itertools.product(toks, repeat=level))
    rng.shuffle(allk)
    top = [[list(k), dval(j), 0 if level == N else dbo(j)] for j, k in enumerate(allk[:n])]
    d1 = [[[t], dval(1000 + t), dbo(t)] for t in toks if rng.random() < 0.9]
    if level == 2 and N == 2:
        dicts = [d1, top]
    elif level == 2:
        tri = [[[rng.choice(toks)] + e[0], dval(2000 + i), 0] for i, e in enumerate(rng.sample(top, 4))]
        dicts = [d1, top, tri]
    else:
        bi = list(itertools.product(toks, repeat=2))
        dicts = [d1, [[list(k), dval(2000 + i), dbo(i)] for i, k in enumerate(bi) if rng.random() < 0.5], top]
    case = dict(kind="lm", V=V, sos=sos, dicts=dicts, opt=rng.choice([0, 1, 3]), detour=rng.random() < 0.5)
    lay = sorted_level(V, sos, top)
    pick = [lay[-1], lay[0], lay[min(15, n - 1)], lay[min(16, n - 1)], lay[-2], rng.choice(lay), rng.choice(lay)]
    cols = [e[0][:-1] for e in pick]
    if level < N:   # a bigram of an order-3 table is reached with a longer history too
        cols = [[rng.choice(toks)] + c for c in cols]
    cols.append([rng.choice(toks) for _ in cols[0]])
    T, B = len(cols[0]), len(cols)
    case["queries"] = [dict(hist=cols_to_hist(cols), B=B, idx=None),
                       dict(hist=cols_to_hist(cols), B=B, idx=T, idx_form=rng.choice(["int", "t0"]), call=rng.choice(["kw", "pos", "prev"])),
                       dict(hist=cols_to_hist(cols[:3]), B=3, idx=[T, T, T - 1]),
                       dict(hist=cols_to_hist(cols), B=B, idx=None, chunk=rng.choice([2, 3]))]
    return case


def size_children_table(rng, S, deep):
    """extent = number of children of ONE trie node (max_direct_descendants: srange, the (M + B, S) candidate matrix,
    .any(1) / .sum(1) over it).  deep = the wide node is a bigram node of an order-3 table (level 1 branches little,
    so S is decided below level 1), else a unigram node of an order-2 table.  fill = every token incl. an outside sos
    is a child (S = V + 1, the maximum)."""
    fill = rng.random() < 0.4
    V, sos = (S - 1, rng.choice([S - 1, -1])) if fill else (S + 3, rng.choice([0, S + 3, -1]))
    toks = toks_of(V, sos)
    kids = toks[:] if fill else sorted(rng.sample(toks, S))
    v0 = rng.choice([0, V - 1, V // 2])
    d1 = [[[t], dval(t), dbo(t)] for t in toks if t in (v0, sos) or rng.random() < 0.95]
    if deep:
        z0 = rng.choice([t for t in range(V) if t != v0])
        d2 = [[[z0, v0], dval(V + 5), -3], [[v0, z0], dval(V + 6), -1]]
        d3 = [[[w, z0, v0], dval(V + 10 + i), 0] for i, w in enumerate(kids)] + [[[kids[0], v0, z0], dval(5 * V), 0]]
        dicts = [d1, d2, d3]
        ctx = lambda w: [w, z0]
    else:
        v1 = (v0 + 1) % V
        d2 = [[[w, v0], dval(V + 10 + i), 0] for i, w in enumerate(kids)] + [[[kids[-1], v1], dval(5 * V), 0], [[kids[0], v1], dval(5 * V + 1), 0]]
        dicts = [d1, d2]
        ctx = lambda w: [w]
    for d in dicts:
        rng.shuffle(d)
    case = dict(kind="lm", V=V, sos=sos, dicts=dicts, opt=0, detour=rng.random() < 0.5)
    other = [t for t in toks if t not in kids]
    ws = [kids[-1], kids[0], rng.choice([kids[15], kids[16], kids[-2]]), other[0] if other else kids[S // 2]]
    cols = [ctx(w) for w in ws]
    big = S > 200
    if big:
        cols = cols[:3]
    T, B = len(cols[0]), len(cols)
    qs = [dict(hist=cols_to_hist(cols), B=B, idx=T, idx_form=rng.choice(["int", "t0", "t1"]))]
    if not big:
        qs.append(dict(hist=cols_to_hist(cols[:1]), B=1, idx=None))
        qs.append(dict(hist=cols_to_hist(cols[::-1][:2]), B=2, idx=[T, T - 1]))
    case["queries"] = qs
    return case


def size_batch_table(rng, B):
    """extent = batch of histories (and the per-element idx vector, one entry per history): pairwise different
    columns as far as the token set allows, the LAST column unlike all others and ending in a listed n-gram"""
    V, N = rng.choice([2, 3]), 3
    sos = rng.choice([0, V, -1])
    toks = toks_of(V, sos)
    T = 3
    while len(toks) ** T < B:
        T += 1
    dicts = small_dense_table(rng, V, sos, N)
    case = dict(kind="lm", V=V, sos=sos, dicts=dicts, opt=0, detour=rng.random() < 0.5)
    allc = [list(c) for c in itertools.product(toks, repeat=T)]
    rng.shuffle(allc)
    tops = [e[0] for e in dicts[-1] if e[1] != NEG] or [dicts[-1][0][0]]
    lastc = [rng.choice(toks) for _ in range(T - 2)] + rng.choice(tops)[:2]
    cols = [c for c in allc if c != lastc][:B - 1] + [lastc]
    while len(cols) < B:
        cols.insert(0, rng.choice(allc))
    hist = cols_to_hist(cols)
    ix1 = [rng.randint(1, T) for _ in range(B - 1)] + [0]        # the minimum (it decides the padding) only in the last entry
    ix2 = [rng.randint(0, T - 1) for _ in range(B - 1)] + [T]    # the maximum only in the last entry
    ix3 = [(-1 - (b % (T + 1))) for b in range(B)]               # negative spellings
    # all positions on the last two rows only (the (T + 1, B, V) answer of the whole history would be most of the Coq
    # term; the relations on the implementation compare it with every chunk size, chunk_size=3 being ONE pass over
    # 3 * B columns), the per-element / scalar indices on the whole history
    case["queries"] = [dict(hist=hist[-2:], B=B, idx=None, layout=rng.choice([None, "cols", "transposed"])),
                       dict(hist=hist, B=B, idx=ix1, idx_form=rng.choice(["i64", "i32"])),
                       dict(hist=hist, B=B, idx=ix2, layout=rng.choice([None, "colstep", "offset"])),
                       dict(hist=hist, B=B, idx=ix3 if B % 2 else T - 1, idx_form=rng.choice(["int", "t0", "t1"]) if B % 2 == 0 else "i64")]
    return case


def size_time_table(rng, T):
    """extent = history length: all T + 1 positions, scalar indices at both ends and inside, per-element indices that
    pick windows at the very end / start of a long history (the mask over arange(T) in the per-element branch)"""
    V, N = rng.choice([2, 3]), rng.choice([2, 3, 3, 4])
    sos = rng.choice([0, V, -1])
    toks = toks_of(V, sos) + [sos]
    dicts = small_dense_table(rng, V, sos, N, dens=0.7 if N < 4 else 0.4)
    case = dict(kind="lm", V=V, sos=sos, dicts=dicts, opt=0, detour=rng.random() < 0.5)
    tops = [e[0] for e in dicts[-1] if e[1] != NEG] or [dicts[-1][0][0]]
    cols = [[rng.choice(toks) for _ in range(T - N + 1)] + rng.choice(tops)[:N - 1] for _ in range(3)]
    h1 = cols_to_hist(cols[:1])
    h3 = cols_to_hist(cols)
    case["queries"] = [dict(hist=h1, B=1, idx=None),
                       dict(hist=h3, B=3, idx=T), dict(hist=h3, B=3, idx=-2, idx_form="t0"),
                       dict(hist=h3, B=3, idx=rng.choice([15, 16, 17, T // 2]), idx_form=rng.choice(["int", "t1"])),
                       dict(hist=h3, B=3, idx=[T, 0, T - 1], idx_form=rng.choice(["i64", "i32"])),
                       dict(hist=h3, B=3, idx=[T, T - 1, T], layout=rng.choice([None, "transposed", "rowstep"])),
                       dict(hist=h3, B=3, idx=[16, T - 16, -1])]
    return case


def size_chunk_table(rng, c):
    """extent = chunk_size of calc_full_log_probs_chunked (T_rest * B columns per pass): the number of positions
    after the prefix loop is c (one exactly full chunk), c + 1 (a last chunk of ONE position), 2c - 1 or 2c"""
    V, N = 2, rng.choice([2, 3])
    sos = rng.choice([0, V, -1])
    toks = toks_of(V, sos) + [sos]
    big = c > 200
    B = 1 if big else rng.choice([1, 1, 2])
    case = dict(kind="lm", V=V, sos=sos, dicts=small_dense_table(rng, V, sos, N), opt=0, detour=False)
    qs = []
    for L in ((c + 1, 2 * c) if big else (c, c + 1, rng.choice([2 * c - 1, 2 * c]))):
        T = L - 1 + (N - 1)          # positions N-1 .. T are done in chunks: T + 1 - (N - 1) = L of them
        qs.append(dict(hist=[[rng.choice(toks) for _ in range(B)] for _ in range(T)], B=B, idx=None, chunk=c,
                       call=rng.choice(["kw", "pos"])))
    case["queries"] = qs
    return case


def size_order_table(rng, N):
    """extent = the window of N - 1 history tokens (rows of the padded / sliced / mask-selected history): a chain table
    of high order over two tokens, histories shorter and longer than the window"""
    V, sos = 2, rng.choice([0, 2])
    toks = toks_of(V, sos)
    chain = [rng.choice(toks) for _ in range(N)]
    dicts = [[[[t], dval(t), dbo(t)] for t in toks]]
    for n in range(2, N + 1):
        ents = [[chain[N - n:], dval(10 * n), 0 if n == N else dbo(n)]]
        alt = [toks[(toks.index(chain[N - n]) + 1) % len(toks)]] + chain[N - n + 1:]
        if rng.random() < 0.5:
            ents.append([alt, dval(10 * n + 1), 0 if n == N else dbo(n + 1)])
        dicts.append(ents)
    case = dict(kind="lm", V=V, sos=sos, dicts=dicts, opt=0, detour=False)
    c1 = [rng.choice(toks) for _ in range(3)] + chain[:-1]
    c2 = [rng.choice(toks) for _ in range(4)] + chain[1:-1]
    case["queries"] = [dict(hist=cols_to_hist([c1, c2]), B=2, idx=len(c1)),
                       dict(hist=cols_to_hist([c1, c2]), B=2, idx=[len(c1), len(c1) - 1]),
                       dict(hist=cols_to_hist([chain[:-1]]), B=1, idx=None, chunk=3),
                       dict(hist=cols_to_hist([chain[N // 2:-1], chain[N // 2:-1]]), B=2, idx=[N - 1 - N // 2, 1])]
    return case


def size_cases(rng, tier):
    """quick, per extent: 17 (first size an unstable sort / topk permutes), 33, 64 (a full block), 129 (first index an
    int8 cannot hold) always, one of 256 / 257 (uint8) and - for the cheap extents - one of the other sizes next to
    32 / 64 / 128 in turn with the seed; thorough: every size of SIZES and SIZES_BIG for every extent, twice"""
    out = []
    thorough = tier == "thorough"
    gens = [("batch", size_batch_table, 1), ("time", size_time_table, 1), ("chunk", size_chunk_table, 1),
            ("ngrams", lambda r, s: size_ngrams_table(r, s, r.choice([2, 3])), 0), ("vocab", size_vocab_table, 0),
            ("children", lambda r, s: size_children_table(r, s, deep=r.random() < 0.4), 0)]
    for rep in range(2 if thorough else 1):
        for name, gen, extra in gens:
            sizes = SIZES + SIZES_BIG if thorough else \
                [17, 33, 64, 129] + rng.sample([31, 32, 63, 65, 127, 128], extra) + [rng.choice([256, 257])]
            for s in sizes:
                out.append((gen(rng, s), "size:" + name))
        for s in ([129, 256, 257, 258, 300] if thorough else [rng.choice([257, 258, 259])]):
            out.append((size_vocab_table(rng, s, N=1), "size:vocab"))
        for n in ([9, 17, 33] if thorough else [17]):
            out.append((size_order_table(rng, n), "size:order"))
    return out


# ----------------------------------------------------------------------------------------
# Coq terms
# ----------------------------------------------------------------------------------------

def c_idx(idx):
    if idx is None:
        return "None"
    if isinstance(idx, list):
        return f"(Some (Vec {clz(idx)}))"
    return f"(Some (Scalar {cz(idx)}))"


def model_query_term(q, out):
    """model (evaluated on the implementation's buffers b, shape sh) = implementation"""
    if not isinstance(out, str) and not representable(out):
        return "false"
    h, B = c_hist(q["hist"]), cn(q["B"])
    if q.get("chunk") is not None:
        if q["chunk"] < 0:
            return "true"
        impl = "None" if isinstance(out, str) else "(Some " + cl([c_rows(m) for m in out]) + ")"
        return f"omats_eqb (chunked b sh {h} {B} {cn(q['chunk'])}) {impl}"
    if isinstance(out, str):
        impl = "None"
    elif q["idx"] is None:
        impl = "(Some (Full " + cl([c_rows(m) for m in out]) + "))"
    else:
        impl = "(Some (AtIdx " + c_rows(out) + "))"
    return f"out_eqb (forward b sh {h} {B} {c_idx(q['idx'])}) {impl}"


def query_valid(q):
    T, B = len(q["hist"]), q["B"]
    if q.get("chunk") is not None:
        return q["chunk"] >= 1
    idx = q["idx"]
    if idx is None:
        return True
    if isinstance(idx, list):
        return (len(idx) == B or len(idx) == 1) and all(-T - 1 <= i <= T for i in idx)
    return -T - 1 <= idx <= T


def spec_query_term(case, q, out):
    """implementation = the recursion on the table (Spec.katz), for a valid query"""
    if isinstance(out, str) or not representable(out):
        return "false"
    N, T, B = len(case["dicts"]), len(q["hist"]), q["B"]
    args = f"t {cn(N)} {cz(case['V'])} {cz(case['sos'])} {c_hist(q['hist'])} {cn(B)}"
    if q.get("chunk") is not None or q["idx"] is None:
        return f"mats_eqb {cl([c_rows(m) for m in out])} (spec_full {args})"
    idx = q["idx"]
    idxs = [i % (T + 1) for i in idx] if isinstance(idx, list) else [idx % (T + 1)] * B
    if len(idxs) == 1:
        idxs = idxs * B
    return f"rows_eqb {c_rows(out)} (spec_at {args} {cl([cn(i) for i in idxs])})"


def prelude(case, b):
    return f"let b := {c_bufs(b)} in let sh := {c_shape(case, b)} in let t := {c_tab(case)} in "


def table_terms(case, res):
    """res = run_table(case).  Three bundled booleans: validator+build+infer / model / spec."""
    if res["build"] != "ok":
        return [f"(check_build {cz(case['V'])} {cz(case['sos'])} {c_dicts(case['dicts'])} None)", "true", "false"]
    b = res["bufs"]
    try:
        pre = prelude(case, b)
    except ValueError:
        return ["false", "false", "false"]
    impl_build = f"(Some ({c_bufs(b)}, ({cn(b['N'])}, {cz(b['G'])}, {cz(b['S'])}), ({cn(b['ow'])}, {cn(b['iw'])})))"
    inf = res["inferred"]
    impl_inf = "None" if inf is None else f"(Some ({cn(inf[0])}, {cz(inf[1])}, {cz(inf[2])}))"
    # the validator re-enumerates all reachable nodes (V roots x max_direct_descendants candidates each) once per table
    # entry: minutes for the size-threshold tables with one very wide node.  There (only there: no other stream comes
    # near the bound) the buffers are tied to the table by check_build alone (= the model of _build_trie, whose output
    # is PROVED TrieOK for every well-formed table: c06_build_trie_ok)
    ntab = sum(len(d) for d in case["dicts"])
    validator = "trie_okb b sh (tmap sh t) && " if (case["V"] + 1) * b["S"] * ntab <= 250000 else ""
    t1 = ("(" + pre + validator + "tab_okb (vocab sh) (sos sh) t"
          f" && check_build {cz(case['V'])} {cz(case['sos'])} {c_dicts(case['dicts'])} {impl_build}"
          f" && check_infer {cz(case['V'])} {cz(case['sos'])} b {impl_inf})")
    t2 = "(" + pre + " && ".join(["true"] + [model_query_term(q, o) for q, o in zip(case["queries"], res["outs"])]) + ")"
    t3 = "(" + pre + " && ".join(["true"] + [spec_query_term(case, q, o) for q, o in zip(case["queries"], res["outs"])
                                             if query_valid(q)]) + ")"
    return [t1, t2, t3]


def run_table(case, meta=True):
    """build, reload, query"""
    res = dict(build="ok", outs=[], meta=[], inferred=None)
    try:
        lm = build(case)
    except Exception as e:  # noqa: BLE001
        res["build"] = "exc:" + exc_kind(e) + ": " + str(e)[:200]
        return res
    res["bufs"] = bufs_of(lm)
    lm2 = None
    try:
        lm2 = reload(case, lm, through_file=(len(case["dicts"]) + case["V"]) % 2 == 0)
        res["inferred"] = [int(lm2.max_ngram), int(lm2.max_ngram_nodes), int(lm2.max_direct_descendants)]
        b2 = bufs_of(lm2)
        if any(b2[k] != res["bufs"][k] for k in ("offsets", "ids", "logps", "logbs")):
            res["meta"].append(("buffers changed by save/load", None))
    except Exception as e:  # noqa: BLE001
        res["meta"].append(("load_state_dict raised " + exc_kind(e) + ": " + str(e)[:200], None))
    res["outs"] = [run_query(lm, q) for q in case["queries"]]
    for q, o in zip(case["queries"], res["outs"]):
        if query_valid(q) and isinstance(o, str):
            res["meta"].append(("valid query raised " + o, q))
    if lm2 is not None and case.get("detour", (len(case["dicts"]) + len(case["dicts"][-1])) % 2 == 1):
        # the reloaded instance that has held other tables before (see reload) answers every query alike
        for q, o in zip(case["queries"], res["outs"]):
            o2 = run_query(lm2, q)
            if o2 != o and not (isinstance(o2, str) and isinstance(o, str)):
                res["meta"].append(("the reloaded model answers a query differently", q))
    if case.get("script"):
        # the module under torch.jit.script (the library documents and tests this entry point): same answers, query by
        # query (keyword-only spellings are called positionally: a scripted forward takes (hist, prev, idx))
        try:
            slm = torch.jit.script(lm2 if (lm2 is not None and case.get("script") == "reloaded") else lm)
            for q, o in zip(case["queries"], res["outs"]):
                q2 = dict(q, call={"kw": "pos", "default": "pos"}.get(q.get("call", "kw"), q.get("call")))
                if q.get("chunk") is not None:
                    q2["call"] = "pos"
                so = run_query(slm, q2)
                if so != o and not (isinstance(so, str) and isinstance(o, str)):
                    res["meta"].append(("the scripted module answers differently from the eager one: %r" % (so if isinstance(so, str) else "values differ"), q))
        except Exception as e:  # noqa: BLE001
            res["meta"].append(("torch.jit.script(module) raised " + exc_kind(e) + ": " + str(e)[:200], None))
    if meta:
        res["meta"] += metamorphic(case, lm, lm2)
    return res


# ----------------------------------------------------------------------------------------
# judging
# ----------------------------------------------------------------------------------------

def all_histories_queries(case, maxlen):
    toks = sorted(set(toks_of(case["V"], case["sos"]) + [case["sos"]]))
    qs = []
    for T in range(maxlen + 1):
        cols = list(itertools.product(toks, repeat=T))[:400]
        qs.append(dict(hist=[[c[t] for c in cols] for t in range(T)], B=len(cols), idx=None))
    return qs


def judge_table(chk, case, res, flags):
    """flags = the three bundled booleans.  Returns (record, concrete?)"""
    rec = {"case": case, "impl": {k: res.get(k) for k in ("build", "bufs", "inferred", "outs")},
           "bundles": dict(zip(["buffers(validator,build model,infer model)", "model=impl", "impl=katz"], flags)),
           "metamorphic": res["meta"][:5],
           "correspondence": "corr:C06:LookupLanguageModel(__call__, calc_full_log_probs_chunked, load_state_dict)",
           "theorems_at_stake": THEOREMS}
    if res["build"] != "ok":
        rec["what"] = "constructor raised on a valid table: " + res["build"]
        return rec, True
    if res["meta"]:
        rec["what"] = "implementation breaks a relation the property states: " + str(res["meta"][0][0])
        return rec, True
    if not flags[2]:
        # locate the query
        pre = prelude(case, res["bufs"])
        qs = [(q, o) for q, o in zip(case["queries"], res["outs"]) if query_valid(q)]
        sub = coq_eval_bools(chk.workdir, IMPORTS, ["(" + pre + spec_query_term(case, q, o) + ")" for q, o in qs], tag="loc")
        for (q, o), ok in zip(qs, sub):
            if not ok:
                rec["failing_query"], rec["impl_output"] = q, o
                N = len(case["dicts"])
                rec["katz"] = coq_eval_print(
                    chk.workdir, IMPORTS,
                    f"spec_full {c_tab(case)} {cn(N)} {cz(case['V'])} {cz(case['sos'])} {c_hist(q['hist'])} {cn(q['B'])}")
                break
        rec["what"] = "next-token log-probabilities differ from the back-off recursion on the table"
        return rec, True
    rec["what"] = ("the implementation's buffers / shape constants / outputs no longer match the model "
                   "(or the validator rejects the buffers) but every explored output equals the recursion")
    return rec, False


def lm_shrink_candidates(case):
    # fewer queries, then fewer entries, then shorter histories
    qs = case["queries"]
    if len(qs) > 1:
        for i in range(len(qs)):
            yield dict(case, queries=qs[:i] + qs[i + 1:])
    for n, d in enumerate(case["dicts"]):
        for i in range(len(d)):
            if n == len(case["dicts"]) - 1 and len(d) == 1:
                continue
            nd = [list(x) for x in case["dicts"]]
            nd[n] = d[:i] + d[i + 1:]
            yield dict(case, dicts=nd)
    for qi, q in enumerate(qs):
        if q["hist"] and q["idx"] is None and q.get("chunk") is None:
            nq = dict(q, hist=q["hist"][:-1])
            yield dict(case, queries=qs[:qi] + [nq] + qs[qi + 1:])
        if q["B"] > 1 and q["idx"] is None:
            h = q["B"] // 2
            for lo, hi in ((0, h), (h, q["B"]), (0, q["B"] - 1)):
                nq = dict(q, hist=[r[lo:hi] for r in q["hist"]], B=hi - lo)
                yield dict(case, queries=qs[:qi] + [nq] + qs[qi + 1:])


def evaluate(chk, case, meta=True, tag="ev"):
    res = run_table(case, meta=meta)
    flags = coq_eval_bools(chk.workdir, IMPORTS, table_terms(case, res), tag=tag)
    return res, flags


def is_concrete(res, flags):
    """a failing input against the property itself (not merely against the model)"""
    return res["build"] != "ok" or bool(res["meta"]) or not flags[2]


def lm_fails(chk, case, concrete_only):
    res, flags = evaluate(chk, case, tag="shr")
    if concrete_only:
        return is_concrete(res, flags)
    return is_concrete(res, flags) or not all(flags)


def deepen(chk, case):
    """no explored output is wrong: query ALL short histories before giving up"""
    deep = dict(case, queries=all_histories_queries(case, min(len(case["dicts"]) + 1, 4)))
    res, flags = evaluate(chk, deep, meta=False, tag="deep")
    return deep if is_concrete(res, flags) else None


# ----------------------------------------------------------------------------------------
# ARPA
# ----------------------------------------------------------------------------------------

COUNT_RE = re.compile(r"^ngram\s+(\d+)\s*=\s*(\d+)$")
HEADER_RE = re.compile(r"^\\(\d+)-grams:$")
ENTRY_RE = re.compile(r"^(-?\d+(?:\.\d+)?(?:[Ee]-?\d+)?)\s+(.*)$")
WORDS = ["a", "b", "c", "<s>", "</s>", "7", "x1", "-2", "0.5", "d'"]


def fmt_num(rng, k):
    """a decimal string for k/8 that the reader's entry pattern accepts"""
    x = k / 8.0
    r = rng.random()
    if k % 8 == 0 and r < 0.4:
        return str(k // 8)
    if r < 0.75:
        return ("%.3f" % x)
    if r < 0.9:
        return ("%.6f" % x)
    return "%de-3" % (k * 125)


def gen_arpa(rng, malformed=False):
    nw = rng.randint(1, 5)
    words = rng.sample(WORDS, nw)
    N = rng.randint(1, 3)
    dicts = []
    for n in range(1, N + 1):
        allk = list(itertools.product(range(nw), repeat=n))
        rng.shuffle(allk)
        ks = allk[:rng.randint(0 if n < N else 1, min(len(allk), 6))]
        dicts.append([[list(k), -rng.randint(0, 60), 0 if n == N else rng.choice([0, 0, -rng.randint(1, 20), rng.randint(1, 4)])]
                      for k in ks])
    lines = []
    for _ in range(rng.randint(0, 2)):
        lines.append(rng.choice(["", "some header text", "ngram 1=3", "-1.0 a"]))
    lines.append(rng.choice(["\\data\\", "  \\data\\  "]))
    order = list(range(1, N + 1))
    for n in order:
        lines.append(rng.choice(["ngram %d=%d", "ngram  %d = %d", "ngram %d =%d"]) % (n, len(dicts[n - 1])))
        if rng.random() < 0.2:
            lines.append("")
    lines.append("")
    sec_order = order[:]
    if rng.random() < 0.15:
        rng.shuffle(sec_order)
    for n in sec_order:
        lines.append("\\%d-grams:" % n)
        for k, p, b in dicts[n - 1]:
            parts = [fmt_num(rng, p)] + [words[t] for t in k]
            if n < N and (b != 0 or rng.random() < 0.5):
                parts.append(fmt_num(rng, b))
            sep = rng.choice([" ", "\t", "  "])
            lines.append(rng.choice(["", " "]) + sep.join(parts) + rng.choice(["", " "]))
            if rng.random() < 0.1:
                lines.append("")
        lines.append("")
    lines.append("\\end\\")
    if rng.random() < 0.2:
        lines.append("trailing text")
    if malformed:
        kind = rng.choice(["no_end", "bad_count", "extra_tok", "no_data", "unknown_order", "junk_line", "dup_entry",
                           "unknown_word", "final_backoff"])
        body = [i for i, l in enumerate(lines) if ENTRY_RE.match(l.strip())]
        if kind == "no_end":
            lines = [l for l in lines if l.strip() != "\\end\\"]
        elif kind == "bad_count":
            i = next(i for i, l in enumerate(lines) if COUNT_RE.match(l.strip()))
            m = COUNT_RE.match(lines[i].strip())
            lines[i] = "ngram %s=%d" % (m.group(1), int(m.group(2)) + 1)
        elif kind == "extra_tok" and body:
            i = rng.choice(body)
            lines[i] = lines[i] + " zz qq"
        elif kind == "no_data":
            lines = [l for l in lines if l.strip() != "\\data\\"]
        elif kind == "unknown_order":
            i = next(i for i, l in enumerate(lines) if l.strip() == "\\end\\")
            lines[i:i] = ["\\%d-grams:" % (N + 1), "-1.0 " + " ".join([words[0]] * (N + 1)), ""]
        elif kind == "junk_line" and body:
            lines.insert(rng.choice(body), "this is not an entry")
        elif kind == "dup_entry" and body:
            i = rng.choice(body)
            lines.insert(i + 1, lines[i])
        elif kind == "unknown_word" and body:
            i = rng.choice(body)
            lines[i] = lines[i].replace(words[0], "UNKNOWNWORD", 1)
        elif kind == "final_backoff":
            # a highest-order entry followed by a number: must be rejected (too many tokens)
            hi = [i for i in body if len(lines[i].split()) == N + 1]
            if hi:
                lines[hi[-1]] = lines[hi[-1]] + " -0.5"
    return dict(kind="arpa", words=words, text="\n".join(lines) + "\n", base_e=rng.choice([False, False, True, True, None]),
                with_ids=rng.random() < 0.8, from_path=rng.random() < 0.25, logger=rng.random() < 0.2)


def classify(line, word2id, strict=True):
    """strict = a token2id map is passed to the reader (an unknown word is a KeyError)"""
    s = line.strip()
    if not s:
        return "LBlank"
    if s == "\\data\\":
        return "LData"
    if s == "\\end\\":
        return "LEnd"
    m = COUNT_RE.match(s)
    if m:
        n, c = int(m.group(1)), int(m.group(2))
        return f"(LCount {cn(n)} {cn(c)})" if n < 4000 and c < 4000 else None
    m = HEADER_RE.match(s)
    if m:
        return f"(LHeader {cn(int(m.group(1)))})" if int(m.group(1)) < 4000 else None
    m = ENTRY_RE.match(s)
    if m:
        p = enc(float(m.group(1)))
        if not isinstance(p, int):
            return None
        fs = []
        for tok in m.group(2).strip().split():
            i = word2id.get(tok) if strict else word2id.get(tok, -1)
            try:
                f = enc(float(tok))
                if not isinstance(f, int):
                    return None  # a field whose float value is off the grid cannot be modelled
                fv = f"(Some {cz(f)})"
            except ValueError:
                fv = "None"
            fs.append(f"(Field {'None' if i is None else '(Some ' + cz(i) + ')'} {fv})")
        return f"(LEntry {cz(p)} {cl(fs)})"
    return "LOther"


def run_arpa(chk, case):
    """canonical implementation output: list of dicts [[key ids], p*8, b*8] or 'exc:kind'"""
    from pydrobert.torch.data import parse_arpa_lm
    words = case["words"]
    w2i = {w: i for i, w in enumerate(words)}
    norm = math.log10(math.e) if case["base_e"] else 1.0

    def back(v):
        v = float(v)
        if not case["base_e"]:
            return enc(v)
        k = round(v * norm * 8)
        return k if (k / 8.0) / norm == v else "offgrid"  # the same IEEE division on the exact operand

    try:
        if case["from_path"]:
            path = os.path.join(str(chk.workdir), "lm_%d.arpa" % (abs(hash(case["text"])) % 10 ** 8))
            with open(path, "w") as f:
                f.write(case["text"])
            src = path
        else:
            src = io.StringIO(case["text"])
        kw = dict()
        if case.get("logger"):
            import logging
            lg = logging.getLogger("verif.c06")
            lg.addHandler(logging.NullHandler())
            lg.propagate = False
            kw["logger"] = lg
        pd = parse_arpa_lm(src, token2id=w2i if case["with_ids"] else None, to_base_e=case["base_e"], **kw)
    except Exception as e:  # noqa: BLE001
        return "exc:" + exc_kind(e)
    out = []
    N = len(pd)
    for n, d in enumerate(pd, 1):
        ents = []
        for key, val in d.items():
            key = (key,) if n == 1 else tuple(key)
            if not case["with_ids"]:
                key = tuple(w2i.get(w, -1) for w in key)
            p, b = (val, 0.0) if n == N else val
            ents.append([[int(x) for x in key], back(p), back(b)])
        out.append(ents)
    return out


def arpa_term(case, out):
    w2i = {w: i for i, w in enumerate(case["words"])}
    ls = [classify(l, w2i, case["with_ids"]) for l in case["text"].splitlines()]
    if any(x is None for x in ls):
        return None
    if isinstance(out, str):
        impl = "None"
    else:
        if not representable(out):
            return "false"
        impl = "(Some " + c_dicts(out) + ")"
    return f"(check_arpa {cl(ls)} {impl})"


# ----------------------------------------------------------------------------------------
# the very large table (offsets beyond int16): implementation vs the Python reference only
# ----------------------------------------------------------------------------------------

def py_bigram_lookup(b, U, z, w):
    """read P(w | z) out of the ACTUAL buffers the way the forward pass navigates them (order 2): the children of
    unigram node w occupy [w + offsets[w], w + 1 + offsets[w + 1]); ids / logps of level 2 are shifted by U"""
    lo, hi = w + b["offsets"][w], w + 1 + b["offsets"][w + 1]
    hits = [pos for pos in range(lo, hi) if b["ids"][pos - U] == z]
    return (hi - lo, [b["logps"][pos] for pos in hits])


def int16_boundary_check(chk, V, nbig, sos):
    """offsets dtype at the int16 limit, implementation side only (the table is far too wide to query: the forward pass
    allocates B*V*max_direct_descendants cells): V unigrams (+1 if sos is outside) and nbig bigrams (w, 0), all children
    of unigram node 0, so the largest offset written is S + nbig in {32766, 32767, 32768}.  The constructor must not
    raise, no offset may have wrapped, every listed bigram must be found at its place with its value, the other
    unigrams must have no children, and save/load must reproduce buffers and shape."""
    case = dict(kind="lm", V=V, sos=sos, dicts=[[[[0], -8, -4]], [[[w, 0], val_of_key((w % 97, 0)), 0] for w in range(nbig)]], detour=False)
    rec = {"case": dict(kind="int16-boundary", V=V, nbig=nbig, sos=sos)}
    S = V + (0 if 0 <= sos < V else 1)
    chk.note_case(rec["case"], True, "int16-boundary")
    try:
        lm = build(case)
        b = bufs_of(lm)
        U = S + 1
        why = None
        if min(b["offsets"]) < 0 or max(b["offsets"]) != S + nbig:
            why = "offsets wrapped or misplaced: min %d, max %d, expected max %d" % (min(b["offsets"]), max(b["offsets"]), S + nbig)
        elif (b["N"], b["G"], b["S"]) != (2, nbig, nbig):
            why = "shape constants %r, expected (2, %d, %d)" % ((b["N"], b["G"], b["S"]), nbig, nbig)
        else:
            n0, _ = py_bigram_lookup(b, U, 0, 0)
            if n0 != nbig:
                why = "unigram 0 has %d children in the buffers, %d listed" % (n0, nbig)
            for w in list(range(0, nbig, 997)) + [nbig - 1, nbig - 2]:
                _, got = py_bigram_lookup(b, U, w, 0)
                if got != [val_of_key((w % 97, 0))]:
                    why = "bigram (%d, 0): buffers hold %r, table says %r" % (w, got, val_of_key((w % 97, 0)))
            for w in (1, 2, S // 2, S - 1):
                if py_bigram_lookup(b, U, 0, w)[0] != 0:
                    why = "childless unigram %d has children in the buffers" % w
        if why is None:
            lm2 = reload(case, lm, False)
            b2 = bufs_of(lm2)
            if any(b2[k] != b[k] for k in ("offsets", "ids", "logps", "logbs", "N", "G", "S")):
                why = "save/load changed the buffers or the inferred shape"
        chk.count("int16-boundary:offsets_width=%d" % b["ow"])
        chk.extra.setdefault("int16_boundary", []).append(dict(V=V, bigrams=nbig, sos=sos, max_offset=max(b["offsets"]), offsets_width=b["ow"], ok=why is None))
    except Exception as e:  # noqa: BLE001
        why = "exception " + exc_kind(e) + ": " + str(e)[:200]
    if why is not None:
        rec["what"] = "table whose largest trie offset is %d (int16 limit 32767): %s" % (S + nbig, why)
        chk.report(rec)


def ids_boundary_check(chk, V, sos):
    """vocabulary at the int16 limit of the `ids` buffer (U = V + shift + 1 in {32766, 32767, 32768}: int16 up to
    32767, then int32), implementation side only (32k unigrams are too many for vm_compute; fan-out <= 4 so queries
    are cheap): a handful of bigrams around the LAST token and the start symbol, full rows compared with the Python
    recursion; the dtype of ids must be the narrowest that holds U (the model's int_width)."""
    last = V - 1
    d1 = [[[t], dval(t % 4001), dbo(t)] for t in range(V)]
    pairs = sorted({(last, last), (0, last), (last, 0), (sos, last), (last - 1, last), (last, last - 1), (255, 256), (32766 % V, 1)})
    d2 = [[list(p), dval(5000 + i), 0] for i, p in enumerate(pairs)]
    case = dict(kind="lm", V=V, sos=sos, dicts=[d1, d2], detour=False)
    tab = {tuple(k): (p, b) for d in case["dicts"] for k, p, b in d}
    U = V + (0 if 0 <= sos < V else 1) + 1
    rec = {"case": dict(kind="ids-boundary", V=V, sos=sos)}
    chk.note_case(rec["case"], True, "ids-boundary")
    why, only_dtype = None, False
    try:
        lm = build(case)
        cols = [[last], [0], [sos], [last - 1], [255], [1]]
        h = ht(cols_to_hist(cols), len(cols))
        full = lm(h)
        at1 = idx_result(lm(h, idx=torch.tensor([1, 0, 1, 1, 0, 1])))
        lm2 = reload(case, lm, False)
        if full.shape != (2, len(cols), V) or not torch.equal(lm2(h), full):
            why = "shape of the result / reloaded model differs"
        for bi, c in enumerate(cols):
            for i in ((0, 1) if bi == 0 else (1,)):
                ctx = py_context(2, sos, c[:i])
                row = full[i, bi].tolist()
                want = [py_katz(tab, ctx, v) for v in range(V)]
                got = [enc(x) for x in row]
                if got != want:
                    v = next(v for v in range(V) if got[v] != want[v])
                    why = "history %r token %d: got %r, recursion gives %r" % (ctx, v, got[v], want[v])
            if not torch.equal(at1[bi], full[[1, 0, 1, 1, 0, 1][bi], bi]):
                why = "per-element idx differs from the all-positions result (history %r)" % (c,)
        width = WIDTH.get(str(lm.ids.dtype), 9)
        chk.count("ids-boundary:ids_width=%d" % width)
        chk.extra.setdefault("ids_boundary", []).append(dict(V=V, sos=sos, U=U, ids_width=width, ok=why is None))
        if why is None and width != (0 if U <= 255 else 1 if U <= 32767 else 2):
            why, only_dtype = "ids dtype width %d for U = %d (narrowest type holding U expected)" % (width, U), True
    except Exception as e:  # noqa: BLE001
        why = "exception " + exc_kind(e) + ": " + str(e)[:200]
    if why is not None:
        rec["what"] = "vocabulary at the int16 limit of the ids buffer (U = %d): %s" % (U, why)
        chk.report(rec, no_failing_input=only_dtype)


def huge_table_check(chk, seed, nbig, packed=None):
    import random
    rng = random.Random(int(seed) * 1000003 + nbig)   # self-contained, so a replay rebuilds the same table
    V = 256
    ks = set()
    sos, nbig_arg = None, nbig
    if packed is not None:
        # the first `par` unigrams share all the children (each has some), the others have none, so the ACTUAL largest
        # offset is (S + 1) + nbig - par = `packed` (32767 / 32768: the limit of the final narrowing of the offsets
        # buffer) at a fan-out (<= 257) a query can afford
        sos, par = V, 128
        nbig = packed - (V + 2) + par
        allz = list(range(V)) + [sos]
        for w in range(par):
            for z in allz[:nbig // par + (1 if w < nbig % par else 0)]:
                ks.add((z, w))
    while len(ks) < nbig:
        ks.add((rng.randrange(V), rng.randrange(V)))
    if sos is None:
        sos = rng.choice([0, V])
    d2 = [[list(k), val_of_key(k), 0] for k in ks]
    d1 = [[[t], -(t % 37), -(t % 5)] for t in range(V)]
    case = dict(kind="lm", V=V, sos=sos, dicts=[d1, d2], queries=[], detour=False)
    tab = {tuple(k): (p, b) for d in case["dicts"] for k, p, b in d}
    try:
        lm = build(case)
    except Exception as e:  # noqa: BLE001
        chk.report({"case": dict(kind="huge", nbig=nbig_arg, V=V, sos=case["sos"], seed=seed, packed=packed), "what":
                    "constructor raised on a large valid table: " + exc_kind(e) + ": " + str(e)[:200]})
        return
    b = bufs_of(lm)
    chk.count("huge:offsets_width=%d" % b["ow"])
    chk.count("huge:ids_width=%d" % b["iw"])
    toks = list(range(V)) + [case["sos"]]
    pairs = [list(k) for k in list(ks)[:40]] + [[rng.choice(toks), rng.choice(toks)] for _ in range(40)]
    if packed is not None:  # contexts around the node that carries the largest offset
        pairs += [[z, w] for w in (0, 1, 126, 127, 128, 129, V - 1) for z in (0, 1, 100, 253, 254, 255, V)]
    hist = [[p[0] for p in pairs], [p[1] for p in pairs]]
    ok, why = True, ""
    try:
        full = lm(ht(hist, len(pairs)))
        lm2 = reload(case, lm, False)
        if not torch.equal(lm2(ht(hist, len(pairs))), full):
            ok, why = False, "reloaded model differs"
        for bi, p in enumerate(pairs):
            for i in range(3):
                ctx = py_context(2, case["sos"], [hist[t][bi] for t in range(i)])
                vs = rng.sample(range(V), 12) + ([p[1]] if 0 <= p[1] < V else [])
                for v in vs:
                    if enc(full[i, bi, v].item()) != py_katz(tab, ctx, v):
                        ok, why = False, "history %r token %d: got %r, recursion gives %r" % (
                            ctx, v, enc(full[i, bi, v].item()), py_katz(tab, ctx, v))
    except Exception as e:  # noqa: BLE001
        ok, why = False, "exception " + exc_kind(e) + ": " + str(e)[:200]
    if packed is not None and ok and max(b["offsets"]) != packed:
        chk.notes.append("C06 packed table: largest offset is %d, the generator aimed at %d" % (max(b["offsets"]), packed))
    chk.extra.setdefault("huge_tables", []).append(dict(bigrams=nbig, max_offset=max(b["offsets"]), offsets_width=b["ow"], ids_width=b["iw"],
                                   agrees_with_python_reference=ok,
                                   note="too large for vm_compute: checked against the harness's Python recursion only"))
    chk.note_case(dict(kind="huge", nbig=nbig, V=V, sos=case["sos"], packed=packed), True, "huge")
    if not ok:
        chk.report({"case": dict(kind="huge", nbig=nbig_arg, V=V, sos=case["sos"], seed=seed, packed=packed),
                    "what": "large table (offsets around / beyond int16): " + why})


# ----------------------------------------------------------------------------------------
# driver
# ----------------------------------------------------------------------------------------

def nontrivial(case):
    if case["kind"] == "arpa":
        return True
    # order >= 2 and some n-gram of order >= 2 whose suffix is not listed (closure happens) or -inf entry
    if len(case["dicts"]) < 2:
        return False
    return True


def gen_cases(chk):
    rng = chk.rng
    cases = []
    for c in exhaustive_tables(chk.tier):
        cases.append((c, "exhaustive" if chk.tier == "thorough" else "exhaustive-slice"))
    if chk.tier == "thorough":
        chk.extra["exhaustive"] = True
    chk.extra["exhaustive_scope"] = ("V=2, order 2, sos=0 (in vocabulary) and sos=2 (out): every subset of the "
                                     "unigrams and bigrams (non-empty bigram set), all histories of length <= 3; "
                                     "quick tier takes every 7th / 97th subset")
    for c in vlib.load_corpus("C06"):
        c = dict(c)
        c.pop("stream", None)
        cases.append((c, "corpus"))
    for nbig in (253, 254, 255, 256):
        cases.append((boundary_table(rng, nbig), "boundary"))
    # offsets dtype boundary (F33): S + T - 1 in {254, 255, 256} with few bigrams under one parent, and
    # 254..256 unigrams + 1 bigram; sos in and out of the vocabulary
    for V, nbig, sos in ((253, 2, 0), (254, 2, 0), (255, 2, 0), (254, 1, 0), (255, 1, 0), (256, 1, 0),
                         (253, 2, 253), (252, 3, -1), (254, 1, 254)):
        cases.append((dtype_boundary_table(V, nbig, sos), "boundary"))
    cases.append((deep_table(rng), "boundary"))
    for _ in range(150 if chk.tier == "thorough" else 24):
        cases.append((fanout_table(rng), "fanout"))
    nrand =2500 if chk.tier == "thorough" else 260
    for _ in range(nrand):
        cases.append((gen_table(rng), "random"))
    narpa = 1500 if chk.tier == "thorough" else 220
    for i in range(narpa):
        cases.append((gen_arpa(rng, malformed=(i % 3 == 2)), "arpa-malformed" if i % 3 == 2 else "arpa"))
    # size thresholds, one extent at a time (drawn last, so the streams above are what they were)
    for case, stream in size_cases(rng, chk.tier):
        dim = stream.split(":")[1]
        chk.count("size:%s=%s" % (dim, {"batch": lambda c: c["queries"][0]["B"], "time": lambda c: len(c["queries"][1]["hist"]),
                                        "chunk": lambda c: c["queries"][0]["chunk"], "vocab": lambda c: c["V"],
                                        "ngrams": lambda c: max(len(d) for d in c["dicts"][1:]),
                                        "children": lambda c: max(len(d) for d in c["dicts"][1:]) - (1 if len(c["dicts"]) == 3 else 2),
                                        "order": lambda c: len(c["dicts"])}[dim](case)))
        cases.append((case, stream))
    return cases


def run(chk, cases=None):
    chk.rule = (
        "lm case = (vocab size, sos, per-order tables with values k/8 or -inf, queries); the implementation builds the model, "
        "its ACTUAL buffers are (1) checked by the verified validator trie_okb against the table, (2) compared with the "
        "model of _build_trie, (3) fed to the model of load_state_dict's shape inference; every query (all positions / "
        "chunked / scalar idx / per-element idx / invalid idx) is compared bit-exactly with the model run on those buffers "
        "AND with Spec.katz on the table; chunk sizes, every idx, negative idx, per-element idx and save/load are also "
        "compared on the implementation itself; queries vary the entry point (keyword / positional / explicit prev / calc_* methods), the "
        "form of the index (int, 0-dim, 1-element, int32), the history's layout and dtype, and a slice of tables is also run under "
        "torch.jit.script; the history must be unchanged by the call; the reloaded instance (which may have held other tables) answers "
        "every query; int16 offsets limit: constructor + buffers + save/load only (too wide to query). arpa case = file text; parse_arpa_lm vs Model.parse_arpa on classified "
        "lines. non-trivial = order >= 2 (lm) or any arpa case")
    chk.assumptions += [
        "log-probabilities/back-offs are multiples of 1/8 (or -inf): float32 sums are exact, so IEEE rounding is not modelled",
        "history tokens are vocabulary ids or sos; table values are finite or -inf (no nan/+inf)",
        "ARPA: lines are classified by the harness with copies of the reader's three regular expressions and float(); "
        "base-e values are compared with the same IEEE division of the exact base-10 value by log10(e)",
        "the one table with offsets beyond int16 is too large for vm_compute and is compared with a Python recursion only",
    ]
    replaying = cases is not None
    cases = cases if replaying else gen_cases(chk)
    terms, owners = [], []
    results = []
    import time
    spent = chk.extra.setdefault("implementation_seconds_by_stream", {})
    for ci, (case, stream) in enumerate(cases):
        if case["kind"] == "lm":
            t_case = time.time()
            res = run_table(case)
            results.append(res)
            tt = table_terms(case, res)
            spent[stream] = round(spent.get(stream, 0) + time.time() - t_case, 2)
            terms += tt
            owners += [(ci, k) for k in range(3)]
            chk.note_case(case, nontrivial(case), stream)
            chk.count("order=%d" % len(case["dicts"]))
            chk.count("V=%d" % case["V"])
            chk.count("sos=" + ("in" if 0 <= case["sos"] < case["V"] else "out"))
            if res["build"] == "ok":
                chk.count("offsets_width=%d" % res["bufs"]["ow"])
                chk.count("ctor_option=%d" % case.get("opt", 0))
                nclosed = res["bufs"]["logps"].count(NEG)
                chk.count("nodes_with_-inf=" + ("0" if nclosed == 0 else "some"))
                for q, o in zip(case["queries"], res["outs"]):
                    kind = ("chunked" if q.get("chunk") is not None else "full" if q["idx"] is None
                            else "vec-idx" if isinstance(q["idx"], list) else "scalar-idx")
                    chk.count("query=" + kind + ("/raises" if isinstance(o, str) else ""))
            else:
                chk.count("build=raises")
        else:
            out = run_arpa(chk, case)
            results.append(out)
            t = arpa_term(case, out)
            if t is None:
                chk.count("arpa=unmodelled-line")
                continue
            terms.append(t)
            owners.append((ci, 0))
            chk.note_case(case, True, stream)
            chk.count("arpa=" + ("raises" if isinstance(out, str) else "ok") + ("/base-e" if case["base_e"] else "/base-10" if case["base_e"] is False else "/base-default"))
    # deal the terms over the shards by size: the boundary tables (V ~ 256) are adjacent in the case list and used to sit
    # in one or two shards that everything else waited for
    nsh = max(1, -(-len(terms) // 100))
    by_size = sorted(range(len(terms)), key=lambda i: -len(terms[i]))
    order = [i for j in range(nsh) for i in by_size[j::nsh]]
    pflags = coq_eval_bools(chk.workdir, IMPORTS, [terms[i] for i in order], shard=100)
    flags = [True] * len(terms)
    for i, ok in zip(order, pflags):
        flags[i] = ok
    by_case = {}
    for (ci, k), ok in zip(owners, flags):
        by_case.setdefault(ci, {})[k] = ok
    bad = [ci for ci, (case, _) in enumerate(cases)
           if (ci in by_case and not all(by_case[ci].values()))
           or (case["kind"] == "lm" and (results[ci]["meta"] or results[ci]["build"] != "ok"))]
    chk.extra["model_disagreements"] = len(bad)
    concrete, pending = 0, []
    for ci in bad[:8]:
        case, _ = cases[ci]
        if concrete >= 3:
            break
        if case["kind"] == "lm":
            res, fl3 = evaluate(chk, case, tag="judge")
            conc = is_concrete(res, fl3)
            if not conc and not replaying and len(pending) < 3:
                deep = deepen(chk, case)
                if deep is not None:
                    case, conc = deep, True
            if not replaying and (conc or not pending):
                case = shrink(case, lambda c, co=conc: lm_fails(chk, c, co), lm_shrink_candidates,
                              budget=16 if concrete + len(pending) == 0 else 6)
            res, fl3 = evaluate(chk, case, tag="judge2")
            rec, conc2 = judge_table(chk, case, res, fl3)
            if conc2:
                concrete += 1
                chk.report(rec)
            else:
                pending.append(rec)
        else:
            out = results[ci]
            w2i = {w: i for i, w in enumerate(case["words"])}
            ls = [classify(l, w2i, case["with_ids"]) for l in case["text"].splitlines()]
            rec = {"case": case, "impl": out,
                   "model": coq_eval_print(chk.workdir, IMPORTS, f"parse_arpa {cl(ls)}"),
                   "what": "parse_arpa_lm does not return exactly the listed entries (or accepts/rejects a file differently from the reader's documented behaviour)",
                   "correspondence": "corr:C06:parse_arpa_lm", "theorems_at_stake": ["c06_arpa_listed_entries"]}
            concrete += 1
            chk.report(rec)
    if pending and not concrete:
        chk.report(pending[0], no_failing_input=True)
    source_tie(chk, cases, results)
    from props import c06_tie    # second tie (unit C06BSrc): calc_full_log_probs_chunked / calc_full_log_probs
    c06_tie.source_tieB(chk, cases, results)
    if not replaying:
        huge_table_check(chk, chk.seed, chk.rng.choice([32765, 32766, 32767]))  # int16 / int32 boundary of the offsets
        huge_table_check(chk, chk.seed, 32800)                                  # well inside int32
        huge_table_check(chk, chk.seed, 0, packed=chk.rng.choice([32767, 32768]))  # largest ACTUAL offset at the int16 limit
        # S + T - 1 in {32766, 32767}; sos inside / outside the vocabulary alternate with the seed
        for V, nbig, sos in (((16384, 16383, 0), (16383, 16384, 16383)) if chk.seed % 2 else ((16383, 16383, 16383), (16384, 16384, 0))):
            int16_boundary_check(chk, V, nbig, sos)
        # U = V + shift + 1 in {32766, 32767, 32768}: ids int16 -> int32
        for V, sos in (((32766, 0), (32766, -1)) if chk.seed % 2 else ((32766, 32766), (32767, 0))):
            ids_boundary_check(chk, V, sos)


# ----------------------------------------------------------------------------------------
# source tie: the Python text of _lookup_calc_idx_log_probs / LookupLanguageModel.calc_idx_log_probs, translated to
# MiniPy (harness/py2coq) and interpreted in Coq (PV.C06.SrcRun.src_lookup_check; torch calls = PV.MiniTorch.OpsC06),
# against the implementation's output on the index queries of this run (small tables)
# ----------------------------------------------------------------------------------------
IMPORTS_SRC = IMPORTS + "From PV Require C06.SrcRun C06.TieSafe.\n"
SRC_THEOREMS = ["c06_source_lookup_is_tensor_program", "c06_source_safe_sound", "c06_source_lookup_is_model",
                "c06_source_method_is_model", "c06_source_lookup_refines_model", "c06_source_lookup_check_is_check",
                "c06_source_lookup_is_katz", "c06_source_built_lookup_is_katz_partial"]
SRC_MAX_V, SRC_MAX_NODES = 16, 400


def src_query_term(q, out):
    """SrcRun.src_lookup_check on the arguments of model_query_term (an index query)"""
    if isinstance(out, str):
        impl = "None"
    else:
        impl = "(Some (AtIdx " + c_rows(out) + "))"
    ix = f"(Vec {clz(q['idx'])})" if isinstance(q["idx"], list) else f"(Scalar {cz(q['idx'])})"
    return f"SrcRun.src_lookup_check b sh {c_hist(q['hist'])} {cn(q['B'])} {ix} {impl}"


def source_tie(chk, cases, results):
    """run the translated source inside Coq (vm_compute) on the index queries of this run's small tables, on the
    implementation's ACTUAL buffers: validates translator + MiniPy.Interp + ext06 + MiniTorch.OpsC06 against torch;
    independent of whether the tie lemmas still compile.  Also evaluates TieSafe.safe_okb (the in-range hypothesis of
    the c06_source_* theorems) on every such table's actual buffers."""
    import time
    from vlib import CoqError
    terms, owners, safe_terms, safe_owner = [], [], [], []
    for ci, ((case, _), res) in enumerate(zip(cases, results)):
        if case.get("kind") != "lm" or res.get("build") != "ok":
            continue
        b = res["bufs"]
        if case["V"] > SRC_MAX_V or len(b["logps"]) > SRC_MAX_NODES:
            continue
        try:
            pre = prelude(case, b)
        except ValueError:
            continue
        any_q = False
        for qi, (q, o) in enumerate(zip(case["queries"], res["outs"])):
            if q.get("chunk") is not None or q["idx"] is None:
                continue
            if not isinstance(o, str) and not representable(o):
                continue
            if o == "exc:history-modified-in-place":
                continue
            if len(q["hist"]) * q["B"] > 600:
                continue    # size-threshold stream: the interpreted source is run up to B ~ 64 / T ~ 200 (cost)
            terms.append("(" + pre + src_query_term(q, o) + ")")
            owners.append((ci, qi))
            any_q = True
        if any_q:
            safe_terms.append("(" + pre + "TieSafe.safe_okb b sh)")
            safe_owner.append(ci)
    if not terms:
        chk.extra["source_tie_run"] = {"cases": 0, "disagreements": 0}
        return
    t0 = time.time()
    try:
        flags = coq_eval_bools(chk.workdir, IMPORTS_SRC, terms + safe_terms, shard=60, tag="srclm")
    except CoqError as e:
        chk.extra["source_tie_run"] = "not evaluated: " + str(e)[-400:]
        return
    qflags, sflags = flags[:len(terms)], flags[len(terms):]
    bad = [owners[j] for j, ok in enumerate(qflags) if not ok]
    unsafe = [safe_owner[j] for j, ok in enumerate(sflags) if not ok]
    qs = [cases[ci][0]["queries"][qi] for ci, qi in owners]
    outs = [results[ci]["outs"][qi] for ci, qi in owners]
    chk.extra["source_tie_run"] = {
        "cases": len(terms), "disagreements": len(bad), "tables": len(safe_terms), "tables_not_safe_okb": len(unsafe),
        "wall_s": round(time.time() - t0, 1),
        "scalar_idx": sum(1 for q in qs if not isinstance(q["idx"], list)),
        "vector_idx": sum(1 for q in qs if isinstance(q["idx"], list) and len(q["idx"]) > 1),
        "one_element_vector": sum(1 for q in qs if isinstance(q["idx"], list) and len(q["idx"]) == 1),
        "raising": sum(1 for o in outs if isinstance(o, str)),
        "padded": sum(1 for (ci, qi), q, o in zip(owners, qs, outs) if not isinstance(o, str) and query_valid(q) and
                      min([i % (len(q["hist"]) + 1) for i in (q["idx"] if isinstance(q["idx"], list) else [q["idx"]])])
                      < len(cases[ci][0]["dicts"]) - 1),
        "order1": sum(1 for ci, _ in owners if len(cases[ci][0]["dicts"]) == 1),
        "sos_out_of_vocab": sum(1 for ci, _ in owners if not 0 <= cases[ci][0]["sos"] < cases[ci][0]["V"])}
    chk.count("source_tie_cases", len(terms))
    if bad:
        ci, qi = bad[0]
        chk.report({"case": dict(cases[ci][0], queries=[cases[ci][0]["queries"][qi]]), "impl": results[ci]["outs"][qi],
                    "what": "the Python source of _lookup_calc_idx_log_probs / calc_idx_log_probs as translated to MiniPy and "
                            "interpreted in Coq (PV.C06.SrcRun.src_lookup_check, torch calls = PV.MiniTorch.OpsC06) does not "
                            "reproduce the implementation's output on its actual buffers: translator / interpreter / ext06 / "
                            "MiniTorch no longer describe the code",
                    "disagreeing_cases": len(bad),
                    "correspondence": "tie:C06:py2coq+MiniPy.Interp+MiniTorch:_lookup_calc_idx_log_probs",
                    "theorems_at_stake": SRC_THEOREMS}, no_failing_input=True)
    elif unsafe:
        ci = unsafe[0]
        chk.report({"case": dict(cases[ci][0], queries=[]), "impl": results[ci]["bufs"],
                    "what": "the implementation's actual buffers fail TieSafe.safe_okb (every index the two-path descent "
                            "forms lies inside offsets / ids / logps / logbs): the hypothesis under which the interpreted "
                            "source is proved equal to the model no longer holds for built tries",
                    "tables": len(unsafe),
                    "correspondence": "tie:C06:safe_okb:_build_trie buffers",
                    "theorems_at_stake": SRC_THEOREMS}, no_failing_input=True)


def replay(chk, path):
    rec = json.loads(open(path).read())
    case = rec["case"]
    case.pop("stream", None)
    if case.get("kind") == "huge":
        huge_table_check(chk, case.get("seed", 0), case["nbig"], case.get("packed"))
        return
    if case.get("kind") == "int16-boundary":
        int16_boundary_check(chk, case["V"], case["nbig"], case["sos"])
        return
    if case.get("kind") == "ids-boundary":
        ids_boundary_check(chk, case["V"], case["sos"])
        return
    run(chk, [(case, "replay")])
