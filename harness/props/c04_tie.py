"""C04, second source tie: the translated blocks of BeamSearch.forward / _to_width / update_log_probs_for_step
(harness/py2coq unit C04BSrc), interpreted in Coq with the hand-written for/break glue of PV.C04.SrcRunB, against
(a) the implementation's output on the search cases of this run (SrcRunB.src_search_check, interface of
Model.check_search) and (b) the model's own search, exactly (SrcRunB.src_search_agrees: what the c04_source_search_*
theorems state).  Validates translator + MiniPy.Interp + extB + MiniTorch.OpsC04/OpsC04B + the LM oracle encoding against
torch; independent of whether the tie lemmas still compile."""
import time

IMPORTS_SRCB = "From PV Require Import C04.Model C04.Spec.\nFrom PV Require C04.SrcRunB.\n"
SRCB_THEOREMS = ["c04_source_to_width_is_tensor_program", "c04_source_to_width_is_model_full",
                 "c04_source_update_log_probs_is_identity", "c04_source_mask_on_is_tensor_program",
                 "c04_source_mask_off_is_tensor_program", "c04_source_rest_is_tensor_program",
                 "c04_source_iteration_is_tensor_program_partial", "c04_source_final_is_tensor_program",
                 "c04_source_mask_on_is_model", "c04_source_mask_marks_finished_paths", "c04_source_break_is_model_partial",
                 "c04_source_init_is_model", "c04_source_search_partial_nonvacuous"]
MAX_CASES = 360


def _terms(c04, case, res):
    """(near-tie or agrees with the implementation, agrees exactly with the model) for one search case"""
    from vlib import cb, cn, cz, clz
    den, tab = c04._scale(case)
    lm = c04._lm_term(case, tab)
    tolz, marginz = c04._tol_margin(case, den, tab, res.get("S"))
    ot = c04._out_term(res["out"], den)
    if ot is None:
        return None
    head = (f"lm {cn(case['V'])} {cn(case['width'])} {c04._eos(case)} {cb(case['fin_all'])} {cz(case['pad'])} "
            f"{cn(c04._fuel(case))}")
    flags = f"{cb(case['max_iters'] is None)} {cb(case['N'] is not None)}"
    inits = clz(case["inits"])
    tied = f"tied_search {head} {inits} {cz(marginz)}"
    chk = (f"SrcRunB.src_search_check {head} {flags} {inits} {cz(tolz)} {cb(c04._all_finite(case))} "
           f"({ot}, {cn(res['S'])})")
    agr = f"SrcRunB.src_search_agrees {head} {flags} {inits}"
    return (f"(let lm := {lm} in orb ({tied}) ({chk}))", f"(let lm := {lm} in {agr})")


def _gen_current():
    """is coq/theories/Gen/C04BSrc.v the translation of THIS run's source tree ?  (a concurrent check of C04 against another
    tree - try_patch / a seeded replay - rewrites the shared Gen file; the compiled unit then belongs to that tree)"""
    import sys
    import vlib
    sys.path.insert(0, str(vlib.VERIF / "harness" / "py2coq"))
    try:
        import translate as tr
    finally:
        sys.path.pop(0)
    try:
        text, _ = tr.translate_unit(str(vlib.REPO), "C04BSrc")
        return (vlib.COQ / "theories" / "Gen" / "C04BSrc.v").read_text() == text
    except Exception:  # noqa: BLE001
        return False


def source_tieB(chk, cases, results):
    from vlib import coq_eval_bools, CoqError
    from props import c04
    if not _gen_current():
        chk.extra["source_tieB_run"] = "not evaluated: Gen/C04BSrc.v was rewritten by a concurrent run against another tree"
        return
    idx = [i for i, r in enumerate(results) if isinstance(r, dict) and "out" in r and r.get("shape_ok")]
    empty = sum(1 for i in idx if not cases[i]["inits"])
    idx = [i for i in idx if cases[i]["inits"]]      # batch_size = 0: outside the tie (N >= 1, as for beam_search_advance)
    if len(idx) > MAX_CASES:     # spread evenly over the case list (every stream keeps its share)
        idx = [idx[(j * len(idx)) // MAX_CASES] for j in range(MAX_CASES)]
    terms, keep = [], []
    for i in idx:
        t = _terms(c04, cases[i], results[i])
        if t is not None:
            terms.extend(t)
            keep.append(i)
    if not keep:
        chk.extra["source_tieB_run"] = {"cases": 0, "disagreements": 0}
        return
    t0 = time.time()
    try:
        vals = coq_eval_bools(chk.workdir, IMPORTS_SRCB, terms, shard=24, tag="srcfw")
    except CoqError as e:
        chk.extra["source_tieB_run"] = "not evaluated: " + str(e)[-400:]
        return
    if not _gen_current():
        chk.extra["source_tieB_run"] = "not evaluated: Gen/C04BSrc.v was rewritten by a concurrent run against another tree"
        return
    bad = [i for j, i in enumerate(keep) if not vals[2 * j]]
    off = [i for j, i in enumerate(keep) if not vals[2 * j + 1]]
    chk.extra["source_tieB"] = ("unit C04BSrc (BeamSearch._to_width, update_log_probs_for_step, forward: prologue / t / "
                                "eos+done masks / rest of the loop body / epilogue) interpreted with SrcRunB.extB; glue "
                                "(for, break, the `if self.eos is not None and t` test) hand-written in SrcRunB")
    chk.extra["source_tieB_run"] = {
        "cases": len(keep), "disagreements": len(bad), "differs_from_model_exactly": len(off),
        "wall_s": round(time.time() - t0, 1), "skipped_empty_batch": empty,
        "unbatched": sum(1 for i in keep if cases[i]["N"] is None),
        "eos_set": sum(1 for i in keep if cases[i]["eos"] is not None),
        "max_iters_none": sum(1 for i in keep if cases[i]["max_iters"] is None),
        "steps>=2": sum(1 for i in keep if results[i]["S"] >= 2)}
    chk.count("source_tieB_cases", len(keep))
    for lst, what in ((bad, "does not reproduce the implementation's output (finite-score slots: valid prefix, length, "
                            "score within tolerance; positions of -inf slots; y.size(0))"),
                      (off, "does not compute exactly what PV.C04.Model.search computes (every cell, length, score, height)")):
        if lst:
            i = lst[0]
            chk.report({"case": cases[i], "impl": results[i],
                        "what": "the Python source of BeamSearch.forward as translated block by block to MiniPy and interpreted "
                                "in Coq (PV.C04.SrcRunB.src_search: torch calls = PV.MiniTorch.OpsC04/OpsC04B, topk = the model's "
                                "stable top-k, LM = the case's hash machine, for/break glue hand-written) " + what,
                        "disagreeing_cases": len(lst),
                        "correspondence": "tie:C04:py2coq+MiniPy.Interp+MiniTorch:BeamSearch.forward",
                        "theorems_at_stake": SRCB_THEOREMS}, no_failing_input=True)
            break
