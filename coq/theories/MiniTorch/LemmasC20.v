(* MiniTorch, unit C20 - algebra of the operations of OpsC20.v: decoding of encoded tensors, reading a
   materialised tensor, unsqueeze as an index map, each operation in r-coordinates.  No axioms. *)
From Coq Require Import List ZArith QArith Bool Arith Lia.
From PV Require Import MiniPy.Syntax MiniTorch.Ops MiniTorch.OpsC07 MiniTorch.LemmasC07 MiniTorch.OpsC20.
From PV Require Import C20.Model C20.Spec C20.Index C20.Broadcast.
Import ListNotations.
Local Open Scope nat_scope.

(* ---- decoding ------------------------------------------------------------------------------------ *)
Lemma dec_q_enc_q t : dec_q (enc_q t) = Some t.
Proof.
  destruct t as [s l]. unfold dec_q, dec_with, enc_q, enc_f, enc_shape. cbn.
  rewrite dec_nats_enc, map_map. rewrite (dec_list_map val_q (fun x => xq_val (Fin x))) by reflexivity. reflexivity.
Qed.

Lemma dec_x_enc_f t : dec_x (enc_f t) = Some t.
Proof.
  destruct t as [s l]. unfold dec_x, dec_with, enc_f, enc_shape. cbn.
  rewrite dec_nats_enc. rewrite (dec_list_map val_xq xq_val) by (intros [q|]; reflexivity). reflexivity.
Qed.

Lemma dec_x_enc_q t : dec_x (enc_q t) = Some (mkTn (shp t) (map Fin (dat t))).
Proof. unfold enc_q. apply dec_x_enc_f. Qed.

Lemma dec_b_enc_b t : dec_b (enc_b t) = Some t.
Proof.
  destruct t as [s l]. unfold dec_b, dec_with, enc_b, enc_shape. cbn.
  rewrite dec_nats_enc. rewrite (dec_list_map val_bool VBool) by reflexivity. reflexivity.
Qed.

Lemma dec_x_enc_b t : dec_x (enc_b t) = None.
Proof. reflexivity. Qed.

Lemma dec_q_VQ c : dec_q (VQ c) = None.
Proof. reflexivity. Qed.

(* ---- rd / mat ------------------------------------------------------------------------------------- *)
Lemma shp_mat {X} (T : tensor X) : shp (mat T) = rev (tshape T).
Proof. reflexivity. Qed.

Lemma rshp_mat {X} (T : tensor X) : rev (shp (mat T)) = tshape T.
Proof. cbn. apply rev_involutive. Qed.

Lemma rank_mat {X} (T : tensor X) : rank (mat T) = length (tshape T).
Proof. unfold rank. cbn. apply rev_length. Qed.

Lemma rd_mat {X} (d : X) (T : tensor X) : rd d (mat T) = memo d T.
Proof. unfold rd, mat, memo. cbn. rewrite rev_involutive. reflexivity. Qed.

Lemma tshape_rd {X} (d : X) (t : tn X) : tshape (rd d t) = rev (shp t).
Proof. reflexivity. Qed.

Lemma tat_rd_mat {X} (d : X) (T : tensor X) i : valid (tshape T) i -> tat (rd d (mat T)) i = tat T i.
Proof. intros H. rewrite rd_mat. apply memo_at, H. Qed.

Lemma bget_memo {X} (d : X) (T : tensor X) bs I :
  intob (tshape T) bs = true -> valid bs I -> bget (memo d T) I = bget T I.
Proof.
  intros Hi Hv. unfold bget. rewrite memo_shape. apply memo_at. apply (clamp_valid _ bs); assumption.
Qed.

Lemma bget_rd_mat {X} (d : X) (T : tensor X) bs I :
  intob (tshape T) bs = true -> valid bs I -> bget (rd d (mat T)) I = bget T I.
Proof. intros. rewrite rd_mat. apply (bget_memo d T bs); assumption. Qed.

Lemma mat_ext {X} s (f g : index -> X) :
  (forall i, valid s i -> f i = g i) -> mat (mkT s f) = mat (mkT s g).
Proof.
  intros H. unfold mat, to_flat. cbn [tshape tat]. f_equal.
  apply map_ext_in. intros i Hi. apply H, renum_valid, Hi.
Qed.

Lemma mat_memo {X} (d : X) (T : tensor X) : mat (memo d T) = mat (mkT (tshape T) (tat T)).
Proof.
  unfold memo at 1, of_flat. apply mat_ext. intros i Hv.
  change (tat (memo d T) i = tat T i). apply memo_at, Hv.
Qed.

Lemma mat_eta {X} (T : tensor X) : mat (mkT (tshape T) (tat T)) = mat T.
Proof. destruct T; reflexivity. Qed.

(* an element-wise map of a materialised tensor is the materialisation of the mapped index function *)
Lemma map_mat {X Y} (h : X -> Y) (T : tensor X) :
  mkTn (shp (mat T)) (map h (dat (mat T))) = mat (mkT (tshape T) (fun i => h (tat T i))).
Proof. unfold mat, to_flat. cbn. rewrite map_map. reflexivity. Qed.

(* ---- dimensions ----------------------------------------------------------------------------------- *)
Lemma rpos_some D d p : rpos D d = Some p -> exists k, wrap_dim D d = Some k /\ p = D - 1 - k /\ k < D.
Proof.
  unfold rpos. destruct (wrap_dim D d) as [k|] eqn:E; [|discriminate].
  intros H. injection H as <-. exists k. split; [reflexivity|split; [reflexivity|]].
  unfold wrap_dim in E.
  destruct ((- Z.of_nat D <=? d)%Z && (d <? Z.of_nat D)%Z) eqn:B; [|discriminate].
  injection E as <-. apply andb_true_iff in B. destruct B as [B1 B2].
  apply Z.leb_le in B1. apply Z.ltb_lt in B2.
  destruct (d <? 0)%Z eqn:N; [apply Z.ltb_lt in N|apply Z.ltb_ge in N]; lia.
Qed.

Lemma rpos_last D : 1 <= D -> rpos D (-1) = Some 0.
Proof.
  intros H. unfold rpos, wrap_dim.
  assert (B : ((- Z.of_nat D <=? -1)%Z && (-1 <? Z.of_nat D)%Z) = true).
  { apply andb_true_iff. split; [apply Z.leb_le|apply Z.ltb_lt]; lia. }
  rewrite B. cbn [option_map]. f_equal.
  replace (-1 <? 0)%Z with true by reflexivity. lia.
Qed.

(* the module's dim against a key of rank kr: the sequence axis is at r-position p *)
Lemma axis_pos_inv dim kr p : axis_pos dim kr = Some p ->
  1 <= p < kr /\ rpos kr dim = Some p /\ wrap_dim kr dim = Some (kr - 1 - p) /\
  rpos (kr - 1) (if (0 <=? dim)%Z then dim else (dim + 1)%Z) = Some (p - 1).
Proof.
  unfold axis_pos. set (ax := if (dim <? 0)%Z then (dim + Z.of_nat kr)%Z else dim).
  destruct ((1 - Z.of_nat kr <=? dim)%Z && (0 <=? ax)%Z && (ax <? Z.of_nat kr - 1)%Z) eqn:B; [|discriminate].
  intros H. injection H as <-.
  apply andb_true_iff in B. destruct B as [B B3]. apply andb_true_iff in B. destruct B as [B1 B2].
  apply Z.leb_le in B1, B2. apply Z.ltb_lt in B3.
  assert (Hw : wrap_dim kr dim = Some (Z.to_nat ax)).
  { unfold wrap_dim.
    assert (C : ((- Z.of_nat kr <=? dim)%Z && (dim <? Z.of_nat kr)%Z) = true).
    { apply andb_true_iff. split; [apply Z.leb_le|apply Z.ltb_lt]; subst ax;
        destruct (dim <? 0)%Z eqn:N; try apply Z.ltb_lt in N; try apply Z.ltb_ge in N; lia. }
    rewrite C. reflexivity. }
  split; [lia|]. split; [unfold rpos; rewrite Hw; reflexivity|].
  split; [rewrite Hw; f_equal; lia|].
  unfold rpos, wrap_dim. subst ax.
  destruct (0 <=? dim)%Z eqn:P.
  - apply Z.leb_le in P. assert (N : (dim <? 0)%Z = false) by (apply Z.ltb_ge; lia). rewrite N in *.
    assert (C : ((- Z.of_nat (kr - 1) <=? dim)%Z && (dim <? Z.of_nat (kr - 1))%Z) = true)
      by (apply andb_true_iff; split; [apply Z.leb_le|apply Z.ltb_lt]; lia).
    rewrite C. cbn [option_map]. f_equal. lia.
  - apply Z.leb_gt in P. assert (N : (dim <? 0)%Z = true) by (apply Z.ltb_lt; lia). rewrite N in *.
    assert (C : ((- Z.of_nat (kr - 1) <=? dim + 1)%Z && (dim + 1 <? Z.of_nat (kr - 1))%Z) = true)
      by (apply andb_true_iff; split; [apply Z.leb_le|apply Z.ltb_lt]; lia).
    rewrite C. cbn [option_map]. f_equal.
    assert (N1 : (dim + 1 <? 0)%Z = true) by (apply Z.ltb_lt; lia). rewrite N1. lia.
Qed.

(* ---- unsqueeze as an index map ---------------------------------------------------------------------- *)
(* the unsqueezed tensor in r-coordinates: a 1 inserted at r-position p, the data unchanged *)
Definition runsq {X} (p : nat) (x : tn X) : tn X := mkTn (rev (ins p 1 (rev (shp x)))) (dat x).

Lemma firstn_app_exact {A} (a b : list A) : firstn (length a) (a ++ b) = a.
Proof. induction a as [|x a IH]; [reflexivity|]. cbn. f_equal. exact IH. Qed.

Lemma skipn_app_exact {A} (a b : list A) : skipn (length a) (a ++ b) = b.
Proof. induction a as [|x a IH]; [reflexivity|]. cbn. exact IH. Qed.

Lemma rev_ins {A} (x : A) (l : list A) k : k <= length l ->
  rev (firstn k l ++ x :: skipn k l) = firstn (length l - k) (rev l) ++ x :: skipn (length l - k) (rev l).
Proof.
  intros H. rewrite rev_app_distr. cbn [rev]. rewrite <- app_assoc. cbn [app].
  assert (L : length (rev (skipn k l)) = length l - k) by (rewrite rev_length, skipn_length; reflexivity).
  assert (R : rev l = rev (skipn k l) ++ rev (firstn k l))
    by (rewrite <- rev_app_distr, firstn_skipn; reflexivity).
  rewrite <- L, R, firstn_app_exact, skipn_app_exact. reflexivity.
Qed.

Lemma unsqueeze_runsq {X} (x : tn X) d k :
  wrap_dim (S (rank x)) d = Some k -> k <= rank x -> unsqueeze x d = Some (runsq (rank x - k) x).
Proof.
  intros Hw Hk. unfold unsqueeze. rewrite Hw. f_equal. unfold runsq. f_equal.
  unfold ins, rank in *. symmetry.
  rewrite (rev_ins 1 (rev (shp x)) (length (shp x) - k)) by (rewrite rev_length; lia).
  rewrite rev_involutive, rev_length.
  replace (length (shp x) - (length (shp x) - k)) with k by lia. reflexivity.
Qed.

Lemma rshp_runsq {X} p (x : tn X) : rev (shp (runsq p x)) = ins p 1 (rev (shp x)).
Proof. unfold runsq. cbn. apply rev_involutive. Qed.

Lemma rank_runsq {X} p (x : tn X) : rank (runsq p x) = S (rank x).
Proof. unfold rank, runsq. cbn. rewrite rev_length. unfold ins. rewrite ins_length, rev_length. reflexivity. Qed.

(* the row-major position in the shape with the inserted axis, at an index that is 0 on that axis *)
Lemma rfi_ins p : forall s J, p <= length s -> nth p J 0 = 0 -> rfi (ins p 1 s) J = rfi s (del p J).
Proof.
  induction p as [|p IH]; intros s J Hp H0.
  - rewrite ins_0. destruct J as [|x J]; [destruct s; reflexivity|].
    cbn in H0. subst x. rewrite del_0. cbn [rfi]. lia.
  - destruct s as [|n s]; [cbn in Hp; lia|].
    rewrite ins_S. destruct J as [|x J]; [reflexivity|].
    rewrite del_S. cbn [rfi]. cbn [nth] in H0. rewrite (IH s J) by (cbn in Hp; lia || exact H0). reflexivity.
Qed.

Lemma nth_clamp_ins_one p : forall s I, p <= length s -> nth p (clamp (ins p 1 s) I) 0 = 0.
Proof.
  induction p as [|p IH]; intros s I H.
  - rewrite ins_0. destruct I as [|x I]; [destruct s; reflexivity|]. reflexivity.
  - destruct s as [|n s]; [cbn in H; lia|]. rewrite ins_S.
    destruct I as [|x I]; [reflexivity|]. cbn [clamp nth]. apply IH. cbn in H. lia.
Qed.

(* reading the unsqueezed flat tensor = reading the unsqueezed index function *)
Lemma bget_rd_runsq {X} (d : X) p (T : tensor X) bs I :
  p <= length (tshape T) -> intob (ins p 1 (tshape T)) bs = true -> valid bs I ->
  bget (rd d (runsq p (mat T))) I = bget (unsq p T) I.
Proof.
  intros Hp Hi Hv. rewrite bget_unsq by exact Hp.
  unfold bget at 1. rewrite tshape_rd, rshp_runsq, rshp_mat.
  unfold rd. rewrite rshp_runsq, rshp_mat. unfold of_flat. cbn [tat].
  rewrite rfi_ins by (exact Hp || apply nth_clamp_ins_one, Hp).
  rewrite del_clamp_ins by exact Hp.
  change (dat (runsq p (mat T))) with (to_flat T).
  change (tat (memo d T) (clamp (tshape T) (del p I)) = bget T (del p I)).
  apply memo_at.
  pose proof (clamp_valid _ _ _ Hi Hv) as H1. apply (valid_del p) in H1.
  rewrite del_clamp_ins in H1 by exact Hp.
  unfold ins in H1. fold (ins p 1 (tshape T)) in H1. rewrite del_ins in H1 by exact Hp. exact H1.
Qed.

(* ---- the operations in r-coordinates ---------------------------------------------------------------- *)
Lemma mul_r (a b : tn Q) s : bshape (rev (shp a)) (rev (shp b)) = Some s ->
  mul a b = Some (mat (mkT s (fun i => (bget (rd 0%Q a) i * bget (rd 0%Q b) i)%Q))).
Proof. intros H. unfold mul, bzip. rewrite H. reflexivity. Qed.

Lemma sum_dim_r (x : tn Q) d p : rpos (rank x) d = Some p ->
  sum_dim x d = Some (mat (mkT (del p (rev (shp x)))
                              (fun j => qsum (map (fun t => tat (rd 0%Q x) (ins p t j)) (seq 0 (nth p (rev (shp x)) 0)))))).
Proof. intros H. unfold sum_dim. rewrite H. reflexivity. Qed.

Lemma softmax_r expf (x : tn xq) d p : rpos (rank x) d = Some p ->
  softmax expf x d =
  let s := rev (shp x) in
  let w := fun i => match tat (rd NInf x) i with Fin e => expf e | NInf => 0%Q end in
  let den := fun i => qsum (map (fun t => w (setp p t i)) (seq 0 (nth p s 0))) in
  Some (mat (mkT s (fun i => (w i / den i)%Q))).
Proof. intros H. unfold softmax. rewrite H. reflexivity. Qed.

Lemma mul_s_mat (T : tensor Q) c : mul_s (mat T) c = mat (mkT (tshape T) (fun i => (tat T i * c)%Q)).
Proof. unfold mul_s. apply (map_mat (fun v => (v * c)%Q)). Qed.

(* reading the inverted mask (outside the buffer: True) = negating the mask read (outside: False) *)
Lemma bget_rd_invert (T : tensor bool) bs I :
  intob (tshape T) bs = true -> valid bs I -> bget (rd true (invert (mat T))) I = negb (bget T I).
Proof.
  intros Hi Hv. unfold bget at 1. unfold rd, invert. cbn [shp dat]. rewrite rshp_mat. unfold of_flat. cbn [tat tshape].
  change true with (negb false) at 1. rewrite map_nth.
  f_equal. change (tat (memo false T) (clamp (tshape T) I) = bget T I).
  apply memo_at. apply (clamp_valid _ bs); assumption.
Qed.

Lemma vmul_map {A} (f g : A -> Q) l : vmul (map f l) (map g l) = map (fun c => (f c * g c)%Q) l.
Proof. unfold vmul. induction l as [|x l IH]; [reflexivity|]. cbn. f_equal. exact IH. Qed.

Lemma bshape_same_head x a b r : bshape a b = Some r -> bshape (x :: a) (x :: b) = Some (x :: r).
Proof. intros H. cbn [bshape]. rewrite H, Nat.eqb_refl. reflexivity. Qed.
