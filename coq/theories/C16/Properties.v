(* C16 — A crash during an epoch update never loses the last or best checkpoint.
   Property theorems only: each is closed by [exact <lemma>] and followed by
   [Print Assumptions].  The harness re-checks this file on every run.

   Vocabulary (PV.C16.Model): [reach P E d cn] = disk [d] can be left behind by some sequence
   of update calls each of which performed only the first k of its file-system calls (any k,
   any number of crashed calls; k >= number of calls = the update completed); [reach_full] =
   no crash; [reach1] = at most one crash per epoch (a crashed update is followed by a
   completed one).  [final P E d cn] = the disk after a new process, started on [d], has
   trained to the end without dying.  [stored P d e] (PV.C16.Safety) = epoch e is recorded and
   both its files hold the parameter value of the very call that wrote its history row.
   [epf P] = both file-name formats contain {epoch}. *)
From Coq Require Import List Arith Bool ZArith Lia.
From PV Require Import C16.Model C16.Spec C16.Proofs C16.Hist C16.Safety C16.Bridge C16.Witness.
Import ListNotations.

(* "a controller started afterwards on the same files loads a history that is a prefix of the
   uninterrupted one" - every retention mode, every format, any number of crashes *)
Theorem c16_crash_history_is_prefix : forall P E d cn,
  reach P E d cn ->
  map hrow (csv d) = firstn (length (csv d)) (map hrow (csv (final P E empty_disk 0))).
Proof. exact crash_history_is_prefix. Qed.
Print Assumptions c16_crash_history_is_prefix.

(* "and on continuing training ends with the same history as if nothing had happened" -
   every retention mode, every format, any number of crashes *)
Theorem c16_crash_then_continue_same_history : forall P E d cn,
  reach P E d cn ->
  map hrow (csv (final P E d cn)) = map hrow (csv (final P E empty_disk 0)).
Proof. exact continue_same_history. Qed.
Print Assumptions c16_crash_then_continue_same_history.

(* the recorded epochs are 1..n with the metrics of those epochs, whatever happened *)
Theorem c16_history_rows : forall P E d cn,
  reach P E d cn ->
  exists n, n <= length (ms E) /\ map hrow (csv d) = firstn n (hist_from 1 (ms E)).
Proof. exact reach_wfh. Qed.
Print Assumptions c16_history_rows.

(* every update call, in every branch, appends exactly one row: its own *)
Theorem c16_update_appends_one_row : forall P d c tr va cn v ro ops r,
  update_ops P d c tr va cn v ro = Some (ops, r) ->
  r = mkRow (S (last_epoch c)) tr va v /\ flat_map appended ops = [r].
Proof. exact update_ops_appends. Qed.
Print Assumptions c16_update_appends_one_row.

(* "can load model and optimizer states for both the last recorded epoch and the best epoch,
   gets exactly the parameters that were saved for those epochs" - keep last and best only,
   formats with the epoch field, any number of crashes at any points *)
Theorem c16_crash_last_and_best_loadable : forall P E d cn,
  epf P -> klb P = true -> reach P E d cn ->
  forall e, 1 <= e -> (e = seen_last d \/ e = seen_best P d) -> stored P d e.
Proof. exact crash_last_and_best_loadable. Qed.
Print Assumptions c16_crash_last_and_best_loadable.

(* the same two clauses and "when everything is kept, every recorded epoch stays loadable"
   (with the saved parameters) - keep everything, formats with the epoch field, at most one
   crash per epoch.  PARTIAL with respect to the property: for two crashes within one epoch
   the statement is false, see c16_keep_all_double_crash_refuted (K3). *)
Theorem c16_keep_all_every_epoch_loadable_partial : forall P E d cn,
  epf P -> klb P = false -> reach1 P E d cn ->
  forall e, 1 <= e <= seen_last d -> stored P d e.
Proof. exact keep_all_every_epoch_loadable. Qed.
Print Assumptions c16_keep_all_every_epoch_loadable_partial.

(* "when only the last and best checkpoints are kept, after every completed update the state
   directory holds exactly those two epochs' files and nothing else" - crash-free runs,
   formats with the epoch field.  PARTIAL: after a crash the "nothing else" half is false, see
   c16_dir_exact_after_crash_refuted (K6); the "holds those files" half after crashes is
   c16_crash_last_and_best_loadable. *)
Theorem c16_completed_update_dir_exact_partial : forall P E d cn,
  epf P -> klb P = true -> reach_full P E d cn ->
  exists n, wfh E d n /\
    forall q, fs_get q (files d) <> None <->
              exists k e, q = pth P k e /\ 1 <= e /\ (e = n \/ e = best_epoch (bt P) (csv d)).
Proof. exact completed_update_dir_exact. Qed.
Print Assumptions c16_completed_update_dir_exact_partial.

(* the executable run used by the correspondence only ever observes reachable disks, so the
   theorems above speak about every observation the harness compares *)
Theorem c16_run_observes_reachable : forall P E crashes o,
  In o (run_schedule P E empty_disk 0 crashes) ->
  exists d cn, reach P E d cn /\ o = observe P d (o_outcome o) (o_log o).
Proof. exact run_observes_reachable. Qed.
Print Assumptions c16_run_observes_reachable.

(* the boolean spec the harness applies to the implementation accepts every observation of
   the model, for the clauses "last epoch loads with its parameters", "best epoch (earliest
   epoch no other beats) loads with its parameters" and "history is a prefix": keep last and
   best, epoch formats, any crash schedule *)
Theorem c16_spec_accepts_model_klb : forall P E crashes o,
  epf P -> klb P = true ->
  In o (run_schedule P E empty_disk 0 crashes) ->
  p_last o = true /\ p_best P o = true /\ p_prefix (csv (final P E empty_disk 0)) o = true.
Proof. exact spec_accepts_model_klb. Qed.
Print Assumptions c16_spec_accepts_model_klb.

(* get_best_epoch's fold returns the declarative best epoch of the spec *)
Theorem c16_best_epoch_is_best : forall b c n,
  map r_epoch c = seq 1 n -> is_best_b b c (best_epoch b c) = true.
Proof. exact best_epoch_is_best. Qed.
Print Assumptions c16_best_epoch_is_best.

(* ---- what is false of the faithful model (known findings), with witnesses ---- *)

(* K2: formats WITHOUT the epoch field: one crash between the history append and os.replace *)
Theorem c16_no_epoch_format_refuted :
  exists P mets crashes,
    ep_m P = false /\ ep_o P = false /\ length crashes = 1 /\
    spec_part 0 P (uninterrupted_hist P mets) (run P mets [] crashes) = true /\
    spec_part 1 P (uninterrupted_hist P mets) (run P mets [] crashes) = false.
Proof. exact no_epoch_format_refuted. Qed.
Print Assumptions c16_no_epoch_format_refuted.

Theorem c16_no_epoch_format_refuted_reach :
  exists P E d cn, ep_m P = false /\ ep_o P = false /\ reach P E d cn /\ ~ stored P d (seen_last d).
Proof. exact no_epoch_format_refuted_reach. Qed.
Print Assumptions c16_no_epoch_format_refuted_reach.

(* K3: keep everything, epoch formats, two crashes within one epoch: the last recorded epoch
   does not load at all (optimizer file missing) ... *)
Theorem c16_keep_all_double_crash_refuted :
  exists P mets crashes,
    epf P /\ klb P = false /\ length crashes = 2 /\
    spec_part 0 P (uninterrupted_hist P mets) (run P mets [] crashes) = true /\
    spec_part 1 P (uninterrupted_hist P mets) (run P mets [] crashes) = false /\
    spec_part 6 P (uninterrupted_hist P mets) (run P mets [] crashes) = false.
Proof. exact keep_all_double_crash_refuted. Qed.
Print Assumptions c16_keep_all_double_crash_refuted.

(* ... or loads the parameters of the first attempt while the row was written by the second *)
Theorem c16_keep_all_double_crash_stale_refuted :
  exists P E d cn, epf P /\ klb P = false /\ reach P E d cn /\ ~ stored P d (seen_last d) /\
                   fs_get (pth P KM (seen_last d)) (files d) = Some 1%Z /\
                   map r_tag (csv d) = [2%Z].
Proof. exact keep_all_double_crash_stale_refuted. Qed.
Print Assumptions c16_keep_all_double_crash_stale_refuted.

(* K6: after a crash inside the clean-up, later completed updates leave a stale checkpoint:
   all clauses hold except "and nothing else" *)
Theorem c16_dir_exact_after_crash_refuted :
  exists P mets crashes,
    epf P /\ klb P = true /\ length crashes = 1 /\
    map (fun i => spec_part i P (uninterrupted_hist P mets) (run P mets [] crashes)) (seq 0 7)
    = [true; true; true; true; true; false; true].
Proof. exact dir_exact_after_crash_refuted. Qed.
Print Assumptions c16_dir_exact_after_crash_refuted.

(* K7: keep everything with a format without the epoch field: the best epoch is overwritten
   by the last one even without any crash *)
Theorem c16_keep_all_no_epoch_best_refuted :
  exists P mets,
    klb P = false /\ ep_m P = false /\
    spec_part 2 P (uninterrupted_hist P mets) (run P mets [] []) = false.
Proof. exact keep_all_no_epoch_best_refuted. Qed.
Print Assumptions c16_keep_all_no_epoch_best_refuted.

(* ---- non-vacuity: concrete reachable disks with a crash strictly inside an update ---- *)

Example c16_nonvacuous :
  let E := mkEnv [(12, 12); (8, 8); (4, 4)]%Z pv_count (fun _ => []) in
  exists d cn, epf P_lb_ep /\ klb P_lb_ep = true /\ reach P_lb_ep E d cn /\
               seen_last d = 2 /\ seen_best P_lb_ep d = 2 /\
               fs_get (Ckpt KM (Some 1)) (files d) = None /\
               fs_get (Ckpt KO (Some 1)) (files d) = Some 1%Z /\
               fs_get (Ckpt KM (Some 2)) (files d) = Some 2%Z.
Proof. exact nonvacuous_klb. Qed.

Example c16_keep_all_nonvacuous :
  let E := mkEnv [(12, 12); (8, 8)]%Z pv_count (fun _ => []) in
  exists d cn, epf P_all_ep /\ klb P_all_ep = false /\ reach1 P_all_ep E d cn /\ seen_last d = 1 /\
               fs_get (Ckpt KO (Some 1)) (files d) = Some 2%Z.
Proof. exact nonvacuous_keep_all. Qed.

(* ---- the tie to the source text ----------------------------------------------------------
   PV.Gen.C16Src is regenerated from /repo/src/pydrobert/torch/training.py on every run
   (harness/py2coq/translate.py): get_last_epoch, get_best_epoch and two blocks of update_for_epoch
   (`if epoch is None: ...; last_best = ...` and the final `if self.state_dir is not None: ...`
   statement with the guards, save_info_first, try/except and the clean-up set arithmetic).
   PV.MiniPy.Interp is the semantics of the translated subset, SrcRun.ext16 the meaning of the calls
   that leave it (what it assumes is listed at the top of SrcRun.v).  SrcRun.src_update_ops interprets
   those terms for one call of update_for_epoch and decodes the emitted events into Model.fsop. *)
From PV Require MiniPy.Syntax MiniPy.Interp Gen.C16Src C16.SrcRun C16.TieExec C16.Tie.

(* every retention mode, every combination of name formats, every cache, disk, metric pair and
   removal-order oracle that ranks the (at most four) paths of the clean-up set: the interpreted
   source emits exactly the model's file-system operations, in the same order, returns the same
   row, and raises ValueError (before any operation) exactly when the model does *)
Theorem c16_source_update_is_model : forall P d c tr va cn v ro,
  SrcRun.covers ro (SrcRun.cl_paths P c) = true ->
  SrcRun.src_update_ops P d c tr va cn v ro = Some (update_ops P d c tr va cn v ro).
Proof. exact Tie.src_update_tie. Qed.
Print Assumptions c16_source_update_is_model.

(* both formats of the same kind (both with {epoch} - the case of the crash-safety theorems above -
   or both without): no hypothesis on the oracle *)
Theorem c16_source_update_is_model_same_fmt : forall P d c tr va cn v ro,
  ep_m P = ep_o P ->
  SrcRun.src_update_ops P d c tr va cn v ro = Some (update_ops P d c tr va cn v ro).
Proof. exact Tie.src_update_tie_same_fmt. Qed.
Print Assumptions c16_source_update_is_model_same_fmt.

(* no hypothesis at all: the source is update_ops_fd = Model.update_ops with the clean-up set built
   keeping first instead of last occurrences (the two differ only in the removal order of paths the
   oracle does not rank, and only when exactly one format has {epoch}) *)
Theorem c16_source_update_any_oracle : forall P d c tr va cn v ro,
  SrcRun.src_update_ops P d c tr va cn v ro = Some (SrcRun.update_ops_fd P d c tr va cn v ro).
Proof. exact TieExec.src_update_fd. Qed.
Print Assumptions c16_source_update_any_oracle.

(* whole runs (training loop, crashes, restarts) with the interpreted source in place of
   Model.update_ops are Model.run: every theorem above about [run] / [reach] is a theorem about
   the source's file-operation logic *)
Theorem c16_source_run_is_model_same_fmt : forall P metrics ros crashes,
  ep_m P = ep_o P ->
  SrcRun.src_run P metrics ros crashes = Some (run P metrics ros crashes).
Proof. exact Tie.src_run_tie_same_fmt. Qed.
Print Assumptions c16_source_run_is_model_same_fmt.

(* get_best_epoch (the for loop over cache_hist.values() with the dummy epoch 0 first) is best_epoch *)
Theorem c16_source_best_epoch_is_model : forall P d cn ro c b,
  exists st, SrcRun.run_best_epoch P d cn ro c b = Interp.Ok (SrcRun.vnat (best_epoch b c)) st.
Proof. exact Tie.best_epoch_src. Qed.
Print Assumptions c16_source_best_epoch_is_model.

(* get_last_epoch (max over the keys of cache_hist) is last_epoch *)
Theorem c16_source_last_epoch_is_model : forall P d cn ro c,
  exists st, SrcRun.run_last_epoch P d cn ro c = Interp.Ok (SrcRun.vnat (last_epoch c)) st.
Proof. exact Tie.last_epoch_src. Qed.
Print Assumptions c16_source_last_epoch_is_model.

(* composed with c16_update_appends_one_row: a statement about the translated source alone *)
Theorem c16_source_update_appends_one_row : forall P d c tr va cn v ro ops r,
  SrcRun.src_update_ops P d c tr va cn v ro = Some (Some (ops, r)) ->
  r = mkRow (S (last_epoch c)) tr va v /\ flat_map appended ops = [r].
Proof. exact Tie.source_update_appends. Qed.
Print Assumptions c16_source_update_appends_one_row.

Example c16_source_nonvacuous :
  SrcRun.covers Tie.nv_ro (SrcRun.cl_paths Tie.nv_P Tie.nv_cache) = true /\
  exists ops r,
    SrcRun.src_update_ops Tie.nv_P Tie.nv_disk Tie.nv_cache 3 3 2 3 Tie.nv_ro = Some (Some (ops, r)) /\
    map code_of ops = [TMk; TFill; TMk; TFill; TRep (Ckpt KM (Some 3)); TRep (Ckpt KO (Some 3)); TApp;
                       TRem (Ckpt KO (Some 2)); TRem (Ckpt KM (Some 2))].
Proof. exact Tie.source_nonvacuous. Qed.
