(* C07 - sequence scores, random walks, the distribution wrapper and greedy CTC decoding
   (src/pydrobert/torch/_decoding.py: _sequence_log_probs_tensor, _sequence_log_probs_ps,
   random_walk_advance, RandomWalk.forward, SequentialLanguageModelDistribution,
   ctc_greedy_search; src/pydrobert/torch/_string.py: _lens_from_eos, fill_after_eos;
   _combinatorics.py: enumerate_vocab_sequences).

   Executable model of what the code does.  No proofs in this file.

   Numbers.  Scores live in an arbitrary carrier [A] with an operation [op] and a unit [unit]
   (the code's [+] and [0.0]; for ctc_greedy_search(is_probs=True) [*] and [1.0]).  The
   correspondence instantiates A := Z (float64 log-softmax values scaled by 2^40 and rounded,
   compared with a tolerance; dyadic probabilities k/8 scaled by 8, compared exactly).  The
   normalisation theorem instantiates A := Q with multiplication.  [log_softmax] itself is
   not modelled: its float64 result is data.

   Layout.  Tensors are in the (outer, time, inner) normal form; moving the time dimension
   there is done by the harness and is correspondence-only. *)
From Coq Require Import List ZArith Bool Arith.
Import ListNotations.

(* ---------- a small tensor layer -------------------------------------------------- *)

Definition column {X} (d : X) (b : nat) (m : list (list X)) : list X :=
  map (fun r => nth b r d) m.

Fixpoint map2 {X Y W} (f : X -> Y -> W) (l1 : list X) (l2 : list Y) : list W :=
  match l1, l2 with
  | x :: t1, y :: t2 => f x y :: map2 f t1 t2
  | _, _ => []
  end.

Fixpoint map3 {X Y U W} (f : X -> Y -> U -> W) (l1 : list X) (l2 : list Y) (l3 : list U)
  : list W :=
  match l1, l2, l3 with
  | x :: t1, y :: t2, u :: t3 => f x y u :: map3 f t1 t2 t3
  | _, _, _ => []
  end.

Definition b2n (b : bool) : nat := if b then 1 else 0.

(* x.cumsum(dim) on one fibre *)
Fixpoint cumsum_from (acc : nat) (l : list nat) : list nat :=
  match l with
  | [] => []
  | x :: t => (acc + x) :: cumsum_from (acc + x) t
  end.
Definition cumsum := cumsum_from 0.

(* (max_, argmax) = x.max(dim) on a boolean fibre: index of the FIRST maximal entry;
   an all-False (non-empty) fibre gives (False, 0) *)
Fixpoint first_true (l : list bool) : option nat :=
  match l with
  | [] => None
  | b :: t => if b then Some 0 else option_map S (first_true t)
  end.
Definition max_first_bool (l : list bool) : bool * nat :=
  match first_true l with Some i => (true, i) | None => (false, 0) end.

Fixpoint all_some {X} (l : list (option X)) : option (list X) :=
  match l with
  | [] => Some []
  | None :: _ => None
  | Some x :: t => match all_some t with Some r => Some (x :: r) | None => None end
  end.

Definition sumn (l : list nat) : nat := fold_right Nat.add 0 l.

(* hyp.lt(0) | hyp.ge(num_classes) *)
Definition oov (V k : Z) : bool := (k <? 0)%Z || (V <=? k)%Z.

(* _string.py::_lens_from_eos on one sequence: mask = tok.eq(eos); x = cumsum(mask);
   max_, argmax = (x.eq(1) & mask).max(dim); argmax.masked_fill(max_.eq(0), T) *)
Definition lens_from_eos (eos : Z) (col : list Z) : nat :=
  let mask := map (Z.eqb eos) col in
  let x := cumsum (map b2n mask) in
  let hit := map2 andb (map (Nat.eqb 1) x) mask in
  let '(mx, am) := max_first_bool hit in
  if mx then am else length col.

(* the combined mask of _sequence_log_probs_tensor on one sequence *)
Definition slp_mask (V : Z) (eos : option Z) (col : list Z) : list bool :=
  let m := map (oov V) col in
  match eos with
  | None => m
  | Some e =>
      let hyp_len := lens_from_eos e col + 1 in
      map2 orb m (map (fun t => hyp_len <=? t) (seq 0 (length col)))
  end.

Section Scores.
  Context {A : Type} (op : A -> A -> A) (unit : A).

  Definition sum_list (l : list A) : A := fold_right op unit l.

  (* hyp.masked_fill(mask, 0); logits.gather(-1, hyp); logits.masked_fill(mask, 0.0) *)
  Definition gather_masked (mask : list bool) (lp : list (list A)) (toks : list Z) : list A :=
    let toks' := map2 (fun (m : bool) k => if m then 0%Z else k) mask toks in
    let g := map2 (fun row k => nth (Z.to_nat k) row unit) lp toks' in
    map2 (fun (m : bool) v => if m then unit else v) mask g.

  (* _sequence_log_probs_tensor on one sequence: lp is T x V (already log-softmax'ed) *)
  Definition slp_col (V : Z) (eos : option Z) (lp : list (list A)) (col : list Z) : A :=
    sum_list (gather_masked (slp_mask V eos col) lp col).

  (* _sequence_log_probs_tensor on the normal form: hyp[a][t][b], lp[a][t][b][v]; output [a][b].
     None = RuntimeError (eos set and a zero-length time dimension: max over an empty dim). *)
  Definition slp_tensor (V : Z) (eos : option Z) (T B : nat)
    (lp : list (list (list (list A)))) (hyp : list (list (list Z))) : option (list (list A)) :=
    match eos, T with
    | Some _, 0 => None
    | _, _ =>
        Some (map2 (fun lp_a hyp_a =>
                      map (fun b => slp_col V eos (column [] b lp_a) (column 0%Z b hyp_a))
                          (seq 0 B)) lp hyp)
    end.

  (* ---- packed path: _sequence_log_probs_ps ------------------------------------------- *)

  Definition index_select_cols {X} (d : X) (idx : list nat) (m : list (list X)) : list (list X) :=
    map (fun row => map (fun j => nth j row d) idx) m.

  (* lens = (arange(N).unsqueeze(1) < batch_sizes).sum(1) *)
  Definition lens_of_bs (N : nat) (bs : list nat) : list nat :=
    map (fun n => sumn (map (fun b => b2n (n <? b)) bs)) (seq 0 N).

  (* pack_padded_sequence(x, lens)[0] for time-major x and non-increasing lens:
     at time t < max lens the first #{n | t < lens n} entries of row t *)
  Definition pack_data {X} (x : list (list X)) (lens : list nat) : list X :=
    concat (map2 (fun t row => firstn (sumn (map (fun l => b2n (t <? l)) lens)) row)
                 (seq 0 (list_max lens)) x).

  Fixpoint split_by {X} (bs : list nat) (l : list X) : list (list X) :=
    match bs with
    | [] => []
    | b :: bs' => firstn b l :: split_by bs' (skipn b l)
    end.

  (* pad_packed_sequence(SpoofPackedSequence(vals, batch_sizes), batch_first=True)[0]:
     shape (batch_sizes[0], len batch_sizes), zero padded *)
  Definition unpack (bs : list nat) (vals : list A) : list (list A) :=
    let chunks := split_by bs vals in
    map (fun j => map (fun ch => nth j ch unit) chunks) (seq 0 (hd 0 bs)).

  (* hyp is time-major T x N; data is the packed (sum batch_sizes) x V log-softmax *)
  Definition slp_ps (V : Z) (data : list (list A)) (bs : list nat)
    (sidx uidx : option (list nat)) (N : nat) (hyp : list (list Z)) : list A :=
    let hyp1 := match sidx with Some s => index_select_cols 0%Z s hyp | None => hyp end in
    let lens := lens_of_bs N bs in
    let toks := pack_data hyp1 lens in
    let vals := gather_masked (map (oov V) toks) data toks in
    let out := map sum_list (unpack bs vals) in
    match uidx with Some u => map (fun i => nth i out unit) u | None => out end.

  (* ---- random walk ---------------------------------------------------------------------- *)

  Record wstate := mkW { wy : list (list Z); wlens : list nat; wfin : list bool; wlp : list A }.

  Definition init_state (N : nat) : wstate :=
    mkW [] (repeat 0 N) (repeat false N) (repeat unit N).

  (* log_probs_t.gather(1, y_t) after the two masked_fills of RandomWalk.forward.  A finished
     path has -inf everywhere but 0.0 at eos; torch.multinomial(exp(.)) cannot return a
     zero-probability index, so a draw other than eos there is not a possible run: None. *)
  Definition ext_val (eos : option Z) (fin : bool) (row : list A) (tok : Z) : option A :=
    match eos with
    | Some e => if fin then (if (tok =? e)%Z then Some unit else None)
                else Some (nth (Z.to_nat tok) row unit)
    | None => Some (nth (Z.to_nat tok) row unit)
    end.

  (* y_next.scatter(0, y_prev_lens.unsqueeze(0), y_t) *)
  Definition scatter0 (y : list (list Z)) (idx : list nat) (src : list Z) : list (list Z) :=
    map2 (fun r row => map3 (fun i s old => if i =? r then s else old) idx src row)
         (seq 0 (length y)) y.

  (* random_walk_advance, path part, with y_prev_lens given (as RandomWalk calls it) *)
  Definition rw_advance (y : list (list Z)) (lens : list nat) (yt : list Z) : list (list Z) :=
    match y with
    | [] => [yt]
    | _ => let y1 := if length y <=? list_max lens then y ++ [yt] else y in
           scatter0 y1 lens yt
    end.

  (* one iteration of the loop of RandomWalk.forward; lm n prefix = log-softmax'ed
     extension scores of batch element n after the given prefix; yt = the multinomial draw *)
  Definition walk_step (lm : nat -> list Z -> list A) (eos : option Z) (N : nat)
    (st : wstate) (yt : list Z) : option wstate :=
    let rows := map (fun n => lm n (column 0%Z n (wy st))) (seq 0 N) in
    match all_some (map3 (ext_val eos) (wfin st) rows yt) with
    | None => None
    | Some vals =>
        let lp' := map2 op (wlp st) vals in
        let y' := rw_advance (wy st) (wlens st) yt in
        match eos with
        | Some e =>
            let lens' := map2 (fun l (f : bool) => l + b2n (negb f)) (wlens st) (wfin st) in
            let fin' := map2 (fun n l => (nth n (nth (l - 1) y' []) 0 =? e)%Z) (seq 0 N) lens' in
            Some (mkW y' lens' fin' lp')
        | None => Some (mkW y' (map S (wlens st)) (wfin st) lp')
        end
    end.

  Definition all_true (l : list bool) : bool := forallb (fun b => b) l.

  Definition walk_stop (max_iters : option nat) (t : nat) (st : wstate) : bool :=
    match max_iters with Some m => m <=? t | None => false end || all_true (wfin st).

  (* the loop, driven by the list of draws (one list of N tokens per executed iteration).
     None = the draws do not describe a run: too few, too many, or a zero-probability draw. *)
  Fixpoint walk_loop (lm : nat -> list Z -> list A) (eos : option Z) (N : nat)
    (max_iters : option nat) (draws : list (list Z)) (t : nat) (st : wstate) : option wstate :=
    if walk_stop max_iters t st then
      match draws with [] => Some st | _ :: _ => None end
    else
      match draws with
      | [] => None
      | d :: ds => match walk_step lm eos N st d with
                   | None => None
                   | Some st' => walk_loop lm eos N max_iters ds (S t) st'
                   end
      end.

  Definition walk lm eos N max_iters draws : option wstate :=
    walk_loop lm eos N max_iters draws 0 (init_state N).

  (* ---- the distribution wrapper: log_prob ------------------------------------------------- *)

  (* lm(hist[:-1]) for one sequence: calc_full_log_probs stacks idx = 0 .. len(hist[:-1]) *)
  Definition lm_full (lm : nat -> list Z -> list A) (n : nat) (s : list Z) : list (list A) :=
    let h := removelast s in
    map (fun i => lm n (firstn i h)) (seq 0 (length h + 1)).

  (* value is (M, S): the n-th row is scored as batch element n of one lm call *)
  Definition dist_log_prob (lm : nat -> list Z -> list A) (V : Z) (eos : option Z)
    (value : list (list Z)) : list A :=
    map2 (fun n s => slp_col V eos (lm_full lm n s) s) (seq 0 (length value)) value.

  (* batched wrapper, value is (M, N, S): one lm call per m *)
  Definition dist_log_prob_batched lm V eos (value : list (list (list Z))) : list (list A) :=
    map (dist_log_prob lm V eos) value.
End Scores.

(* ---- the distribution wrapper: sample stacking --------------------------------------------- *)

(* y (S x N) -> samples.T (N x S) *)
Definition paths_of (N : nat) (y : list (list Z)) : list (list Z) :=
  map (fun n => column 0%Z n y) (seq 0 N).

(* batched sample(): pad_sequence(samples, padding_value=eos).flatten(1).T, reshaped to
   (M, N, maxS); with eos unset all walks have max_iters steps and are stacked as they are *)
Definition stack_samples (eos : option Z) (N : nat) (ys : list (list (list Z)))
  : list (list (list Z)) :=
  let maxS := list_max (map (@length _) ys) in
  map (fun y =>
         let y' := match eos with
                   | Some e => y ++ repeat (repeat e N) (maxS - length y)
                   | None => y
                   end in
         paths_of N y') ys.

(* ---- the distribution wrapper: enumerate_support ------------------------------------------- *)

(* enumerate_vocab_sequences(T, V): row s, column r holds digit r of s in base V
   (column 0 varies fastest) *)
Fixpoint enum_seqs (T V : nat) : list (list Z) :=
  match T with
  | 0 => [[]]
  | S T' => flat_map (fun d => map (fun r => r ++ [Z.of_nat d]) (enum_seqs T' V)) (seq 0 V)
  end.

(* fill_after_eos(tokens, eos, dim) on one sequence:
   (tokens == eos).cumsum().clamp_max(1).cumsum() > 1 is filled with eos *)
Definition fill_after_eos (eos : Z) (s : list Z) : list Z :=
  let c := cumsum (map (fun x => Nat.min x 1) (cumsum (map (fun k => b2n (k =? eos)%Z) s))) in
  map2 (fun x k => if 1 <? x then eos else k) c s.

(* torch.unique(x, dim=0): the distinct rows in lexicographic order *)
Fixpoint lex_cmp (a b : list Z) : comparison :=
  match a, b with
  | [], [] => Eq
  | [], _ :: _ => Lt
  | _ :: _, [] => Gt
  | x :: a', y :: b' => match (x ?= y)%Z with Eq => lex_cmp a' b' | c => c end
  end.

Fixpoint insert_uniq (r : list Z) (l : list (list Z)) : list (list Z) :=
  match l with
  | [] => [r]
  | x :: t => match lex_cmp r x with
              | Lt => r :: l
              | Eq => l
              | Gt => x :: insert_uniq r t
              end
  end.

Definition unique_rows (l : list (list Z)) : list (list Z) := fold_right insert_uniq [] l.

Definition enumerate_support (eos : option Z) (T V : nat) : list (list Z) :=
  match eos with
  | None => enum_seqs T V
  | Some e => unique_rows (map (fill_after_eos e) (enum_seqs T V))
  end.

(* ---- ctc_greedy_search ------------------------------------------------------------------------ *)

(* (max_, argmax) = row.max(): first maximal entry *)
Fixpoint argmax_from (best : Z) (bi : nat) (i : nat) (l : list Z) : Z * nat :=
  match l with
  | [] => (best, bi)
  | x :: t => if (best <? x)%Z then argmax_from x i (S i) t else argmax_from best bi (S i) t
  end.
Definition argmax_first (row : list Z) : Z * nat :=
  match row with [] => (0%Z, 0) | x :: t => argmax_from x 0 1 t end.

(* keep_mask: not blank, and (first frame or different from the previous frame's label) *)
Fixpoint keep_from (blank : nat) (prev : option nat) (am : list nat) : list bool :=
  match am with
  | [] => []
  | a :: t => (negb (a =? blank) &&
               match prev with None => true | Some p => negb (a =? p) end)
              :: keep_from blank (Some a) t
  end.

Fixpoint select {X} (mask : list bool) (l : list X) : list X :=
  match mask, l with
  | m :: mt, x :: t => if m then x :: select mt t else select mt t
  | _, _ => []
  end.

(* dst.masked_scatter_(mask, src) on one row, returning the unused rest of src *)
Fixpoint mscatter {X} (mask : list bool) (src dst : list X) : list X * list X :=
  match mask, dst with
  | m :: mt, x :: t =>
      if m then match src with
                | s :: st => let '(r, rest) := mscatter mt st t in (s :: r, rest)
                | [] => let '(r, rest) := mscatter mt [] t in (x :: r, rest)
                end
      else let '(r, rest) := mscatter mt src t in (x :: r, rest)
  | _, _ => (dst, src)
  end.

(* row-major masked_scatter_ over the batch *)
Fixpoint mscatter_rows {X} (masks : list (list bool)) (src : list X) (dst : list (list X))
  : list (list X) :=
  match masks, dst with
  | m :: mt, d :: dt => let '(r, rest) := mscatter m src d in r :: mscatter_rows mt rest dt
  | _, _ => dst
  end.

Record greedy_out := mkG { g_score : list Z; g_paths : list (list nat); g_lens : list nat }.

(* lp is batch-first N x T x V (already log-softmax'ed unless is_probs); [one] is the
   representation of 1.0.  None = RuntimeError (blank index out of range). *)
Definition ctc_greedy (is_probs : bool) (one : Z) (V : Z) (blank : Z) (T : nat)
  (in_lens : option (list Z)) (lp : list (list (list Z))) : option greedy_out :=
  if (blank <? - V)%Z || (V - 1 <? blank)%Z then None else
  let blank' := Z.to_nat ((blank + V) mod V) in
  let mx := map (map argmax_first) lp in
  let max_ := map (map fst) mx in
  let am := map (map snd) mx in
  let keep0 := map (keep_from blank' None) am in
  let in_mask := match in_lens with
                 | None => map (fun _ => repeat true T) lp
                 | Some ls => map (fun l => map (fun t => (Z.of_nat t <? l)%Z) (seq 0 T)) ls
                 end in
  let keep := map2 (map2 andb) keep0 in_mask in
  let fill := if is_probs then one else 0%Z in
  let max_' := map2 (map2 (fun (i : bool) v => if i then v else fill)) in_mask max_ in
  let out_lens := map (fun k => sumn (map b2n k)) keep in
  let data := concat (map2 select keep am) in
  let out_mask := map (fun l => map (fun t => t <? l) (seq 0 T)) out_lens in
  let score := map (if is_probs then fold_right Z.mul 1%Z else fold_right Z.add 0%Z) max_' in
  Some (mkG score (mscatter_rows out_mask data am) out_lens).

(* ---- correspondence entry points (A := Z, op := +) -------------------------------------------- *)

Definition closeb (tol a b : Z) : bool := (Z.abs (a - b) <=? tol)%Z.
Definition list_closeb (tol : Z) (a b : list Z) : bool :=
  (length a =? length b) && forallb (fun p => closeb tol (fst p) (snd p)) (combine a b).
Definition mat_closeb (tol : Z) (a b : list (list Z)) : bool :=
  (length a =? length b) && forallb (fun p => list_closeb tol (fst p) (snd p)) (combine a b).

Definition zlist_eqb (a b : list Z) : bool :=
  (length a =? length b) && forallb (fun p => (fst p =? snd p)%Z) (combine a b).
Definition zmat_eqb (a b : list (list Z)) : bool :=
  (length a =? length b) && forallb (fun p => zlist_eqb (fst p) (snd p)) (combine a b).
Definition nlist_eqb (a b : list nat) : bool :=
  (length a =? length b) && forallb (fun p => fst p =? snd p) (combine a b).

Definition check_slp_tensor (tol V : Z) eos T B lp hyp (impl : option (list (list Z))) : bool :=
  match slp_tensor Z.add 0%Z V eos T B lp hyp, impl with
  | None, None => true
  | Some m, Some i => mat_closeb tol m i
  | _, _ => false
  end.

Definition check_slp_ps (tol V : Z) data bs sidx uidx N hyp (impl : list Z) : bool :=
  list_closeb tol (slp_ps Z.add 0%Z V data bs sidx uidx N hyp) impl.

(* does torch's PackedSequence of the padded log-softmax lp (time x batch x classes) with lengths
   lens0 look as the packed-input theorems describe it? (data, batch_sizes) vs pack_data of the
   columns re-ordered by sorted_indices *)
Definition check_pack (tol : Z) (lp : list (list (list Z))) (lens0 : list nat)
  (sidx : option (list nat)) (data : list (list Z)) (bs : list nat) : bool :=
  let s := match sidx with Some s => s | None => seq 0 (length lens0) end in
  let ls := map (fun j => nth j lens0 0) s in
  mat_closeb tol (pack_data (index_select_cols [] s lp) ls) data &&
  nlist_eqb (map (fun t => sumn (map (fun l => b2n (t <? l)) ls)) (seq 0 (list_max ls))) bs.

(* a language model given as a finite table ((n, prefix), row) *)
Fixpoint lm_of_table (tab : list (nat * list Z * list Z)) (n : nat) (p : list Z) : list Z :=
  match tab with
  | [] => []
  | (n', p', row) :: t => if (n =? n') && zlist_eqb p p' then row else lm_of_table t n p
  end.

Definition check_walk (tol : Z) tab eos N max_iters draws
  (iy : list (list Z)) (ilens : list nat) (ilp : list Z) : bool :=
  match walk Z.add 0%Z (lm_of_table tab) eos N max_iters draws with
  | None => false
  | Some st => zmat_eqb (wy st) iy && nlist_eqb (wlens st) ilens && list_closeb tol (wlp st) ilp
  end.

Definition check_dist_log_prob (tol : Z) tab V eos value (impl : list Z) : bool :=
  list_closeb tol (dist_log_prob Z.add 0%Z (lm_of_table tab) V eos value) impl.

Definition check_dist_log_prob_batched (tol : Z) tab V eos value (impl : list (list Z)) : bool :=
  mat_closeb tol (dist_log_prob_batched Z.add 0%Z (lm_of_table tab) V eos value) impl.

Definition check_stack eos N ys (impl : list (list (list Z))) : bool :=
  let m := stack_samples eos N ys in
  (length m =? length impl) && forallb (fun p => zmat_eqb (fst p) (snd p)) (combine m impl).

Definition check_support eos T V (impl : list (list Z)) : bool :=
  zmat_eqb (enumerate_support eos T V) impl.

(* paths are compared on [:out_lens] only: the rest is documented as undefined *)
Definition check_greedy (tol : Z) is_probs one V blank T in_lens lp
  (impl : option (list Z * list (list nat) * list nat)) : bool :=
  match ctc_greedy is_probs one V blank T in_lens lp, impl with
  | None, None => true
  | Some g, Some (sc, paths, lens) =>
      list_closeb tol (g_score g) sc && nlist_eqb (g_lens g) lens &&
      (length (g_paths g) =? length paths) &&
      forallb (fun p => nlist_eqb (firstn (snd p) (fst (fst p))) (firstn (snd p) (snd (fst p))))
              (combine (combine (g_paths g) paths) lens)
  | _, _ => false
  end.
