(* C11, second source tie - write_trn: the helper _handle_x (recursive, any nesting depth) and the whole function. *)
From Coq Require Import ZArith QArith List String Ascii Bool Lia.
From PV Require C11.ProofsTrn.
From PV Require Import C11.Model C11.ModelB MiniPy.Syntax MiniPy.Interp MiniPy.Lemmas Gen.C11BSrc C11.SrcRun C11.TieBase
  C11.SrcRunB C11.TieBBase.
Import ListNotations.
Local Open Scope string_scope.

#[local] Arguments as_text : simpl never.
#[local] Arguments texts : simpl never.
#[local] Arguments call_pure : simpl never.
#[local] Arguments call_file : simpl never.
#[local] Arguments handle_x : simpl never.
#[local] Arguments join : simpl never.
#[local] Arguments List.concat : simpl never.

Ltac look := rewrite ?lookup_update_eq, ?lookup_update_neq by reflexivity.
Ltac txt := repeat (first [rewrite as_text_lit | rewrite as_text_enc | rewrite as_text_enc' | rewrite texts_tv
                           | rewrite as_text_tv | rewrite is_file_mk' | rewrite is_file_mk'' | rewrite is_file_mk]).
Ltac pnat := repeat match goal with |- context [Pos.to_nat ?p] =>
  let v := eval compute in (Pos.to_nat p) in change (Pos.to_nat p) with v end.
Ltac step := repeat (progress (cbn; pnat; look; txt)).

(* ---- the statements of _handle_x --------------------------------------------------------------------------- *)
Definition hx_outer : stmt :=
  match src_handle_x with SSeq _ (SSeq _ (SSeq (SFor _ _ b) _)) => b | _ => SPass end.
Definition hx_inner : stmt :=
  match hx_outer with SSeq _ (SSeq (SFor _ _ b) _) => b | _ => SPass end.
Definition hx_tail : stmt :=
  match src_handle_x with SSeq _ (SSeq _ (SSeq _ t)) => t | _ => SPass end.

(* persistent variables of a _handle_x frame *)
Definition hxP (X R : val) : list (string * val) :=
  [("x", X); ("str", str_type); ("config", config_obj); ("ret", R)].

Definition hx_ok (y : elem) : Prop :=
  forall n, (edepth y <= n)%nat -> exists st, run_handle_x n (enc_elem y) = Ok (VList (map enc_chr (handle_x y))) st.

Lemma call_handle n y st : hx_ok y -> (edepth y <= n)%nat ->
  call_pure (extB n) src_handle_x src_handle_x_params [enc_elem y] [] st = Ok (VList (map enc_chr (handle_x y))) st.
Proof.
  intros H Hd. destruct (H n Hd) as [st' Hr]. unfold call_pure. cbn [bind_args src_handle_x_params option_map].
  unfold run_handle_x in Hr. cbn [app] in Hr |- *. rewrite Hr. reflexivity.
Qed.

Lemma inner_loop n' X R evs : forall (b : list elem), Forall hx_ok b -> Forall (fun y => (edepth y <= n')%nat) b ->
  forall acc rest, lookup "elem" rest = Some (tv acc) ->
  exists rest',
    for_loop (extB (S n')) "xx" hx_inner (map enc_elem b) (mkState (hxP X R ++ rest) evs)
    = Ok CNormal (mkState (hxP X R ++ rest') evs)
    /\ lookup "elem" rest' = Some (tv (match b with [] => acc | _ :: _ => Some (tx acc ++ List.concat (map handle_x b))%list end)).
Proof.
  induction b as [|y b IH]; intros Hok Hd acc rest He.
  - exists rest. split; [reflexivity|exact He].
  - inversion Hok as [|? ? Hy Hok']; subst. inversion Hd as [|? ? Dy Hd']; subst.
    cbn [map for_loop].
    assert (Hstep : exists rest1,
              exec (extB (S n')) hx_inner (set_var "xx" (enc_elem y) (mkState (hxP X R ++ rest) evs))
              = Ok CNormal (mkState (hxP X R ++ rest1) evs)
              /\ lookup "elem" rest1 = Some (tv (Some (tx acc ++ handle_x y)%list))).
    { unfold hx_inner, hx_outer, src_handle_x, hxP. step. rewrite He. step.
      rewrite (call_handle n' y _ Hy Dy). step.
      destruct acc as [a|]; cbn [tv tx].
      - step. rewrite enc_str_app. eexists. split; [reflexivity|]. look. reflexivity.
      - step. eexists. split; [reflexivity|]. look. reflexivity. }
    destruct Hstep as [rest1 [Hx He1]]. rewrite Hx. cbn [bind].
    destruct (IH Hok' Hd' _ _ He1) as [rest2 [Hl He2]]. exists rest2. split; [exact Hl|].
    rewrite He2. cbn [tx]. destruct b as [|z b]; cbn [map]; rewrite ?concat_cons, ?concat_nil.
    + rewrite app_nil_r. reflexivity.
    + rewrite <- app_assoc. reflexivity.
Qed.

Definition bacc (b : list elem) : option str :=
  match b with [] => None | _ :: _ => Some (List.concat (map handle_x b)) end.

Lemma tx_bacc b : tx (bacc b) = List.concat (map handle_x b).
Proof. destruct b; reflexivity. Qed.

Definition hx_init : stmt := SAssign [TName "elem"] (EConst (VStr "")).
Definition hx_append : stmt := SExpr (EMeth (EName "ret") "append" [EName "elem"] []).

Lemma hx_outer_eq : hx_outer = SSeq hx_init (SSeq (SFor "xx" (EName "alts") hx_inner) hx_append).
Proof. reflexivity. Qed.

Lemma outer_step n' X evs (b : list elem) : Forall hx_ok b -> Forall (fun y => (edepth y <= n')%nat) b ->
  forall done rest, exists rest',
    exec (extB (S n')) hx_outer (set_var "alts" (VList (map enc_elem b)) (mkState (hxP X (VList (map tv done)) ++ rest) evs))
    = Ok CNormal (mkState (hxP X (VList (map tv (done ++ [bacc b]))) ++ rest') evs).
Proof.
  intros Hok Hd done rest. rewrite hx_outer_eq, exec_seq.
  assert (H1 : exec (extB (S n')) hx_init (set_var "alts" (VList (map enc_elem b)) (mkState (hxP X (VList (map tv done)) ++ rest) evs))
               = Ok CNormal (mkState (hxP X (VList (map tv done))
                                      ++ update "elem" (VStr "") (update "alts" (VList (map enc_elem b)) rest)) evs)).
  { unfold hx_init, hxP. reflexivity. }
  rewrite H1. cbn [bind]. rewrite exec_seq, exec_for.
  assert (H2 : forall s, s = mkState (hxP X (VList (map tv done))
                                      ++ update "elem" (VStr "") (update "alts" (VList (map enc_elem b)) rest)) evs ->
               eval (extB (S n')) (EName "alts") s = Ok (VList (map enc_elem b)) s).
  { intros s ->. unfold hxP. step. reflexivity. }
  rewrite (H2 _ eq_refl). cbn [bind iter_items container_items].
  destruct (inner_loop n' X (VList (map tv done)) evs b Hok Hd None
              (update "elem" (VStr "") (update "alts" (VList (map enc_elem b)) rest))) as [rest1 [Hl He]].
  { look. reflexivity. }
  rewrite Hl. cbn [bind].
  unfold hx_append, hxP. step. rewrite He. step.
  eexists. rewrite map_app. cbn [map]. 
  replace (match b with [] => None | _ :: _ => Some (tx None ++ List.concat (map handle_x b))%list end) with (bacc b)
    by (destruct b; reflexivity).
  reflexivity.
Qed.

Lemma outer_loop n' X evs : forall (brs : list (list elem)), Forall (Forall hx_ok) brs ->
  Forall (Forall (fun y => (edepth y <= n')%nat)) brs ->
  forall done rest, exists rest',
    for_loop (extB (S n')) "alts" hx_outer (map (fun b => VList (map enc_elem b)) brs)
      (mkState (hxP X (VList (map tv done)) ++ rest) evs)
    = Ok CNormal (mkState (hxP X (VList (map tv (done ++ map bacc brs))) ++ rest') evs).
Proof.
  induction brs as [|b brs IH]; intros Hok Hd done rest.
  - exists rest. cbn [map for_loop]. rewrite app_nil_r. reflexivity.
  - inversion Hok as [|? ? Hb Hok']; subst. inversion Hd as [|? ? Db Hd']; subst.
    cbn [map for_loop].
    destruct (outer_step n' X evs b Hb Db done rest) as [rest1 Hx]. rewrite Hx. cbn [bind].
    destruct (IH Hok' Hd' (done ++ [bacc b])%list rest1) as [rest2 Hl]. exists rest2.
    rewrite Hl. rewrite <- app_assoc. reflexivity.
Qed.

Lemma depth_branches brs n' : (edepth (Alt brs) <= S n')%nat ->
  Forall (Forall (fun y => (edepth y <= n')%nat)) brs.
Proof.
  cbn [edepth]. intros H. apply le_S_n in H. apply list_max_le in H.
  rewrite Forall_map in H. eapply Forall_impl; [|exact H].
  intros b Hb. cbn beta in Hb. apply list_max_le in Hb. rewrite Forall_map in Hb. exact Hb.
Qed.

Lemma join_tx brs :
  join [47; 32]%Z (map tx (map bacc brs)) = join [c_slash; c_sp] (map (fun alts => List.concat (map handle_x alts)) brs).
Proof. rewrite map_map. f_equal. apply map_ext. intros b. apply tx_bacc. Qed.

Theorem handle_x_tie : forall x, hx_ok x.
Proof.
  induction x as [t|brs IH] using ProofsTrn.elem_ind2; intros n Hd.
  - unfold run_handle_x, Interp.run, src_handle_x.
    destruct n; step; eexists; reflexivity.
  - destruct n as [|n']; [cbn [edepth] in Hd; lia|].
    pose proof (depth_branches brs n' Hd) as Hdb.
    unfold run_handle_x, Interp.run.
    change src_handle_x with
      (SSeq (SIf (ECall "isinstance" [EName "x"; EName "str"] []) (SReturn (EBin Add (EName "x") (EConst (VStr " ")))) SPass)
         (SSeq (SAssign [TName "ret"] (EListLit []))
            (SSeq (SFor "alts" (EName "x") hx_outer) hx_tail))).
    rewrite exec_seq.
    match goal with |- context [exec ?e (SIf ?c ?a ?b) ?s] =>
      assert (H0 : exec e (SIf c a b) s = Ok CNormal s) by reflexivity; rewrite H0; clear H0 end.
    cbn [bind]. rewrite exec_seq.
    match goal with |- context [exec ?e (SAssign ?a ?b) ?s] =>
      assert (H0 : exec e (SAssign a b) s
                   = Ok CNormal (mkState (hxP (enc_elem (Alt brs)) (VList (map tv [])) ++ []) [])) by reflexivity;
      rewrite H0; clear H0 end.
    cbn [bind]. rewrite exec_seq, exec_for.
    match goal with |- context [eval ?e (EName "x") ?s] =>
      assert (H0 : eval e (EName "x") s = Ok (enc_elem (Alt brs)) s) by reflexivity; rewrite H0; clear H0 end.
    cbn [bind enc_elem iter_items container_items].
    destruct (outer_loop n' (VTuple (map (fun b => VList (map enc_elem b)) brs)) [] brs IH Hdb [] []) as [rest' Hl].
    cbn [enc_elem] in Hl. rewrite Hl. cbn [bind app].
    unfold hx_tail, src_handle_x, hxP. step.
    rewrite join_tx. eexists. reflexivity.
Qed.

(* ============================ write_trn ======================================================================= *)
#[local] Arguments is_file : simpl never.

Definition wt_loop : stmt := match src_write_trn with SSeq _ (SFor _ _ b) => b | _ => SPass end.
Definition wt_xbody : stmt :=
  match wt_loop with SSeq _ (SSeq _ (SSeq _ (SSeq (SFor _ _ b) _))) => b | _ => SPass end.
Definition wt_pre : stmt :=
  match wt_loop with SSeq a (SSeq b (SSeq c _)) => SSeq a (SSeq b c) | _ => SPass end.
Definition wt_post : stmt :=
  match wt_loop with SSeq _ (SSeq _ (SSeq _ (SSeq _ t))) => t | _ => SPass end.

Definition wtP (TS F : val) : list (string * val) :=
  [("transcripts", TS); ("trn", F); ("str", str_type); ("config", config_obj)].

Lemma x_step n' TS F evs (t : top) : (edepth (untimed t) <= n')%nat ->
  forall acc rest, lookup "line" rest = Some (tv acc) ->
  exists rest',
    exec (extB (S n')) wt_xbody (set_var "x" (enc_top t) (mkState (wtP TS F ++ rest) evs))
    = Ok CNormal (mkState (wtP TS F ++ rest') evs)
    /\ lookup "line" rest' = Some (tv (Some (tx acc ++ handle_x (untimed t))%list))
    /\ lookup "utt_id" rest' = lookup "utt_id" rest.
Proof.
  intros Hd acc rest Hl. unfold wt_xbody, wt_loop, src_write_trn, wtP.
  destruct t as [s|x s e]; cbn [enc_top untimed] in *.
  - (* a bare token: len(x) == 3 only for a three-character token, whose x[1] is a character *)
    step. rewrite map_length.
    match goal with |- context [(Z.of_nat (@List.length ?A s) =? 3)%Z] =>
      destruct (Z.of_nat (@List.length A s) =? 3)%Z eqn:E3 end.
    + destruct (len3 s E3) as (a & b & c & ->). step. rewrite Hl. step.
      rewrite (call_handle n' (Tok [a; b; c]) _ (handle_x_tie _) Hd). step.
      destruct acc as [w|]; cbn [tv tx]; step.
      * rewrite enc_str_app. eexists. split; [reflexivity|]. look. split; reflexivity.
      * eexists. split; [reflexivity|]. look. split; reflexivity.
    + step. rewrite Hl. step.
      rewrite (call_handle n' (Tok s) _ (handle_x_tie _) Hd). step.
      destruct acc as [w|]; cbn [tv tx]; step.
      * rewrite enc_str_app. eexists. split; [reflexivity|]. look. split; reflexivity.
      * eexists. split; [reflexivity|]. look. split; reflexivity.
  - (* (x, start, end): the times are dropped *)
    destruct x as [tk|brs]; destruct s, e; step; rewrite Hl; step.
    all: try (rewrite (call_handle n' (Tok tk) _ (handle_x_tie _) Hd)).
    all: try (rewrite (call_handle n' (Alt brs) _ (handle_x_tie _) Hd)).
    all: step; destruct acc as [w|]; cbn [tv tx]; step; rewrite ?enc_str_app.
    all: eexists; (split; [reflexivity|]); look; split; reflexivity.
Qed.

Lemma x_loop n' TS F evs : forall (tr : list top), Forall (fun t => (edepth (untimed t) <= n')%nat) tr ->
  forall acc rest, lookup "line" rest = Some (tv acc) ->
  exists rest',
    for_loop (extB (S n')) "x" wt_xbody (map enc_top tr) (mkState (wtP TS F ++ rest) evs)
    = Ok CNormal (mkState (wtP TS F ++ rest') evs)
    /\ lookup "line" rest' = Some (tv (match tr with [] => acc | _ :: _ => Some (tx acc ++ write_elems (map untimed tr))%list end))
    /\ lookup "utt_id" rest' = lookup "utt_id" rest.
Proof.
  induction tr as [|t tr IH]; intros Hd acc rest Hl.
  - exists rest. split; [reflexivity|]. split; [exact Hl|reflexivity].
  - inversion Hd as [|? ? Dt Hd']; subst. cbn [map for_loop].
    destruct (x_step n' TS F evs t Dt acc rest Hl) as (rest1 & Hx & Hl1 & Hu1). rewrite Hx. cbn [bind].
    destruct (IH Hd' _ _ Hl1) as (rest2 & Hf & Hl2 & Hu2). exists rest2. split; [exact Hf|]. split; [|congruence].
    rewrite Hl2. cbn [tx]. unfold write_elems. destruct tr as [|t' tr]; cbn [map]; rewrite ?concat_cons, ?concat_nil.
    + rewrite app_nil_r. reflexivity.
    + rewrite <- app_assoc. reflexivity.
Qed.

Lemma exec_seq_assoc ext a b c d st :
  exec ext (SSeq a (SSeq b (SSeq c d))) st = exec ext (SSeq (SSeq a (SSeq b c)) d) st.
Proof.
  cbn [exec]. destruct (exec ext a st) as [[|v] st1|n st1|w]; cbn [bind]; try reflexivity.
  destruct (exec ext b st1) as [[|v] st2|n st2|w]; cbn [bind]; try reflexivity.
  all: try (destruct (exec ext c st2) as [[|v] st3|n st3|w]; cbn [bind]; reflexivity).
Qed.

Lemma exec_wt_loop ext st :
  exec ext wt_loop st = exec ext (SSeq wt_pre (SSeq (SFor "x" (EName "transcript") wt_xbody) wt_post)) st.
Proof. exact (exec_seq_assoc ext _ _ _ _ st). Qed.

Definition trn_line_of (ut : str * list top) : str := write_trn_line (untimed_utt ut).

Lemma utt_step n' TS p evs (ut : str * list top) :
  Forall (fun t => (edepth (untimed t) <= n')%nat) (snd ut) ->
  forall c rest, exists rest',
    exec (extB (S n')) wt_loop (set_var "$t1" (enc_trn_utt ut) (mkState (wtP TS (mk_file p c) ++ rest) evs))
    = Ok CNormal (mkState (wtP TS (mk_file p (c ++ trn_line_of ut)%list) ++ rest') evs).
Proof.
  intros Hd c rest. destruct ut as [u tr]. cbn [snd] in Hd.
  rewrite exec_wt_loop, exec_seq.
  assert (H1 : exec (extB (S n')) wt_pre (set_var "$t1" (enc_trn_utt (u, tr)) (mkState (wtP TS (mk_file p c) ++ rest) evs))
               = Ok CNormal (mkState (wtP TS (mk_file p c) ++
                   update "line" (VStr "") (update "transcript" (VList (map enc_top tr))
                     (update "utt_id" (enc_str u) (update "$t1" (enc_trn_utt (u, tr)) rest)))) evs)).
  { unfold wt_pre, wt_loop, src_write_trn, wtP, enc_trn_utt. cbn [fst snd]. step; try reflexivity. }
  rewrite H1. cbn [bind]. rewrite exec_seq, exec_for.
  match goal with |- context [eval ?e (EName "transcript") ?s] =>
    assert (H2 : eval e (EName "transcript") s = Ok (VList (map enc_top tr)) s)
      by (unfold wtP; step; reflexivity); rewrite H2; clear H2 end.
  cbn [bind iter_items container_items].
  match goal with |- context [for_loop _ _ _ _ (mkState (_ ++ ?r) _)] =>
    destruct (x_loop n' TS (mk_file p c) evs tr Hd None r) as (rest1 & Hf & Hl & Hu); [look; reflexivity|] end.
  rewrite Hf. cbn [bind].
  rewrite lookup_update_neq, lookup_update_neq, lookup_update_eq in Hu by reflexivity.
  unfold wt_post, wt_loop, src_write_trn, wtP, mk_file. step. rewrite Hl. step. rewrite Hu. step.
  unfold trn_line_of, write_trn_line, untimed_utt, enc_str, mk_file. cbn [fst snd].
  match goal with |- context [tx ?m] =>
    replace (tx m) with (write_elems (map untimed tr)) by (destruct tr; reflexivity) end.
  eexists. step. rewrite <- !app_assoc. reflexivity.
Qed.

Lemma utt_loop n' TS p evs : forall (ts : list (str * list top)),
  Forall (fun ut => Forall (fun t => (edepth (untimed t) <= n')%nat) (snd ut)) ts ->
  forall c rest, exists rest',
    for_loop (extB (S n')) "$t1" wt_loop (map enc_trn_utt ts) (mkState (wtP TS (mk_file p c) ++ rest) evs)
    = Ok CNormal (mkState (wtP TS (mk_file p (c ++ write_trn_tops ts)%list) ++ rest') evs).
Proof.
  induction ts as [|ut ts IH]; intros Hd c rest.
  - exists rest. cbn [map for_loop]. unfold write_trn_tops, write_trn_file. cbn [map]. rewrite concat_nil, app_nil_r. reflexivity.
  - inversion Hd as [|? ? Du Hd']; subst. cbn [map for_loop].
    destruct (utt_step n' TS p evs ut Du c rest) as [rest1 Hx]. rewrite Hx. cbn [bind].
    destruct (IH Hd' (c ++ trn_line_of ut)%list rest1) as [rest2 Hl]. exists rest2. rewrite Hl.
    unfold write_trn_tops, write_trn_file, trn_line_of. cbn [map]. rewrite concat_cons, <- app_assoc. reflexivity.
Qed.

Lemma tdepth_le ts n' : (tdepth ts <= n')%nat ->
  Forall (fun ut : str * list top => Forall (fun t => (edepth (untimed t) <= n')%nat) (snd ut)) ts.
Proof.
  unfold tdepth. intros H. apply list_max_le in H. rewrite Forall_map in H.
  eapply Forall_impl; [|exact H]. intros ut Hu. cbn beta in Hu. apply list_max_le in Hu. rewrite Forall_map in Hu. exact Hu.
Qed.

(* write_trn on an open file (any path tag p, any text c already in it) *)
Theorem write_trn_open_tie ts n p c : (S (tdepth ts) <= n)%nat ->
  exists st, run_write_trn n (enc_trn_ts ts) (mk_file p c) = Ok VNone st
             /\ lookup "trn" (vars st) = Some (mk_file p (c ++ write_trn_tops ts)%list)
             /\ events st = [].
Proof.
  intros Hn. destruct n as [|n']; [lia|]. apply le_S_n in Hn.
  unfold run_write_trn, Interp.run.
  change src_write_trn with
    (SSeq (SIf (ECall "isinstance" [EName "trn"; EName "str"] [])
             (SWith (ECall "open" [EName "trn"; EConst (VStr "w")] []) "trn"
                (SReturn (ECall "write_trn" [EName "transcripts"; EName "trn"] []))) SPass)
       (SFor "$t1" (EName "transcripts") wt_loop)).
  rewrite exec_seq.
  match goal with |- context [exec ?e (SIf ?cc ?a ?b) ?s] =>
    assert (H0 : exec e (SIf cc a b) s = Ok CNormal s) by reflexivity; rewrite H0; clear H0 end.
  cbn [bind]. rewrite exec_for.
  match goal with |- context [eval ?e (EName "transcripts") ?s] =>
    assert (H0 : eval e (EName "transcripts") s = Ok (enc_trn_ts ts) s) by reflexivity; rewrite H0; clear H0 end.
  cbn [bind]. unfold enc_trn_ts at 1. cbn [iter_items container_items].
  destruct (utt_loop n' (enc_trn_ts ts) p [] ts (tdepth_le ts n' Hn) c []) as [rest' Hl].
  change ([("transcripts", enc_trn_ts ts); ("trn", mk_file p c)] ++ globalsB)%list with (wtP (enc_trn_ts ts) (mk_file p c) ++ [])%list.
  rewrite Hl. eexists. split; [reflexivity|]. split; reflexivity.
Qed.

Lemma call_write_trn n ts p c st : (S (tdepth ts) <= n)%nat ->
  call_file (extB n) src_write_trn src_write_trn_params src_write_trn_defaults "trn" [enc_trn_ts ts; mk_file p c] [] st
  = Ok VNone (mkState (vars st) (events st ++ [("$written", [mk_file p (c ++ write_trn_tops ts)%list])])).
Proof.
  intros Hn. destruct (write_trn_open_tie ts n p c Hn) as (st' & Hr & Hv & He).
  unfold call_file. cbn [bind_args src_write_trn_params option_map].
  unfold run_write_trn in Hr. cbn [app] in Hr |- *. rewrite Hr, Hv, He. reflexivity.
Qed.

(* write_trn given a path: open, re-call on the file object, close *)
Theorem write_trn_path_tie ts n (path : str) : (S (S (tdepth ts)) <= n)%nat ->
  exists st, run_write_trn n (enc_trn_ts ts) (enc_str path) = Ok VNone st
             /\ events st = [("$written", [mk_file (enc_str path) (write_trn_tops ts)])].
Proof.
  intros Hn. destruct n as [|n']; [lia|]. apply le_S_n in Hn.
  unfold run_write_trn, Interp.run, src_write_trn. step.
  rewrite (call_write_trn n' ts (VList (map enc_chr path)) [] _ Hn). step.
  eexists. split; reflexivity.
Qed.
