(* C01, prefix tie - the `for hyp_idx in range(1, max_hyp_steps + (0 if exclude_last else 1))` loop of `_string_matching` in
   the configuration of prefix_edit_distances (return_prf_dsts = True, return_mask = return_mistakes = False, either
   exclude_last): one execution of the body leaves Model.step_row (with that exclude_last) in every column of `row` AND
   writes row hyp_idx of `prefix_ers` = that row gathered at ref_lens; the loop iterates it.  Environment [ext01p g], for
   every content g of the uninitialised table.  Both loops: Gen.C01Src.sm_loop and the loop inside sm_body (TieBody.loop3). *)
From Coq Require Import ZArith QArith List String Bool Arith Lia ZifyBool ZifyNat.
From PV Require Import MiniPy.Syntax MiniPy.Interp MiniPy.Lemmas MiniTorch.Ops MiniTorch.Lemmas MiniTorch.OpsC07 MiniTorch.LemmasC07
  MiniTorch.OpsC01 MiniTorch.LemmasC01 MiniTorch.OpsC01P MiniTorch.LemmasC01P.
From PV Require Import Gen.C01Src C01.SrcRun C01.SrcRunP C01.TieLib C01.TieMath C01.TieLoop C01.TieBlocks C01.TieWhole C01.TieBody
  C01.TiePLib C01.TiePMath.
From PV Require C01.Model C01.Proofs.
Import ListNotations.
Local Open Scope string_scope.

#[local] Arguments dec01 : simpl never.
#[local] Arguments enc_b : simpl never.
#[local] Arguments enc_i : simpl never.
#[local] Arguments enc_x : simpl never.
#[local] Arguments tab2 : simpl never.
#[local] Arguments tab3 : simpl never.
#[local] Arguments qz : simpl never.
#[local] Arguments Z.add : simpl never.
#[local] Arguments Z.sub : simpl never.
#[local] Arguments Z.of_nat : simpl never.
#[local] Arguments select0 : simpl never.
#[local] Arguments slice0 : simpl never.
#[local] Arguments set_slice0 : simpl never.
#[local] Arguments broadcast : simpl never.
#[local] Arguments where_f : simpl never.
#[local] Arguments min_dim : simpl never.
#[local] Arguments gather0 : simpl never.
#[local] Arguments unsqueeze : simpl never.
#[local] Arguments squeeze_dim : simpl never.
#[local] Arguments expand2 : simpl never.
#[local] Arguments triu_f : simpl never.
#[local] Arguments transpose2 : simpl never.
#[local] Arguments arange_f : simpl never.
#[local] Arguments full : simpl never.
#[local] Arguments fadd : simpl never.
#[local] Arguments fsub : simpl never.
#[local] Arguments fmul : simpl never.
#[local] Arguments fdiv : simpl never.
#[local] Arguments fmin : simpl never.
#[local] Arguments b2f : simpl never.
#[local] Arguments z2f : simpl never.
#[local] Arguments empty2 : simpl never.
#[local] Arguments set_select0 : simpl never.
#[local] Arguments size_dim : simpl never.
#[local] Arguments expand_as2 : simpl never.
#[local] Arguments arange : simpl never.
#[local] Arguments ge_t : simpl never.
#[local] Arguments masked_fill : simpl never.
#[local] Arguments long_mul_float : simpl never.

#[local] Arguments ext01 : simpl never.
#[local] Arguments ext01p : simpl never.
#[local] Arguments ext01p_new : simpl never.
#[local] Arguments zf : simpl never.
#[local] Arguments ofx : simpl never.
#[local] Arguments argmin_3 : simpl never.
#[local] Arguments seq : simpl never.
#[local] Arguments fmin_list : simpl never.
#[local] Arguments zrange : simpl never.

(* the number of rows of the table: max_hyp_steps + (0 if exclude_last else 1) *)
Definition tsize (H : nat) (excl : bool) : nat := (H + (if excl then 0 else 1))%nat.

(* what the loop reads and preserves in the prefix configuration: the flags, the tensors of the preamble, the lengths, the
   current row and the table; [vmult vnorm vwarn vpad vbf] are carried along untouched for the epilogue *)
Definition body_pre_p (s : positive) (ci cd cs : Z) (R N H : nat) (rf hf : nat -> nat -> Z) (rl hl : nat -> nat) (excl : bool)
  (vmult vnorm vwarn vpad vbf : val) (lf : nat -> nat -> Z) (pf : nat -> nat -> fx) (st : state) : Prop :=
  lookup "exclude_last" (vars st) = Some (VBool excl) /\
  lookup "return_mistakes" (vars st) = Some (VBool false) /\
  lookup "return_mask" (vars st) = Some (VBool false) /\
  lookup "return_prf_dsts" (vars st) = Some (VBool true) /\
  lookup "hyp_lens" (vars st) = Some (lens_tensor N hl) /\
  lookup "ref" (vars st) = Some (enc_i (mkTn [R; N] (tab2 R N rf))) /\
  lookup "hyp" (vars st) = Some (enc_i (mkTn [H; N] (tab2 H N hf))) /\
  lookup "ins_cost" (vars st) = Some (VQ (qz s ci)) /\
  lookup "sub_cost" (vars st) = Some (VQ (qz s cs)) /\
  lookup "del_mat" (vars st) =
    Some (enc_x (mkTn [S R; S R; 1%nat] (tab2 (S R) (S R) (fun i j => ofx s (C01.Model.del_entry cd i j))))) /\
  lookup "ref_lens" (vars st) = Some (lens_tensor N rl) /\
  lookup "mult" (vars st) = Some vmult /\
  lookup "norm" (vars st) = Some vnorm /\
  lookup "warn" (vars st) = Some vwarn /\
  lookup "padding" (vars st) = Some vpad /\
  lookup "batch_first" (vars st) = Some vbf /\
  lookup "device" (vars st) = Some device_token /\
  lookup "row" (vars st) = Some (enc_x (mkTn [S R; N] (tab2 (S R) N (fun i n => zf s (lf i n))))) /\
  lookup "prefix_ers" (vars st) = Some (enc_x (mkTn [tsize H excl; N] (tab2 (tsize H excl) N pf))).

Lemma body_pre_p_ext s ci cd cs R N H rf hf rl hl excl vmult vnorm vwarn vpad vbf lf lf' pf pf' st :
  (forall i n, (i < S R)%nat -> (n < N)%nat -> lf i n = lf' i n) ->
  (forall i n, (i < tsize H excl)%nat -> (n < N)%nat -> pf i n = pf' i n) ->
  body_pre_p s ci cd cs R N H rf hf rl hl excl vmult vnorm vwarn vpad vbf lf pf st ->
  body_pre_p s ci cd cs R N H rf hf rl hl excl vmult vnorm vwarn vpad vbf lf' pf' st.
Proof.
  intros E1 E2 P. unfold body_pre_p in *.
  destruct P as (H1 & H2 & H3 & H4 & H5 & H6 & H7 & H8 & H9 & H10 & H11 & H12 & H13 & H14 & H15 & H16 & H17 & P & Q).
  repeat (split; [assumption|]). split.
  - rewrite P. do 3 f_equal. apply tab2_ext. intros i n Hi Hn. now rewrite E1.
  - rewrite Q. do 3 f_equal. apply tab2_ext. intros i n Hi Hn. now apply E2.
Qed.

Section BodyP.
  Variable g : nat -> fx.
  Variables (s : positive) (ci cd cs : Z) (R N H : nat) (rf hf : nat -> nat -> Z) (rl hl : nat -> nat) (excl : bool).
  Variables (vmult vnorm vwarn vpad vbf : val).
  Hypothesis Hrl : forall n, (n < N)%nat -> (rl n <= R)%nat.

  Notation E := (ext01p g).
  Notation pre := (body_pre_p s ci cd cs R N H rf hf rl hl excl vmult vnorm vwarn vpad vbf).
  Notation T := (tsize H excl).

  (* one column after one step *)
  Definition step_col_x (k : nat) (lf : nat -> nat -> Z) (n : nat) : list Z :=
    C01.Model.step_row ci cd cs (colf R rf n) (colf H hf n) (hl n) excl k (colf (S R) lf n).

  (* the table after the step: row k holds the new row gathered at ref_lens *)
  Definition step_tab (k : nat) (lf : nat -> nat -> Z) (pf : nat -> nat -> fx) : nat -> nat -> fx :=
    fun i n => if (i =? k)%nat then zf s (nth (rl n) (step_col_x k lf n) 0%Z) else pf i n.

  (* the symbolic run of the loop body, shared by the body of sm_loop and the body of the loop inside sm_body *)
  Ltac body_script_p k Hk HkT :=
    push_state;
    passign_v (enc_b (mkTn [N] (map (fun n => (Z.of_nat k - (if excl then 0 else 1) <? Z.of_nat (hl n))%Z) (seq 0 N))))
      ltac:(destruct excl; pevn; reflexivity);
    pasg; pasg;
    passign ltac:(pev; replace (Z.of_nat k - 1)%Z with (Z.of_nat (k - 1)) by lia; rewrite select0_mat by lia; pevn; reflexivity);
    pasg; pasg;
    pifstep; rewrite gexec_seq_assoc;
    psetitem; rewrite !gexec_seq_assoc;
    passign ltac:(pevn; rewrite min_dim_3 by lia; reflexivity);
    rewrite !gexec_seq_assoc; pasg; pasg; pasg; pifstep; pifstep; pifstep;
    psetitem_t ltac:(repeat (progress (pevn; rewrite ?gather0_row by (intros j Hj; specialize (Hrl j Hj); lia);
                                       rewrite ?set_select0_row by exact HkT)); reflexivity);
    apply runs_to_ok; unfold body_pre_p; repeat (split; [assumption|]); split;
    [ match goal with L : lookup "row" _ = _ |- _ => rewrite L end;
      do 3 f_equal; apply tab2_ext; intros ? ? ? ?;
      match goal with
      | Hi0 : (?i0 < S R)%nat
        |- context [zf s (nth ?i0 (C01.Model.step_row ci cd cs (colf R rf ?n0) (colf H hf ?n0) (hl ?n0) excl k (colf _ ?lf0 ?n0)) _)] =>
          apply (step_entry_src_x ci cd cs R H (fun j => rf j n0) (fun t => hf t n0) (fun i1 => lf0 i1 n0) (hl n0) k Hk excl s i0 Hi0)
      end
    | match goal with L : lookup "prefix_ers" _ = _ |- _ => rewrite L end;
      do 3 f_equal; apply tab2_ext; intros ? ? ? ?; unfold step_tab, step_col_x;
      match goal with |- context [(?i0 =? k)%nat] => destruct (i0 =? k)%nat; [|reflexivity] end;
      match goal with
      | Hn0 : (?n0 < N)%nat
        |- context [zf s (nth (rl ?n0) (C01.Model.step_row ci cd cs (colf R rf ?n0) (colf H hf ?n0) (hl ?n0) excl k (colf _ ?lf0 ?n0)) _)] =>
          apply (step_entry_src_x ci cd cs R H (fun j => rf j n0) (fun t => hf t n0) (fun i1 => lf0 i1 n0) (hl n0) k Hk excl s (rl n0));
          specialize (Hrl n0 Hn0); lia
      end ].

  Theorem body_run_p : forall st k lf pf, (1 <= k <= H)%nat -> (k < T)%nat -> pre lf pf st ->
    runs_to (pre (fun i n => nth i (step_col_x k lf n) 0%Z) (step_tab k lf pf))
            (exec E loop_body (set_var "hyp_idx" (VInt (Z.of_nat k)) st)).
  Proof.
    intros st k lf pf Hk HkT (Hexcl & Hmist & Hmask & Hprf & Hhl & Href & Hhyp & Hci & Hcs & Hdm & Hrl' & Hmu & Hno & Hwa & Hpad & Hbf &
                              Hdev & Hrow & Hpe).
    unfold lens_tensor in *. unfold loop_body, sm_loop. cbv iota. unfold step_col_x. body_script_p k Hk HkT.
  Qed.

  Theorem body_run_p3 : forall st k lf pf, (1 <= k <= H)%nat -> (k < T)%nat -> pre lf pf st ->
    runs_to (pre (fun i n => nth i (step_col_x k lf n) 0%Z) (step_tab k lf pf))
            (exec E body3 (set_var "hyp_idx" (VInt (Z.of_nat k)) st)).
  Proof.
    intros st k lf pf Hk HkT (Hexcl & Hmist & Hmask & Hprf & Hhl & Href & Hhyp & Hci & Hcs & Hdm & Hrl' & Hmu & Hno & Hwa & Hpad & Hbf &
                              Hdev & Hrow & Hpe).
    unfold lens_tensor in *. unfold body3, loop3, sm_body. cbn [seq_drop]. cbv iota. unfold step_col_x. body_script_p k Hk HkT.
  Qed.

  (* ---- the loop: range(1, H + (0 if exclude_last else 1)) ---------------------------------------------------------- *)
  Definition iter_col_x (m a : nat) (lf : nat -> nat -> Z) (n : nat) : list Z :=
    iter_rows_x ci cd cs (colf R rf n) (colf H hf n) (hl n) excl m (S a) (colf (S R) lf n).

  (* the table after the steps a+1 .. a+m *)
  Definition iter_tab (m a : nat) (lf : nat -> nat -> Z) (pf : nat -> nat -> fx) : nat -> nat -> fx :=
    fun i n => if ((a <? i) && (i <=? a + m))%nat then zf s (nth (rl n) (iter_col_x (i - a) a lf n) 0%Z) else pf i n.

  Lemma step_col_x_length k lf n : (1 <= k <= H)%nat -> List.length (step_col_x k lf n) = S R.
  Proof. intros Hk. unfold step_col_x, colf. now apply step_row_length_x. Qed.

  Lemma colf_step k lf n : (1 <= k <= H)%nat ->
    colf (S R) (fun i n0 => nth i (step_col_x k lf n0) 0%Z) n = step_col_x k lf n.
  Proof.
    intros Hk. unfold colf.
    transitivity (map (fun i0 => nth i0 (step_col_x k lf n) 0%Z) (seq 0 (List.length (step_col_x k lf n)))).
    - rewrite step_col_x_length by exact Hk. reflexivity.
    - apply Proofs.map_nth_seq.
  Qed.

  Section AnyBody.
    Variable bd : stmt.
    Hypothesis Hbd : forall st k lf pf, (1 <= k <= H)%nat -> (k < T)%nat -> pre lf pf st ->
      runs_to (pre (fun i n => nth i (step_col_x k lf n) 0%Z) (step_tab k lf pf))
              (exec E bd (set_var "hyp_idx" (VInt (Z.of_nat k)) st)).

    Lemma loop_run_gen_p : forall m a lf pf st, (a + m <= H)%nat -> (a + m < T)%nat -> pre lf pf st ->
      runs_to (pre (fun i n => nth i (iter_col_x m a lf n) 0%Z) (iter_tab m a lf pf))
              (for_loop E "hyp_idx" bd (map (fun i => VInt (1 + Z.of_nat i)) (seq a m)) st).
    Proof.
      induction m as [|m IH]; intros a lf pf st Ham HamT P.
      - apply runs_to_ok. eapply body_pre_p_ext; [| |exact P].
        + intros i n Hi Hn. cbv beta. unfold iter_col_x, iter_rows_x, colf. rewrite Proofs.nth_map_seq by exact Hi. reflexivity.
        + intros i n Hi Hn. unfold iter_tab. replace ((a <? i) && (i <=? a + 0))%nat with false by lia. reflexivity.
      - rewrite <- cons_seq. cbn [map for_loop].
        replace (1 + Z.of_nat a)%Z with (Z.of_nat (S a)) by lia.
        destruct (Hbd st (S a) lf pf ltac:(lia) ltac:(lia) P) as [st1 [He P1]]. rewrite He. cbn [bind].
        destruct (IH (S a) _ _ st1 ltac:(lia) ltac:(lia) P1) as [st2 [He2 P2]]. exists st2. split; [exact He2|].
        assert (Hcol : forall j n, iter_col_x j (S a) (fun i n0 => nth i (step_col_x (S a) lf n0) 0%Z) n = iter_col_x (S j) a lf n).
        { intros j n. unfold iter_col_x. cbn [iter_rows_x]. f_equal. apply colf_step. lia. }
        eapply body_pre_p_ext; [| |exact P2].
        + intros i n Hi Hn. cbv beta. f_equal. apply Hcol.
        + intros i n Hi Hn. unfold iter_tab, step_tab.
          destruct ((S a <? i) && (i <=? S a + m))%nat eqn:C1.
          * replace ((a <? i) && (i <=? a + S m))%nat with true by lia. rewrite Hcol. do 3 f_equal. lia.
          * destruct (i =? S a)%nat eqn:C2.
            -- replace ((a <? i) && (i <=? a + S m))%nat with true by lia.
               replace (i - a)%nat with 1%nat by lia. reflexivity.
            -- replace ((a <? i) && (i <=? a + S m))%nat with false by lia. reflexivity.
    Qed.

    Lemma zrange_1_x : zrange 1 (Z.of_nat H + (if excl then 0 else 1)) = map (fun i => VInt (1 + Z.of_nat i)) (seq 0 (T - 1)).
    Proof.
      unfold zrange, tsize. replace (Z.to_nat (Z.of_nat H + (if excl then 0 else 1) - 1)) with (H + (if excl then 0 else 1) - 1)%nat
        by (destruct excl; lia). reflexivity.
    Qed.

    Theorem loop_tie_gen_p : forall st lf pf, pre lf pf st -> lookup "max_hyp_steps" (vars st) = Some (VInt (Z.of_nat H)) ->
      (0 < T)%nat ->
      runs_to (pre (fun i n => nth i (iter_col_x (T - 1) 0 lf n) 0%Z) (iter_tab (T - 1) 0 lf pf))
              (exec E (SFor "hyp_idx" loop_iter bd) st).
    Proof.
      intros st lf pf P Hmax HT. rewrite exec_for.
      assert (Hexcl : lookup "exclude_last" (vars st) = Some (VBool excl)) by apply P.
      assert (Hit : eval E loop_iter st = Ok (VList (zrange 1 (Z.of_nat H + (if excl then 0 else 1)))) st).
      { unfold loop_iter, sm_loop. cbv iota. destruct excl; pev; reflexivity. }
      rewrite Hit. cbn [bind iter_items container_items]. rewrite zrange_1_x.
      apply loop_run_gen_p; [unfold tsize; destruct excl; lia|lia|exact P].
    Qed.
  End AnyBody.

  Theorem loop_tie_p : forall st lf pf, pre lf pf st -> lookup "max_hyp_steps" (vars st) = Some (VInt (Z.of_nat H)) ->
    (0 < T)%nat ->
    runs_to (pre (fun i n => nth i (iter_col_x (T - 1) 0 lf n) 0%Z) (iter_tab (T - 1) 0 lf pf)) (exec E sm_loop st).
  Proof. rewrite sm_loop_eq. exact (loop_tie_gen_p loop_body body_run_p). Qed.

  Theorem loop_tie_p3 : forall st lf pf, pre lf pf st -> lookup "max_hyp_steps" (vars st) = Some (VInt (Z.of_nat H)) ->
    (0 < T)%nat ->
    runs_to (pre (fun i n => nth i (iter_col_x (T - 1) 0 lf n) 0%Z) (iter_tab (T - 1) 0 lf pf)) (exec E loop3 st).
  Proof. rewrite loop3_eq. exact (loop_tie_gen_p body3 body_run_p3). Qed.
End BodyP.
