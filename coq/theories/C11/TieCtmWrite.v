(* C11 source tie - write_ctm (open-file branch): interpreting the regenerated source term PV.Gen.C11Src.src_write_ctm
   writes exactly the lines of Model.write_ctm_file, in the same order, and raises KeyError / ValueError exactly when the
   model does - for every list of transcripts, utt2wc a dict or a channel string.
   Inner loop = map_res of the model's per-token function, outer loop = map_res ctm_segments_of (invariants over
   MiniPy.Lemmas.for_loop), sorted(segments) = ext "$sorted" = Model.sort_by seg_leb ([sorted_tie]: Python's tuple / str
   ordering [SrcRun.val_cmp] on the encoded segments is Model.seg_cmp), the writing loop appends one line per segment. *)
From Coq Require Import ZArith QArith List String Ascii Bool Lia.
From PV Require C11.ProofsCtm.
From PV Require Import C11.Model MiniPy.Syntax MiniPy.Interp MiniPy.Lemmas Gen.C11Src C11.SrcRun C11.TieBase.
Import ListNotations.
Local Open Scope string_scope.

#[local] Arguments Qred : simpl never.
#[local] Arguments Qplus : simpl never.
#[local] Arguments Qminus : simpl never.
#[local] Arguments Qcompare : simpl never.
#[local] Arguments inject_Z : simpl never.
#[local] Arguments str_eqb : simpl never.

Ltac norm := repeat (cbn; match goal with |- context [Pos.to_nat ?p] =>
  let v := eval compute in (Pos.to_nat p) in change (Pos.to_nat p) with v end); cbn.

Lemma ltb_match a b : match (a ?= b)%Z with Datatypes.Lt => true | _ => false end = (a <? b)%Z.
Proof. reflexivity. Qed.
Ltac qz := change (0#1) with (inject_Z 0); rewrite ?Qred_inject_sub, ?Qcompare_inject, ?ltb_match.

(* ---- the ordering of encoded segments ------------------------------------------------------------------------------ *)
Definition enc_segt (x : seg) : val :=
  let '(w, c, s, d, t) := x in VTuple [enc_str w; enc_str c; qz s; qz d; enc_str t].

Lemma val_cmp_str a : forall b, val_cmp (enc_str a) (enc_str b) = Some (str_cmp a b).
Proof.
  unfold enc_str. induction a as [|x a IH]; intros [|y b]; try reflexivity.
  specialize (IH b). cbn in IH |- *.
  destruct (x ?= y)%Z; cbn [lexc]; try reflexivity. exact IH.
Qed.

Lemma val_cmp_qz a b : val_cmp (qz a) (qz b) = Some (a ?= b)%Z.
Proof. unfold qz. cbn [val_cmp]. rewrite Qcompare_inject. reflexivity. Qed.

Lemma val_cmp_seg a b : val_cmp (enc_segt a) (enc_segt b) = Some (seg_cmp a b).
Proof.
  destruct a as [[[[w c] s] d] t], b as [[[[w' c'] s'] d'] t'].
  unfold seg_cmp, wc_cmp, pair_cmp, enc_segt. cbn [fst snd].
  cbn [val_cmp]. rewrite (val_cmp_str w w').
  destruct (str_cmp w w'); cbn [lexc]; try reflexivity.
  rewrite (val_cmp_str c c'). destruct (str_cmp c c'); cbn [lexc]; try reflexivity.
  rewrite val_cmp_qz. destruct (s ?= s')%Z; cbn [lexc]; try reflexivity.
  rewrite val_cmp_qz. destruct (d ?= d')%Z; cbn [lexc]; try reflexivity.
  rewrite (val_cmp_str t t'). destruct (str_cmp t t'); reflexivity.
Qed.

Definition dup (x : seg) : val * val := (enc_segt x, enc_segt x).

Lemma insert_kv_tie x (l : list seg) : insert_kv (dup x) (map dup l) = Some (map dup (insert_by seg_leb x l)).
Proof.
  induction l as [|y t IH]; [reflexivity|].
  cbn [map insert_kv insert_by]. unfold dup at 1 2. cbn [fst]. rewrite val_cmp_seg.
  unfold seg_leb, leb_of. destruct (seg_cmp y x); try (rewrite IH; reflexivity). reflexivity.
Qed.

Lemma sort_kv_tie (l : list seg) : sort_kv (map dup l) = Some (map dup (sort_by seg_leb l)).
Proof.
  unfold sort_kv, sort_by.
  assert (H : forall acc, fold_left (fun a e => match a with Some a0 => insert_kv e a0 | None => None end)
                            (map dup l) (Some (map dup acc))
                          = Some (map dup (fold_left (fun a x => insert_by seg_leb x a) l acc))).
  { induction l as [|x l IH]; intros acc; [reflexivity|].
    cbn [map fold_left]. rewrite insert_kv_tie. apply IH. }
  exact (H []).
Qed.

Lemma combine_dup (l : list seg) : combine (map enc_segt l) (map enc_segt l) = map dup l.
Proof. induction l as [|x l IH]; [reflexivity|]. cbn [map combine]. rewrite IH. reflexivity. Qed.

(* MiniPy's own sort knows numbers only: on two or more tuples it has no answer *)
Lemma sort_keyed_tuples (l : list seg) : (2 <= List.length l)%nat -> sort_keyed_aux (map dup l) = None.
Proof.
  induction l as [|x [|y l] IH]; cbn [List.length]; intros H; try lia.
  cbn [map sort_keyed_aux] in IH |- *.
  destruct l as [|z l].
  - cbn. destruct y as [[[[w c] s] d] t], x as [[[[w' c'] s'] d'] t']. reflexivity.
  - rewrite IH by (cbn [List.length]; lia). reflexivity.
Qed.

(* ---- the statements of the block ------------------------------------------------------------------------------------ *)
Definition outer_body : stmt :=
  match src_write_ctm with SSeq _ (SSeq _ (SSeq (SFor _ _ b) _)) => b | _ => SPass end.
Definition inner_body : stmt :=
  match outer_body with SSeq _ (SSeq _ (SSeq _ (SFor _ _ b))) => b | _ => SPass end.
Definition outer_pre : stmt :=
  match outer_body with SSeq a (SSeq b (SSeq t _)) => SSeq a (SSeq b t) | _ => SPass end.
Definition tail_stmt : stmt :=
  match src_write_ctm with SSeq _ (SSeq _ (SSeq _ t)) => t | _ => SPass end.
Definition write_body : stmt :=
  match tail_stmt with SSeq _ (SFor _ _ b) => b | _ => SPass end.

Definition wbase (TS F M : val) (b : bool) (S : list seg) : list (string * val) :=
  [("transcripts", TS); ("ctm", F); ("utt2wc", M); ("str", str_type); ("is_dict", VBool b);
   ("segments", VList (map enc_segt S))].
Definition otemps (o1 o2 o3 o4 o5 o6 : val) : list (string * val) :=
  [("$t3", o1); ("utt_id", o2); ("transcript", o3); ("$t1", o4); ("wfn", o5); ("chan", o6)].
Definition itemps (i1 i2 i3 i4 i5 i6 : val) : list (string * val) :=
  [("tup", i1); ("$t2", i2); ("token", i3); ("start", i4); ("end", i5); ("duration", i6)].

Definition ishape (r : list (string * val)) : Prop :=
  r = [] \/ exists i1 i2 i3 i4 i5 i6, r = itemps i1 i2 i3 i4 i5 i6.
Definition oshape (r : list (string * val)) : Prop :=
  r = [] \/ exists o1 o2 o3 o4 o5 o6 ir, ishape ir /\ r = (otemps o1 o2 o3 o4 o5 o6 ++ ir)%list.

(* the model's per-token function (the body of ctm_segments_of's map_res) *)
Definition tokf (w c : str) (tup : str * option (Z * Z)) : res seg :=
  match snd tup with
  | None => Raise ValueError
  | Some (s, e) =>
      if ((s <? 0) || (e <? 0))%Z then Raise ValueError
      else if (e - s <? 0)%Z then Raise ValueError
      else Model.Ok (w, c, s, (e - s)%Z, fst tup)
  end.

Lemma segs_snoc S x : VList (map enc_segt S ++ [enc_segt x]) = VList (map enc_segt (S ++ [x])).
Proof. rewrite map_app. reflexivity. Qed.

Lemma inner_step_tie TS F M b w c o1 o2 o3 o4 x S ir evs : ishape ir ->
  let st := set_var "tup" (enc_wtok x)
              (mkState (wbase TS F M b S ++ otemps o1 o2 o3 o4 (enc_str w) (enc_str c) ++ ir) evs) in
  match tokf w c x with
  | Model.Ok sg => exists ir', ishape ir' /\
      exec ext11 inner_body st
      = Ok CNormal (mkState (wbase TS F M b (S ++ [sg]) ++ otemps o1 o2 o3 o4 (enc_str w) (enc_str c) ++ ir') evs)
  | Model.Raise e => exists st', exec ext11 inner_body st = Exc (exn_name e) st'
  end.
Proof.
  intros Hs. cbv zeta. destruct x as [tok [[s e]|]]; unfold tokf, enc_wtok; cbn [fst snd].
  - unfold inner_body, outer_body, src_write_ctm, wbase, otemps.
    destruct Hs as [->|(i1&i2&i3&i4&i5&i6&->)]; unfold itemps.
    all: norm; qz; destruct (s <? 0)%Z eqn:E1; norm; [eexists; reflexivity|].
    all: qz; destruct (e <? 0)%Z eqn:E2; norm; [eexists; reflexivity|].
    all: qz; destruct (e - s <? 0)%Z eqn:E3; norm; [eexists; reflexivity|].
    all: match goal with |- context [VTuple [enc_str ?w0; enc_str ?c0; qz ?s0; VQ (inject_Z ?d0); enc_str ?t0]] =>
           change (VTuple [enc_str w0; enc_str c0; qz s0; VQ (inject_Z d0); enc_str t0])
             with (enc_segt (w0, c0, s0, d0, t0)) end;
         rewrite segs_snoc.
    all: eexists; (split; [|reflexivity]); right; unfold itemps; do 6 eexists; reflexivity.
  - unfold inner_body, outer_body, src_write_ctm, wbase, otemps.
    destruct Hs as [->|(i1&i2&i3&i4&i5&i6&->)]; unfold itemps.
    all: norm; eexists; reflexivity.
Qed.

Lemma inner_loop_tie TS F M b w c o1 o2 o3 o4 : forall tr S ir evs, ishape ir ->
  let st := mkState (wbase TS F M b S ++ otemps o1 o2 o3 o4 (enc_str w) (enc_str c) ++ ir) evs in
  match map_res (tokf w c) tr with
  | Model.Ok sgs => exists ir', ishape ir' /\
      for_loop ext11 "tup" inner_body (map enc_wtok tr) st
      = Ok CNormal (mkState (wbase TS F M b (S ++ sgs) ++ otemps o1 o2 o3 o4 (enc_str w) (enc_str c) ++ ir') evs)
  | Model.Raise e => exists st', for_loop ext11 "tup" inner_body (map enc_wtok tr) st = Exc (exn_name e) st'
  end.
Proof.
  induction tr as [|x tr IH]; intros S ir evs Hs; cbv zeta.
  - cbn [map_res map for_loop]. exists ir. rewrite app_nil_r. split; [exact Hs|reflexivity].
  - cbn [map_res map for_loop].
    pose proof (inner_step_tie TS F M b w c o1 o2 o3 o4 x S ir evs Hs) as Hstep. cbv zeta in Hstep.
    destruct (tokf w c x) as [sg|e].
    + destruct Hstep as [ir1 [Hs1 Hx]]. rewrite Hx. cbn [bind].
      specialize (IH (S ++ [sg])%list ir1 evs Hs1). cbv zeta in IH.
      destruct (map_res (tokf w c) tr) as [sgs|e].
      * destruct IH as [ir2 [Hs2 Hy]]. exists ir2. split; [exact Hs2|].
        rewrite Hy. rewrite <- app_assoc. reflexivity.
      * exact IH.
    + destruct Hstep as [st' Hx]. rewrite Hx. exists st'. reflexivity.
Qed.

(* ---- one utterance --------------------------------------------------------------------------------------------------- *)
Lemma exec_seq3 ext a b t f st :
  exec ext (SSeq a (SSeq b (SSeq t f))) st =
  bind (exec ext (SSeq a (SSeq b t)) st) (fun c st1 => match c with CNormal => exec ext f st1 | CReturn v => Ok c st1 end).
Proof.
  cbn [exec]. destruct (exec ext a st) as [[|v] st1|n st1|w]; cbn [bind]; try reflexivity.
  destruct (exec ext b st1) as [[|v] st2|n st2|w]; cbn [bind]; try reflexivity.
Qed.

Definition is_dict_of (m : utt2wc_t) : bool := match m with inl _ => true | inr _ => false end.

Lemma u2w_get u (d : list (str * (str * str))) :
  dict_get (map (fun kv => (enc_str (fst kv), VTuple [enc_str (fst (snd kv)); enc_str (snd (snd kv))])) d) (enc_str u)
  = option_map (fun wc : str * str => VTuple [enc_str (fst wc); enc_str (snd wc)]) (assoc str_eqb u d).
Proof.
  exact (al_get str_eqb enc_str (fun wc : str * str => VTuple [enc_str (fst wc); enc_str (snd wc)])
           (fun a b => val_eqb_enc_str a b) u d).
Qed.

Definition key_res (m : utt2wc_t) (utt : str) : res (str * str) :=
  match m with
  | inl d => match assoc str_eqb utt d with Some wc => Model.Ok wc | None => Raise KeyError end
  | inr ch => Model.Ok (utt, ch)
  end.

Lemma pre_tie TS F m utt tr S orest evs : oshape orest ->
  let st := set_var "$t3" (enc_wutt (utt, tr))
              (mkState (wbase TS F (enc_utt2wc m) (is_dict_of m) S ++ orest) evs) in
  match key_res m utt with
  | Model.Ok (w, c) => exists o1 o2 o3 o4 ir, ishape ir /\
      exec ext11 outer_pre st
      = Ok CNormal (mkState (wbase TS F (enc_utt2wc m) (is_dict_of m) S
                             ++ otemps o1 o2 o3 o4 (enc_str w) (enc_str c) ++ ir) evs)
      /\ o3 = VList (map enc_wtok tr)
  | Model.Raise e => exists st', exec ext11 outer_pre st = Exc (exn_name e) st'
  end.
Proof.
  intros Hs. cbv zeta. unfold key_res, enc_wutt. cbn [fst snd].
  unfold outer_pre, outer_body, src_write_ctm, wbase.
  destruct m as [d|ch]; unfold enc_utt2wc, is_dict_of.
  - destruct Hs as [->|(o1&o2&o3&o4&o5&o6&ir&Hi&->)]; unfold otemps.
    + norm. rewrite u2w_get. destruct (assoc str_eqb utt d) as [[w c]|]; norm; [|eexists; reflexivity].
      do 4 eexists. exists []. split; [left; reflexivity|]. split; reflexivity.
    + norm. rewrite u2w_get. destruct (assoc str_eqb utt d) as [[w c]|]; norm; [|eexists; reflexivity].
      do 4 eexists. exists ir. split; [exact Hi|]. split; reflexivity.
  - destruct Hs as [->|(o1&o2&o3&o4&o5&o6&ir&Hi&->)]; unfold otemps.
    + norm. do 4 eexists. exists []. split; [left; reflexivity|]. split; reflexivity.
    + norm. do 4 eexists. exists ir. split; [exact Hi|]. split; reflexivity.
Qed.

Lemma exec_outer st :
  exec ext11 outer_body st =
  bind (exec ext11 outer_pre st) (fun c st1 =>
    match c with CNormal => exec ext11 (SFor "tup" (EName "transcript") inner_body) st1 | CReturn v => Ok c st1 end).
Proof. exact (exec_seq3 ext11 _ _ _ _ st). Qed.

Lemma segs_of_eq m utt tr :
  ctm_segments_of m (utt, tr) =
  match key_res m utt with Model.Raise e => Model.Raise e | Model.Ok (w, c) => map_res (tokf w c) tr end.
Proof. destruct m as [d|ch]; cbn; [destruct (assoc str_eqb utt d) as [[w c]|]|]; reflexivity. Qed.

Lemma outer_step_tie TS F m ut S orest evs : oshape orest ->
  let st := set_var "$t3" (enc_wutt ut) (mkState (wbase TS F (enc_utt2wc m) (is_dict_of m) S ++ orest) evs) in
  match ctm_segments_of m ut with
  | Model.Ok sgs => exists orest', oshape orest' /\
      exec ext11 outer_body st
      = Ok CNormal (mkState (wbase TS F (enc_utt2wc m) (is_dict_of m) (S ++ sgs) ++ orest') evs)
  | Model.Raise e => exists st', exec ext11 outer_body st = Exc (exn_name e) st'
  end.
Proof.
  intros Hs. destruct ut as [utt tr]. cbv zeta. rewrite segs_of_eq, exec_outer.
  pose proof (pre_tie TS F m utt tr S orest evs Hs) as Hpre. cbv zeta in Hpre.
  destruct (key_res m utt) as [[w c]|e].
  - destruct Hpre as (o1&o2&o3&o4&ir&Hi&Hx&->). rewrite Hx. cbn [bind]. rewrite exec_for.
    match goal with |- context [eval ext11 (EName "transcript") ?s] =>
      change (eval ext11 (EName "transcript") s) with (Ok (VList (map enc_wtok tr)) s) end.
    cbn [bind iter_items container_items].
    pose proof (inner_loop_tie TS F (enc_utt2wc m) (is_dict_of m) w c o1 o2 (VList (map enc_wtok tr)) o4 tr S ir evs Hi) as Hl.
    cbv zeta in Hl.
    destruct (map_res (tokf w c) tr) as [sgs|e].
    + destruct Hl as [ir' [Hi' Hy]]. rewrite Hy. eexists. split; [|reflexivity].
      right. do 6 eexists. exists ir'. split; [exact Hi'|reflexivity].
    + destruct Hl as [st' Hy]. rewrite Hy. exists st'. reflexivity.
  - destruct Hpre as [st' Hx]. rewrite Hx. exists st'. reflexivity.
Qed.

Lemma outer_loop_tie TS F m : forall ts S orest evs, oshape orest ->
  let st := mkState (wbase TS F (enc_utt2wc m) (is_dict_of m) S ++ orest) evs in
  match map_res (ctm_segments_of m) ts with
  | Model.Ok sgss => exists orest', oshape orest' /\
      for_loop ext11 "$t3" outer_body (map enc_wutt ts) st
      = Ok CNormal (mkState (wbase TS F (enc_utt2wc m) (is_dict_of m) (S ++ List.concat sgss) ++ orest') evs)
  | Model.Raise e => exists st', for_loop ext11 "$t3" outer_body (map enc_wutt ts) st = Exc (exn_name e) st'
  end.
Proof.
  induction ts as [|ut ts IH]; intros S orest evs Hs; cbv zeta.
  - cbn [map_res map for_loop List.concat]. exists orest. rewrite app_nil_r. split; [exact Hs|reflexivity].
  - cbn [map_res map for_loop].
    pose proof (outer_step_tie TS F m ut S orest evs Hs) as Hstep. cbv zeta in Hstep.
    destruct (ctm_segments_of m ut) as [sgs|e].
    + destruct Hstep as [or1 [Hs1 Hx]]. rewrite Hx. cbn [bind].
      specialize (IH (S ++ sgs)%list or1 evs Hs1). cbv zeta in IH.
      destruct (map_res (ctm_segments_of m) ts) as [sgss|e].
      * destruct IH as [or2 [Hs2 Hy]]. exists or2. split; [exact Hs2|].
        rewrite Hy. cbn [List.concat]. rewrite <- app_assoc. reflexivity.
      * exact IH.
    + destruct Hstep as [st' Hx]. rewrite Hx. exists st'. reflexivity.
Qed.

(* ---- segments = sorted(segments) --------------------------------------------------------------------------------------- *)
Definition keys_state (items : list val) (st : state) : state := fold_left (fun s i => set_var "$k" i s) items st.

Lemma keys_self items : forall st,
  sorted_keys ext11 "$k" (EName "$k") items st = Ok (map (fun i => (i, i)) items) (keys_state items st).
Proof.
  induction items as [|i r IH]; intros st; [reflexivity|].
  cbn [sorted_keys map keys_state fold_left]. cbn [eval set_var vars]. rewrite lookup_update_eq. cbn [bind].
  change (mkState (update "$k" i (vars st)) (events st)) with (set_var "$k" i st).
  rewrite IH. reflexivity.
Qed.

Lemma lookup_keys_state y items : forall st, String.eqb y "$k" = false ->
  lookup y (vars (keys_state items st)) = lookup y (vars st).
Proof.
  induction items as [|i r IH]; intros st Hy; [reflexivity|].
  cbn [keys_state fold_left]. fold (keys_state r (set_var "$k" i st)). rewrite IH by exact Hy.
  cbn [set_var vars]. apply lookup_update_neq. exact Hy.
Qed.

Lemma eval_name ext x st v : lookup x (vars st) = Some v -> eval ext (EName x) st = Ok v st.
Proof. intros H. cbn [eval]. rewrite H. reflexivity. Qed.

Lemma ext_sorted items st :
  ext11 "$sorted" [VList items; VList items] [] st =
  match sort_kv (combine items items) with
  | Some s => Ok (VList (map snd s)) st
  | None => Stuck "C11: sorted: keys without an order"
  end.
Proof. reflexivity. Qed.

Lemma sorted_tie (S : list seg) st : lookup "segments" (vars st) = Some (VList (map enc_segt S)) ->
  eval ext11 (ESorted (EName "segments") "$k" (EName "$k")) st
  = Ok (VList (map enc_segt (sort_by seg_leb S))) (keys_state (map enc_segt S) st).
Proof.
  intros H. rewrite eval_sorted, (eval_name ext11 "segments" st _ H). cbn [bind container_items].
  rewrite keys_self. cbn [bind]. rewrite map_map. change (fun x : seg => (enc_segt x, enc_segt x)) with dup.
  destruct S as [|x [|y S]]; [reflexivity|reflexivity|].
  unfold sort_keyed. rewrite sort_keyed_tuples by (cbn [List.length]; lia). cbn [option_map].
  rewrite !map_map. cbn [dup fst snd]. change (fun x : seg => enc_segt x) with enc_segt.
  rewrite ext_sorted, combine_dup, sort_kv_tie, map_map. reflexivity.
Qed.

(* ---- for segment in segments: ctm.write(...) --------------------------------------------------------------------------- *)
Lemma write_loop_tie : forall (l : list seg) st L, lookup "ctm" (vars st) = Some (VList L) ->
  exists st', for_loop ext11 "segment" write_body (map enc_segt l) st = Ok CNormal st' /\
              lookup "ctm" (vars st') = Some (VList (L ++ map enc_seg_line l)).
Proof.
  induction l as [|x l IH]; intros st L H.
  - exists st. rewrite app_nil_r. split; [reflexivity|exact H].
  - cbn [map for_loop].
    assert (Hx : exec ext11 write_body (set_var "segment" (enc_segt x) st)
                 = Ok CNormal (set_var "ctm" (VList (L ++ [enc_seg_line x]))
                                 (set_var "segment" (enc_segt x) st))).
    { destruct x as [[[[w c] s] d] t]. unfold write_body, tail_stmt, src_write_ctm, enc_segt.
      cbn. rewrite lookup_update_neq by reflexivity. rewrite H. cbn. rewrite lookup_update_eq. reflexivity. }
    rewrite Hx. cbn [bind].
    destruct (IH (set_var "ctm" (VList (L ++ [enc_seg_line x])) (set_var "segment" (enc_segt x) st))
                 (L ++ [enc_seg_line x])%list) as [st' [Hf Hl]].
    { cbn [set_var vars]. apply lookup_update_eq. }
    exists st'. split; [exact Hf|]. rewrite Hl. rewrite <- app_assoc. reflexivity.
Qed.

Lemma exec_assign1 ext x e st :
  exec ext (SAssign [TName x] e) st = bind (eval ext e st) (fun v st1 => Ok CNormal (set_var x v st1)).
Proof. cbn [exec assign_all place_of store]. destruct (eval ext e st); reflexivity. Qed.

(* ---- the whole block --------------------------------------------------------------------------------------------------- *)
Theorem write_ctm_tie ts m :
  match write_ctm_file ts m with
  | Model.Ok segs => exists st, run_write_ctm (VList (map enc_wutt ts)) (enc_utt2wc m) = Ok VNone st /\
                                lookup "ctm" (vars st) = Some (VList (map enc_seg_line segs))
  | Model.Raise e => exists st, run_write_ctm (VList (map enc_wutt ts)) (enc_utt2wc m) = Exc (exn_name e) st
  end.
Proof.
  unfold run_write_ctm, Interp.run, write_ctm_file.
  set (TS := VList (map enc_wutt ts)).
  change src_write_ctm with
    (SSeq (SAssign [TName "is_dict"] (ENot (ECall "isinstance" [EName "utt2wc"; EName "str"] [])))
       (SSeq (SAssign [TName "segments"] (EListLit []))
          (SSeq (SFor "$t3" (EName "transcripts") outer_body) tail_stmt))).
  rewrite exec_seq.
  assert (H0 : exec ext11 (SAssign [TName "is_dict"] (ENot (ECall "isinstance" [EName "utt2wc"; EName "str"] [])))
                 (mkState [("transcripts", TS); ("ctm", VList []); ("utt2wc", enc_utt2wc m); ("str", str_type)] [])
               = Ok CNormal (mkState [("transcripts", TS); ("ctm", VList []); ("utt2wc", enc_utt2wc m);
                                      ("str", str_type); ("is_dict", VBool (is_dict_of m))] [])).
  { destruct m; reflexivity. }
  rewrite H0. cbn [bind]. rewrite exec_seq.
  change (exec ext11 (SAssign [TName "segments"] (EListLit [])) ?s)
    with (Ok CNormal (mkState (wbase TS (VList []) (enc_utt2wc m) (is_dict_of m) [] ++ []) [])).
  cbn [bind]. rewrite exec_seq, exec_for.
  change (eval ext11 (EName "transcripts") ?s) with (Ok TS s).
  cbn [bind]. change (iter_items TS) with (Some (map enc_wutt ts)). cbn iota.
  pose proof (outer_loop_tie TS (VList []) m ts [] [] [] (or_introl eq_refl)) as Hl. cbv zeta in Hl.
  destruct (map_res (ctm_segments_of m) ts) as [sgss|e].
  - destruct Hl as [orest [Hs Hf]]. rewrite Hf. cbn [bind app].
    set (S := List.concat sgss).
    set (st0 := mkState (wbase TS (VList []) (enc_utt2wc m) (is_dict_of m) S ++ orest) []).
    unfold tail_stmt, src_write_ctm. rewrite exec_seq, exec_assign1.
    rewrite (sorted_tie S st0) by reflexivity. cbn [bind].
    set (st1 := set_var "segments" (VList (map enc_segt (sort_by seg_leb S))) (keys_state (map enc_segt S) st0)).
    change (SExpr (EMeth (EName "ctm") "write"
              [EMeth (EConst (VStr "{} {} {} {} {}?")) "format" [EStar (EName "segment")] []] [])) with write_body.
    rewrite exec_for. rewrite (eval_name ext11 "segments" st1 (VList (map enc_segt (sort_by seg_leb S))))
      by (unfold st1; cbn [set_var vars]; apply lookup_update_eq).
    cbn [bind iter_items container_items].
    destruct (write_loop_tie (sort_by seg_leb S) st1 []) as [st' [Hw Hc]].
    { unfold st1. cbn [set_var vars]. rewrite lookup_update_neq by reflexivity.
      rewrite lookup_keys_state by reflexivity. reflexivity. }
    rewrite Hw. exists st'. split; [reflexivity|exact Hc].
  - destruct Hl as [st' Hf]. exists st'. rewrite Hf. reflexivity.
Qed.
