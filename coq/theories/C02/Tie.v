(* C02 - the source tie of `_string_matching` (src/pydrobert/torch/_string.py) for the call `error_rate` / `ErrorRate`
   make (return_mistakes = True, return_mask = return_prf_dsts = exclude_last = False), checked by the kernel.
   PV.Gen.C02Src.{er_pre, er_row0, er_main, er_fin, er_loop, er_lens, er_body, er_wrap} are the MiniPy terms
   harness/py2coq/translate.py regenerates from /repo on every C02 run; PV.MiniPy.Interp is their semantics; the torch
   calls mean what PV.MiniTorch.OpsC01 / OpsC02 / OpsC07 say (through SrcRun.ext02).  Statements, for EVERY batch size,
   tensor widths, token values, lengths, eos / include_eos / norm / batch_first / warn setting and costs (integers ci cd
   cs over any common denominator s, i.e. the floats c / s - uniform or not, also zero or negative):

     loop_body_is_step_rm      one execution of the loop body = Model.step_rm in every column: both tables (TieLoop.body_run)
     loop_is_rm_loop           the whole `for hyp_idx` loop = the iteration of step_rm (TieLoop.loop_tie)
     error_rate_is_model       the blocks er_pre; er_row0; er_main; er_fin run in sequence on the arguments of the call
                               return the tensor of Model.error_rate (Cost m -> m, Ratio m d -> m / d, Lit z -> z)
     string_matching_is_model  the same for the whole body as ONE term (er_body)
     error_rate_wrapper_is_model  the same for the body of `error_rate` itself (er_wrap), whose call of `_string_matching`
                               binds the parameters in Python's way and runs er_body (SrcRun.ext02w)
     error_rate_counts_optimal_alignment   composed with ProofsModel.error_rate_optimal_alignment: without norm, entry n
                               is the number of edits of a minimum-cost alignment of the two sequences cut at their first eos

   If the source is edited so that one of these stops being true, this development stops compiling and the C02 check
   reports the broken obligation.  The files: TieLib (tactics, what reaches ext02), TieMath (arithmetic of the two
   tables), TieInner (the in-place deletion loop), TieLoop (body / loop, mistakes path), TieLoopU (body / loop after the
   uniform-cost shortcut), TieBlocks (row 0, loop + gather, mult + norm), TieLens (`_lens_from_eos`), TiePre (preamble),
   TieWhole (composition, Model.pair_er), TieBody (er_body, er_wrap). *)
From Coq Require Import ZArith QArith List String Bool Arith Lia ZifyBool ZifyNat.
From PV Require Import MiniPy.Syntax MiniPy.Interp MiniPy.Lemmas MiniTorch.Ops MiniTorch.Lemmas MiniTorch.OpsC07 MiniTorch.LemmasC07
  MiniTorch.OpsC01 MiniTorch.LemmasC01 MiniTorch.OpsC02 MiniTorch.LemmasC02.
From PV Require Import Gen.C02Src C01.SrcRun C01.TieLib C01.TieMath C02.SrcRun C02.TieLib C02.TieMath C02.TieInner C02.TieLoop C02.TieLoopU
  C02.TieBlocks C02.TieWhole C02.TieLens C02.TiePre C02.TieBody.
From PV Require C01.Obs C01.Spec C01.Model C01.LevFacts C01.Proofs C02.Spec C02.Model C02.ProofsModel.
Import ListNotations.
Local Open Scope string_scope.

#[local] Arguments tab2 : simpl never.
#[local] Arguments enc_i : simpl never.
#[local] Arguments enc_x : simpl never.
#[local] Arguments qz : simpl never.
#[local] Arguments ext01 : simpl never.
#[local] Arguments ext02 : simpl never.

(* ---- names used by the statements of Properties.v (which holds no string literal) ----------------------------- *)
Definition hyp_idx_name : string := "hyp_idx".
Definition max_hyp_steps_name : string := "max_hyp_steps".

(* one execution of the loop body with hyp_idx = k *)
Definition run_loop_body (k : nat) (st : state) : outcome ctl :=
  exec ext02 loop_body (set_var hyp_idx_name (VInt (Z.of_nat k)) st).

Definition run_loop (st : state) : outcome ctl := exec ext02 er_loop st.

Definition max_hyp_steps_is (H : nat) (st : state) : Prop :=
  lookup max_hyp_steps_name (vars st) = Some (VInt (Z.of_nat H)).

(* ---- (1) the loop body --------------------------------------------------------------------------------------- *)
Theorem loop_body_is_step_rm :
  forall (s : positive) (ci cd cs : Z) (R N H : nat) (rf hf : nat -> nat -> Z) (hl : nat -> nat)
         (vrl vmult vnorm vwarn : val) (st : state) (k : nat) (lf mf : nat -> nat -> Z),
  (1 <= k <= H)%nat ->
  body_pre s ci cd cs R N H rf hf hl vrl vmult vnorm vwarn lf mf st ->
  runs_to (body_pre s ci cd cs R N H rf hf hl vrl vmult vnorm vwarn
             (fun i n => nth i (fst (C02.Model.step_rm ci cd cs (colf R rf n) (colf H hf n) (hl n) false k
                                       (colf (S R) lf n, colf (S R) mf n))) 0%Z)
             (fun i n => nth i (snd (C02.Model.step_rm ci cd cs (colf R rf n) (colf H hf n) (hl n) false k
                                       (colf (S R) lf n, colf (S R) mf n))) 0%Z))
          (run_loop_body k st).
Proof. intros. now apply body_run. Qed.

(* ---- (2) the loop ------------------------------------------------------------------------------------------------ *)
Theorem loop_is_rm_loop :
  forall (s : positive) (ci cd cs : Z) (R N H : nat) (rf hf : nat -> nat -> Z) (hl : nat -> nat)
         (vrl vmult vnorm vwarn : val) (st : state) (lf mf : nat -> nat -> Z),
  body_pre s ci cd cs R N H rf hf hl vrl vmult vnorm vwarn lf mf st -> max_hyp_steps_is H st ->
  runs_to (body_pre s ci cd cs R N H rf hf hl vrl vmult vnorm vwarn
             (fun i n => nth i (fst (iter_rm ci cd cs (colf R rf n) (colf H hf n) (hl n) H 1 (colf (S R) lf n, colf (S R) mf n))) 0%Z)
             (fun i n => nth i (snd (iter_rm ci cd cs (colf R rf n) (colf H hf n) (hl n) H 1 (colf (S R) lf n, colf (S R) mf n))) 0%Z))
          (run_loop st).
Proof. intros. now apply loop_tie. Qed.

(* ---- the inputs as the harness hands them over (as in C01.Tie) ------------------------------------------------- *)
(* a (N x T) batch-first or (T x N) time-major matrix as a list of rows *)
Definition wf_src (bf : bool) (N T : nat) (m : list (list Z)) : Prop :=
  if bf then List.length m = N /\ C01.Proofs.rect T m else List.length m = T /\ C01.Proofs.rect N m.

Definition at_src (bf : bool) (m : list (list Z)) (t n : nat) : Z :=
  if bf then nth t (nth n m []) 0%Z else nth n (nth t m []) 0%Z.

Lemma concat_rect : forall (m : list (list Z)) W, C01.Proofs.rect W m ->
  List.concat m = tab2 (List.length m) W (fun i j => nth j (nth i m []) 0%Z).
Proof.
  induction m as [|row m IH]; intros W HW; [reflexivity|].
  cbn [List.concat List.length]. rewrite tab2_S. cbn [nth]. f_equal.
  - rewrite <- (HW row) by (left; reflexivity). symmetry. apply C01.Proofs.map_nth_seq.
  - apply IH. intros r Hr. apply HW. right. exact Hr.
Qed.

Lemma mat_tensor_in : forall bf N T m, (0 < N)%nat -> wf_src bf N T m ->
  mat_tensor bf N m = in_tensor bf T N (at_src bf m).
Proof.
  intros bf N T m HN Hwf. unfold mat_tensor, in_tensor, wf_src, at_src in *. destruct bf; destruct Hwf as [HL HW].
  - assert (Hhd : List.length (hd [] m) = T).
    { destruct m as [|row m]; [cbn in HL; lia|]. apply HW. left. reflexivity. }
    rewrite Hhd, (concat_rect m T HW), HL. reflexivity.
  - rewrite (concat_rect m N HW), HL. reflexivity.
Qed.

Lemma colf_seq_of : forall bf N T m n, (n < N)%nat -> wf_src bf N T m ->
  colf T (at_src bf m) n = C01.Proofs.seq_of bf n m.
Proof.
  intros bf N T m n Hn Hwf. unfold colf, at_src, C01.Proofs.seq_of, wf_src in *. destruct bf; destruct Hwf as [HL HW].
  - rewrite <- (HW (nth n m [])) by (apply nth_In; lia). apply C01.Proofs.map_nth_seq.
  - unfold C01.Model.col. rewrite <- HL. clear HL HW Hn.
    induction m as [|row m IH]; [reflexivity|].
    cbn [List.length map nth]. rewrite <- cons_seq. cbn [map nth]. f_equal.
    rewrite <- seq_shift, map_map. exact IH.
Qed.

Lemma wf_src_model : forall bf N T m, wf_src bf N T m -> C01.Proofs.wf_tensor bf N m.
Proof. intros bf N T m H. unfold wf_src, C01.Proofs.wf_tensor in *. destruct bf; [|exact I]. destruct H as [HL HW]. split; [exact HL|now exists T]. Qed.

(* ---- (3)-(4) the whole call --------------------------------------------------------------------------------- *)
(* _string_matching(ref, hyp, eos, include_eos, batch_first, ins, del, sub, warn, norm=norm, return_mistakes=True) *)
Definition call_vars (s : positive) (c : C01.Model.cfg) (N : nat) (ref hyp : list (list Z)) (w : bool) (pad : Z) : list (string * val) :=
  er_vars (mat_tensor (C01.Model.c_bf c) N ref) (mat_tensor (C01.Model.c_bf c) N hyp)
    (C01.Model.c_eos c) (C01.Model.c_incl c) (C01.Model.c_bf c)
    (qz s (C01.Model.c_ins c)) (qz s (C01.Model.c_del c)) (qz s (C01.Model.c_sub c)) w (C01.Model.c_norm c) pad.

Definition run_prog (prog : stmt) (s : positive) (c : C01.Model.cfg) (N : nat) (ref hyp : list (list Z)) (w : bool) (pad : Z)
  : outcome val := Interp.run ext02 prog (call_vars s c N ref hyp w pad).

Definition run_error_rate := run_prog er_blocks.

(* the model's result as the tensor the source returns *)
Definition model_tensor (c : C01.Model.cfg) (N : nat) (ref hyp : list (list Z)) : val :=
  enc_x (mkTn [N] (map (val_fx 1) (C02.Model.error_rate c N ref hyp))).

(* any program that runs like er_pre; er_row0; flag block; <a loop with the properties of er_loop>; exits; gather; er_fin,
   from any initial variables that hold the arguments of the call *)
Lemma prog_run_known :
  forall (prog lp : stmt), loop_ok lp ->
  (forall st, exec ext02 prog st
              = exec ext02 (SSeq er_pre (SSeq er_row0 (SSeq (SSeq main_flags (SSeq lp main_rest)) er_fin))) st) ->
  forall (s : positive) (c : C01.Model.cfg) (N R H : nat) (rf hf : nat -> nat -> Z) (w : bool) (vars0 : list (string * val)),
  known (mkState vars0 []) (params s c R N H rf hf w) ->
  (C01.Model.c_eos c <> None -> R <> 0%nat /\ H <> 0%nat) ->
  exists out st', Interp.run ext02 prog vars0 = Ok (enc_x (mkTn [N] (map out (seq 0 N)))) st' /\
    forall n, (n < N)%nat -> out n = val_fx 1 (C02.Model.pair_er c (colf R rf n) (colf H hf n)).
Proof.
  intros prog lp Hlp Hprog s c N R H rf hf w vars0 K Hnz.
  unfold Interp.run. rewrite Hprog.
  assert (Hrl : forall n, (n < N)%nat -> (ref_len c R rf n <= R)%nat).
  { intros n Hn. unfold ref_len. rewrite <- (colf_length R rf n) at 2. apply C01.Proofs.eff_len_le. }
  assert (Hret : exists out, returns (enc_x (mkTn [N] (map out (seq 0 N))))
                         (exec ext02 (SSeq er_pre (SSeq er_row0 (SSeq (SSeq main_flags (SSeq lp main_rest)) er_fin))) (mkState vars0 [])) /\
                       forall n, (n < N)%nat -> out n = val_fx 1 (C02.Model.pair_er c (colf R rf n) (colf H hf n))).
  { destruct (uniform c) eqn:Hu.
    - eexists. split.
      + eapply returns_seq; [apply pre_run; [exact Hnz|exact K]|]. intros st1 K1.
        unfold eff_scale, eff_ci, eff_cd, eff_cs in K1. rewrite Hu in K1. cbn [negb] in K1.
        eapply tail_run_u_gen; [exact Hlp|exact Hrl|exact K1].
      + intros n Hn. unfold fin_value, final_col, iter_colU, ref_len, hyp_len.
        apply (pair_value_u c R H (colf R rf n) (colf H hf n) (colf_length R rf n) (colf_length H hf n) Hu).
    - eexists. split.
      + eapply returns_seq; [apply pre_run; [exact Hnz|exact K]|]. intros st1 K1.
        unfold eff_scale, eff_ci, eff_cd, eff_cs in K1. rewrite Hu in K1. cbn [negb] in K1.
        eapply tail_run_m_gen; [exact Hlp|exact Hrl|exact K1].
      + intros n Hn. unfold fin_value, final_rm, iter_col, ref_len, hyp_len.
        apply (pair_value_m c R H (colf R rf n) (colf H hf n) (colf_length R rf n) (colf_length H hf n) Hu). }
  destruct Hret as [out [[st' He] Hout]]. rewrite He. exists out, st'. split; [reflexivity|exact Hout].
Qed.

(* the per-column values are the model's tensor *)
Lemma model_tensor_eq : forall (c : C01.Model.cfg) (N R H : nat) (ref hyp : list (list Z)) (out : nat -> fx),
  wf_src (C01.Model.c_bf c) N R ref -> wf_src (C01.Model.c_bf c) N H hyp ->
  (forall n, (n < N)%nat -> out n = val_fx 1 (C02.Model.pair_er c (colf R (at_src (C01.Model.c_bf c) ref) n)
                                                               (colf H (at_src (C01.Model.c_bf c) hyp) n))) ->
  enc_x (mkTn [N] (map out (seq 0 N))) = model_tensor c N ref hyp.
Proof.
  intros c N R H ref hyp out Hr Hh Hout. unfold model_tensor. do 3 f_equal.
  apply (nth_ext _ _ FNaN FNaN).
  - now rewrite !map_length, seq_length, C02.ProofsModel.error_rate_length.
  - intros n Hn. rewrite map_length, seq_length in Hn.
    rewrite nth_map_seq by exact Hn.
    rewrite (C01.Proofs.nth_map_lt (val_fx 1) _ n (C01.Obs.Lit 0)) by (now rewrite C02.ProofsModel.error_rate_length).
    rewrite C02.ProofsModel.error_rate_nth by (try exact Hn; eapply wf_src_model; eassumption).
    rewrite <- (colf_seq_of _ N R ref n Hn Hr), <- (colf_seq_of _ N H hyp n Hn Hh).
    now apply Hout.
Qed.

Lemma prog_is_model :
  forall (prog lp : stmt), loop_ok lp ->
  (forall st, exec ext02 prog st
              = exec ext02 (SSeq er_pre (SSeq er_row0 (SSeq (SSeq main_flags (SSeq lp main_rest)) er_fin))) st) ->
  forall (s : positive) (c : C01.Model.cfg) (N R H : nat) (ref hyp : list (list Z)) (w : bool) (pad : Z),
  (0 < N)%nat -> wf_src (C01.Model.c_bf c) N R ref -> wf_src (C01.Model.c_bf c) N H hyp ->
  (C01.Model.c_eos c <> None -> R <> 0%nat /\ H <> 0%nat) ->
  exists st', run_prog prog s c N ref hyp w pad = Ok (model_tensor c N ref hyp) st'.
Proof.
  intros prog lp Hlp Hprog s c N R H ref hyp w pad HN Hr Hh Hnz.
  unfold run_prog, call_vars.
  rewrite (mat_tensor_in _ N R ref HN Hr), (mat_tensor_in _ N H hyp HN Hh).
  match goal with |- context [Interp.run ext02 prog ?v] =>
    assert (K : known (mkState v []) (params s c R N H (at_src (C01.Model.c_bf c) ref) (at_src (C01.Model.c_bf c) hyp) w))
      by (unfold params, er_vars, globals01, torch_module; cbn [known app]; repeat split; reflexivity);
    destruct (prog_run_known prog lp Hlp Hprog s c N R H _ _ w v K Hnz) as [out [st' [He Hout]]]
  end.
  rewrite He. exists st'. f_equal. now apply (model_tensor_eq c N R H).
Qed.

(* the blocks in sequence *)
Theorem error_rate_is_model :
  forall (s : positive) (c : C01.Model.cfg) (N R H : nat) (ref hyp : list (list Z)) (w : bool) (pad : Z),
  (0 < N)%nat -> wf_src (C01.Model.c_bf c) N R ref -> wf_src (C01.Model.c_bf c) N H hyp ->
  (C01.Model.c_eos c <> None -> R <> 0%nat /\ H <> 0%nat) ->
  exists st', run_error_rate s c N ref hyp w pad = Ok (model_tensor c N ref hyp) st'.
Proof.
  intros. apply (prog_is_model er_blocks er_loop er_loop_ok) with (R := R) (H := H); try assumption.
  intros st. unfold er_blocks. rewrite !exec_flatten. f_equal.
Qed.

(* the whole body of the function, as one term *)
Definition run_string_matching := run_prog er_body.

Theorem string_matching_is_model :
  forall (s : positive) (c : C01.Model.cfg) (N R H : nat) (ref hyp : list (list Z)) (w : bool) (pad : Z),
  (0 < N)%nat -> wf_src (C01.Model.c_bf c) N R ref -> wf_src (C01.Model.c_bf c) N H hyp ->
  (C01.Model.c_eos c <> None -> R <> 0%nat /\ H <> 0%nat) ->
  exists st', run_string_matching s c N ref hyp w pad = Ok (model_tensor c N ref hyp) st'.
Proof.
  intros. apply (prog_is_model er_body loop3 loop3_ok er_body_split) with (R := R) (H := H); assumption.
Qed.

(* ---- the wrapper: error_rate(ref, hyp, eos, include_eos, norm, batch_first, ins_cost, del_cost, sub_cost, warn) ------- *)
Definition run_error_rate_wrapper (s : positive) (c : C01.Model.cfg) (N : nat) (ref hyp : list (list Z)) (w : bool) : outcome val :=
  Interp.run ext02w er_wrap
    (wrap_vars (mat_tensor (C01.Model.c_bf c) N ref) (mat_tensor (C01.Model.c_bf c) N hyp)
       (C01.Model.c_eos c) (C01.Model.c_incl c) (C01.Model.c_bf c)
       (qz s (C01.Model.c_ins c)) (qz s (C01.Model.c_del c)) (qz s (C01.Model.c_sub c)) w (C01.Model.c_norm c)).

(* Python's binding of the call `_string_matching(ref, .., warn, norm=norm, return_mistakes=True)` *)
Lemma bind_call_er : forall vref vhyp veos vincl vbf vci vcd vcs vw vnorm,
  bind_call er_body_params er_body_defaults [vref; vhyp; veos; vincl; vbf; vci; vcd; vcs; vw]
    [("norm", vnorm); ("return_mistakes", VBool true)] =
  Some [("ref", vref); ("hyp", vhyp); ("eos", veos); ("include_eos", vincl); ("batch_first", vbf);
        ("ins_cost", vci); ("del_cost", vcd); ("sub_cost", vcs); ("warn", vw); ("norm", vnorm);
        ("return_mask", VBool false); ("return_prf_dsts", VBool false); ("exclude_last", VBool false);
        ("padding", VInt (-100)); ("return_mistakes", VBool true)].
Proof. reflexivity. Qed.

#[local] Arguments Interp.run : simpl never.
#[local] Arguments bind_call : simpl never.
#[local] Arguments mat_tensor : simpl never.

Theorem error_rate_wrapper_is_model :
  forall (s : positive) (c : C01.Model.cfg) (N R H : nat) (ref hyp : list (list Z)) (w : bool),
  (0 < N)%nat -> wf_src (C01.Model.c_bf c) N R ref -> wf_src (C01.Model.c_bf c) N H hyp ->
  (C01.Model.c_eos c <> None -> R <> 0%nat /\ H <> 0%nat) ->
  exists st', run_error_rate_wrapper s c N ref hyp w = Ok (model_tensor c N ref hyp) st'.
Proof.
  intros s c N R H ref hyp w HN Hr Hh Hnz.
  unfold run_error_rate_wrapper, wrap_vars, er_wrap.
  destruct (prog_run_known er_body loop3 loop3_ok er_body_split s c N R H
              (at_src (C01.Model.c_bf c) ref) (at_src (C01.Model.c_bf c) hyp) w
              ([("ref", enc_i (mat_tensor (C01.Model.c_bf c) N ref)); ("hyp", enc_i (mat_tensor (C01.Model.c_bf c) N hyp));
                ("eos", opt_int (C01.Model.c_eos c)); ("include_eos", VBool (C01.Model.c_incl c));
                ("batch_first", VBool (C01.Model.c_bf c));
                ("ins_cost", VQ (qz s (C01.Model.c_ins c))); ("del_cost", VQ (qz s (C01.Model.c_del c)));
                ("sub_cost", VQ (qz s (C01.Model.c_sub c))); ("warn", VBool w); ("norm", VBool (C01.Model.c_norm c));
                ("return_mask", VBool false); ("return_prf_dsts", VBool false); ("exclude_last", VBool false);
                ("padding", VInt (-100)); ("return_mistakes", VBool true)] ++ globals02)
              ltac:(rewrite (mat_tensor_in _ N R ref HN Hr), (mat_tensor_in _ N H hyp HN Hh);
                    unfold params, globals02, globals01, torch_module; cbn [known app]; repeat split; reflexivity) Hnz)
    as [out [st' [He Hout]]].
  unfold Interp.run at 1. cbn [exec eval bind lookup vars app globals02 globals01 String.eqb Ascii.eqb Bool.eqb builtin is].
  unfold ext02w. cbn [is String.eqb Ascii.eqb Bool.eqb]. rewrite bind_call_er, He. cbn [bind].
  eexists. f_equal. now apply (model_tensor_eq c N R H).
Qed.

(* ---- the executables of the harness are these runs ----------------------------------------------------------------- *)
Lemma out_vector_model : forall c N ref hyp st',
  out_vector N (Ok (model_tensor c N ref hyp) st') = Some (Some (map (val_fx 1) (C02.Model.error_rate c N ref hyp))).
Proof.
  intros. unfold out_vector, model_tensor. rewrite dec01_enc_x. cbn [shp dat]. rewrite nats_eqb_refl. reflexivity.
Qed.

Corollary src_er_is_model :
  forall (c : C01.Model.cfg) (scale : Z) (N R H : nat) (ref hyp : list (list Z)),
  (0 < N)%nat -> wf_src (C01.Model.c_bf c) N R ref -> wf_src (C01.Model.c_bf c) N H hyp ->
  (C01.Model.c_eos c <> None -> R <> 0%nat /\ H <> 0%nat) ->
  src_er er_blocks c scale N ref hyp = Some (Some (map (val_fx 1) (C02.Model.error_rate c N ref hyp))) /\
  src_er er_body c scale N ref hyp = Some (Some (map (val_fx 1) (C02.Model.error_rate c N ref hyp))) /\
  src_er_wrap c scale N ref hyp = Some (Some (map (val_fx 1) (C02.Model.error_rate c N ref hyp))).
Proof.
  intros c scale N R H ref hyp HN Hr Hh Hnz.
  destruct (error_rate_is_model (Z.to_pos scale) c N R H ref hyp false (C01.Model.c_pad c) HN Hr Hh Hnz) as [st1 He1].
  destruct (string_matching_is_model (Z.to_pos scale) c N R H ref hyp false (C01.Model.c_pad c) HN Hr Hh Hnz) as [st2 He2].
  destruct (error_rate_wrapper_is_model (Z.to_pos scale) c N R H ref hyp false HN Hr Hh Hnz) as [st3 He3].
  unfold src_er, src_er_wrap, C02.SrcRun.cfg_vars, cost_q.
  unfold run_error_rate, run_string_matching, run_prog, call_vars, run_error_rate_wrapper, qz in He1, He2, He3.
  rewrite He1, He2, He3, !out_vector_model. repeat split; reflexivity.
Qed.

(* ---- composed with the model's theorems: statements purely about the interpreted source ------------------------------ *)
(* without normalisation entry n of the tensor `error_rate` returns is the number of insertions, deletions and
   substitutions of a minimum-cost alignment of reference n and hypothesis n, each cut at its first eos *)
Theorem error_rate_counts_optimal_alignment :
  forall (s : positive) (c : C01.Model.cfg) (N R H : nat) (ref hyp : list (list Z)) (w : bool),
  (0 < N)%nat -> wf_src (C01.Model.c_bf c) N R ref -> wf_src (C01.Model.c_bf c) N H hyp ->
  (C01.Model.c_eos c <> None -> R <> 0%nat /\ H <> 0%nat) -> C01.Model.c_norm c = false ->
  exists out st', run_error_rate_wrapper s c N ref hyp w = Ok (enc_x (mkTn [N] out)) st' /\
    List.length out = N /\
    forall n, (n < N)%nat ->
      exists m sc,
        nth n out FNaN = zf 1 m
        /\ C01.Spec.transforms sc (C01.Spec.denote (C01.Model.c_eos c) (C01.Model.c_incl c) (C01.Proofs.seq_of (C01.Model.c_bf c) n ref))
                                  (C01.Spec.denote (C01.Model.c_eos c) (C01.Model.c_incl c) (C01.Proofs.seq_of (C01.Model.c_bf c) n hyp))
        /\ (forall s', C01.Spec.transforms s' (C01.Spec.denote (C01.Model.c_eos c) (C01.Model.c_incl c) (C01.Proofs.seq_of (C01.Model.c_bf c) n ref))
                                              (C01.Spec.denote (C01.Model.c_eos c) (C01.Model.c_incl c) (C01.Proofs.seq_of (C01.Model.c_bf c) n hyp)) ->
                       (C01.Spec.cost (C01.Model.c_ins c) (C01.Model.c_del c) (C01.Model.c_sub c) sc
                        <= C01.Spec.cost (C01.Model.c_ins c) (C01.Model.c_del c) (C01.Model.c_sub c) s')%Z)
        /\ C02.Spec.edits sc = m.
Proof.
  intros s c N R H ref hyp w HN Hr Hh Hnz Hnorm.
  destruct (error_rate_wrapper_is_model s c N R H ref hyp w HN Hr Hh Hnz) as [st' He].
  eexists. exists st'. split; [exact He|]. split.
  - now rewrite map_length, C02.ProofsModel.error_rate_length.
  - intros n Hn.
    rewrite (C01.Proofs.nth_map_lt (val_fx 1) _ n (C01.Obs.Lit 0)) by (now rewrite C02.ProofsModel.error_rate_length).
    destruct (C02.ProofsModel.error_rate_optimal_alignment c N ref hyp n Hn (wf_src_model _ _ _ _ Hr) (wf_src_model _ _ _ _ Hh) Hnorm)
      as [m [sc [Hv [Ht [Hmin [_ Hed]]]]]].
    exists m, sc. rewrite Hv. cbn [val_fx]. repeat split; assumption.
Qed.

(* with normalisation: that count divided by the reference length; an empty reference scores 0 when the hypothesis is
   empty as well and 1 otherwise *)
Theorem error_rate_normalised :
  forall (s : positive) (c : C01.Model.cfg) (N R H : nat) (ref hyp : list (list Z)) (w : bool),
  (0 < N)%nat -> wf_src (C01.Model.c_bf c) N R ref -> wf_src (C01.Model.c_bf c) N H hyp ->
  (C01.Model.c_eos c <> None -> R <> 0%nat /\ H <> 0%nat) -> C01.Model.c_norm c = true ->
  exists out st', run_error_rate_wrapper s c N ref hyp w = Ok (enc_x (mkTn [N] out)) st' /\
    List.length out = N /\
    forall n, (n < N)%nat ->
      let r := C01.Spec.denote (C01.Model.c_eos c) (C01.Model.c_incl c) (C01.Proofs.seq_of (C01.Model.c_bf c) n ref) in
      let h := C01.Spec.denote (C01.Model.c_eos c) (C01.Model.c_incl c) (C01.Proofs.seq_of (C01.Model.c_bf c) n hyp) in
      match List.length r with
      | O => nth n out FNaN = z2f (if (0 <? List.length h)%nat then 1 else 0)
      | S _ => exists m, nth n out FNaN = Fq (Qred (qz 1 m / inject_Z (Z.of_nat (List.length r))))
                         /\ C02.Spec.er_spec (C01.Model.c_ins c) (C01.Model.c_del c) (C01.Model.c_sub c) r h m
      end.
Proof.
  intros s c N R H ref hyp w HN Hr Hh Hnz Hnorm.
  destruct (error_rate_wrapper_is_model s c N R H ref hyp w HN Hr Hh Hnz) as [st' He].
  eexists. exists st'. split; [exact He|]. split.
  - now rewrite map_length, C02.ProofsModel.error_rate_length.
  - intros n Hn. cbv zeta.
    rewrite (C01.Proofs.nth_map_lt (val_fx 1) _ n (C01.Obs.Lit 0)) by (now rewrite C02.ProofsModel.error_rate_length).
    pose proof (C02.ProofsModel.error_rate_norm c N ref hyp n Hn (wf_src_model _ _ _ _ Hr) (wf_src_model _ _ _ _ Hh) Hnorm) as Hm.
    destruct (List.length (C01.Spec.denote (C01.Model.c_eos c) (C01.Model.c_incl c) (C01.Proofs.seq_of (C01.Model.c_bf c) n ref))).
    + rewrite Hm. reflexivity.
    + destruct Hm as [m [Hv Hs]]. exists m. rewrite Hv. split; [reflexivity|exact Hs].
Qed.
