(* MiniTorch, unit C19 - the meaning given to the torch operations that occur in the translated
   `simple_random_sampling_without_replacement` and `binomial_coefficient` (_combinatorics.py).
   DEFINITIONS ONLY (NEW ones; [tens], [tmap], [qmax], [clamp_min], [arange], [tab2], [getm] are Ops.v's);
   the algebra is in LemmasC19.v.

   A tensor is Ops.tens = (shape, row-major data over Q), ANY number of dimensions unless an
   operation says otherwise.  dtypes are NOT modelled: a long tensor is a tensor whose entries are
   integers, a bool tensor one whose entries are 0 / 1, and every ARITHMETIC result is kept in lowest
   terms ([Qred], as MiniPy's own float arithmetic and Ops.qsum do), so that an integer-valued result is
   literally [inject_Z z].  Devices, strides, the aliasing of views, IEEE rounding, integer overflow
   are not modelled.  [None] = outside the modelled domain (the unit's [ext] turns it into Stuck:
   fail-closed) unless the comment says that torch raises there and the ext raises too.

   Each definition quotes the sentence of the torch documentation (2.x) it models.  This file is
   TRUSTED by the C19 tie; it is exercised against torch on every run by SrcRun.src_*_check. *)
From Coq Require Import List ZArith QArith Bool Arith.
From PV Require Import MiniTorch.Ops.
Import ListNotations.
Local Open Scope Q_scope.

(* number of elements of a shape: "Tensor.numel(): Returns the total number of elements in the input tensor" *)
Definition numel (sh : list nat) : nat := fold_right Nat.mul 1%nat sh.

Fixpoint shape_eqb (a b : list nat) : bool :=
  match a, b with
  | [], [] => true
  | x :: a', y :: b' => (x =? y)%nat && shape_eqb a' b'
  | _, _ => false
  end.

Definition map2 (f : Q -> Q -> Q) (a b : list Q) : list Q := map (fun xy => f (fst xy) (snd xy)) (combine a b).

(* 0 / 1 as the elements of a bool tensor *)
Definition qbool (b : bool) : Q := if b then 1 else 0.
Definition qtrue (q : Q) : bool := negb (Qeq_bool q 0).

(* ---- reductions to Python numbers -------------------------------------------------------------- *)
(* Tensor.max() = torch.max(input): "Returns the maximum value of all elements in the input tensor."
   None: no element.  There torch 2.x raises RuntimeError ("max(): Expected reduction dim to be specified
   for input.numel() == 0"), and so does the ext. *)
Definition max_all (x : tens) : option Q :=
  match tdata x with
  | [] => None
  | a :: r => Some (fold_left qmax r a)
  end.

(* int(x) on a Python float: "For floating point numbers, this truncates towards zero."  (Tensor.item():
   "Returns the value of this tensor as a standard Python number" - the element itself.) *)
Definition int_of_q (q : Q) : Z := Z.quot (Qnum q) (Zpos (Qden q)).

(* Tensor.any(): "Tests if any element in input evaluates to True."  The 0-dim bool tensor is used by the
   source only as the condition of an `if` (its truth value): represented by that Python bool. *)
Definition any_t (x : tens) : bool := existsb qtrue (tdata x).

(* ---- broadcasting of the two count tensors ------------------------------------------------------ *)
(* torch.broadcast_tensors( *tensors ): "Broadcasts the given tensors according to Broadcasting semantics."
   Modelled for: equal shapes (any number of dimensions; both returned as they are), and one operand
   with a single element and no more dimensions than the other (all its sizes are 1; e.g. a 0-dim
   count): it is repeated to the other's shape.  None: every other pair of shapes. *)
Definition one_elt (a b : tens) : bool :=
  forallb (fun n => (n =? 1)%nat) (tshape a) && (length (tshape a) <=? length (tshape b))%nat.

Definition expand_one (a : tens) (sh : list nat) : tens := mkTens sh (repeat (hd 0 (tdata a)) (numel sh)).

Definition broadcast_pair (a b : tens) : option (tens * tens) :=
  if shape_eqb (tshape a) (tshape b) then Some (a, b)
  else if one_elt a b then Some (expand_one a (tshape b), b)
  else if one_elt b a then Some (a, expand_one b (tshape a))
  else None.

(* ---- element-wise operations on two tensors OF THE SAME SHAPE, and tensor (op) Python number ------ *)
(* `a - b`, `a + b`, `a * b`, `a / b` = torch.sub / add / mul / div(input, other): out_i = input_i op other_i.
   None: shapes differ (broadcasting is not modelled here: the source has broadcast its operands explicitly,
   or they are results of one another). *)
Definition zip2 (f : Q -> Q -> Q) (a b : tens) : option tens :=
  if shape_eqb (tshape a) (tshape b) then Some (mkTens (tshape a) (map2 (fun x y => Qred (f x y)) (tdata a) (tdata b)))
  else None.

(* `a / b` on tensors = torch.div(input, other) = true_divide: "Divides each element of the input input by the
   corresponding element of other."  None also when a divisor is 0 (torch: inf / nan, not representable) *)
Definition div_t (a b : tens) : option tens :=
  if existsb (fun q => Qeq_bool q 0) (tdata b) then None else zip2 Qdiv a b.

(* tensor (op) Python number: "other (Tensor or Number)": out_i = input_i op other *)
Definition op_s (f : Q -> Q -> Q) (x : tens) (c : Q) : tens := tmap (fun v => Qred (f v c)) x.

(* comparisons `a > b`, `a < c`, `a == c` = torch.gt / lt / eq: "Computes input > other element-wise. ...
   Returns: A boolean tensor that is True where input is greater than other and False elsewhere" *)
Definition cmp_t (c : Q -> Q -> bool) (a b : tens) : option tens :=
  if shape_eqb (tshape a) (tshape b) then Some (mkTens (tshape a) (map2 (fun x y => qbool (c x y)) (tdata a) (tdata b)))
  else None.
Definition cmp_s (c : Q -> Q -> bool) (x : tens) (s : Q) : tens := tmap (fun v => qbool (c v s)) x.

Definition q_gt (x y : Q) : bool := negb (Qle_bool x y).
Definition q_lt (x y : Q) : bool := negb (Qle_bool y x).

(* `a | b` on bool tensors = torch.bitwise_or: "Computes the bitwise OR of input and other. ... for bool tensors,
   it computes the logical OR." *)
Definition or_t (a b : tens) : option tens :=
  if shape_eqb (tshape a) (tshape b) then Some (mkTens (tshape a) (map2 (fun x y => qbool (qtrue x || qtrue y)) (tdata a) (tdata b)))
  else None.

(* Tensor.clamp_max(max): "Clamps all elements in input to be smaller than max": y_i = min(x_i, max) *)
Definition qmin (c x : Q) : Q := if Qle_bool x c then x else c.
Definition clamp_max (x : tens) (c : Q) : tens := tmap (qmin c) x.

(* ---- creation ------------------------------------------------------------------------------------ *)
(* torch.empty(size): "Returns a tensor filled with uninitialized data. The shape of the tensor is defined by
   the variable argument size."  The uninitialised content is a PARAMETER [junk] (flat position -> value) of
   the unit's ext: every statement about the source is for every [junk]. *)
Definition empty (junk : nat -> Q) (sh : list nat) : tens := mkTens sh (map junk (seq 0 (numel sh))).

(* ---- torch.bernoulli(p) --------------------------------------------------------------------------- *)
(* torch.bernoulli(input): "Draws binary random numbers (0 or 1) from a Bernoulli distribution. The input tensor
   should be a tensor containing probabilities to be used for drawing the binary random number. ... The i-th
   element of the output tensor will draw a value 1 according to the i-th probability value given in input. ...
   The returned out tensor only has values 0 or 1 and is of the same shape as input."
   The draw is an ORACLE [orc k ps i] : bool - k = number of bernoulli calls made before this one, ps = ALL the
   probabilities handed over (flat), i = flat position.  0 / 1-valuedness and the shape hold by construction;
   nothing else is built in (in particular the draws of one call may depend on each other and on every p).
   The ONLY assumption the theorems make about it is [oracle_ok]: probability 1 draws 1, probability 0 draws 0. *)
Definition oracle : Type := nat -> list Q -> nat -> bool.

Definition bernoulli (orc : oracle) (k : nat) (p : tens) : tens :=
  mkTens (tshape p) (map (fun i => qbool (orc k (tdata p) i)) (seq 0 (length (tdata p)))).

Definition oracle_ok (orc : oracle) : Prop :=
  forall k ps i, (i < length ps)%nat ->
    (nth i ps 0 == 1 -> orc k ps i = true) /\ (nth i ps 0 == 0 -> orc k ps i = false).

(* ---- indexing -------------------------------------------------------------------------------------- *)
(* x[t] = v  with an integer t on a tensor of >= 1 dimensions (basic indexing, "x[t]" selects the t-th slice
   along the first dimension; assignment copies v into it): v must have exactly the shape of that slice (or be
   a Python number, below).  None: t outside [0, n) (negative indices are not modelled), other shapes of v
   (broadcasting on assignment is not modelled). *)
Definition set_row (x : tens) (t : Z) (v : tens) : option tens :=
  match tshape x with
  | n :: sh =>
      if ((0 <=? t)%Z && (t <? Z.of_nat n)%Z && shape_eqb sh (tshape v))%bool
      then let N := numel sh in let k := Z.to_nat t in
           Some (mkTens (tshape x) (firstn (k * N) (tdata x) ++ tdata v ++ skipn (S k * N) (tdata x)))
      else None
  | [] => None
  end.

(* x[t] = c with a Python number c: every element of the slice becomes c *)
Definition set_row_s (x : tens) (t : Z) (c : Q) : option tens :=
  match tshape x with
  | n :: sh =>
      if ((0 <=? t)%Z && (t <? Z.of_nat n)%Z)%bool
      then let N := numel sh in let k := Z.to_nat t in
           Some (mkTens (tshape x) (firstn (k * N) (tdata x) ++ repeat c N ++ skipn (S k * N) (tdata x)))
      else None
  | [] => None
  end.

(* the rows of a matrix with m columns *)
Fixpoint rows_of (n m : nat) (d : list Q) : list (list Q) :=
  match n with O => [] | S n' => firstn m d :: rows_of n' m (skipn m d) end.

(* x[..., 0] = c on a MATRIX: the first element of every row becomes c ("..." stands for all leading dimensions).
   None: not 2-D, or no column *)
Definition set_col0_s (x : tens) (c : Q) : option tens :=
  match tshape x with
  | [n; S m] => Some (mkTens [n; S m] (flat_map (fun r => c :: tl r) (rows_of n (S m) (tdata x))))
  | _ => None
  end.

(* x[r, :-1] on a MATRIX: row r without its last element, a 1-D tensor ("a:b" with b = -1: up to but excluding the
   last).  None: not 2-D, no column, r outside [0, n) *)
Definition row_but_last (x : tens) (r : Z) : option tens :=
  match tshape x with
  | [n; S m] =>
      if ((0 <=? r)%Z && (r <? Z.of_nat n)%Z)%bool
      then Some (mkTens [m] (firstn m (skipn (Z.to_nat r * S m) (tdata x))))
      else None
  | _ => None
  end.

(* x[r, 1:] = v on a MATRIX, v 1-D of m - 1 elements: row r from its second element on becomes v *)
Definition set_row_from1 (x : tens) (r : Z) (v : tens) : option tens :=
  match tshape x, tshape v with
  | [n; S m], [m'] =>
      if ((0 <=? r)%Z && (r <? Z.of_nat n)%Z && (m =? m')%nat)%bool
      then let k := Z.to_nat r in
           Some (mkTens [n; S m] (firstn (k * S m + 1) (tdata x) ++ tdata v ++ skipn (S k * S m) (tdata x)))
      else None
  | _, _ => None
  end.

(* x[idx] with a 1-D tensor x and an integer tensor idx (advanced indexing: "the result has the shape of the index
   tensor, out[i...] = x[idx[i...]]"; a negative index counts from the end).  None: x not 1-D, a non-integer index,
   an index outside [-n, n) (torch raises IndexError) *)
Definition is_int_q (q : Q) : bool := Qeq_bool q (inject_Z (int_of_q q)).

Definition gather (x idx : tens) : option tens :=
  match tshape x with
  | [n] =>
      if forallb (fun q => is_int_q q && (- Z.of_nat n <=? int_of_q q)%Z && (int_of_q q <? Z.of_nat n)%Z) (tdata idx)
      then Some (mkTens (tshape idx)
                   (map (fun q => let i := int_of_q q in
                                  nth (Z.to_nat (if (i <? 0)%Z then i + Z.of_nat n else i)%Z) (tdata x) 0) (tdata idx)))
      else None
  | _ => None
  end.

(* ---- shape manipulation ---------------------------------------------------------------------------- *)
(* Tensor.view( *shape ): "Returns a new tensor with the same data as the self tensor but of a different shape."
   (elements in the same row-major order).  None: the new shape has another number of elements (torch raises). *)
Definition view (x : tens) (sh : list nat) : option tens :=
  if (numel sh =? length (tdata x))%nat then Some (mkTens sh (tdata x)) else None.

(* Tensor.flatten(): "Flattens input by reshaping it into a one-dimensional tensor." *)
Definition flatten (x : tens) : tens := mkTens [length (tdata x)] (tdata x).

(* Tensor.T on a matrix: "Returns a view of this tensor with its dimensions reversed."  The value is materialised:
   out[i, j] = x[j, i].  (The source applies .view to it: torch allows that here because the first dimension of the
   transposed matrix has stride 1 and is only SPLIT, never merged across the other; element order is the logical,
   row-major one.)  None: not 2-D. *)
Definition transpose2 (x : tens) : option tens :=
  match tshape x with
  | [n; m] => Some (tab2 m n (fun i j => getm m x j i))
  | _ => None
  end.

(* ---- scans on 1-D tensors ---------------------------------------------------------------------------- *)
(* Tensor.cumsum(0): "Returns the cumulative sum of elements of input in the dimension dim. ... y_i = x_1 + x_2 + ... + x_i" *)
Fixpoint cumsum_from (acc : Q) (l : list Q) : list Q :=
  match l with [] => [] | a :: t => Qred (acc + a) :: cumsum_from (Qred (acc + a)) t end.
Definition cumsum1 (x : tens) : option tens :=
  match tshape x with [_] => Some (mkTens (tshape x) (cumsum_from 0 (tdata x))) | _ => None end.

(* Tensor.cumprod(0): "Returns the cumulative product of elements of input in the dimension dim. ... y_i = x_1 * x_2 * ... * x_i" *)
Fixpoint cumprod_from (acc : Q) (l : list Q) : list Q :=
  match l with [] => [] | a :: t => Qred (acc * a) :: cumprod_from (Qred (acc * a)) t end.
Definition cumprod1 (x : tens) : option tens :=
  match tshape x with [_] => Some (mkTens (tshape x) (cumprod_from 1 (tdata x))) | _ => None end.

(* ---- integer division and masking ------------------------------------------------------------------- *)
(* _compat.trunc_divide(input, other) = input.div(other, rounding_mode="trunc"): "trunc - rounds the results of the
   division towards zero. Equivalent to C-style integer division."  Modelled on integer-valued operands of the same
   shape.  None: shapes differ, a non-integer operand, a zero divisor (torch raises for integer dtypes). *)
Definition trunc_div (a b : tens) : option tens :=
  if shape_eqb (tshape a) (tshape b)
     && forallb is_int_q (tdata a) && forallb is_int_q (tdata b)
     && negb (existsb (fun q => Qeq_bool q 0) (tdata b))
  then Some (mkTens (tshape a) (map2 (fun x y => inject_Z (Z.quot (int_of_q x) (int_of_q y))) (tdata a) (tdata b)))
  else None.

(* Tensor.masked_fill_(mask, value): "Fills elements of self tensor with value where mask is True."  mask of the
   shape of self.  (In place: as a statement the ext hands the receiver's new value back to the interpreter.) *)
Definition masked_fill (x mask : tens) (c : Q) : option tens :=
  if shape_eqb (tshape x) (tshape mask)
  then Some (mkTens (tshape x) (map2 (fun v m => if qtrue m then c else v) (tdata x) (tdata mask)))
  else None.

(* ==================================================================================================== *)
(* Log-domain values: the accept / reject bookkeeping of IndependentMetropolisHastingsEstimator.__call__    *)
(* (_mc.py).  The quantities the code keeps are LOGARITHMS of non-negative rationals (density ratios,       *)
(* uniforms); they are represented EXACTLY by the rational itself:                                          *)
(*    LFin w  = log w  for w > 0      LNegInf = log 0 = -inf      LNaN = nan                                *)
(* so that  log a - log b = log (a / b),  log a + log b = log (a b),  log a > log b  <->  a > b.           *)
(* +inf is NOT representable (None).  IEEE: nan compares false; 0 * (+-inf) = nan; x + nan = nan.          *)
(* ==================================================================================================== *)
Inductive lv := LFin (w : Q) | LNegInf | LNaN.
Record ltens := mkLT { lshape : list nat; ldata : list lv }.

(* log of a density value w >= 0 (log_prob of an outcome of probability w; -inf outside the support) *)
Definition lv_of_w (w : Q) : lv := if Qle_bool w 0 then LNegInf else LFin w.

(* Tensor.log(): "Returns a new tensor with the natural logarithm of the elements of input."  log 0 = -inf, log of a
   negative number = nan *)
Definition lv_log (u : Q) : lv := if Qle_bool u 0 then (if Qeq_bool u 0 then LNegInf else LNaN) else LFin u.

(* a - b.  None: +inf (finite - (-inf)), not representable *)
Definition lsub (a b : lv) : option lv :=
  match a, b with
  | LNaN, _ | _, LNaN => Some LNaN
  | LFin x, LFin y => Some (LFin (Qred (x / y)))
  | LNegInf, LFin _ => Some LNegInf
  | LNegInf, LNegInf => Some LNaN
  | LFin _, LNegInf => None
  end.

(* a + b (no +inf among the operands) *)
Definition ladd (a b : lv) : lv :=
  match a, b with
  | LNaN, _ | _, LNaN => LNaN
  | LFin x, LFin y => LFin (Qred (x * y))
  | LNegInf, _ | _, LNegInf => LNegInf
  end.

(* a > b *)
Definition lgt (a b : lv) : bool :=
  match a, b with
  | LFin x, LFin y => q_gt x y
  | LFin _, LNegInf => true
  | _, _ => false
  end.

(* bool * x: True counts as 1, False as 0; 0 * finite = 0 (= log 1), 0 * -inf = nan *)
Definition bmul (b : bool) (x : lv) : lv :=
  if b then x else match x with LFin _ => LFin 1 | _ => LNaN end.

Fixpoint all_some_lv (l : list (option lv)) : option (list lv) :=
  match l with
  | [] => Some []
  | Some x :: r => option_map (cons x) (all_some_lv r)
  | None :: _ => None
  end.

(* element-wise a - b / a + b on two log tensors of the same shape *)
Definition lsub_t (a b : ltens) : option ltens :=
  if shape_eqb (lshape a) (lshape b)
  then option_map (mkLT (lshape a)) (all_some_lv (map (fun xy => lsub (fst xy) (snd xy)) (combine (ldata a) (ldata b))))
  else None.
Definition ladd_t (a b : ltens) : option ltens :=
  if shape_eqb (lshape a) (lshape b)
  then Some (mkLT (lshape a) (map (fun xy => ladd (fst xy) (snd xy)) (combine (ldata a) (ldata b))))
  else None.

(* a > b with a of shape (1, B...) and b of shape (B...) or of a's shape: "broadcastable" with the missing leading
   dimension of size 1; the result has a's shape *)
Definition lgt_t (a b : ltens) : option tens :=
  if shape_eqb (lshape a) (lshape b) || shape_eqb (lshape a) (1%nat :: lshape b)
  then Some (mkTens (lshape a) (map (fun xy => qbool (lgt (fst xy) (snd xy))) (combine (ldata a) (ldata b))))
  else None.

(* mask * x, mask a bool tensor of x's shape *)
Definition bmul_t (m : tens) (x : ltens) : option ltens :=
  if shape_eqb (tshape m) (lshape x)
  then Some (mkLT (lshape x) (map (fun mx => bmul (qtrue (fst mx)) (snd mx)) (combine (tdata m) (ldata x))))
  else None.

(* ~mask: "torch.bitwise_not ... For bool tensors, it computes the logical NOT." *)
Definition invert_t (m : tens) : tens := tmap (fun q => qbool (negb (qtrue q))) m.

(* torch.where(condition, input, other): "Return a tensor of elements selected from either input or other, depending on
   condition": out_i = input_i if condition_i else other_i; all three of one shape *)
Definition where_t (m a b : tens) : option tens :=
  if shape_eqb (tshape m) (tshape a) && shape_eqb (tshape a) (tshape b)
  then Some (mkTens (tshape a) (map (fun mab => if qtrue (fst mab) then fst (snd mab) else snd (snd mab))
                                   (combine (tdata m) (combine (tdata a) (tdata b)))))
  else None.

(* x[n] on a log tensor with >= 1 dimensions: the n-th slice along the first dimension *)
Definition lrow (x : ltens) (n : Z) : option ltens :=
  match lshape x with
  | k :: sh => if ((0 <=? n)%Z && (n <? Z.of_nat k)%Z)%bool
               then Some (mkLT sh (firstn (numel sh) (skipn (Z.to_nat n * numel sh) (ldata x))))
               else None
  | [] => None
  end.

Definition log_t (x : tens) : ltens := mkLT (tshape x) (map lv_log (tdata x)).

(* Tensor.squeeze(0): "Returns a tensor with all specified dimensions of input of size 1 removed." (None: first size <> 1;
   torch would return the tensor unchanged) *)
Definition squeeze0 (x : tens) : option tens :=
  match tshape x with 1%nat :: sh => Some (mkTens sh (tdata x)) | _ => None end.
