(* C17 - tie between the Python text of the two length-moment workers of command_line.py
   (_print_torch_ali_data_dir_length_moments, _print_torch_ref_data_dir_length_moments) and
   PV.C17.Model.ali_moments / ref_moments: for every file system, stored tensor and exclude list the interpreted
   worker returns exactly the model's (sum, sum of squares, count) - and, for the ref worker, a message exactly
   when the model says there is one - without any effect. *)
From Coq Require Import ZArith QArith List String Bool Arith Lia ZifyBool ZifyNat.
From PV Require Import C11.Model C17.Model.
From PV Require Import MiniPy.Syntax MiniPy.Interp MiniTorch.OpsC17 MiniTorch.ValueC17 MiniTorch.LemmasC17 Gen.C17Src
  C17.SrcRun C17.TieLib C17.TieAli.
Import ListNotations.
Local Open Scope string_scope.

#[local] Arguments enc17 : simpl never.
#[local] Arguments dec17 : simpl never.
#[local] Arguments unique_consecutive_counts : simpl never.
#[local] Arguments get_slice1 : simpl never.
#[local] Arguments get_block : simpl never.
#[local] Arguments get_col : simpl never.
#[local] Arguments get_cell : simpl never.
#[local] Arguments masked : simpl never.
#[local] Arguments compare : simpl never.
#[local] Arguments sub : simpl never.
#[local] Arguments logical_and : simpl never.
#[local] Arguments invert : simpl never.
#[local] Arguments ones_like : simpl never.
#[local] Arguments long : simpl never.
#[local] Arguments square : simpl never.
#[local] Arguments unsqueeze1 : simpl never.
#[local] Arguments OpsC17.sum : simpl never.
#[local] Arguments all_dim1 : simpl never.
#[local] Arguments nonzero : simpl never.
#[local] Arguments flatten : simpl never.
#[local] Arguments tolist : simpl never.
#[local] Arguments any : simpl never.
#[local] Arguments ndim : simpl never.
#[local] Arguments size : simpl never.
#[local] Arguments shape : simpl never.
#[local] Arguments numel : simpl never.
#[local] Arguments then_ : simpl never.
#[local] Arguments path : simpl never.
#[local] Arguments slice_list : simpl never.
#[local] Arguments runs : simpl never.
#[local] Arguments Z.of_nat : simpl never.
#[local] Arguments select : simpl never.
#[local] Arguments map2 : simpl never.
#[local] Arguments true_positions : simpl never.

(* `t is not None` on a tensor, in the shape [cbn] gives it *)
Lemma is_not_none_enc17_cbn : forall t : lten,
  ltac:(let x := eval cbn in (cmp_eval IsNot (enc17 t) VNone) in exact (x = Some true)).
Proof. intros [| | |]; reflexivity. Qed.

Ltac mstep :=
  cbn; change (Pos.to_nat 1) with 1%nat; change (Pos.to_nat 2) with 2%nat; change (Pos.to_nat 3) with 3%nat; cbv iota;
  change (Z.of_nat 3) with 3%Z; change (Z.of_nat 2) with 2%Z; change (Z.of_nat 1) with 1%Z; change (Z.of_nat 0) with 0%Z;
  rewrite ?method_enc17, ?foreign_enc17, ?subscript_enc17, ?subscript_enc17_t, ?attribute_enc17, ?binop_sub_enc17, ?binop_and_enc17,
    ?dec17_enc17, ?on1_enc, ?on2_enc, ?on1v_enc, ?operand_enc17, ?getitem_mask, ?is_none_enc17, ?is_not_none_enc17_cbn,
    ?ucc_L1, ?ndim_L1, ?ndim_L2, ?size_L2_0, ?size_L2_1, ?size_L1_0, ?shape_L1, ?shape_L2, ?numel_L1,
    ?get_block_L2, ?compare_L2_Z, ?compare_L1_L1, ?compare_L1_Z, ?compare_Z_L1, ?compare_L21_L1,
    ?any_B1, ?any_B2, ?all_dim1_B2, ?sub_L1, ?and_B1, ?invert_B1, ?ones_like_B1, ?long_B1, ?square_L1, ?unsqueeze1_L1,
    ?sum_L1, ?nonzero_B1, ?flatten_L2, ?tolist_L1, ?masked_L1, ?get_col_3_0, ?get_col_3_1, ?get_col_3_2.
Ltac mstmt := open_seq; repeat (progress mstep).

Goal forall fs fn e v, dict_get fs fn = Some (enc_tensor (Vec v)) ->
  exists st, run_ali_moments fs fn (Some e) = Ok (mom_value (ali_moments (Some e) (Vec v))) st /\ events st = [].
Proof.
  intros fs fn e v H. unfold run_ali_moments. eexists. split.
  - apply run_of_exec_ret. unfold ali_moments_body, ali_moments_vars.
    mstmt. rewrite H. cbn [bind]. close_stmt. unfold enc_tensor, lten_of.
    mstmt. close_stmt.
    open_seq. open_if. repeat (progress mstep). subst_body. mstmt. close_stmt. repeat (progress mstep).
    rewrite if_len_eq by (now rewrite !map_length). repeat (progress mstep). close_stmt.
    mstmt. close_stmt. repeat (progress mstep).
    Show.
Abort.
