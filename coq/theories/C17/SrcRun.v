(* C17 - the translated source of the per-file workers of command_line.py as executables: the environments
   [ext17] / [ext17_ds], the encodings of the model's values as MiniPy values, and the correspondence entry points
   [src_*_check].  Definitions only; the lemmas are in Tie*.v.

   PV.Gen.C17Src is regenerated from /repo/src/pydrobert/torch/command_line.py on every run by
   harness/py2coq/translate.py:
     ali2tok_body       _torch_ali_dir_to_torch_token_dir_do_work           (whole body)
     tok2ali_body       _torch_token_data_dir_to_torch_ali_dir_do_work      (whole body)
     ali_moments_body   _print_torch_ali_data_dir_length_moments            (whole body)
     ref_moments_body   _print_torch_ref_data_dir_length_moments            (whole body)
     tds_getitem        _TranscriptDataSet.__getitem__                      (whole body)

   [ext17 fs] gives the calls of those bodies their meaning.  The file system is DATA: [fs] maps a path value to
   the stored tensor value; a path is the pair os.path.join(dir, name) of two opaque values (no string
   concatenation, no normalisation: the workers only ever join a directory with a base name and hand the
   result to torch.load / torch.save).
     os.path.join(d, b)          the path value (d, b)
     torch.load(p)               fs[p]; FileNotFoundError if absent (never another exception: the file holds a tensor)
     torch.save(x, p)            the EVENT ("torch.save", [x; p]) - the run's only effect; returns None
     f"..."                      an opaque message (its text is not modelled; the parts are still evaluated)
     torch.zeros(1, dtype=torch.long), torch.cat([..]), torch.stack([..], -1), torch.repeat_interleave(a, r),
     torch.ones_like(x), x.unique_consecutive(return_counts=True), x.cumsum(0), x.unsqueeze(1), x.all(1),
     x.any(), x.sum(), x.square(), x.numel(), x.long(), x.nonzero(), x.flatten(), x.tolist(), x.item(),
     x.size(k), x.ndim, x.shape, x[k], a < b / a != b / a <= b, a - b, a & b, ~a
                                 PV.MiniTorch.OpsC17 on long / bool tensors of rank 1 / 2 (rank 0 = Python scalar);
                                 torch.repeat_interleave with a negative count raises RuntimeError
   The global `torch` is the object {long: "$dtype.long"} in the initial variables.  No tensor is mutated in place by
   these functions.  Everything else is Stuck.

   [ext17_ds item tr] is the environment of _TranscriptDataSet.__getitem__: `super().__getitem__(index)` returns
   [item] (= (utt_id, tensor): _DirectoryDataset.__getitem__, i.e. torch.load of the utterance's file),
   `data.token_to_transcript(tok, id2token, frame_shift_ms)` returns the encoding of [tr] (C11's subject; the
   entry points below pass PV.C11.Model.token_to_transcript of the stored rows), isinstance(x, tuple) /
   isinstance(x, int) look at the value's kind (a str token is the tagged value ("$str", codes), never a tuple). *)
From Coq Require Import ZArith QArith List String Bool.
From PV Require Import C11.Model C17.Model.
From PV Require Import MiniPy.Syntax MiniPy.Interp MiniTorch.OpsC17 MiniTorch.ValueC17 Gen.C17Src.
Import ListNotations.
Local Open Scope string_scope.

Definition long_dtype_token : val := VStr "$dtype.long".
Definition torch_module : val := VDict [(VStr "long", long_dtype_token)].
Definition path (d b : val) : val := VTuple [VStr "$path"; d; b].
Definition msg : val := VStr "$msg".
Definition save_event (x p : val) : event := ("torch.save", [x; p]).

Definition no_kw (kw : list (string * val)) : bool := match kw with [] => true | _ => false end.

Definition cmp_of_name (o : string) : option cmpk :=
  if is o "eq" then Some KEq else if is o "ne" then Some KNe else if is o "lt" then Some KLt
  else if is o "le" then Some KLe else if is o "gt" then Some KGt else if is o "ge" then Some KGe else None.

Fixpoint dec_list (l : list val) : option (list lten) :=
  match l with
  | [] => Some []
  | v :: r => match dec17 v, dec_list r with Some t, Some ts => Some (t :: ts) | _, _ => None end
  end.

Definition vnat (n : nat) : val := VInt (Z.of_nat n).

Definition ext17 (fs : list (val * val)) (f : string) (args : list val) (kw : list (string * val)) (st : state)
  : outcome val :=
  if is f "torch.zeros" then
    match args, kw with
    | [VInt n], [(k, d)] => if (is k "dtype" && val_eqb d long_dtype_token)%bool then ret17 "zeros" (zeros1 n) st
                            else Stuck "zeros: keyword"
    | _, _ => Stuck "zeros"
    end
  else if is f "$method.unique_consecutive" then
    match args, kw with
    | [t], [(k, VBool true)] =>
        if is k "return_counts" then
          match dec17 t with
          | Some x => match unique_consecutive_counts x with
                      | Some (a, b) => Ok (VTuple [enc17 a; enc17 b]) st
                      | None => Stuck "unique_consecutive: rank"
                      end
          | None => Stuck "unique_consecutive"
          end
        else Stuck "unique_consecutive: keyword"
    | _, _ => Stuck "unique_consecutive"
    end
  else if negb (no_kw kw) then Stuck ("ext17: keyword arguments of " ++ f)
  else if is f "os.path.join" then
    match args with [d; b] => Ok (path d b) st | _ => Stuck "os.path.join" end
  else if is f "torch.load" then
    match args with
    | [p] => match dict_get fs p with Some v => Ok v st | None => Exc "FileNotFoundError" st end
    | _ => Stuck "torch.load"
    end
  else if is f "torch.save" then
    match args with [x; p] => Ok VNone (emit (save_event x p) st) | _ => Stuck "torch.save" end
  else if is f "$fstring" then Ok msg st
  else if is f "$attr.ndim" then
    match args with [t] => on1v "ndim" t (fun x => Some (vnat (ndim x))) st | _ => Stuck "ndim" end
  else if is f "$attr.shape" then
    match args with [t] => on1v "shape" t (fun x => Some (VTuple (map vnat (shape x)))) st | _ => Stuck "shape" end
  else if is f "$method.size" then
    match args with
    | [t; VInt d] => on1v "size" t (fun x => option_map vnat (size x d)) st
    | _ => Stuck "size"
    end
  else if is f "$method.numel" then
    match args with [t] => on1v "numel" t (fun x => Some (vnat (numel x))) st | _ => Stuck "numel" end
  else if is f "$getitem" then
    match args with [t; k] => on1v "getitem" t (fun x => getitem x k) st | _ => Stuck "getitem" end
  else if is f "compare" then
    match args with
    | [VStr o; a; b] =>
        match cmp_of_name o, operand a, operand b with
        | Some k, Some x, Some y => ret17 "compare" (compare k x y) st
        | _, _, _ => Stuck ("compare " ++ o)
        end
    | _ => Stuck "compare"
    end
  else if is f "operator" then
    match args with
    | [VStr o; a; b] =>
        if is o "sub" then on2 "sub" a b sub st
        else if is o "and" then on2 "and" a b logical_and st
        else Stuck ("operator " ++ o)
    | _ => Stuck "operator"
    end
  else if is f "$invert" then
    match args with [t] => on1 "invert" t invert st | _ => Stuck "invert" end
  else if is f "$method.any" then
    match args with [t] => on1v "any" t (fun x => option_map VBool (any x)) st | _ => Stuck "any" end
  else if is f "$method.all" then
    match args with [t; VInt 1%Z] => on1 "all" t all_dim1 st | _ => Stuck "all" end
  else if is f "$method.sum" then
    match args with [t] => on1v "sum" t (fun x => option_map VInt (sum x)) st | _ => Stuck "sum" end
  else if is f "$method.item" then
    match args with
    | [VInt z] => Ok (VInt z) st          (* a rank-0 tensor is its number *)
    | [VBool b] => Ok (VBool b) st
    | _ => Stuck "item"
    end
  else if is f "$method.square" then
    match args with [t] => on1 "square" t square st | _ => Stuck "square" end
  else if is f "$method.long" then
    match args with [t] => on1 "long" t long st | _ => Stuck "long" end
  else if is f "$method.unsqueeze" then
    match args with [t; VInt 1%Z] => on1 "unsqueeze" t unsqueeze1 st | _ => Stuck "unsqueeze" end
  else if is f "$method.cumsum" then
    match args with [t; VInt d] => on1 "cumsum" t (fun x => cumsum x d) st | _ => Stuck "cumsum" end
  else if is f "$method.nonzero" then
    match args with [t] => on1 "nonzero" t nonzero st | _ => Stuck "nonzero" end
  else if is f "$method.flatten" then
    match args with [t] => on1 "flatten" t flatten st | _ => Stuck "flatten" end
  else if is f "$method.tolist" then
    match args with [t] => on1v "tolist" t (fun x => option_map enc_ints (tolist x)) st | _ => Stuck "tolist" end
  else if is f "torch.ones_like" then
    match args with [t] => on1 "ones_like" t ones_like st | _ => Stuck "ones_like" end
  else if is f "torch.cat" then
    match args with
    | [VList l] => ret17 "cat" (match dec_list l with Some ts => option_map L1 (cat1 ts) | None => None end) st
    | _ => Stuck "cat"
    end
  else if is f "torch.stack" then
    match args with
    | [VList l; VInt (-1)%Z] =>
        ret17 "stack" (match dec_list l with Some ts => stack_last ts | None => None end) st
    | _ => Stuck "stack"
    end
  else if is f "torch.repeat_interleave" then
    match args with
    | [a; r] =>
        match dec17 a, dec17 r with
        | Some x, Some c =>
            match repeat_interleave x c with
            | Some (Some t) => Ok (enc17 t) st
            | Some None => Exc "RuntimeError" st
            | None => Stuck "repeat_interleave: shapes"
            end
        | _, _ => Stuck "repeat_interleave"
        end
    | _ => Stuck "repeat_interleave"
    end
  else Stuck ("ext17: " ++ f).

(* ---- encodings -------------------------------------------------------------------------------------- *)
Definition lten_of (t : tensor) : lten := match t with Vec v => L1 v | Mat w rows => L2 w rows end.
Definition enc_tensor (t : tensor) : val := enc17 (lten_of t).

Definition tensor_of (t : lten) : option tensor :=
  match t with L1 v => Some (Vec v) | L2 w rows => Some (Mat w rows) | _ => None end.
Definition dec_tensor (v : val) : option tensor :=
  match dec17 v with Some t => tensor_of t | None => None end.

(* a stored tensor is well formed: every row of a matrix has the stated width *)
Definition wf_tensor (t : tensor) : Prop :=
  match t with Vec _ => True | Mat w rows => Forall (fun r => List.length r = w) rows end.

Definition err_of_name (n : string) : option err :=
  if is n "ValueError" then Some EValue else if is n "RuntimeError" then Some ERuntime
  else if is n "FileNotFoundError" then Some EOS else if is n "IndexError" then Some EIndex
  else if is n "TypeError" then Some EType else if is n "KeyError" then Some EKey
  else if is n "ZeroDivisionError" then Some EZeroDiv else if is n "AttributeError" then Some C17.Model.EAttr else None.

Definition name_of_err (e : err) : string :=
  match e with
  | EValue => "ValueError" | ERuntime => "RuntimeError" | EOS => "FileNotFoundError" | EIndex => "IndexError"
  | EType => "TypeError" | EKey => "KeyError" | EZeroDiv => "ZeroDivisionError" | C17.Model.EAttr => "AttributeError"
  | ERc => "$rc"
  end.

(* what a worker run did: it saved exactly one tensor at [p] and returned None / it raised before any save *)
Definition saved_at (p : val) (o : outcome val) : option (out tensor) :=
  match o with
  | Ok VNone st =>
      match events st with
      | [(name, [x; q])] => if (is name "torch.save" && val_eqb q p)%bool then option_map Done (dec_tensor x) else None
      | _ => None
      end
  | Exc n st => match events st with [] => option_map Fail (err_of_name n) | _ => None end
  | _ => None
  end.

(* ---- ali -> tokens ------------------------------------------------------------------------------------- *)
Definition ali2tok_vars (basename ali_dir ref_dir : val) : list (string * val) :=
  [("basename", basename); ("ali_dir", ali_dir); ("ref_dir", ref_dir); ("torch", torch_module)].

Definition run_ali2tok (fs : list (val * val)) (basename ali_dir ref_dir : val) : outcome val :=
  Interp.run (ext17 fs) ali2tok_body (ali2tok_vars basename ali_dir ref_dir).

Definition d_ali : val := VStr "ali".
Definition d_ref : val := VStr "ref".
Definition d_feat : val := VStr "feat".
Definition d_out : val := VStr "out".
Definition base0 : val := VStr "utt.pt".

(* the interpreted worker on a directory holding the one file [t]; outer None: stuck / unexpected effects *)
Definition src_ref_of_ali (t : tensor) : option (out tensor) :=
  saved_at (path d_out base0) (run_ali2tok [(path d_ali base0, enc_tensor t)] base0 d_ali d_out).

Definition opt_out_eqb (o : option (out tensor)) (impl : out tensor) : bool :=
  match o with Some m => out_eqb tensor_eqb m impl | None => false end.

Definition src_ali2tok_check (t : tensor) (impl : out tensor) : bool := opt_out_eqb (src_ref_of_ali t) impl.

(* ---- tokens -> ali ------------------------------------------------------------------------------------- *)
Definition tok2ali_vars (basename ref_dir ali_dir feat_dir : val) : list (string * val) :=
  [("basename", basename); ("ref_dir", ref_dir); ("ali_dir", ali_dir); ("feat_dir", feat_dir);
   ("torch", torch_module)].

Definition run_tok2ali (fs : list (val * val)) (basename ref_dir ali_dir feat_dir : val) : outcome val :=
  Interp.run (ext17 fs) tok2ali_body (tok2ali_vars basename ref_dir ali_dir feat_dir).

(* --feat-dir: not given / given and the utterance's feature file missing / present *)
Definition feat_arg (fl : option (option tensor)) : val := match fl with None => VNone | Some _ => d_feat end.
Definition feat_files (fl : option (option tensor)) : list (val * val) :=
  match fl with Some (Some f) => [(path d_feat base0, enc_tensor f)] | _ => [] end.

Definition src_ali_of_ref_feat (fl : option (option tensor)) (t : tensor) : option (out tensor) :=
  saved_at (path d_out base0)
           (run_tok2ali ((path d_ref base0, enc_tensor t) :: feat_files fl) base0 d_ref d_out (feat_arg fl)).

(* the model's view of the same feature directory (name n) *)
Definition feats_of (n : str) (fl : option (option tensor)) : option dir :=
  match fl with None => None | Some None => Some [] | Some (Some f) => Some [(n, f)] end.

(* the model's worker with the three feature-file situations spelled out (= Model.ali_of_ref_feat on [feats_of n fl],
   lemma Tie.ali_of_ref_fl_model) *)
Definition ali_of_ref_fl (fl : option (option tensor)) (t : tensor) : out tensor :=
  match fl with
  | None => ali_of_ref None t
  | Some x =>
      match ali_of_ref None t with
      | Fail EValue => Fail EValue
      | _ => match x with None => Fail EOS | Some f => ali_of_ref (Some (tlen f)) t end
      end
  end.

Definition src_tok2ali_check (fl : option (option tensor)) (t : tensor) (impl : out tensor) : bool :=
  opt_out_eqb (src_ali_of_ref_feat fl t) impl.

(* ---- length moments ----------------------------------------------------------------------------------- *)
Definition excl_arg (excl : option (list Z)) : val :=
  match excl with None => VNone | Some l => enc17 (L1 l) end.

Definition ali_moments_vars (file_name : val) (excl : option (list Z)) : list (string * val) :=
  [("file_name", file_name); ("exclude_ids", excl_arg excl); ("torch", torch_module)].

Definition run_ali_moments (fs : list (val * val)) (file_name : val) (excl : option (list Z)) : outcome val :=
  Interp.run (ext17 fs) ali_moments_body (ali_moments_vars file_name excl).

Definition mom_value (m : mom) : val := let '(s, ss, c) := m in VTuple [VInt s; VInt ss; VInt c].

Definition src_ali_moments (excl : option (list Z)) (t : tensor) : option mom :=
  match run_ali_moments [(path d_ali base0, enc_tensor t)] (path d_ali base0) excl with
  | Ok (VTuple [VInt s; VInt ss; VInt c]) st => match events st with [] => Some (s, ss, c) | _ => None end
  | _ => None
  end.

Definition src_ali_moments_check (excl : option (list Z)) (t : tensor) (impl : mom) : bool :=
  match src_ali_moments excl t with Some m => mom_eqb m impl | None => false end.

Definition ref_moments_vars (utt_id dir_ prefix suffix : val) (excl : option (list Z)) : list (string * val) :=
  [("utt_id", utt_id); ("dir_", dir_); ("prefix", prefix); ("suffix", suffix); ("exclude_ids", excl_arg excl);
   ("torch", torch_module)].

Definition run_ref_moments (fs : list (val * val)) (utt_id dir_ prefix suffix : string) (excl : option (list Z))
  : outcome val :=
  Interp.run (ext17 fs) ref_moments_body (ref_moments_vars (VStr utt_id) (VStr dir_) (VStr prefix) (VStr suffix) excl).

(* the returned (s, ss, c, err_msg): the moments and whether there is a message *)
Definition ref_moments_value (r : mom * bool) : val :=
  let '((s, ss, c), bad) := r in VTuple [VInt s; VInt ss; VInt c; if bad then msg else VNone].

Definition src_ref_moments (excl : option (list Z)) (t : tensor) : option (mom * bool) :=
  match run_ref_moments [(path (VStr "ref") (VStr "p_utt.pt"), enc_tensor t)] "utt" "ref" "p_" ".pt" excl with
  | Ok (VTuple [VInt s; VInt ss; VInt c; e]) st =>
      match events st, e with
      | [], VNone => Some ((s, ss, c), false)
      | [], VStr _ => Some ((s, ss, c), true)
      | _, _ => None
      end
  | _ => None
  end.

Definition src_ref_moments_check (excl : option (list Z)) (t : tensor) (impl : mom) (bad : bool) : bool :=
  match src_ref_moments excl t with Some (m, b) => (mom_eqb m impl && Bool.eqb b bad)%bool | None => false end.

(* ---- _TranscriptDataSet.__getitem__ --------------------------------------------------------------------- *)
Definition enc_tk (t : tk) : val :=
  match t with TInt z => VInt z | TStr s => VTuple [VStr "$str"; VList (map VInt s)] end.

Definition enc_item (a : item) : val :=
  match a with Plain t => enc_tk t | Timed t s e => VTuple [enc_tk t; VQ s; VQ e] end.

Definition enc_items (tr : list item) : val := VList (map enc_item tr).

Definition tuple_type : val := VStr "$type.tuple".
Definition int_type : val := VStr "$type.int".
Definition super_obj : val := VTuple [VStr "$super"].

Definition is_str_value (v : val) : bool :=
  match v with VTuple [VStr tag; VList _] => is tag "$str" | _ => false end.

Definition ext17_ds (ds_item : val) (tr : list item) (f : string) (args : list val) (kw : list (string * val))
  (st : state) : outcome val :=
  if negb (no_kw kw) then Stuck ("ext17_ds: keyword arguments of " ++ f)
  else if is f "super" then match args with [] => Ok super_obj st | _ => Stuck "super" end
  else if is f "$method.__getitem__" then
    match args with
    | [o; _] => if val_eqb o super_obj then Ok ds_item st else Stuck "__getitem__"
    | _ => Stuck "__getitem__"
    end
  else if is f "data.token_to_transcript" then
    match args with [_; _; _] => Ok (enc_items tr) st | _ => Stuck "token_to_transcript" end
  else if is f "isinstance" then
    match args with
    | [v; ty] =>
        if val_eqb ty tuple_type then
          Ok (VBool (match v with VTuple _ => negb (is_str_value v) | _ => false end)) st
        else if val_eqb ty int_type then
          Ok (VBool (match v with VInt _ | VBool _ => true | _ => false end)) st
        else Stuck "isinstance: type"
    | _ => Stuck "isinstance"
    end
  else if is f "$fstring" then Ok msg st
  else Stuck ("ext17_ds: " ++ f).

(* id2token: the dict's items in the order of the model's association list (the worker only asks `is not None`
   and `token not in id2token`, i.e. looks at the keys) *)
Definition enc_i2t (i2t : option (list (Z * tk))) : val :=
  match i2t with
  | None => VNone
  | Some l => VDict (map (fun kv => (VInt (fst kv), enc_tk (snd kv))) l)
  end.

Definition enc_fs (fs : option Q) : val := match fs with None => VNone | Some q => VQ q end.

Definition ds_self (i2t : option (list (Z * tk))) (fs : option Q) (strip : bool) : val :=
  VDict [(VStr "id2token", enc_i2t i2t); (VStr "frame_shift_ms", enc_fs fs); (VStr "strip_timing", VBool strip)].

Definition getitem_vars (self index : val) : list (string * val) :=
  [("self", self); ("index", index); ("tuple", tuple_type); ("int", int_type)].

Definition run_getitem (utt tok : val) (i2t : option (list (Z * tk))) (fs : option Q) (strip : bool) (tr : list item)
  : outcome val :=
  Interp.run (ext17_ds (VTuple [utt; tok]) tr) tds_getitem (getitem_vars (ds_self i2t fs strip) (VInt 0)).

Fixpoint dec_chars (l : list val) : option str :=
  match l with
  | [] => Some []
  | VInt z :: r => option_map (cons z) (dec_chars r)
  | _ => None
  end.

Definition dec_tk (v : val) : option tk :=
  match v with
  | VInt z => Some (TInt z)
  | VTuple [VStr tag; VList cs] => if is tag "$str" then option_map TStr (dec_chars cs) else None
  | _ => None
  end.

Definition dec_item (v : val) : option item :=
  match dec_tk v with
  | Some t => Some (Plain t)
  | None => match v with
            | VTuple [t; VQ s; VQ e] => option_map (fun t' => Timed t' s e) (dec_tk t)
            | _ => None
            end
  end.

Fixpoint dec_items (l : list val) : option (list item) :=
  match l with
  | [] => Some []
  | v :: r => match dec_item v, dec_items r with Some a, Some b => Some (a :: b) | _, _ => None end
  end.

(* _TranscriptDataSet.__getitem__ on a stored tensor, with data.token_to_transcript = C11's model of it;
   same interface as Model.load_transcript *)
Definition src_load_transcript (i2t : option (list (Z * tk))) (fs : option Q) (strip : bool) (t : tensor)
  : option (out (list item)) :=
  match rows_of t with
  | Fail e => Some (Fail e)        (* raised below token_to_transcript: C11's subject, taken from the model *)
  | Done rows =>
      match run_getitem (VStr "utt") (enc_tensor t) i2t fs strip (token_to_transcript rows i2t fs) with
      | Ok (VTuple [u; VList tr]) st =>
          match events st with [] => if val_eqb u (VStr "utt") then option_map Done (dec_items tr) else None | _ => None end
      | Exc n st => match events st with [] => option_map Fail (err_of_name n) | _ => None end
      | _ => None
      end
  end.

Definition src_load_transcript_check (i2t : option (list (Z * tk))) (fs : option Q) (strip : bool) (t : tensor)
  (impl : out (list item)) : bool :=
  match src_load_transcript i2t fs strip t with
  | Some m => out_eqb (list_eqb item_eqb) m impl
  | None => false
  end.
