(* MiniTorch, unit C05 — algebra of the operations of OpsC05.v on TABULATED tensors (no new definitions of
   semantics).  Core: [get d (tab sh f) ix = f ix] for a multi-index of the shape, extensionality of [tab],
   then each operation on tabulated arguments of the ranks the C05 tie meets. *)
From Coq Require Import List ZArith QArith Qcanon Bool Arith Lia ZifyBool ZifyNat.
From PV Require Import MiniTorch.Ops MiniTorch.OpsC05.
Import ListNotations.
Local Open Scope nat_scope.

(* ---- lists ------------------------------------------------------------------------------------------ *)
Lemma flat_map_length_const {A B} (f : A -> list B) (l : list A) (c : nat) :
  (forall a, In a l -> List.length (f a) = c) -> List.length (flat_map f l) = List.length l * c.
Proof.
  induction l as [|a l IH]; intros H; [reflexivity|]. cbn [flat_map List.length]. rewrite app_length, IH, H.
  - lia.
  - now left.
  - intros b Hb. apply H. now right.
Qed.

Lemma nth_flat_map_seq {B} (f : nat -> list B) (c : nat) (d : B) :
  (forall i, List.length (f i) = c) ->
  forall n i p, i < n -> p < c -> nth (i * c + p) (flat_map f (seq 0 n)) d = nth p (f i) d.
Proof.
  intros Hc n.
  assert (G : forall s i p, i < n -> p < c -> nth (i * c + p) (flat_map f (seq s n)) d = nth p (f (s + i)) d).
  { induction n as [|n IH]; intros s i p Hi Hp; [lia|]. cbn [seq flat_map]. destruct i as [|i].
    - rewrite app_nth1 by (rewrite Hc; lia). now rewrite Nat.add_0_r.
    - rewrite app_nth2 by (rewrite Hc; lia). rewrite Hc. replace (S i * c + p - c) with (i * c + p) by lia.
      rewrite IH by lia. f_equal. f_equal. lia. }
  intros i p Hi Hp. now rewrite G.
Qed.

(* ---- multi-indices -------------------------------------------------------------------------------------- *)
Lemma indices_length sh : List.length (indices sh) = numel sh.
Proof.
  induction sh as [|n r IH]; [reflexivity|]. cbn [indices numel].
  rewrite (flat_map_length_const _ _ (numel r)).
  - now rewrite seq_length.
  - intros a _. now rewrite map_length.
Qed.

Lemma inb_ravel_lt sh : forall ix, inb sh ix = true -> ravel sh ix < numel sh.
Proof.
  induction sh as [|n r IH]; intros [|i ix] H; cbn in *; try discriminate; [lia|].
  apply andb_true_iff in H. destruct H as [H1 H2]. apply Nat.ltb_lt in H1. specialize (IH ix H2). nia.
Qed.

Lemma nth_indices_ravel sh : forall ix d, inb sh ix = true -> nth (ravel sh ix) (indices sh) d = ix.
Proof.
  induction sh as [|n r IH]; intros [|i ix] d H; cbn [inb] in H; try discriminate; [reflexivity|].
  apply andb_true_iff in H. destruct H as [H1 H2]. apply Nat.ltb_lt in H1. cbn [ravel indices].
  rewrite (nth_flat_map_seq _ (numel r)).
  - rewrite (nth_indep _ d (i :: d)) by (rewrite map_length, indices_length; now apply inb_ravel_lt).
    rewrite map_nth. f_equal. now apply IH.
  - intros j. now rewrite map_length, indices_length.
  - exact H1.
  - now apply inb_ravel_lt.
Qed.

Lemma in_indices_inb sh : forall ix, In ix (indices sh) -> inb sh ix = true.
Proof.
  induction sh as [|n r IH]; intros ix H; cbn in H.
  - destruct H as [<-|[]]. reflexivity.
  - apply in_flat_map in H. destruct H as [i [Hi H]]. apply in_map_iff in H. destruct H as [ix' [<- H]].
    apply in_seq in Hi. cbn [inb]. apply andb_true_iff. split; [apply Nat.ltb_lt; lia|now apply IH].
Qed.

Lemma get_tab {X} (d : X) sh f ix : inb sh ix = true -> get d (tab sh f) ix = f ix.
Proof.
  intros H. unfold get, tab. cbn [shp dat].
  rewrite (nth_indep _ d (f ix)) by (rewrite map_length, indices_length; now apply inb_ravel_lt).
  rewrite map_nth. f_equal. now apply nth_indices_ravel.
Qed.

Lemma tab_ext {X} sh (f g : list nat -> X) :
  (forall ix, inb sh ix = true -> f ix = g ix) -> tab sh f = tab sh g.
Proof. intros H. unfold tab. f_equal. apply map_ext_in. intros ix Hi. apply H. now apply in_indices_inb. Qed.

Lemma forallb_tab {X} (p : X -> bool) sh f :
  (forall ix, inb sh ix = true -> p (f ix) = true) -> forallb p (dat (tab sh f)) = true.
Proof.
  intros H. unfold tab. cbn [dat]. apply forallb_forall. intros x Hx. apply in_map_iff in Hx.
  destruct Hx as [ix [<- Hi]]. apply H. now apply in_indices_inb.
Qed.

Lemma tmap_tab {X Y} (g : X -> Y) sh f : tmap g (tab sh f) = tab sh (fun ix => g (f ix)).
Proof. unfold tmap, tab. cbn [shp dat]. now rewrite map_map. Qed.

Lemma shp_tab {X} sh (f : list nat -> X) : shp (tab sh f) = sh. Proof. reflexivity. Qed.

(* ---- tabulation by rank ---------------------------------------------------------------------------------- *)
Definition T1 {X} (a : nat) (F : nat -> X) : tn X := tab [a] (fun ix => F (at_ ix 0)).
Definition T2 {X} (a b : nat) (F : nat -> nat -> X) : tn X := tab [a; b] (fun ix => F (at_ ix 0) (at_ ix 1)).
Definition T3 {X} (a b c : nat) (F : nat -> nat -> nat -> X) : tn X :=
  tab [a; b; c] (fun ix => F (at_ ix 0) (at_ ix 1) (at_ ix 2)).
Definition T4 {X} (a b c e : nat) (F : nat -> nat -> nat -> nat -> X) : tn X :=
  tab [a; b; c; e] (fun ix => F (at_ ix 0) (at_ ix 1) (at_ ix 2) (at_ ix 3)).

Lemma inb_nil ix : inb [] ix = true -> ix = [].
Proof. destruct ix; [reflexivity|discriminate]. Qed.
Lemma inb_cons n r ix : inb (n :: r) ix = true -> exists i ix', ix = i :: ix' /\ i < n /\ inb r ix' = true.
Proof.
  destruct ix as [|i ix']; cbn [inb]; [discriminate|]. intros H. apply andb_true_iff in H. destruct H as [H1 H2].
  exists i, ix'. split; [reflexivity|]. split; [now apply Nat.ltb_lt|exact H2].
Qed.

Lemma inb1 a ix : inb [a] ix = true -> exists i, ix = [i] /\ i < a.
Proof.
  intros H. destruct (inb_cons _ _ _ H) as (i & r & -> & Hi & H1). apply inb_nil in H1. subst r. eauto.
Qed.
Lemma inb2 a b ix : inb [a; b] ix = true -> exists i j, ix = [i; j] /\ i < a /\ j < b.
Proof.
  intros H. destruct (inb_cons _ _ _ H) as (i & r & -> & Hi & H1). destruct (inb1 _ _ H1) as (j & -> & Hj). eauto.
Qed.
Lemma inb3 a b c ix : inb [a; b; c] ix = true -> exists i j k, ix = [i; j; k] /\ i < a /\ j < b /\ k < c.
Proof.
  intros H. destruct (inb_cons _ _ _ H) as (i & r & -> & Hi & H1). destruct (inb2 _ _ _ H1) as (j & k & -> & Hj & Hk).
  exists i, j, k. auto.
Qed.
Lemma inb4 a b c e ix : inb [a; b; c; e] ix = true ->
  exists i j k l, ix = [i; j; k; l] /\ i < a /\ j < b /\ k < c /\ l < e.
Proof.
  intros H. destruct (inb_cons _ _ _ H) as (i & r & -> & Hi & H1).
  destruct (inb3 _ _ _ _ H1) as (j & k & l & -> & Hj & Hk & Hl). exists i, j, k, l. auto.
Qed.

Lemma inb1_i a i : i < a -> inb [a] [i] = true.
Proof. intros. cbn. rewrite andb_true_r. now apply Nat.ltb_lt. Qed.
Lemma inb2_i a b i j : i < a -> j < b -> inb [a; b] [i; j] = true.
Proof. intros. cbn. rewrite andb_true_r. apply andb_true_iff. split; now apply Nat.ltb_lt. Qed.
Lemma inb3_i a b c i j k : i < a -> j < b -> k < c -> inb [a; b; c] [i; j; k] = true.
Proof. intros. cbn. rewrite andb_true_r. repeat (apply andb_true_iff; split); now apply Nat.ltb_lt. Qed.
Lemma inb4_i a b c e i j k l : i < a -> j < b -> k < c -> l < e -> inb [a; b; c; e] [i; j; k; l] = true.
Proof. intros. cbn. rewrite andb_true_r. repeat (apply andb_true_iff; split); now apply Nat.ltb_lt. Qed.

Lemma tab1_ext {X} a (f g : list nat -> X) : (forall i, i < a -> f [i] = g [i]) -> tab [a] f = tab [a] g.
Proof. intros H. apply tab_ext. intros ix Hi. destruct (inb1 _ _ Hi) as (i & -> & ?). now apply H. Qed.
Lemma tab2_ext {X} a b (f g : list nat -> X) :
  (forall i j, i < a -> j < b -> f [i; j] = g [i; j]) -> tab [a; b] f = tab [a; b] g.
Proof. intros H. apply tab_ext. intros ix Hi. destruct (inb2 _ _ _ Hi) as (i & j & -> & ? & ?). now apply H. Qed.
Lemma tab3_ext {X} a b c (f g : list nat -> X) :
  (forall i j k, i < a -> j < b -> k < c -> f [i; j; k] = g [i; j; k]) -> tab [a; b; c] f = tab [a; b; c] g.
Proof.
  intros H. apply tab_ext. intros ix Hi. destruct (inb3 _ _ _ _ Hi) as (i & j & k & -> & ? & ? & ?). now apply H.
Qed.
Lemma tab4_ext {X} a b c e (f g : list nat -> X) :
  (forall i j k l, i < a -> j < b -> k < c -> l < e -> f [i; j; k; l] = g [i; j; k; l]) ->
  tab [a; b; c; e] f = tab [a; b; c; e] g.
Proof.
  intros H. apply tab_ext. intros ix Hi. destruct (inb4 _ _ _ _ _ Hi) as (i & j & k & l & -> & ? & ? & ? & ?).
  now apply H.
Qed.

Lemma T1_ext {X} a (F G : nat -> X) : (forall i, i < a -> F i = G i) -> T1 a F = T1 a G.
Proof. intros H. apply tab1_ext. intros. now apply H. Qed.
Lemma T2_ext {X} a b (F G : nat -> nat -> X) : (forall i j, i < a -> j < b -> F i j = G i j) -> T2 a b F = T2 a b G.
Proof. intros H. apply tab2_ext. intros. now apply H. Qed.
Lemma T3_ext {X} a b c (F G : nat -> nat -> nat -> X) :
  (forall i j k, i < a -> j < b -> k < c -> F i j k = G i j k) -> T3 a b c F = T3 a b c G.
Proof. intros H. apply tab3_ext. intros. now apply H. Qed.
Lemma T4_ext {X} a b c e (F G : nat -> nat -> nat -> nat -> X) :
  (forall i j k l, i < a -> j < b -> k < c -> l < e -> F i j k l = G i j k l) -> T4 a b c e F = T4 a b c e G.
Proof. intros H. apply tab4_ext. intros. now apply H. Qed.

Lemma get_T1 {X} (d : X) a F i : i < a -> get d (T1 a F) [i] = F i.
Proof. intros. unfold T1. rewrite get_tab by (now apply inb1_i). reflexivity. Qed.
Lemma get_T2 {X} (d : X) a b F i j : i < a -> j < b -> get d (T2 a b F) [i; j] = F i j.
Proof. intros. unfold T2. rewrite get_tab by (now apply inb2_i). reflexivity. Qed.
Lemma get_T3 {X} (d : X) a b c F i j k : i < a -> j < b -> k < c -> get d (T3 a b c F) [i; j; k] = F i j k.
Proof. intros. unfold T3. rewrite get_tab by (now apply inb3_i). reflexivity. Qed.
Lemma get_T4 {X} (d : X) a b c e F i j k l :
  i < a -> j < b -> k < c -> l < e -> get d (T4 a b c e F) [i; j; k; l] = F i j k l.
Proof. intros. unfold T4. rewrite get_tab by (now apply inb4_i). reflexivity. Qed.


Lemma get_tab1 {X} (d : X) a f i : i < a -> get d (tab [a] f) [i] = f [i].
Proof. intros. apply get_tab. now apply inb1_i. Qed.
Lemma get_tab2 {X} (d : X) a b f i j : i < a -> j < b -> get d (tab [a; b] f) [i; j] = f [i; j].
Proof. intros. apply get_tab. now apply inb2_i. Qed.
Lemma get_tab3 {X} (d : X) a b c f i j k : i < a -> j < b -> k < c -> get d (tab [a; b; c] f) [i; j; k] = f [i; j; k].
Proof. intros. apply get_tab. now apply inb3_i. Qed.
Lemma get_tab4 {X} (d : X) a b c e f i j k l :
  i < a -> j < b -> k < c -> l < e -> get d (tab [a; b; c; e] f) [i; j; k; l] = f [i; j; k; l].
Proof. intros. apply get_tab. now apply inb4_i. Qed.
Lemma forallb_tab2 {X} (p : X -> bool) a b f :
  (forall i j, i < a -> j < b -> p (f [i; j]) = true) -> forallb p (dat (tab [a; b] f)) = true.
Proof. intros H. apply forallb_tab. intros ix Hi. destruct (inb2 _ _ _ Hi) as (i & j & -> & ? & ?). now apply H. Qed.
Lemma forallb_tab3 {X} (p : X -> bool) a b c f :
  (forall i j k, i < a -> j < b -> k < c -> p (f [i; j; k]) = true) -> forallb p (dat (tab [a; b; c] f)) = true.
Proof.
  intros H. apply forallb_tab. intros ix Hi. destruct (inb3 _ _ _ _ Hi) as (i & j & k & -> & ? & ? & ?). now apply H.
Qed.

Lemma forallb_T2 {X} (p : X -> bool) a b F :
  (forall i j, i < a -> j < b -> p (F i j) = true) -> forallb p (dat (T2 a b F)) = true.
Proof. intros H. apply forallb_tab. intros ix Hi. destruct (inb2 _ _ _ Hi) as (i & j & -> & ? & ?). now apply H. Qed.
Lemma forallb_T3 {X} (p : X -> bool) a b c F :
  (forall i j k, i < a -> j < b -> k < c -> p (F i j k) = true) -> forallb p (dat (T3 a b c F)) = true.
Proof.
  intros H. apply forallb_tab. intros ix Hi. destruct (inb3 _ _ _ _ Hi) as (i & j & k & -> & ? & ? & ?). now apply H.
Qed.

Lemma tmap_T1 {X Y} (g : X -> Y) a F : tmap g (T1 a F) = T1 a (fun i => g (F i)).
Proof. unfold T1. now rewrite tmap_tab. Qed.
Lemma tmap_T2 {X Y} (g : X -> Y) a b F : tmap g (T2 a b F) = T2 a b (fun i j => g (F i j)).
Proof. unfold T2. now rewrite tmap_tab. Qed.
Lemma tmap_T3 {X Y} (g : X -> Y) a b c F : tmap g (T3 a b c F) = T3 a b c (fun i j k => g (F i j k)).
Proof. unfold T3. now rewrite tmap_tab. Qed.
Lemma tmap_T4 {X Y} (g : X -> Y) a b c e F : tmap g (T4 a b c e F) = T4 a b c e (fun i j k l => g (F i j k l)).
Proof. unfold T4. now rewrite tmap_tab. Qed.

(* ---- broadcasting bits ---------------------------------------------------------------------------------- *)
Lemma bdim_refl a : bdim a a = Some a. Proof. unfold bdim. now rewrite Nat.eqb_refl. Qed.
Lemma bdim_1_l a : bdim 1 a = Some a.
Proof. unfold bdim. destruct (Nat.eqb_spec 1 a) as [<-|]; reflexivity. Qed.
Lemma bdim_1_r a : bdim a 1 = Some a.
Proof.
  unfold bdim. destruct (Nat.eqb_spec a 1) as [->|]; [reflexivity|]. reflexivity.
Qed.
Lemma bidx_lt n i : i < n -> bidx n i = i.
Proof. intros H. unfold bidx. destruct (Nat.eqb_spec n 1); [lia|reflexivity]. Qed.
Lemma bidx_1 i : bidx 1 i = 0. Proof. reflexivity. Qed.

(* ---- the operations on tabulated tensors ---------------------------------------------------------------- *)
Module M := PV.C05.Model.

Lemma wrap_nonneg D (d : nat) : d < D -> wrap_dim D (Z.of_nat d) = Some d.
Proof.
  intros H. unfold wrap_dim. replace ((- Z.of_nat D <=? Z.of_nat d)%Z && (Z.of_nat d <? Z.of_nat D)%Z) with true by lia.
  replace (Z.of_nat d <? 0)%Z with false by lia. now rewrite Nat2Z.id.
Qed.

Lemma nats_eqb_refl a : nats_eqb a a = true.
Proof. induction a as [|x a IH]; [reflexivity|]. cbn. now rewrite Nat.eqb_refl. Qed.

Lemma nat_sizes_of l : nat_sizes (map Z.of_nat l) = Some l.
Proof.
  unfold nat_sizes. replace (forallb (fun z => (0 <=? z)%Z) (map Z.of_nat l)) with true.
  - f_equal. rewrite map_map. rewrite <- (map_id l) at 2. apply map_ext. intros. apply Nat2Z.id.
  - symmetry. apply forallb_forall. intros z Hz. apply in_map_iff in Hz. destruct Hz as [n [<- _]]. lia.
Qed.

Lemma nat_sizes2 a b : nat_sizes [Z.of_nat a; Z.of_nat b] = Some [a; b]. Proof. apply (nat_sizes_of [a; b]). Qed.
Lemma nat_sizes3 a b c : nat_sizes [Z.of_nat a; Z.of_nat b; Z.of_nat c] = Some [a; b; c].
Proof. apply (nat_sizes_of [a; b; c]). Qed.

Ltac leb_true := repeat match goal with
  | H : ?a <= ?b |- context [?a <=? ?b] => replace (a <=? b) with true by (symmetry; apply Nat.leb_le; exact H)
  end.

(* constructors *)
Lemma full_T2 {X} a b (v : X) : full [Z.of_nat a; Z.of_nat b] v = Some (T2 a b (fun _ _ => v)).
Proof. try unfold T2; try unfold T3. unfold full. now rewrite nat_sizes2. Qed.
Lemma full_T3 {X} a b c (v : X) : full [Z.of_nat a; Z.of_nat b; Z.of_nat c] v = Some (T3 a b c (fun _ _ _ => v)).
Proof. try unfold T2; try unfold T3. unfold full. now rewrite nat_sizes3. Qed.

(* unsqueeze *)
Lemma unsqueeze_T1_1 {X} (d : X) a F : unsqueeze d (T1 a F) 1 = Some (T2 a 1 (fun i _ => F i)).
Proof.
  try unfold T1; try unfold T2; try unfold T3; try unfold T4.
  unfold unsqueeze. unfold T1, T2; cbn [rank shp tab List.length]. change (wrap_dim 2 1) with (Some 1). cbv beta iota. f_equal.
  cbn [insert_at firstn skipn app]. apply tab2_ext. intros i j Hi Hj. cbn [remove_at firstn skipn app at_ nth].
  now rewrite get_tab1.
Qed.
Lemma unsqueeze_T2_0 {X} (d : X) a b F : unsqueeze d (T2 a b F) 0 = Some (T3 1 a b (fun _ i j => F i j)).
Proof.
  try unfold T1; try unfold T2; try unfold T3; try unfold T4.
  unfold unsqueeze. unfold T2, T3; cbn [rank shp tab List.length]. change (wrap_dim 3 0) with (Some 0). cbv beta iota. f_equal.
  cbn [insert_at firstn skipn app]. apply tab3_ext. intros i j k Hi Hj Hk. cbn [remove_at firstn skipn app at_ nth].
  now rewrite get_tab2.
Qed.
Lemma unsqueeze_T2_1 {X} (d : X) a b F : unsqueeze d (T2 a b F) 1 = Some (T3 a 1 b (fun i _ j => F i j)).
Proof.
  try unfold T1; try unfold T2; try unfold T3; try unfold T4.
  unfold unsqueeze. unfold T2, T3; cbn [rank shp tab List.length]. change (wrap_dim 3 1) with (Some 1). cbv beta iota. f_equal.
  cbn [insert_at firstn skipn app]. apply tab3_ext. intros i j k Hi Hj Hk. cbn [remove_at firstn skipn app at_ nth].
  now rewrite get_tab2.
Qed.
Lemma unsqueeze_T2_2 {X} (d : X) a b F : unsqueeze d (T2 a b F) 2 = Some (T3 a b 1 (fun i j _ => F i j)).
Proof.
  try unfold T1; try unfold T2; try unfold T3; try unfold T4.
  unfold unsqueeze. unfold T2, T3; cbn [rank shp tab List.length]. change (wrap_dim 3 2) with (Some 2). cbv beta iota. f_equal.
  cbn [insert_at firstn skipn app]. apply tab3_ext. intros i j k Hi Hj Hk. cbn [remove_at firstn skipn app at_ nth].
  now rewrite get_tab2.
Qed.
Lemma unsqueeze_T3_3 {X} (d : X) a b c F : unsqueeze d (T3 a b c F) 3 = Some (T4 a b c 1 (fun i j k _ => F i j k)).
Proof.
  try unfold T1; try unfold T2; try unfold T3; try unfold T4.
  unfold unsqueeze. unfold T2, T3, T4; cbn [rank shp tab List.length]. change (wrap_dim 4 3) with (Some 3). cbv beta iota. f_equal.
  cbn [insert_at firstn skipn app]. apply tab4_ext. intros i j k l Hi Hj Hk Hl. cbn [remove_at firstn skipn app at_ nth].
  now rewrite get_tab3.
Qed.

(* expand: sizes equal or the tensor's size 1 *)
Definition exp_ok (s s' : nat) : Prop := s = s' \/ s = 1.
Lemma exp_ok_b s s' : exp_ok s s' -> (s =? s') || (s =? 1) = true.
Proof. intros [->| ->]; [now rewrite Nat.eqb_refl|apply orb_true_r]. Qed.
Lemma exp_bidx s s' i : exp_ok s s' -> i < s' -> bidx s i < s.
Proof. intros [->| ->] H; [now rewrite bidx_lt|cbn; lia]. Qed.

Lemma expand_T3 {X} (d : X) a b c a' b' c' F : exp_ok a a' -> exp_ok b b' -> exp_ok c c' ->
  expand d (T3 a b c F) [Z.of_nat a'; Z.of_nat b'; Z.of_nat c']
  = Some (T3 a' b' c' (fun i j k => F (bidx a i) (bidx b j) (bidx c k))).
Proof.
  try unfold T1; try unfold T2; try unfold T3; try unfold T4.
  intros Ha Hb Hc. unfold expand. rewrite nat_sizes3. cbn [rank shp T3 tab List.length Nat.eqb combine forallb fst snd andb].
  rewrite (exp_ok_b _ _ Ha), (exp_ok_b _ _ Hb), (exp_ok_b _ _ Hc). cbn [andb]. f_equal.
  apply tab3_ext. intros i j k Hi Hj Hk. cbn [zipw at_ nth].
  rewrite get_tab3; [reflexivity|eapply exp_bidx; eassumption..].
Qed.

(* transpose(0, 1) of a 3-D tensor *)
Lemma transpose_T3_01 {X} (d : X) a b c F : transpose d (T3 a b c F) 0 1 = Some (T3 b a c (fun i j k => F j i k)).
Proof.
  try unfold T1; try unfold T2; try unfold T3; try unfold T4.
  unfold transpose. unfold T2, T3, T4; cbn [rank shp tab List.length]. change (wrap_dim 3 0) with (Some 0). change (wrap_dim 3 1) with (Some 1). cbv beta iota.
  f_equal. cbn [swap_at set_at nth]. apply tab3_ext. intros i j k Hi Hj Hk. cbn [swap_at set_at nth at_].
  now rewrite get_tab3.
Qed.

(* view (a, b, c) -> (a, b * c) *)
Lemma view_merge_T3 {X} (d : X) a b c F : 0 < c ->
  view_merge d (T3 a b c F) [Z.of_nat a; (Z.of_nat b * Z.of_nat c)%Z]
  = Some (T2 a (b * c) (fun i r => F i (r / c) (r mod c))).
Proof.
  try unfold T1; try unfold T2; try unfold T3; try unfold T4.
  intros Hc. unfold view_merge. cbn [shp T3 tab]. rewrite <- Nat2Z.inj_mul, nat_sizes2. rewrite !Nat.eqb_refl. cbn [andb].
  f_equal. apply tab2_ext. intros i r Hi Hr. cbn [at_ nth]. rewrite get_tab3; [reflexivity|exact Hi| |].
  - apply Nat.div_lt_upper_bound; lia.
  - apply Nat.mod_upper_bound. lia.
Qed.

(* cat *)
Lemma cat2_T2_1 {X} (d : X) a b b' F G :
  cat2 d (T2 a b F) (T2 a b' G) 1 = Some (T2 a (b + b') (fun i j => if j <? b then F i j else G i (j - b))).
Proof.
  try unfold T1; try unfold T2; try unfold T3; try unfold T4.
  unfold cat2. unfold T2, T3; cbn [rank shp tab List.length]. change (wrap_dim 2 1) with (Some 1). cbv beta iota.
  cbn [remove_at firstn skipn app nats_eqb Nat.eqb nth set_at]. rewrite Nat.eqb_refl. cbn [andb]. f_equal.
  apply tab2_ext. intros i j Hi Hj. cbn [at_ nth set_at]. destruct (Nat.ltb_spec j b).
  - now rewrite get_tab2.
  - rewrite get_tab2; [reflexivity|exact Hi|lia].
Qed.
Lemma cat2_T3_0 {X} (d : X) a a' b c F G :
  cat2 d (T3 a b c F) (T3 a' b c G) 0 = Some (T3 (a + a') b c (fun i j k => if i <? a then F i j k else G (i - a) j k)).
Proof.
  try unfold T1; try unfold T2; try unfold T3; try unfold T4.
  unfold cat2. unfold T2, T3, T4; cbn [rank shp tab List.length]. change (wrap_dim 3 0) with (Some 0). cbv beta iota.
  cbn [remove_at firstn skipn app nats_eqb Nat.eqb nth set_at]. rewrite !Nat.eqb_refl. cbn [andb]. f_equal.
  apply tab3_ext. intros i j k Hi Hj Hk. cbn [at_ nth set_at]. destruct (Nat.ltb_spec i a).
  - now rewrite get_tab3.
  - rewrite get_tab3; [reflexivity|lia|exact Hj|exact Hk].
Qed.
Lemma cat2_T3_1 {X} (d : X) a b b' c F G :
  cat2 d (T3 a b c F) (T3 a b' c G) 1 = Some (T3 a (b + b') c (fun i j k => if j <? b then F i j k else G i (j - b) k)).
Proof.
  try unfold T1; try unfold T2; try unfold T3; try unfold T4.
  unfold cat2. unfold T2, T3, T4; cbn [rank shp tab List.length]. change (wrap_dim 3 1) with (Some 1). cbv beta iota.
  cbn [remove_at firstn skipn app nats_eqb Nat.eqb nth set_at]. rewrite !Nat.eqb_refl. cbn [andb]. f_equal.
  apply tab3_ext. intros i j k Hi Hj Hk. cbn [at_ nth set_at]. destruct (Nat.ltb_spec j b).
  - now rewrite get_tab3.
  - rewrite get_tab3; [reflexivity|exact Hi|lia|exact Hk].
Qed.
Lemma cat2_T3_2 {X} (d : X) a b c c' F G :
  cat2 d (T3 a b c F) (T3 a b c' G) 2 = Some (T3 a b (c + c') (fun i j k => if k <? c then F i j k else G i j (k - c))).
Proof.
  try unfold T1; try unfold T2; try unfold T3; try unfold T4.
  unfold cat2. unfold T2, T3, T4; cbn [rank shp tab List.length]. change (wrap_dim 3 2) with (Some 2). cbv beta iota.
  cbn [remove_at firstn skipn app nats_eqb Nat.eqb nth set_at]. rewrite !Nat.eqb_refl. cbn [andb]. f_equal.
  apply tab3_ext. intros i j k Hi Hj Hk. cbn [at_ nth set_at]. destruct (Nat.ltb_spec k c).
  - now rewrite get_tab3.
  - rewrite get_tab3; [reflexivity|exact Hi|exact Hj|lia].
Qed.

(* gather *)
Lemma zin_true n z : (0 <= z < Z.of_nat n)%Z -> zin n z = true.
Proof. intros H. unfold zin. lia. Qed.

Lemma gather_T2_1 {X} (d : X) a b a' b' F G : a' <= a ->
  (forall i j, i < a' -> j < b' -> (0 <= G i j < Z.of_nat b)%Z) ->
  gather d (T2 a b F) 1 (T2 a' b' G) = Some (T2 a' b' (fun i j => F i (Z.to_nat (G i j)))).
Proof.
  try unfold T1; try unfold T2; try unfold T3; try unfold T4.
  intros Ha HG. unfold gather. unfold T2, T3; cbn [rank shp tab List.length]. change (wrap_dim 2 1) with (Some 1). cbv beta iota.
  cbn [Nat.eqb remove_at firstn skipn app combine forallb fst snd nth]. leb_true. cbn [andb].
  rewrite forallb_tab2 by (intros; apply zin_true; now apply HG). f_equal.
  apply tab2_ext. intros i j Hi Hj. rewrite get_tab2 by assumption. cbn [set_at at_ nth]. specialize (HG i j Hi Hj).
  rewrite get_tab2; [reflexivity|lia|lia].
Qed.
Lemma gather_T3_0 {X} (d : X) a b c a' b' c' F G : b' <= b -> c' <= c ->
  (forall i j k, i < a' -> j < b' -> k < c' -> (0 <= G i j k < Z.of_nat a)%Z) ->
  gather d (T3 a b c F) 0 (T3 a' b' c' G) = Some (T3 a' b' c' (fun i j k => F (Z.to_nat (G i j k)) j k)).
Proof.
  try unfold T1; try unfold T2; try unfold T3; try unfold T4.
  intros Hb Hc HG. unfold gather. unfold T2, T3, T4; cbn [rank shp tab List.length]. change (wrap_dim 3 0) with (Some 0). cbv beta iota.
  cbn [Nat.eqb remove_at firstn skipn app combine forallb fst snd nth]. leb_true. cbn [andb].
  rewrite forallb_tab3 by (intros; apply zin_true; now apply HG). f_equal.
  apply tab3_ext. intros i j k Hi Hj Hk. rewrite get_tab3 by assumption. cbn [set_at at_ nth]. specialize (HG i j k Hi Hj Hk).
  rewrite get_tab3; [reflexivity|lia|lia|lia].
Qed.
Lemma gather_T3_1 {X} (d : X) a b c a' b' c' F G : a' <= a -> c' <= c ->
  (forall i j k, i < a' -> j < b' -> k < c' -> (0 <= G i j k < Z.of_nat b)%Z) ->
  gather d (T3 a b c F) 1 (T3 a' b' c' G) = Some (T3 a' b' c' (fun i j k => F i (Z.to_nat (G i j k)) k)).
Proof.
  try unfold T1; try unfold T2; try unfold T3; try unfold T4.
  intros Ha Hc HG. unfold gather. unfold T2, T3, T4; cbn [rank shp tab List.length]. change (wrap_dim 3 1) with (Some 1). cbv beta iota.
  cbn [Nat.eqb remove_at firstn skipn app combine forallb fst snd nth]. leb_true. cbn [andb].
  rewrite forallb_tab3 by (intros; apply zin_true; now apply HG). f_equal.
  apply tab3_ext. intros i j k Hi Hj Hk. rewrite get_tab3 by assumption. cbn [set_at at_ nth]. specialize (HG i j k Hi Hj Hk).
  rewrite get_tab3; [reflexivity|lia|lia|lia].
Qed.
Lemma gather_T3_2 {X} (d : X) a b c a' b' c' F G : a' <= a -> b' <= b ->
  (forall i j k, i < a' -> j < b' -> k < c' -> (0 <= G i j k < Z.of_nat c)%Z) ->
  gather d (T3 a b c F) 2 (T3 a' b' c' G) = Some (T3 a' b' c' (fun i j k => F i j (Z.to_nat (G i j k)))).
Proof.
  try unfold T1; try unfold T2; try unfold T3; try unfold T4.
  intros Ha Hb HG. unfold gather. unfold T2, T3, T4; cbn [rank shp tab List.length]. change (wrap_dim 3 2) with (Some 2). cbv beta iota.
  cbn [Nat.eqb remove_at firstn skipn app combine forallb fst snd nth]. leb_true. cbn [andb].
  rewrite forallb_tab3 by (intros; apply zin_true; now apply HG). f_equal.
  apply tab3_ext. intros i j k Hi Hj Hk. rewrite get_tab3 by assumption. cbn [set_at at_ nth]. specialize (HG i j k Hi Hj Hk).
  rewrite get_tab3; [reflexivity|lia|lia|lia].
Qed.

(* scatter with a single index layer *)
Lemma scatter_value_T3_2 {X} (d : X) a b c F G v :
  (forall i j, i < a -> j < b -> (0 <= G i j 0%nat < Z.of_nat c)%Z) ->
  scatter_value d (T3 a b c F) 2 (T3 a b 1 G) v
  = Some (T3 a b c (fun i j k => if k =? Z.to_nat (G i j 0) then v else F i j k)).
Proof.
  try unfold T1; try unfold T2; try unfold T3; try unfold T4.
  intros HG. unfold scatter_value, scatter_with. unfold T2, T3, T4; cbn [rank shp tab List.length]. change (wrap_dim 3 2) with (Some 2). cbv beta iota.
  cbn [Nat.ltb Nat.leb set_at nth]. rewrite nats_eqb_refl. cbn [andb].
  rewrite forallb_tab3 by (intros i j k Hi Hj Hk; apply zin_true; replace k with 0 by lia; now apply HG). f_equal.
  apply tab3_ext. intros i j k Hi Hj Hk. cbn [set_at at_ nth]. rewrite get_tab3 by (assumption || lia).
  now rewrite get_tab3.
Qed.
Lemma scatter_src_T3_0 {X} (d : X) a b c F G S :
  (forall j k, j < b -> k < c -> (0 <= G 0%nat j k < Z.of_nat a)%Z) ->
  scatter_src d (T3 a b c F) 0 (T3 1 b c G) (T3 1 b c S)
  = Some (T3 a b c (fun i j k => if i =? Z.to_nat (G 0 j k) then S 0 j k else F i j k)).
Proof.
  try unfold T1; try unfold T2; try unfold T3; try unfold T4.
  intros HG. unfold scatter_src. cbn [shp T3 tab]. rewrite nats_eqb_refl. unfold scatter_with.
  cbn [rank shp tab List.length]. change (wrap_dim 3 0) with (Some 0). cbv beta iota.
  cbn [Nat.ltb Nat.leb set_at nth]. rewrite nats_eqb_refl. cbn [andb].
  rewrite forallb_tab3 by (intros i j k Hi Hj Hk; apply zin_true; replace i with 0 by lia; now apply HG). f_equal.
  apply tab3_ext. intros i j k Hi Hj Hk. cbn [set_at at_ nth]. rewrite !get_tab3 by (assumption || lia).
  reflexivity.
Qed.

(* one_hot of a 3-D tensor *)
Lemma one_hot_T3 a b c n G : 1 <= n ->
  (forall i j k, i < a -> j < b -> k < c -> (0 <= G i j k < Z.of_nat n)%Z) ->
  one_hot (T3 a b c G) (Z.of_nat n)
  = Some (T4 a b c n (fun i j k l => if l =? Z.to_nat (G i j k) then 1%Z else 0%Z)).
Proof.
  try unfold T1; try unfold T2; try unfold T3; try unfold T4.
  intros Hn HG. unfold one_hot. replace (1 <=? Z.of_nat n)%Z with true by lia. rewrite Nat2Z.id.
  rewrite forallb_tab3 by (intros; apply zin_true; now apply HG). cbn [andb shp T3 tab app]. f_equal.
  apply tab4_ext. intros i j k l Hi Hj Hk Hl. cbn [last removelast at_ nth].
  now rewrite get_tab3.
Qed.

(* where on equal shapes *)
Lemma where_T2 {X} (d : X) a b C F G :
  where_ d (T2 a b C) (T2 a b F) (T2 a b G) = Some (T2 a b (fun i j => if C i j then F i j else G i j)).
Proof.
  try unfold T1; try unfold T2; try unfold T3; try unfold T4.
  unfold where_. cbn [shp T2 tab]. rewrite nats_eqb_refl. cbn [andb]. f_equal. apply tab2_ext. intros i j Hi Hj.
  cbn [at_ nth]. now rewrite !get_tab2.
Qed.

(* reductions *)
Lemma fsum_T3_1 a b c F :
  fsum (T3 a b c F) 1 = Some (T2 a c (fun i k => fold_right M.madd (M.Fin 0%Qc) (map (fun j => F i j k) (seq 0 b)))).
Proof.
  try unfold T1; try unfold T2; try unfold T3; try unfold T4.
  unfold fsum. unfold T2, T3, T4; cbn [rank shp tab List.length]. change (wrap_dim 3 1) with (Some 1). cbv beta iota. f_equal.
  cbn [remove_at firstn skipn app nth]. apply tab2_ext. intros i k Hi Hk. cbn [at_ nth]. f_equal.
  apply map_ext_in. intros j Hj. apply in_seq in Hj. cbn [insert_at firstn skipn app].
  rewrite get_tab3; [reflexivity|exact Hi|lia|exact Hk].
Qed.
Lemma bany_T4_2 a b c e F :
  bany (T4 a b c e F) 2 = Some (T3 a b e (fun i j l => existsb (fun k => F i j k l) (seq 0 c))).
Proof.
  try unfold T1; try unfold T2; try unfold T3; try unfold T4.
  unfold bany. unfold T3, T4; cbn [rank shp tab List.length]. change (wrap_dim 4 2) with (Some 2). cbv beta iota. f_equal.
  cbn [remove_at firstn skipn app nth]. apply tab3_ext. intros i j l Hi Hj Hl. cbn [at_ nth].
  assert (E : forall s, (forall k, In k s -> k < c) ->
    existsb (fun t => get false (tab [a; b; c; e] (fun ix => F (at_ ix 0) (at_ ix 1) (at_ ix 2) (at_ ix 3))) (insert_at 2 t [i; j; l])) s
    = existsb (fun k => F i j k l) s).
  { induction s as [|k s IH]; intros Hs; [reflexivity|]. cbn [existsb]. rewrite IH by (intros; apply Hs; now right).
    f_equal. cbn [insert_at firstn skipn app]. rewrite get_tab4; [reflexivity|exact Hi|exact Hj|apply Hs; now left|exact Hl]. }
  apply E. intros k Hk. apply in_seq in Hk. lia.
Qed.

(* element-wise with broadcasting, equal ranks *)
Lemma bdim_bidx_l a1 a2 a i : bdim a1 a2 = Some a -> i < a -> bidx a1 i < a1.
Proof.
  try unfold T1; try unfold T2; try unfold T3; try unfold T4.
  unfold bdim, bidx. destruct (Nat.eqb_spec a1 a2) as [->|]; [intros [= ->] H; destruct (Nat.eqb_spec a 1); lia|].
  destruct (Nat.eqb_spec a1 1) as [->|]; [intros; lia|]. destruct (Nat.eqb_spec a2 1) as [->|]; [intros [= ->] H; lia|discriminate].
Qed.
Lemma bdim_bidx_r a1 a2 a i : bdim a1 a2 = Some a -> i < a -> bidx a2 i < a2.
Proof.
  try unfold T1; try unfold T2; try unfold T3; try unfold T4.
  unfold bdim, bidx. destruct (Nat.eqb_spec a1 a2) as [->|]; [intros [= ->] H; destruct (Nat.eqb_spec a 1); lia|].
  destruct (Nat.eqb_spec a1 1) as [->|].
  - intros [= ->] H. destruct (Nat.eqb_spec a 1); lia.
  - destruct (Nat.eqb_spec a2 1) as [->|]; [intros; lia|discriminate].
Qed.

Lemma zipb_T2 {X Y W} (dx : X) (dy : Y) (f : X -> Y -> W) a1 b1 a2 b2 a b F G :
  bdim a1 a2 = Some a -> bdim b1 b2 = Some b ->
  zipb dx dy f (T2 a1 b1 F) (T2 a2 b2 G)
  = Some (T2 a b (fun i j => f (F (bidx a1 i) (bidx b1 j)) (G (bidx a2 i) (bidx b2 j)))).
Proof.
  try unfold T1; try unfold T2; try unfold T3; try unfold T4.
  intros Ha Hb. unfold zipb. cbn [shp T2 tab bc_shape]. rewrite Ha, Hb. f_equal.
  apply tab2_ext. intros i j Hi Hj. cbn [zipw at_ nth].
  rewrite !get_tab2; eauto using bdim_bidx_l, bdim_bidx_r.
Qed.
Lemma zipb_T3 {X Y W} (dx : X) (dy : Y) (f : X -> Y -> W) a1 b1 c1 a2 b2 c2 a b c F G :
  bdim a1 a2 = Some a -> bdim b1 b2 = Some b -> bdim c1 c2 = Some c ->
  zipb dx dy f (T3 a1 b1 c1 F) (T3 a2 b2 c2 G)
  = Some (T3 a b c (fun i j k => f (F (bidx a1 i) (bidx b1 j) (bidx c1 k)) (G (bidx a2 i) (bidx b2 j) (bidx c2 k)))).
Proof.
  try unfold T1; try unfold T2; try unfold T3; try unfold T4.
  intros Ha Hb Hc. unfold zipb. cbn [shp T3 tab bc_shape]. rewrite Ha, Hb, Hc. f_equal.
  apply tab3_ext. intros i j k Hi Hj Hk. cbn [zipw at_ nth].
  rewrite !get_tab3; eauto using bdim_bidx_l, bdim_bidx_r.
Qed.
Lemma zipb_T4 {X Y W} (dx : X) (dy : Y) (f : X -> Y -> W) a1 b1 c1 e1 a2 b2 c2 e2 a b c e F G :
  bdim a1 a2 = Some a -> bdim b1 b2 = Some b -> bdim c1 c2 = Some c -> bdim e1 e2 = Some e ->
  zipb dx dy f (T4 a1 b1 c1 e1 F) (T4 a2 b2 c2 e2 G)
  = Some (T4 a b c e (fun i j k l => f (F (bidx a1 i) (bidx b1 j) (bidx c1 k) (bidx e1 l))
                                      (G (bidx a2 i) (bidx b2 j) (bidx c2 k) (bidx e2 l)))).
Proof.
  try unfold T1; try unfold T2; try unfold T3; try unfold T4.
  intros Ha Hb Hc He. unfold zipb. cbn [shp T4 tab bc_shape]. rewrite Ha, Hb, Hc, He. f_equal.
  apply tab4_ext. intros i j k l Hi Hj Hk Hl. cbn [zipw at_ nth].
  rewrite !get_tab4; eauto using bdim_bidx_l, bdim_bidx_r.
Qed.

Lemma masked_fill_T2 {X} (d : X) a b a2 b2 F G v : bdim a a2 = Some a -> bdim b b2 = Some b ->
  masked_fill d (T2 a b F) (T2 a2 b2 G) v
  = Some (T2 a b (fun i j => if G (bidx a2 i) (bidx b2 j) then v else F (bidx a i) (bidx b j))).
Proof.
  intros Ha Hb. unfold masked_fill. rewrite (zipb_T2 _ _ _ _ _ _ _ a b) by assumption.
  unfold T2. cbn [shp tab]. now rewrite nats_eqb_refl.
Qed.
Lemma masked_fill_T3 {X} (d : X) a b c a2 b2 c2 F G v : bdim a a2 = Some a -> bdim b b2 = Some b -> bdim c c2 = Some c ->
  masked_fill d (T3 a b c F) (T3 a2 b2 c2 G) v
  = Some (T3 a b c (fun i j k => if G (bidx a2 i) (bidx b2 j) (bidx c2 k) then v else F (bidx a i) (bidx b j) (bidx c k))).
Proof.
  intros Ha Hb Hc. unfold masked_fill. rewrite (zipb_T3 _ _ _ _ _ _ _ _ _ a b c) by assumption.
  unfold T3. cbn [shp tab]. now rewrite nats_eqb_refl.
Qed.

(* topk with the oracle's answers *)
Lemma topk_T2 sel a m k F :
  k <= m ->
  (forall i, i < a -> List.length (sel i (map (F i) (seq 0 m)) k) = k /\
                      forall j, In j (sel i (map (F i) (seq 0 m)) k) -> j < m) ->
  topk sel (T2 a m F) (Z.of_nat k) 1
  = Some (T2 a k (fun i j => F i (nth j (sel i (map (F i) (seq 0 m)) k) 0)),
          T2 a k (fun i j => Z.of_nat (nth j (sel i (map (F i) (seq 0 m)) k) 0))).
Proof.
  try unfold T1; try unfold T2; try unfold T3; try unfold T4.
  intros Hk Hs. unfold topk. cbn [shp T2 tab]. change (wrap_dim 2 1) with (Some 1). cbv beta iota.
  replace ((0 <=? Z.of_nat k)%Z && (Z.of_nat k <=? Z.of_nat m)%Z) with true by lia. rewrite Nat2Z.id.
 
  assert (Er : forall i, i < a -> map (fun j => get M.NegInf (tab [a; m] (fun ix => F (at_ ix 0) (at_ ix 1))) [i; j]) (seq 0 m)
                                 = map (F i) (seq 0 m)).
  { intros i Hi. apply map_ext_in. intros j Hj. apply in_seq in Hj. rewrite get_tab2; [reflexivity|exact Hi|lia]. }
  replace (forallb _ (seq 0 a)) with true.
  - f_equal. f_equal.
    + apply tab2_ext. intros i j Hi Hj. cbn [at_ nth]. rewrite (Er i Hi). destruct (Hs i Hi) as [Hl Hin].
      rewrite get_tab2; [reflexivity|exact Hi|]. apply Hin. apply nth_In. now rewrite Hl.
    + apply tab2_ext. intros i j Hi Hj. cbn [at_ nth]. now rewrite (Er i Hi).
  - symmetry. apply forallb_forall. intros i Hi. apply in_seq in Hi. rewrite (Er i) by lia.
    destruct (Hs i) as [Hl Hin]; [lia|]. rewrite Hl, Nat.eqb_refl. cbn [andb]. apply forallb_forall.
    intros j Hj. apply Nat.ltb_lt. now apply Hin.
Qed.

(* ---- the broadcasting patterns the function uses ------------------------------------------------------ *)
Lemma zipb_T2_same {X Y W} (dx : X) (dy : Y) (f : X -> Y -> W) a b F G :
  zipb dx dy f (T2 a b F) (T2 a b G) = Some (T2 a b (fun i j => f (F i j) (G i j))).
Proof.
  rewrite (zipb_T2 _ _ _ a b a b a b) by apply bdim_refl. f_equal. apply T2_ext. intros i j Hi Hj.
  rewrite ?bidx_1. now rewrite ?bidx_lt by assumption.
Qed.
Lemma zipb_T2_col {X Y W} (dx : X) (dy : Y) (f : X -> Y -> W) a b F G :
  zipb dx dy f (T2 a b F) (T2 a 1 G) = Some (T2 a b (fun i j => f (F i j) (G i 0))).
Proof.
  rewrite (zipb_T2 _ _ _ a b a 1 a b) by (apply bdim_refl || apply bdim_1_r). f_equal. apply T2_ext. intros i j Hi Hj.
  rewrite ?bidx_1. now rewrite ?bidx_lt by assumption.
Qed.
Lemma zipb_T3_same {X Y W} (dx : X) (dy : Y) (f : X -> Y -> W) a b c F G :
  zipb dx dy f (T3 a b c F) (T3 a b c G) = Some (T3 a b c (fun i j k => f (F i j k) (G i j k))).
Proof.
  rewrite (zipb_T3 _ _ _ a b c a b c a b c) by apply bdim_refl. f_equal. apply T3_ext. intros i j k Hi Hj Hk.
  rewrite ?bidx_1. now rewrite ?bidx_lt by assumption.
Qed.
Lemma zipb_T3_last1 {X Y W} (dx : X) (dy : Y) (f : X -> Y -> W) a b c F G :
  zipb dx dy f (T3 a b c F) (T3 a b 1 G) = Some (T3 a b c (fun i j k => f (F i j k) (G i j 0))).
Proof.
  rewrite (zipb_T3 _ _ _ a b c a b 1 a b c) by (apply bdim_refl || apply bdim_1_r). f_equal. apply T3_ext.
  intros i j k Hi Hj Hk. rewrite ?bidx_1. now rewrite ?bidx_lt by assumption.
Qed.
Lemma zipb_T3_outer {X Y W} (dx : X) (dy : Y) (f : X -> Y -> W) a b c F G :
  zipb dx dy f (T3 a b 1 F) (T3 a 1 c G) = Some (T3 a b c (fun i j k => f (F i j 0) (G i 0 k))).
Proof.
  rewrite (zipb_T3 _ _ _ a b 1 a 1 c a b c) by (apply bdim_refl || apply bdim_1_r || apply bdim_1_l). f_equal.
  apply T3_ext. intros i j k Hi Hj Hk. rewrite ?bidx_1. now rewrite ?bidx_lt by assumption.
Qed.
Lemma zipb_T4_last1 {X Y W} (dx : X) (dy : Y) (f : X -> Y -> W) a b c e F G :
  zipb dx dy f (T4 a b c e F) (T4 a b c 1 G) = Some (T4 a b c e (fun i j k l => f (F i j k l) (G i j k 0))).
Proof.
  rewrite (zipb_T4 _ _ _ a b c e a b c 1 a b c e) by (apply bdim_refl || apply bdim_1_r). f_equal. apply T4_ext.
  intros i j k l Hi Hj Hk Hl. rewrite ?bidx_1. now rewrite ?bidx_lt by assumption.
Qed.
Lemma masked_fill_T2_same {X} (d : X) a b F G v :
  masked_fill d (T2 a b F) (T2 a b G) v = Some (T2 a b (fun i j => if G i j then v else F i j)).
Proof.
  rewrite masked_fill_T2 by apply bdim_refl. f_equal. apply T2_ext. intros i j Hi Hj. rewrite ?bidx_1. now rewrite ?bidx_lt by assumption.
Qed.
Lemma masked_fill_T3_same {X} (d : X) a b c F G v :
  masked_fill d (T3 a b c F) (T3 a b c G) v = Some (T3 a b c (fun i j k => if G i j k then v else F i j k)).
Proof.
  rewrite masked_fill_T3 by apply bdim_refl. f_equal. apply T3_ext. intros i j k Hi Hj Hk. rewrite ?bidx_1. now rewrite ?bidx_lt by assumption.
Qed.
Lemma masked_fill_T3_last1 {X} (d : X) a b c F G v :
  masked_fill d (T3 a b c F) (T3 a b 1 G) v = Some (T3 a b c (fun i j k => if G i j 0 then v else F i j k)).
Proof.
  rewrite masked_fill_T3 by (apply bdim_refl || apply bdim_1_r). f_equal. apply T3_ext. intros i j k Hi Hj Hk.
  rewrite ?bidx_1. now rewrite ?bidx_lt by assumption.
Qed.

(* expand patterns *)
Lemma expand_T3_last {X} (d : X) a b c F :
  expand d (T3 a b 1 F) [Z.of_nat a; Z.of_nat b; Z.of_nat c] = Some (T3 a b c (fun i j _ => F i j 0)).
Proof.
  rewrite expand_T3 by (unfold exp_ok; auto). f_equal. apply T3_ext. intros i j k Hi Hj Hk. rewrite ?bidx_1. now rewrite ?bidx_lt by assumption.
Qed.
Lemma expand_T3_first {X} (d : X) a b c F :
  expand d (T3 1 b c F) [Z.of_nat a; Z.of_nat b; Z.of_nat c] = Some (T3 a b c (fun _ j k => F 0 j k)).
Proof.
  rewrite expand_T3 by (unfold exp_ok; auto). f_equal. apply T3_ext. intros i j k Hi Hj Hk. rewrite ?bidx_1. now rewrite ?bidx_lt by assumption.
Qed.
Lemma expand_T3_mid {X} (d : X) a b c F :
  expand d (T3 a 1 c F) [Z.of_nat a; Z.of_nat b; Z.of_nat c] = Some (T3 a b c (fun i _ k => F i 0 k)).
Proof.
  rewrite expand_T3 by (unfold exp_ok; auto). f_equal. apply T3_ext. intros i j k Hi Hj Hk. rewrite ?bidx_1. now rewrite ?bidx_lt by assumption.
Qed.

Lemma fold_madd_fin (g : nat -> Qc) l :
  fold_right M.madd (M.Fin 0%Qc) (map (fun k => M.Fin (g k)) l) = M.Fin (M.qsum (map g l)).
Proof. induction l as [|x l IH]; [reflexivity|]. cbn [map fold_right]. rewrite IH. reflexivity. Qed.
Lemma zipb_T3_last1_l {X Y W} (dx : X) (dy : Y) (f : X -> Y -> W) a b c F G :
  zipb dx dy f (T3 a b 1 F) (T3 a b c G) = Some (T3 a b c (fun i j k => f (F i j 0) (G i j k))).
Proof.
  rewrite (zipb_T3 _ _ _ a b 1 a b c a b c) by (apply bdim_refl || apply bdim_1_l). f_equal. apply T3_ext.
  intros i j k Hi Hj Hk. rewrite ?bidx_1. now rewrite ?bidx_lt by assumption.
Qed.
