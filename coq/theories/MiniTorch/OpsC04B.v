(* MiniTorch, unit C04B — the meaning given to the torch operations that occur in the translated blocks of
   `BeamSearch.forward` / `BeamSearch._to_width` (src/pydrobert/torch/_decoding.py) and are NOT already in
   OpsC04.v (which is imported and reused as it is: same tensors = (shape, row-major MiniPy values), at most
   three dimensions, scores [VQ q] / [VInf false], integers [VInt z], booleans [VBool b]).  NEW DEFINITIONS
   ONLY; the algebra is in LemmasC04B.v.  IEEE rounding, dtypes beyond the kind of the elements, devices,
   strides and views are not modelled.  Outside the stated domain: [None] (the unit's [ext] is then Stuck).
   Each definition quotes the sentence of the torch documentation (2.x) it models.  TRUSTED by the second C04
   tie; exercised on every run by [SrcRunB.src_search_check] (torch vs the interpreted blocks). *)
From Coq Require Import List ZArith QArith Bool Arith.
From PV Require Import MiniPy.Syntax MiniTorch.Ops MiniTorch.OpsC04.
Import ListNotations.
Local Open Scope nat_scope.

Definition bool_of (v : val) : option bool := match v with VBool b => Some b | _ => None end.
Definition all_bool (x : vt) : bool := forallb (fun v => match v with VBool _ => true | _ => false end) (vdata x).
Definition all_float (x : vt) : bool := forallb is_float (vdata x).
Fixpoint shape_eqb (a b : list nat) : bool :=
  match a, b with
  | [], [] => true
  | x :: a', y :: b' => (x =? y) && shape_eqb a' b'
  | _, _ => false
  end.

(* ---- shapes ------------------------------------------------------------------------------------ *)
(* Tensor.permute( *dims ): "Returns a view of the original tensor input with its dimensions permuted."
   Modelled: a 3-D tensor and dims = (1, 2, 0), i.e. out[j][k][i] = input[i][j][k]. *)
Definition permute (x : vt) (dims : list Z) : option vt :=
  match vshape x, dims with
  | [a; b; c], [1; 2; 0]%Z => Some (tabv3 b c a (fun j k i => g3 b c x i j k))
  | _, _ => None
  end.

(* Tensor.squeeze(dim): "Returns a tensor with all specified dimensions of input of size 1 removed. ... When dim
   is given, a squeeze operation is done only in the given dimension(s).  If input is of shape (A x 1 x B),
   squeeze(input, 0) leaves the tensor unchanged, but squeeze(input, 1) will squeeze the tensor to the shape
   (A x B)."  The row-major data are unchanged. *)
Definition squeeze (x : vt) (d : Z) : option vt :=
  match wrap_dim (dim x) d with
  | Some k => if nth k (vshape x) 0 =? 1
              then Some (mkVT (firstn k (vshape x) ++ skipn (S k) (vshape x)) (vdata x))
              else Some x
  | None => None
  end.

(* basic indexing `x[..., :k]` (k >= 0) of a 2-D tensor: "the ... (Ellipsis) stands for all leading dimensions, :k
   selects the first min(k, size) entries of the last dimension". *)
Definition narrow_last (x : vt) (k : nat) : option vt :=
  match vshape x with
  | [n; m] => Some (tabv2 n (Nat.min k m) (fun i j => g2 m x i j))
  | _ => None
  end.

(* ---- element-wise ------------------------------------------------------------------------------ *)
(* `a - b` = torch.sub: "Subtracts other ... from input", integers only (with broadcasting as OpsC04.zip3),
   or a Python int from an integer tensor *)
Definition el_sub (a b : val) : option val :=
  match a, b with VInt x, VInt y => Some (VInt (x - y)%Z) | _, _ => None end.
Definition sub (x y : vt) : option vt := zip3 el_sub x y.
Definition sub_scalar (x : vt) (c : val) : option vt := tmap_opt (fun v => el_sub v c) x.

(* Tensor.clamp(min, max): "Clamps all elements in input into the range [ min, max ].  Letting min_value and
   max_value be min and max, respectively, this returns y_i = min(max(x_i, min_value_i), max_value_i).  If min is
   None, there is no lower bound.  Or, if max is None there is no upper bound."  Integer tensor, Python int
   bounds. *)
Definition clamp (x : vt) (lo hi : option Z) : option vt :=
  tmap_opt (fun v => match v with
                     | VInt z => let z1 := match lo with Some l => Z.max z l | None => z end in
                                 Some (VInt (match hi with Some h => Z.min z1 h | None => z1 end))
                     | _ => None end) x.

(* `a == c` = torch.eq, `a > c` = torch.gt: "Computes input == other / input > other element-wise."  Integer
   tensor, Python int c; the result is a boolean tensor. *)
Definition eq_scalar (x : vt) (c : Z) : option vt :=
  tmap_opt (fun v => match v with VInt z => Some (VBool (z =? c)%Z) | _ => None end) x.
Definition gt_scalar (x : vt) (c : Z) : option vt :=
  tmap_opt (fun v => match v with VInt z => Some (VBool (c <? z)%Z) | _ => None end) x.

(* `a & b` on two boolean tensors = torch.logical_and / bitwise_and on bool: "Computes the element-wise logical
   AND", with broadcasting *)
Definition el_and (a b : val) : option val :=
  match a, b with VBool p, VBool q => Some (VBool (p && q)) | _, _ => None end.
Definition and_ (x y : vt) : option vt := zip3 el_and x y.

(* Tensor.to(torch.bool) of an integer (or boolean) tensor: "non-zero values are True";
   Tensor.to(other): "Returns a Tensor with same torch.dtype and torch.device as the Tensor other" - modelled for a
   boolean tensor and an integer [other]: True -> 1, False -> 0. *)
Definition to_bool (x : vt) : option vt :=
  tmap_opt (fun v => match v with VInt z => Some (VBool (negb (z =? 0)%Z)) | VBool b => Some (VBool b) | _ => None end) x.
Definition to_int (x : vt) : option vt :=
  tmap_opt (fun v => match v with VBool b => Some (VInt (if b then 1 else 0)) | _ => None end) x.

(* Tensor.masked_fill(mask, value): "Fills elements of self tensor with value where mask is True.  The shape of mask
   must be broadcastable with the shape of the underlying tensor."  Float tensor, float value, boolean mask. *)
Definition masked_fill (x mask : vt) (v : val) : option vt :=
  if is_float v && all_float x then
    match zip3 (fun a m => match m with VBool b => Some (if b then v else a) | _ => None end) x mask with
    | Some r => if shape_eqb (vshape r) (vshape x) then Some r else None
    | None => None
    end
  else None.

(* torch.where(condition, input, other): "Return a tensor of elements selected from either input or other,
   depending on condition.  The tensors condition, input, other must be broadcastable."  Boolean condition; input
   and other of the same kind (both integer or both float: type promotion is not modelled). *)
Definition where_ (c a b : vt) : option vt :=
  if (all_int a && all_int b) || (all_float a && all_float b) then
    match as3 (vshape c), as3 (vshape a), as3 (vshape b) with
    | Some (c1, c2, c3), Some (a1, a2, a3), Some (b1, b2, b3) =>
        match bdim a1 b1, bdim a2 b2, bdim a3 b3 with
        | Some d1, Some d2, Some d3 =>
            match bdim c1 d1, bdim c2 d2, bdim c3 d3 with
            | Some e1, Some e2, Some e3 =>
                match sequence (tl3 e1 e2 e3 (fun i j k =>
                         match g3 c2 c3 c (bidx c1 i) (bidx c2 j) (bidx c3 k) with
                         | VBool t => Some (if t then g3 a2 a3 a (bidx a1 i) (bidx a2 j) (bidx a3 k)
                                            else g3 b2 b3 b (bidx b1 i) (bidx b2 j) (bidx b3 k))
                         | _ => None
                         end)) with
                | Some d => Some (mkVT (skipn (3 - Nat.max (dim c) (Nat.max (dim a) (dim b))) [e1; e2; e3]) d)
                | None => None
                end
            | _, _, _ => None
            end
        | _, _, _ => None
        end
    | _, _, _ => None
    end
  else None.

(* ---- reductions ---------------------------------------------------------------------------------- *)
(* Tensor.all(dim, keepdim=True): "For each row of input in the given dimension dim, returns True if all elements
   in the row evaluate to True and False otherwise.  If keepdim is True, the output tensor is of the same size as
   input except in the dimension dim where it is of size 1."  2-D boolean tensor, dim = 1. *)
Definition all_rows (x : vt) : option vt :=
  match vshape x with
  | [n; m] => if all_bool x
              then Some (tabv2 n 1 (fun i _ => VBool (forallb (fun j => match g2 m x i j with VBool b => b | _ => false end)
                                                              (seq 0 m))))
              else None
  | _ => None
  end.

(* Tensor.all(): "Tests if all elements in input evaluate to True."  As for OpsC04.any the Python bool its 0-d
   result converts to is returned.  Boolean tensors only. *)
Definition all (x : vt) : option bool :=
  option_map (forallb (fun b => b)) (map_opt bool_of (vdata x)).

(* ---- constructors ------------------------------------------------------------------------------ *)
(* torch.tensor(data) of a Python number: a 0-dimensional tensor holding it *)
Definition scalar (v : val) : vt := mkVT [] [v].

(* torch.nn.functional.one_hot(tensor, num_classes): "Takes LongTensor with index values of shape ( * ) and returns a
   tensor of shape ( *, num_classes) that have zeros everywhere except where the index of last dimension matches
   the corresponding value of the input tensor, in which case it will be 1."  0-dimensional input; "class values
   must be non-negative" and smaller than num_classes. *)
Definition one_hot (x : vt) (nc : Z) : option vt :=
  match vshape x, vdata x with
  | [], [VInt e] =>
      if ((0 <=? e) && (e <? nc))%Z
      then Some (mkVT [Z.to_nat nc] (map (fun v => VInt (if (Z.of_nat v =? e)%Z then 1 else 0)) (seq 0 (Z.to_nat nc))))
      else None
  | _, _ => None
  end.

(* torch.arange(start, end, step): "Returns a 1-D tensor of size ceil((end - start) / step) with values from the
   interval [start, end) taken with common difference step beginning from start."  Python ints, step > 0,
   start <= end. *)
Definition arange3 (s e st : Z) : option vt :=
  if ((0 <? st) && (s <=? e))%Z
  then let n := Z.to_nat ((e - s + st - 1) / st) in
       Some (mkVT [n] (map (fun i => VInt (s + Z.of_nat i * st)%Z) (seq 0 n)))
  else None.

(* ---- the language model's logits: an ORACLE ------------------------------------------------------------------
   `lm.calc_idx_log_probs` returns logits of which `forward` only ever takes `.reshape(N, K, V).log_softmax(-1)`.
   A logits tensor is therefore represented by the values of its log_softmax over the last dimension (what the C04
   model's [calc] returns): [lg_reshape] may regroup the leading dimensions only, [lg_log_softmax] over the last
   dimension reveals the values.  Nothing else can be done with logits (any other operation is Stuck). *)
Definition lg_reshape (x : vt) (sizes : list Z) : option vt :=
  match map (fun z => nat_of (VInt z)) sizes with
  | [Some a; Some b; Some c] =>
      if (prodn (vshape x) =? a * b * c) && (last (vshape x) 0 =? c) then Some (mkVT [a; b; c] (vdata x)) else None
  | _ => None
  end.
Definition lg_log_softmax (x : vt) (d : Z) : option vt :=
  match wrap_dim (dim x) d with
  | Some k => if S k =? dim x then Some x else None
  | None => None
  end.
