(* C03 - tie between the `for hyp_idx in range(...)` loop of `_string_matching` on the path return_mask = True
   (PV.Gen.C03Src.sm3_loop, the MiniPy term regenerated from /repo on every C03 run) and PV.C03.Model.mask_step, checked by
   the kernel: interpreting the loop body on the tensors ref (R x N), hyp (H x N), ref_lens / hyp_lens (N), del_mat
   (R+1 x R+1 x 1), rrange (R+1), the current row (R+1 x N, +inf allowed) and the Python list `masks` leaves, in every
   column n, exactly Model.mask_step of that column: the row carried to the next step (insertion / substitution candidates,
   the fold through del_mat, freezing by not_done, +inf past ref_lens) and the appended mask row (row[:-1] == mins &
   not_done) - for every batch size N, widths R, H, lengths, exclude_last, integer costs ci cd cs over any common
   denominator s.  [loop_tie3] iterates it over range(1, H + (0 if exclude_last else 1)).  Proof = symbolic run on abstract
   states (C03.TieLib), each torch call rewritten by its ext lemma and the operation's lemma on tabulated data, then
   TieMath.stepx_entry / bitx_entry per entry. *)
From Coq Require Import ZArith QArith List String Bool Arith Lia ZifyBool ZifyNat.
From PV Require Import MiniPy.Syntax MiniPy.Interp MiniPy.Lemmas MiniTorch.Ops MiniTorch.Lemmas MiniTorch.OpsC07 MiniTorch.LemmasC07
  MiniTorch.OpsC01 MiniTorch.LemmasC01 MiniTorch.OpsC03 MiniTorch.LemmasC03.
From PV Require Import Gen.C03Src C01.SrcRun C01.TieLib C01.TieMath C03.SrcRun C03.TieLib C03.TieMath.
From PV Require C01.Model C01.Proofs C01.TieLoop C03.Model.
Import ListNotations.
Local Open Scope string_scope.

#[local] Arguments dec01 : simpl never.
#[local] Arguments enc_b : simpl never.
#[local] Arguments enc_i : simpl never.
#[local] Arguments enc_x : simpl never.
#[local] Arguments tab2 : simpl never.
#[local] Arguments tab3 : simpl never.
#[local] Arguments qz : simpl never.
#[local] Arguments Z.add : simpl never.
#[local] Arguments Z.sub : simpl never.
#[local] Arguments Z.of_nat : simpl never.
#[local] Arguments select0 : simpl never.
#[local] Arguments slice0 : simpl never.
#[local] Arguments set_slice0 : simpl never.
#[local] Arguments broadcast : simpl never.
#[local] Arguments where_f : simpl never.
#[local] Arguments min_dim : simpl never.
#[local] Arguments min_dim_keep : simpl never.
#[local] Arguments set_row0 : simpl never.
#[local] Arguments stack0 : simpl never.
#[local] Arguments gather0 : simpl never.
#[local] Arguments unsqueeze : simpl never.
#[local] Arguments squeeze_dim : simpl never.
#[local] Arguments expand2 : simpl never.
#[local] Arguments triu_f : simpl never.
#[local] Arguments transpose2 : simpl never.
#[local] Arguments arange_f : simpl never.
#[local] Arguments arange : simpl never.
#[local] Arguments full : simpl never.
#[local] Arguments fadd : simpl never.
#[local] Arguments fsub : simpl never.
#[local] Arguments fmul : simpl never.
#[local] Arguments fdiv : simpl never.
#[local] Arguments fmin : simpl never.
#[local] Arguments fx_gtb : simpl never.
#[local] Arguments fx_eqb : simpl never.
#[local] Arguments b2f : simpl never.
#[local] Arguments z2f : simpl never.

#[local] Arguments ext01 : simpl never.
#[local] Arguments ext03 : simpl never.
#[local] Arguments zf : simpl never.
#[local] Arguments ofx : simpl never.
#[local] Arguments argmin_3 : simpl never.
#[local] Arguments argmin_2 : simpl never.
#[local] Arguments seq : simpl never.
#[local] Arguments fmin_list : simpl never.
#[local] Arguments zrange : simpl never.

Definition loop_body3 : stmt := match sm3_loop with SFor _ _ b => b | _ => SPass end.
Definition loop_iter3 : expr := match sm3_loop with SFor _ e _ => e | _ => EConst VNone end.
Lemma sm3_loop_eq : sm3_loop = SFor "hyp_idx" loop_iter3 loop_body3. Proof. reflexivity. Qed.

Notation colf := C01.TieLoop.colf.

(* column n of a tabulated matrix with T rows whose entries may be +inf *)
Definition colo (T : nat) (f : nat -> nat -> option Z) (n : nat) : list (option Z) := map (fun t => f t n) (seq 0 T).

Definition lens_val (N : nat) (l : nat -> nat) : val := enc_i (mkTn [N] (map (fun n => Z.of_nat (l n)) (seq 0 N))).

(* the Python list `masks`: one (R x N) boolean tensor per hypothesis prefix so far *)
Definition masks_val (R N : nat) (ms : list (nat -> nat -> bool)) : val :=
  VList (map (fun m => enc_b (mkTn [R; N] (tab2 R N m))) ms).

(* what the loop reads and preserves on the mask path: the flags, the tensors of the preamble, the current row, the masks;
   max_ref_steps / batch_size / device are carried along untouched for the exit *)
Definition body_pre3 (s : positive) (ci cd cs : Z) (R N H : nat) (rf hf : nat -> nat -> Z) (rl hl : nat -> nat) (excl : bool)
  (lf : nat -> nat -> option Z) (ms : list (nat -> nat -> bool)) (st : state) : Prop :=
  lookup "exclude_last" (vars st) = Some (VBool excl) /\
  lookup "return_mistakes" (vars st) = Some (VBool false) /\
  lookup "return_mask" (vars st) = Some (VBool true) /\
  lookup "hyp_lens" (vars st) = Some (lens_val N hl) /\
  lookup "ref_lens" (vars st) = Some (lens_val N rl) /\
  lookup "ref" (vars st) = Some (enc_i (mkTn [R; N] (tab2 R N rf))) /\
  lookup "hyp" (vars st) = Some (enc_i (mkTn [H; N] (tab2 H N hf))) /\
  lookup "ins_cost" (vars st) = Some (VQ (qz s ci)) /\
  lookup "sub_cost" (vars st) = Some (VQ (qz s cs)) /\
  lookup "del_mat" (vars st) =
    Some (enc_x (mkTn [S R; S R; 1%nat] (tab2 (S R) (S R) (fun i j => ofx s (C01.Model.del_entry cd i j))))) /\
  lookup "rrange" (vars st) = Some (enc_x (mkTn [S R] (map (fun i => z2f (Z.of_nat i)) (seq 0 (S R))))) /\
  lookup "max_ref_steps" (vars st) = Some (VInt (Z.of_nat R)) /\
  lookup "batch_size" (vars st) = Some (VInt (Z.of_nat N)) /\
  lookup "device" (vars st) = Some device_token /\
  lookup "row" (vars st) = Some (enc_x (mkTn [S R; N] (tab2 (S R) N (fun i n => ofx s (lf i n))))) /\
  lookup "masks" (vars st) = Some (masks_val R N ms).

Definition ms_eq (R N : nat) (ms ms' : list (nat -> nat -> bool)) : Prop :=
  Forall2 (fun m m' => forall i n, (i < R)%nat -> (n < N)%nat -> m i n = m' i n) ms ms'.

Lemma ms_eq_refl R N ms : ms_eq R N ms ms.
Proof. induction ms; constructor; auto. Qed.

Lemma ms_eq_app R N a a' b b' : ms_eq R N a a' -> ms_eq R N b b' -> ms_eq R N (a ++ b) (a' ++ b').
Proof. intros Ha Hb. apply Forall2_app; assumption. Qed.

Lemma masks_val_ext R N ms ms' : ms_eq R N ms ms' -> masks_val R N ms = masks_val R N ms'.
Proof.
  intros E. unfold masks_val. f_equal. induction E as [|m m' ms ms' Hm E IH]; [reflexivity|].
  cbn [map]. f_equal; [|exact IH]. do 2 f_equal. apply tab2_ext. exact Hm.
Qed.

Lemma body_pre3_ext s ci cd cs R N H rf hf rl hl excl lf lf' ms ms' st :
  (forall i n, (i < S R)%nat -> (n < N)%nat -> lf i n = lf' i n) -> ms_eq R N ms ms' ->
  body_pre3 s ci cd cs R N H rf hf rl hl excl lf ms st ->
  body_pre3 s ci cd cs R N H rf hf rl hl excl lf' ms' st.
Proof.
  intros E Em P. unfold body_pre3 in *.
  destruct P as (H1 & H2 & H3 & H4 & H5 & H6 & H7 & H8 & H9 & H10 & H11 & H12 & H13 & H14 & Prow & Pms).
  repeat (split; [assumption|]). split.
  - rewrite Prow. do 3 f_equal. apply tab2_ext. intros i n Hi Hn. now rewrite E.
  - rewrite Pms. f_equal. now apply masks_val_ext.
Qed.

Lemma if_ok_int (b : bool) (x y : Z) (st : state) :
  (if b then Ok (VInt x) st else Ok (VInt y) st) = Ok (VInt (if b then x else y)) st.
Proof. destruct b; reflexivity. Qed.

Lemma not_done_src (hlen : nat) (excl : bool) (k : nat) : (1 <= k)%nat ->
  (Z.of_nat k - (if excl then 0 else 1) <? Z.of_nat hlen)%Z = C03.Model.not_done_at hlen excl k.
Proof. intros Hk. unfold C03.Model.not_done_at. destruct excl; cbv iota; lia. Qed.

(* the symbolic run of the loop body (goal: runs_to (body_pre3 ..) (exec ext03 <body> (set_var "hyp_idx" k st)), after the
   introduction of st k lf ms Hk and the sixteen lookups of body_pre3); shared by the body of sm3_loop and the body of the
   loop inside sm3_body (TieBody.v), which differ in the name of a temporary only *)
Ltac body_script3 k Hk :=
    push_state;
    assign3x ltac:(repeat (progress (evn3; rewrite ?if_ok_int)); reflexivity);
    asg3; asg3;
    assign3x ltac:(ev3; replace (Z.of_nat k - 1)%Z with (Z.of_nat (k - 1)) by lia; rewrite select0_mat by lia; evn3; reflexivity);
    asg3; asg3;
    ifstep3; rewrite xexec_seq_assoc;
    setitem3_t ltac:(evn3; reflexivity); rewrite !xexec_seq_assoc;
    assign3x ltac:(evn3; rewrite min_dim_3 by lia; reflexivity);
    rewrite !xexec_seq_assoc; asg3; asg3; asg3; ifstep3;
    asg3;
    assign3x ltac:(evn3; rewrite min_dim_keep_2 by lia; evn3; reflexivity);
    asg3;
    append3;
    apply runs_to_ok; unfold body_pre3, lens_val, masks_val; repeat (split; [assumption|]); split;
    [ match goal with L : lookup "row" _ = _ |- _ => rewrite L end;
      do 3 f_equal; apply tab2_ext; intros ? ? ? ?;
      replace (Z.of_nat k - 1)%Z with (Z.of_nat (k - 1)) by lia;
      match goal with
      | Hi0 : (?i0 < S ?R0)%nat
        |- _ = ofx ?s0 (nth ?i0 (fst (C03.Model.mask_step ?ci0 ?cd0 ?cs0 (colf ?R0 ?rf0 ?n0) (colf ?H0 ?hf0 ?n0) (?rl0 ?n0) (?hl0 ?n0) ?excl0 k
                                      (colo _ ?lf0 ?n0))) _) =>
          apply (stepx_entry ci0 cd0 cs0 R0 H0 (fun j => rf0 j n0) (fun t => hf0 t n0) (fun i1 => lf0 i1 n0) (rl0 n0) (hl0 n0) k excl0 Hk
                   s0 _ i0 Hi0 (not_done_src (hl0 n0) excl0 k ltac:(lia)))
      end
    | match goal with L : lookup "masks" _ = _ |- _ => rewrite L end;
      rewrite map_app; cbn [map]; do 6 f_equal; apply tab2_ext; intros ? ? ? ?;
      replace (Z.of_nat k - 1)%Z with (Z.of_nat (k - 1)) by lia;
      match goal with
      | Hi0 : (?i0 < ?R0)%nat
        |- _ = nth ?i0 (snd (C03.Model.mask_step ?ci0 ?cd0 ?cs0 (colf ?R0 ?rf0 ?n0) (colf ?H0 ?hf0 ?n0) (?rl0 ?n0) (?hl0 ?n0) ?excl0 k
                               (colo _ ?lf0 ?n0))) _ =>
          apply (bitx_entry ci0 cd0 cs0 R0 H0 (fun j => rf0 j n0) (fun t => hf0 t n0) (fun i1 => lf0 i1 n0) (rl0 n0) (hl0 n0) k excl0 Hk
                   _ _ i0 Hi0 (not_done_src (hl0 n0) excl0 k ltac:(lia)))
      end ].

Section Body.
  Variables (s : positive) (ci cd cs : Z) (R N H : nat) (rf hf : nat -> nat -> Z) (rl hl : nat -> nat) (excl : bool).

  Notation pre := (body_pre3 s ci cd cs R N H rf hf rl hl excl).

  (* one column after one step: the carried row and the mask row *)
  Definition mrow_col (k : nat) (lf : nat -> nat -> option Z) (n : nat) : list (option Z) :=
    fst (C03.Model.mask_step ci cd cs (colf R rf n) (colf H hf n) (rl n) (hl n) excl k (colo (S R) lf n)).
  Definition mbits_col (k : nat) (lf : nat -> nat -> option Z) (n : nat) : list bool :=
    snd (C03.Model.mask_step ci cd cs (colf R rf n) (colf H hf n) (rl n) (hl n) excl k (colo (S R) lf n)).

  Theorem body_run3 : forall st k lf ms, (1 <= k <= H)%nat -> pre lf ms st ->
    runs_to (pre (fun i n => nth i (mrow_col k lf n) None) (ms ++ [fun i n => nth i (mbits_col k lf n) false]))
            (exec ext03 loop_body3 (set_var "hyp_idx" (VInt (Z.of_nat k)) st)).
  Proof.
    intros st k lf ms Hk (Hexcl & Hmist & Hmask & Hhl & Hrl & Href & Hhyp & Hci & Hcs & Hdm & Hrr & Hmr & Hbs & Hdev & Hrow & Hms).
    unfold loop_body3, sm3_loop. cbv iota. unfold lens_val, masks_val, mrow_col, mbits_col in *.
    body_script3 k Hk.
  Qed.

End Body.
