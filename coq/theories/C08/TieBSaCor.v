(* C08, second tie - corollary about the interpreted wrapper `spec_augment` (no warp configured, training mode, exact
   arithmetic): COMPOSITION of TieBSa.sa_nowarp_run (source = draw then apply_masks) with the model theorems on the
   drawn masks (ProofsDraw.time_masks_ok / freq_masks_ok) and on masking (ProofsMask.apply_masks_cell): every cell the
   interpreted source changes is set to 0.0 and lies in a drawn band; every drawn time band lies inside the valid
   length of its batch element and obeys the width / count caps, every frequency band inside [0, F]; every other
   cell is the input's cell. *)
From Coq Require Import ZArith QArith Qround List Bool Arith Lia.
From PV Require Import C08.Model C08.Spec C08.ProofsDraw C08.ProofsRound C08.Proofs.
From PV Require Import MiniPy.Syntax MiniPy.Interp MiniTorch.OpsC08 MiniTorch.OpsC08B MiniTorch.LemmasC08B.
From PV Require Import C08.SrcRun C08.SrcRunB C08.TieBlocks2 C08.TieModel C08.TieCor C08.TieBApply C08.TieB C08.TieBSa.
From PV Require C08.ProofsMask.
Import ListNotations.
Local Open Scope Q_scope.

Theorem sa_masks_inside_valid : forall spl gso rnd eps c N T F cells order lens,
  0 < eps -> eps <= 1 -> (0 <= c_Mt c)%Z -> (0 <= c_Mf c)%Z -> 0 <= c_pt c /\ c_pt c <= 1 -> 0 <= c_npt c ->
  (forall k i, unit_u (rnd k i)) -> lens_ok N T lens ->
  nonzero (c_Wt c) = false -> nonzero (c_Wf c) = false ->
  exists st out,
    run_sa exact spl gso rnd eps (T3 N T F cells) c order lens true = Ok (enc_c eps (mkTn [N; T; F] out)) st
    /\ forall n, (n < N)%nat -> exists tm fm,
         opt_ok (tmasks_ok 0 c (len_of T lens n)) tm /\ opt_ok (fmasks_ok c (Z.of_nat F)) fm
         /\ forall t f, (t < T)%nat -> (f < F)%nat ->
              (masked_cell tm fm (Z.of_nat t) (Z.of_nat f) -> get3 VNone T F out n t f = VQ 0)
              /\ (~ masked_cell tm fm (Z.of_nat t) (Z.of_nat f) -> get3 VNone T F out n t f = cells n t f).
Proof.
  intros spl gso rnd eps c N T F cells order lens E0 E1 HMt HMf Hpt Hnpt Hu Hl HWt HWf.
  destruct (sa_nowarp_run exact exact_laws spl gso rnd eps c N T F cells order lens Hl HWt HWf) as [st [out [E H]]].
  exists st, out. split; [exact E|]. intros n Hn.
  specialize (H n Hn). cbv zeta in H.
  set (p := draw (pyq exact) eps c (Z.of_nat F) (len_of T lens n) (uv_of rnd c n)) in *.
  exists (p_tm p), (p_fm p). split; [|split].
  - unfold p, draw. cbn [p_tm]. fold (tmask_enabled c). destruct (tmask_enabled c); [|exact I]. cbn [opt_ok].
    rewrite time_masks_pyq_exact. apply time_masks_ok; try assumption.
    + apply (len_of_range N T lens n Hl Hn).
    + cbn [u_t uv_of]. apply Forall_map_seq. intros i. apply Hu.
    + cbn [u_t0 uv_of]. apply Forall_map_seq. intros i. apply Hu.
  - unfold p, draw. cbn [p_fm]. fold (fmask_enabled c). destruct (fmask_enabled c); [|exact I]. cbn [opt_ok].
    rewrite freq_masks_pyq_exact. apply freq_masks_ok; try assumption; try lia.
    + cbn [u_f uv_of]. apply Forall_map_seq. intros i. apply Hu.
    + cbn [u_f0 uv_of]. apply Forall_map_seq. intros i. apply Hu.
  - intros t f Ht Hf.
    rewrite <- (img_of_cell VNone T F out n t f Ht Hf), H.
    destruct (img_of_shape VNone T F (tabl3 N T F cells) n) as [HT HF].
    assert (Ht' : (t < List.length (img_of VNone T F (tabl3 N T F cells) n))%nat) by now rewrite HT.
    assert (Hf' : (f < List.length (nth t (img_of VNone T F (tabl3 N T F cells) n) []))%nat) by now rewrite (HF t Ht).
    destruct (ProofsMask.apply_masks_cell (VQ 0) (p_tm p) (p_fm p) _ t f VNone Ht' Hf') as [A B].
    split; [exact A|]. intros Hm. rewrite (B Hm). rewrite (img_of_cell VNone T F _ n t f Ht Hf).
    now apply get3_tabl3.
Qed.
