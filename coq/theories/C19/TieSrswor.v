(* C19 tie - `simple_random_sampling_without_replacement`: the symbolic run of the translated body
   (PV.Gen.C19Src.srswor_body) under MiniPy.Interp with the torch calls of SrcRun.ext19, statement by statement,
   for EVERY batch shape, count tensors, out_size, Bernoulli oracle and content of uninitialised memory.
   Result: the run either raises RuntimeError (a given count exceeds its total, or out_size is too small) or
   returns the tensor whose rows are the batch loop [bloop] (TieModel.v relates its rows to Model.srswor). *)
From Coq Require Import ZArith QArith List String Bool Arith Lia.
From PV Require Import MiniPy.Syntax MiniPy.Interp MiniPy.Lemmas.
From PV Require Import MiniTorch.Ops MiniTorch.Value MiniTorch.Lemmas MiniTorch.OpsC19 MiniTorch.LemmasC19 Gen.C19Src.
From PV Require Import C19.SrcRun C19.TieLib.
Import ListNotations.
Local Open Scope string_scope.
Local Open Scope list_scope.

(* the 12 statements of the body; the loop body's 5 *)
Definition parts : list stmt := Eval cbv [flatten_seq srswor_body app] in flatten_seq srswor_body.
Definition loop_stmt : stmt := Eval cbv [parts nth] in nth 10 parts SPass.
Definition loop_body : stmt := Eval cbv [loop_stmt] in match loop_stmt with SFor _ _ b => b | _ => SPass end.
Definition body_parts : list stmt := Eval cbv [flatten_seq loop_body app] in flatten_seq loop_body.

#[local] Arguments enc_sh : simpl never.
#[local] Arguments enc_dat : simpl never.
#[local] Arguments dec : simpl never.
#[local] Arguments ext19 : simpl never.
#[local] Arguments Z.of_nat : simpl never.
#[local] Arguments map2 : simpl never.
#[local] Arguments exec_list : simpl never.
#[local] Arguments numel : simpl never.
#[local] Arguments Nat.mul : simpl never.
#[local] Arguments int_of_q : simpl never.
#[local] Arguments inject_Z : simpl never.
#[local] Arguments Qred : simpl never.
#[local] Arguments Qdiv : simpl never.
#[local] Arguments Qminus : simpl never.
#[local] Arguments qbool : simpl never.
#[local] Arguments qmax : simpl never.
#[local] Arguments zrange : simpl never.
#[local] Arguments tab2 : simpl never.

Ltac ext_rw := rewrite ?E_item, ?E_int, ?E_gt, ?E_any, ?E_shape, ?E_add_size, ?E_device, ?E_empty_dev, ?E_clamp_min,
  ?E_clamp_min_, ?E_bern, ?E_sub_tt, ?E_sub_ts, ?E_numel, ?E_T.
Ltac run1 := repeat (progress (cbn; change (Pos.to_nat 1) with 1%nat; cbn [nth]; ext_rw)).
Ltac norm_state := unfold set_var, emit; cbn [update vars events String.eqb Ascii.eqb Bool.eqb].
Ltac step tac := erewrite exec_list_cons_ok; [|run1; tac; run1; try reflexivity]; norm_state.
Ltac step_exc tac := erewrite exec_list_cons_exc; [|run1; tac; run1; try reflexivity]; norm_state.

(* ---- Z-level facts about the guards ---------------------------------------------------------------------- *)
Definition zinj (l : list Z) : list Q := map inject_Z l.
#[local] Arguments zinj : simpl never.

(* some given count exceeds its total *)
Definition over (totals givens : list Z) : bool := existsb (fun gt => (snd gt <? fst gt)%Z) (combine givens totals).

Lemma any_gt_z : forall givens totals,
  existsb qtrue (map2 (fun x y => qbool (q_gt x y)) (zinj givens) (zinj totals)) = over totals givens.
Proof.
  intros. unfold zinj, over. rewrite map2_maps, existsb_map'.
  apply existsb_ext'. intros [g t]. cbn [fst snd]. now rewrite qtrue_qbool, q_gt_z.
Qed.


(* ---- the head: everything before the loop ------------------------------------------------------------------ *)
Section Run.
  Variables (orc : oracle) (junk : nat -> Q).
  Notation ext := (ext19 orc junk).
  (* the count tensors as handed over, what broadcasting makes of them, the maximum of total_count *)
  Variables (s1 s2 sh : list nat) (d1 d2 : list Q) (totals givens : list Z) (tmax : Z).
  Hypothesis Hmax : max_all (mkTens s1 d1) = Some (inject_Z tmax).
  Hypothesis Hbc : broadcast_pair (mkTens s1 d1) (mkTens s2 d2) = Some (mkTens sh (zinj totals), mkTens sh (zinj givens)).

  Definition st0 (out : option Z) : state :=
    mkState [("total_count", tv s1 d1); ("given_count", tv s2 d2); ("out_size", out_val out)] [].

  (* the effective out_size *)
  Definition oeff (out : option Z) : Z := match out with Some o => o | None => tmax end.

  Definition st_bc (out : option Z) : state :=
    mkState [("total_count", tv sh (zinj totals)); ("given_count", tv sh (zinj givens)); ("out_size", VInt (oeff out));
             ("total_count_max", VInt tmax); ("$t1", VTuple [tv sh (zinj totals); tv sh (zinj givens)])] [].

  (* statements 0-4: total_count_max, out_size, the broadcast *)
  Lemma head_bc : forall out r, exec_list ext (firstn 5 parts ++ r) (st0 out) = exec_list ext r (st_bc out).
  Proof.
    intros out r. unfold parts, st0. cbn [firstn app].
    step ltac:(rewrite (E_max _ _ _ _ _ _ Hmax)). rewrite int_of_q_z.
    assert (E2 : forall r, exec_list ext (SIf (ECmp Is (EName "out_size") (EConst VNone)) (SAssign [TName "out_size"] (EName "total_count_max")) SPass :: r)
      {| vars := [("total_count", tv s1 d1); ("given_count", tv s2 d2); ("out_size", out_val out); ("total_count_max", VInt tmax)]; events := [] |}
      = exec_list ext r {| vars := [("total_count", tv s1 d1); ("given_count", tv s2 d2); ("out_size", VInt (oeff out)); ("total_count_max", VInt tmax)]; events := [] |}).
    { intros r'. destruct out as [o|]; cbn [out_val oeff]; step idtac; reflexivity. }
    rewrite E2. clear E2.
    step ltac:(rewrite (E_bcast _ _ _ _ _ _ _ _ _ _ _ Hbc)).
    step idtac. step idtac. reflexivity.
  Qed.

  (* the state in which the loop runs: b, remainder_ell, remainder_t, and the loop's own variables (none before the
     first iteration) *)
  Definition st_loop (out : option Z) (D E R : list Q) (tail : list (string * val)) (evs : list event) : state :=
    mkState ([("total_count", tv sh (zinj totals)); ("given_count", tv sh (zinj givens)); ("out_size", VInt (oeff out));
              ("total_count_max", VInt tmax); ("$t1", VTuple [tv sh (zinj totals); tv sh (zinj givens)]);
              ("b", tv (Z.to_nat (oeff out) :: sh) D); ("remainder_ell", tv sh E); ("remainder_t", tv sh R)] ++ tail) evs.

  Lemma head_ok : forall out r, over totals givens = false -> (tmax <= oeff out)%Z -> (0 <= oeff out)%Z ->
    exec_list ext (firstn 10 parts ++ r) (st0 out) =
    exec_list ext r (st_loop out (map junk (seq 0 (numel (Z.to_nat (oeff out) :: sh)))) (zinj givens)
                       (map (qmax (inject_Z 1)) (zinj totals)) [] []).
  Proof.
    intros out r Hov Hout Hpos.
    change (firstn 10 parts ++ r) with (firstn 5 parts ++ (firstn 5 (skipn 5 parts) ++ r)). rewrite head_bc.
    unfold parts, st_bc. cbn [firstn skipn app].
    step ltac:(rewrite any_gt_z, Hov).
    step ltac:(rewrite Qcompare_z; destruct (Z.compare_spec (oeff out) tmax); try lia).
    step ltac:(rewrite (E_Size _ _ _ _ Hpos)).
    step idtac. step idtac. reflexivity.
  Qed.

  Lemma head_raise_over : forall out r, over totals givens = true ->
    exists st, exec_list ext (firstn 10 parts ++ r) (st0 out) = Exc "RuntimeError" st.
  Proof.
    intros out r Hov.
    change (firstn 10 parts ++ r) with (firstn 5 parts ++ (firstn 5 (skipn 5 parts) ++ r)). rewrite head_bc.
    unfold parts, st_bc. cbn [firstn skipn app]. eexists.
    step_exc ltac:(rewrite any_gt_z, Hov). reflexivity.
  Qed.

  Lemma head_raise_out : forall out r, over totals givens = false -> (oeff out < tmax)%Z ->
    exists st, exec_list ext (firstn 10 parts ++ r) (st0 out) = Exc "RuntimeError" st.
  Proof.
    intros out r Hov Hout.
    change (firstn 10 parts ++ r) with (firstn 5 parts ++ (firstn 5 (skipn 5 parts) ++ r)). rewrite head_bc.
    unfold parts, st_bc. cbn [firstn skipn app]. eexists.
    step ltac:(rewrite any_gt_z, Hov).
    step_exc ltac:(rewrite Qcompare_z; destruct (Z.compare_spec (oeff out) tmax); try lia). reflexivity.
  Qed.

  (* ---- one iteration of the loop ---------------------------------------------------------------------------- *)
  Definition full_tail (a b c : val) : list (string * val) := [("t", a); ("p", b); ("b_t", c)].
  Definition tail_ok (tail : list (string * val)) : Prop := tail = [] \/ (exists a b c, tail = full_tail a b c).

  Definition step_p (E R : list Q) : list Q := map2 (fun x y => Qred (x / y)) E R.
  Definition step_b (k : nat) (P : list Q) : list Q := map (fun i => qbool (orc k P i)) (seq 0 (List.length P)).
  Definition step_E (E B : list Q) : list Q := map2 (fun x y => Qred (x - y)) E B.
  Definition step_R (R : list Q) : list Q := map (qmax (inject_Z 1)) (map (fun v => Qred (v - inject_Z 1)) R).
  Definition step_D (k N : nat) (D B : list Q) : list Q := firstn (k * N) D ++ B ++ skipn (S k * N) D.

  Lemma body_step : forall out D E R tail evs k,
    tail_ok tail -> (0 <= k < Z.of_nat (Z.to_nat (oeff out)))%Z -> existsb (fun q => Qeq_bool q 0) R = false ->
    exec ext loop_body (set_var "t" (VInt k) (st_loop out D E R tail evs)) =
    Ok CNormal (st_loop out (step_D (Z.to_nat k) (numel sh) D (step_b (List.length evs) (step_p E R)))
                  (step_E E (step_b (List.length evs) (step_p E R))) (step_R R)
                  (full_tail (VInt k) (tv sh (step_p E R)) (tv sh (step_b (List.length evs) (step_p E R))))
                  (evs ++ [("torch.bernoulli", [tv sh (step_p E R)])])).
  Proof.
    intros out D E R tail evs k Htail Hk HR.
    rewrite exec_flatten. change (flatten_seq loop_body) with body_parts. unfold body_parts, st_loop.
    destruct Htail as [->|[a [b [c ->]]]]; unfold full_tail; cbn [app]; norm_state.
    - step ltac:(rewrite (E_truediv _ _ _ _ _ _ HR)).
      step idtac.
      step ltac:(rewrite (E_setrow _ _ _ _ _ _ _ _ Hk)).
      step idtac. step idtac. reflexivity.
    - step ltac:(rewrite (E_truediv _ _ _ _ _ _ HR)).
      step idtac.
      step ltac:(rewrite (E_setrow _ _ _ _ _ _ _ _ Hk)).
      step idtac. step idtac. reflexivity.
  Qed.

  (* ---- the loop over integer counts -------------------------------------------------------------------------- *)
  Definition b2z (b : bool) : Z := if b then 1%Z else 0%Z.
  Definition zsub (ells : list Z) (bits : list bool) : list Z := map (fun eb => (fst eb - b2z (snd eb))%Z) (combine ells bits).
  Definition zdec (trems : list Z) : list Z := map (fun t => Z.max (t - 1) 1) trems.
  (* the draws of step k: the oracle sees the whole vector of probabilities remainder_ell / remainder_t *)
  Definition draw (k : nat) (ells trems : list Z) : list bool :=
    map (orc k (step_p (zinj ells) (zinj trems))) (seq 0 (List.length (step_p (zinj ells) (zinj trems)))).

  (* the rows b_k, b_(k+1), ... the loop writes, from counts ells / trems before step k *)
  Fixpoint bloop (k s : nat) (ells trems : list Z) : list (list bool) :=
    match s with
    | O => []
    | S s' => draw k ells trems :: bloop (S k) s' (zsub ells (draw k ells trems)) (zdec trems)
    end.

  Fixpoint write (N k : nat) (rows : list (list Q)) (D : list Q) : list Q :=
    match rows with [] => D | r :: rs => write N (S k) rs (step_D k N D r) end.

  Lemma step_b_draw : forall k ells trems, step_b k (step_p (zinj ells) (zinj trems)) = map qbool (draw k ells trems).
  Proof. intros. unfold step_b, draw. now rewrite map_map. Qed.

  Lemma step_E_z : forall ells bits, step_E (zinj ells) (map qbool bits) = zinj (zsub ells bits).
  Proof.
    intros. unfold step_E, zinj, zsub. rewrite map2_maps, map_map. apply map_ext. intros [e b]. cbn [fst snd].
    rewrite qbool_z. apply Qred_z_minus.
  Qed.

  Lemma step_R_z : forall trems, step_R (zinj trems) = zinj (zdec trems).
  Proof.
    intros. unfold step_R, zinj, zdec. rewrite !map_map. apply map_ext. intros t. now rewrite Qred_z_minus, qmax_z.
  Qed.

  Lemma nozero_z : forall trems, Forall (fun t => (1 <= t)%Z) trems -> existsb (fun q => Qeq_bool q 0) (zinj trems) = false.
  Proof.
    intros trems H. unfold zinj. rewrite existsb_map'. induction H as [|t l Ht _ IH]; [reflexivity|]. cbn [existsb].
    rewrite IH, orb_false_r. change 0%Q with (inject_Z 0). rewrite Qeq_bool_z. apply Z.eqb_neq. lia.
  Qed.

  Lemma zdec_ge1 : forall trems, Forall (fun t => (1 <= t)%Z) (zdec trems).
  Proof. intros. unfold zdec. apply Forall_forall. intros x Hx. apply in_map_iff in Hx. destruct Hx as [t [<- _]]. lia. Qed.

  Lemma loop_run : forall out s k D ells trems tail evs,
    tail_ok tail -> (k + s = Z.to_nat (oeff out))%nat -> List.length evs = k -> Forall (fun t => (1 <= t)%Z) trems ->
    exists E' R' tail' evs',
      for_loop ext "t" loop_body (map (fun i => VInt (Z.of_nat i)) (seq k s)) (st_loop out D (zinj ells) (zinj trems) tail evs)
      = Ok CNormal (st_loop out (write (numel sh) k (map (map qbool) (bloop k s ells trems)) D) E' R' tail' evs').
  Proof.
    intros out s. induction s as [|s IH]; intros k D ells trems tail evs Ht Hk He Hr.
    - do 4 eexists. reflexivity.
    - cbn [seq map for_loop bloop write].
      rewrite body_step; [|assumption|lia|now apply nozero_z]. cbn [bind].
      rewrite He, step_b_draw, step_E_z, step_R_z, Nat2Z.id.
      apply IH; [right; do 3 eexists; reflexivity|lia|rewrite app_length; cbn [List.length]; lia|apply zdec_ge1].
  Qed.

  Lemma zrange_nat : forall o, zrange 0 o = map (fun i => VInt (Z.of_nat i)) (seq 0 (Z.to_nat o)).
  Proof. intros. unfold zrange. rewrite Z.sub_0_r. reflexivity. Qed.

  Lemma loop_stmt_run : forall out D ells trems, Forall (fun t => (1 <= t)%Z) trems ->
    exists E' R' tail' evs',
      exec ext loop_stmt (st_loop out D (zinj ells) (zinj trems) [] [])
      = Ok CNormal (st_loop out (write (numel sh) 0 (map (map qbool) (bloop 0 (Z.to_nat (oeff out)) ells trems)) D) E' R' tail' evs').
  Proof.
    intros out D ells trems Hr. unfold loop_stmt. fold loop_body. rewrite exec_for.
    unfold st_loop at 1. cbn. rewrite zrange_nat.
    apply (loop_run out (Z.to_nat (oeff out)) 0%nat D ells trems [] []); [now left|reflexivity|reflexivity|assumption].
  Qed.

  (* ---- the return statement: view / .T / view ------------------------------------------------------------------- *)
  Definition ret_stmt : stmt := Eval cbv [parts nth] in nth 11 parts SPass.

  Lemma ret_run : forall out D E R tail evs, (0 <= oeff out)%Z -> List.length D = (Z.to_nat (oeff out) * numel sh)%nat ->
    exec ext ret_stmt (st_loop out D E R tail evs) =
    Ok (CReturn (tv (sh ++ [Z.to_nat (oeff out)])
                    (tdata (tab2 (numel sh) (Z.to_nat (oeff out)) (fun i j => nth (j * numel sh + i) D 0%Q)))))
       (st_loop out D E R tail evs).
  Proof.
    intros out D E R tail evs Hpos HD. unfold ret_stmt, st_loop. cbn [app]. run1.
    rewrite E_view2; [|assumption|lia|rewrite Nat2Z.id; symmetry; exact HD]. rewrite Nat2Z.id. run1.
    rewrite (E_Size _ _ _ _ Hpos). run1.
    rewrite E_view_sz; [reflexivity|]. rewrite numel_app, length_tab2. unfold numel at 2. cbn [fold_right]. lia.
  Qed.

  (* ---- what the loop leaves in b ---------------------------------------------------------------------------------- *)
  Lemma draw_length : forall k ells trems, List.length ells = List.length trems -> List.length (draw k ells trems) = List.length ells.
  Proof.
    intros. unfold draw, step_p, zinj. rewrite map_length, seq_length, map2_length; rewrite !map_length; auto.
  Qed.

  Lemma zsub_length : forall ells bits, List.length ells = List.length bits -> List.length (zsub ells bits) = List.length ells.
  Proof. intros. unfold zsub. rewrite map_length, combine_length. lia. Qed.

  Lemma bloop_rows : forall s k ells trems N, List.length ells = N -> List.length trems = N ->
    List.length (bloop k s ells trems) = s /\ Forall (fun r => List.length r = N) (bloop k s ells trems).
  Proof.
    induction s as [|s IH]; intros k ells trems N He Hr; cbn [bloop]; [split; [reflexivity|constructor]|].
    assert (Hd : List.length (draw k ells trems) = N) by (rewrite draw_length; congruence).
    destruct (IH (S k) (zsub ells (draw k ells trems)) (zdec trems) N) as [H1 H2].
    - rewrite zsub_length; congruence.
    - unfold zdec. now rewrite map_length.
    - split; [cbn [List.length]; now rewrite H1|constructor; assumption].
  Qed.

  Lemma write_spec : forall N rows k D, Forall (fun r => List.length r = N) rows ->
    List.length D = ((k + List.length rows) * N)%nat -> write N k rows D = firstn (k * N) D ++ List.concat rows.
  Proof.
    intros N rows. induction rows as [|r rs IH]; intros k D Hf HD; cbn [write List.concat].
    - rewrite app_nil_r. symmetry. apply firstn_all2. cbn [List.length] in HD. lia.
    - inversion Hf as [|? ? Hr Hrs]; subst. cbn [List.length] in HD.
      assert (Hfl : List.length (firstn (k * List.length r) D) = (k * List.length r)%nat) by (rewrite firstn_length; nia).
      rewrite IH; [|assumption|].
      + unfold step_D. rewrite app_assoc.
        rewrite firstn_app. replace (S k * List.length r - List.length (firstn (k * List.length r) D ++ r))%nat with 0%nat
          by (rewrite app_length, Hfl; lia).
        cbn [firstn]. rewrite app_nil_r. rewrite firstn_all2 by (rewrite app_length, Hfl; lia).
        now rewrite <- app_assoc.
      + unfold step_D. rewrite !app_length, Hfl, skipn_length. nia.
  Qed.

  Lemma nth_concat_rows : forall N (rows : list (list Q)) t n, Forall (fun r => List.length r = N) rows ->
    (t < List.length rows)%nat -> (n < N)%nat -> nth (t * N + n) (List.concat rows) 0%Q = nth n (nth t rows []) 0%Q.
  Proof.
    intros N rows t n Hf Ht Hn. rewrite <- (map_id rows) at 1. rewrite <- flat_map_concat_map.
    rewrite (nth_flat_map_const (fun r : list Q => r) rows N t n [] 0%Q); [reflexivity| |assumption|assumption].
    intros a Ha. rewrite Forall_forall in Hf. now apply Hf.
  Qed.

  Lemma clamp1_z : forall totals', map (qmax (inject_Z 1)) (zinj totals') = zinj (map (fun t => Z.max t 1) totals').
  Proof. intros. unfold zinj. rewrite !map_map. apply map_ext. intros t. apply qmax_z. Qed.

  (* ---- the whole body, no guard fires ------------------------------------------------------------------------------- *)
  Definition result_data (N O : nat) (bits : list (list bool)) : list Q :=
    tdata (tab2 N O (fun n t => qbool (nth n (nth t bits []) false))).

  Theorem srswor_run_ok : forall out,
    List.length totals = numel sh -> List.length givens = numel sh ->
    over totals givens = false -> (tmax <= oeff out)%Z -> (0 <= oeff out)%Z ->
    exists st, Interp.run ext srswor_body (srswor_vars (mkTens s1 d1) (mkTens s2 d2) out) =
      Ok (tv (sh ++ [Z.to_nat (oeff out)])
             (result_data (numel sh) (Z.to_nat (oeff out))
                (bloop 0 (Z.to_nat (oeff out)) givens (map (fun t => Z.max t 1) totals)))) st.
  Proof.
    intros out Ht Hg Hov Hout Hpos. rewrite run_flatten. change (flatten_seq srswor_body) with parts.
    change parts with (firstn 10 parts ++ [loop_stmt; ret_stmt]).
    change (mkState (srswor_vars (mkTens s1 d1) (mkTens s2 d2) out) []) with (st0 out).
    rewrite (head_ok out _ Hov Hout Hpos). rewrite clamp1_z.
    set (O := Z.to_nat (oeff out)). set (N := numel sh).
    set (trems := map (fun t => Z.max t 1) totals).
    assert (Htr : Forall (fun t => (1 <= t)%Z) trems).
    { unfold trems. apply Forall_forall. intros x Hx. apply in_map_iff in Hx. destruct Hx as [t [<- _]]. lia. }
    destruct (loop_stmt_run out (map junk (seq 0 (numel (O :: sh)))) givens trems Htr) as [E' [R' [tail' [evs' HL]]]].
    erewrite exec_list_cons_ok by exact HL. fold O N.
    destruct (bloop_rows O 0 givens trems N Hg) as [Hlen Hrows]; [unfold trems; now rewrite map_length|].
    set (bits := bloop 0 O givens trems) in *.
    assert (Hq : Forall (fun r => List.length r = N) (map (map qbool) bits)).
    { apply Forall_forall. intros r Hr. apply in_map_iff in Hr. destruct Hr as [b [<- Hb]]. rewrite map_length.
      rewrite Forall_forall in Hrows. now apply Hrows. }
    rewrite write_spec; [|assumption|rewrite !map_length, seq_length, numel_cons, Hlen; fold N; lia].
    change (0 * N)%nat with 0%nat. cbn [firstn app].
    erewrite exec_list_cons_ret.
    2:{ apply ret_run; [assumption|]. fold O N.
        rewrite (length_concat_uniform _ N) by assumption. now rewrite map_length, Hlen. }
    eexists. unfold result_data. fold O N.
    match goal with |- Ok (tv _ (tdata ?a)) _ = Ok (tv _ (tdata ?b)) _ => assert (EQ : a = b) end; [|rewrite EQ; reflexivity].
    apply tab2_ext. intros n t Hn Ht'.
    rewrite nth_concat_rows; [|assumption|rewrite map_length; lia|assumption].
    change (@nil Q) with (map qbool []). rewrite map_nth. change 0%Q with (qbool false). now rewrite map_nth.
  Qed.

  (* ---- the two RuntimeError guards ------------------------------------------------------------------------------------ *)
  Theorem srswor_run_raises : forall out, over totals givens = true \/ (oeff out < tmax)%Z ->
    exists st, Interp.run ext srswor_body (srswor_vars (mkTens s1 d1) (mkTens s2 d2) out) = Exc "RuntimeError" st.
  Proof.
    intros out H. rewrite run_flatten. change (flatten_seq srswor_body) with parts.
    change parts with (firstn 10 parts ++ [loop_stmt; ret_stmt]).
    change (mkState (srswor_vars (mkTens s1 d1) (mkTens s2 d2) out) []) with (st0 out).
    destruct (over totals givens) eqn:Hov.
    - destruct (head_raise_over out [loop_stmt; ret_stmt] Hov) as [st Hst]. rewrite Hst. now exists st.
    - destruct H as [H|H]; [discriminate|].
      destruct (head_raise_out out [loop_stmt; ret_stmt] Hov H) as [st Hst]. rewrite Hst. now exists st.
  Qed.
End Run.

(* total_count without elements: torch's max() raises, before anything else is looked at *)
Theorem srswor_run_empty : forall orc junk s1 s2 d2 out,
  exists st, Interp.run (ext19 orc junk) srswor_body (srswor_vars (mkTens s1 []) (mkTens s2 d2) out) = Exc "RuntimeError" st.
Proof.
  intros. rewrite run_flatten. change (flatten_seq srswor_body) with parts. unfold parts, srswor_vars. rewrite !enc_tv.
  eexists. erewrite exec_list_cons_exc; [reflexivity|]. run1. change (enc_dat []) with (enc_dat (@nil Q)). rewrite E_max_empty. run1. reflexivity.
Qed.
