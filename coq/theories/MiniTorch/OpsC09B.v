(* MiniTorch, unit C09BSrc — the torch operations that occur in the translated `chunk_by_slices` and
   `pad_masked_sequence` (src/pydrobert/torch/_pad.py) and are NOT already defined in OpsC09.v (which this file
   imports read-only: tensors = (shape, row-major data) over bool / unbounded Z / opaque payload values, the
   encodings enc_b / enc_i / enc_p, dec_any).  DEFINITIONS ONLY; the algebra is in LemmasC09B.v.

   Same conventions as OpsC09.v: every operation is defined on the dimensionalities the code uses and returns
   [None] outside (the unit's [ext] turns that into [Stuck]: fail-closed); dtypes, devices, strides, aliasing of
   views and int64 overflow are not modelled; an in-place method (`clamp_min_`, `masked_fill_`) RETURNS the updated
   tensor, which is Python's meaning where the code applies it to a fresh temporary and uses the result.
   Each definition quotes the sentence of the torch documentation (2.x) it models.  This file is TRUSTED by the
   second C09 tie; it is exercised on every run by SrcRunB.src_chunk_check / src_masked_check (torch vs the
   interpreted source on the same inputs). *)
From Coq Require Import List ZArith Bool Arith String.
From PV Require Import MiniPy.Syntax MiniTorch.Ops MiniTorch.OpsC09.
Import ListNotations.
Local Open Scope nat_scope.

(* ---- integer tensors ------------------------------------------------------------------------------ *)

(* `-t` = torch.neg: "Returns a new tensor with the negative of the elements of input." *)
Definition neg (x : tn Z) : tn Z := mkTn (shp x) (map Z.opp (dat x)).

(* Tensor.masked_fill_(mask, value): "Fills elements of self tensor with value where mask is True.  The shape of
   mask must be broadcastable with the shape of the underlying tensor."  Modelled for a mask of self's shape;
   None otherwise. *)
Definition masked_fill (x : tn Z) (m : tn bool) (v : Z) : option (tn Z) :=
  if nats_eqb (shp x) (shp m)
  then Some (mkTn (shp x) (zipw (fun a (b : bool) => if b then v else a) (dat x) (dat m)))
  else None.

(* Tensor.expand(n) of a 1-dimensional tensor of size 1: "Returns a new view of the self tensor with singleton
   dimensions expanded to a larger size."  (the code: torch.full((1,), T).expand(N)).  None: any other shape. *)
Definition expand1 {X} (d : X) (x : tn X) (n : nat) : option (tn X) :=
  match shp x with
  | [1] => Some (mkTn [n] (tab1 n (fun _ => nth 0 (dat x) d)))
  | _ => None
  end.

(* Tensor.new_empty(size): "Returns a Tensor of size size filled with uninitialized data."  Uninitialised content
   is not modelled: defined only when the size has NO element (the code: x.new_empty(x.shape) with x.size(0) = 0). *)
Definition new_empty {X} (s : list nat) : option (tn X) :=
  if numel s =? 0 then Some (mkTn s []) else None.

(* Basic indexing t[..., c] of a 2-dimensional tensor with 0 <= c < size(1): "an integer selects that index and
   removes the dimension", the Ellipsis stands for the leading dimension - column c.  None: out of range (torch:
   IndexError), other dimensionalities; negative c not modelled. *)
Definition select_last2 {X} (d : X) (x : tn X) (c : nat) : option (tn X) :=
  match shp x with
  | [n; m] => if c <? m then Some (mkTn [n] (tab1 n (fun i => at2 d m (dat x) i c))) else None
  | _ => None
  end.

(* ---- boolean tensors -------------------------------------------------------------------------------- *)

(* `a & b` = torch.bitwise_and ("For bool tensors, it computes the logical AND") with broadcasting of the SECOND
   operand of a 3-dimensional pair along its dimensions 1 and 2 - "the dimension sizes must either be equal, one of
   them is 1": (n, m, k) & (n, m' in {m, 1}, k' in {k, 1}), out[i, j, l] = a[i, j, l] && b[i, j or 0, l or 0] (the
   code: (N, T', F) masks with each other and with `keep` of shape (N, 1, 1)).  Other dimensionalities: equal
   shapes only (OpsC09.band).  A first operand that would have to be broadcast: None. *)
Definition band_bc (a b : tn bool) : option (tn bool) :=
  match shp a, shp b with
  | [n; m; k], [n'; m'; k'] =>
      if (n =? n') && xdim_ok m' m && xdim_ok k' k
      then Some (mkTn [n; m; k]
                   (tab3 n m k (fun i j l => at3 false m k (dat a) i j l && at3 false m' k' (dat b) i (xidx m' j) (xidx k' l))))
      else None
  | _, _ => band a b
  end.

(* Tensor.sum(1) of a 2-dimensional BOOL tensor: "Returns the sum of each row of the input tensor in the given
   dimension dim ... dim is squeezed"; for a bool input the result is int64: out[i] = #{j | x[i, j]}. *)
Definition sum1_bool (x : tn bool) : option (tn Z) :=
  match shp x with
  | [n; m] => Some (mkTn [n] (tab1 n (fun i =>
                fold_right Z.add 0%Z (map (fun j => if at2 false m (dat x) i j then 1%Z else 0%Z) (seq 0 m)))))
  | _ => None
  end.

(* ---- any element type -------------------------------------------------------------------------------- *)

(* Tensor.transpose(0, 1): "Returns a tensor that is a transposed version of input.  The given dimensions dim0 and
   dim1 are swapped."  2- and 3-dimensional tensors: out[i, j(, l)] = x[j, i(, l)]. *)
Definition transpose01 {X} (d : X) (x : tn X) : option (tn X) :=
  match shp x with
  | [a; b] => Some (mkTn [b; a] (tab2 b a (fun i j => at2 d b (dat x) j i)))
  | [a; b; c] => Some (mkTn [b; a; c] (tab3 b a c (fun i j l => at3 d b c (dat x) j i l)))
  | _ => None
  end.

(* torch.full_like(input, fill_value): "Returns a tensor with the same size as input filled with fill_value."
   = OpsC09.full (shp input) fill_value.   torch.full(size, fill_value) and Tensor.new_zeros(size) ("Returns a
   Tensor of size size filled with 0") are OpsC09.full as well. *)
Definition full_like {X} (x : tn X) (v : X) : tn X := full (shp x) v.

(* Python: tuple * int "equivalent to adding s to itself n times"; "values of n less than 0 are treated as 0". *)
Definition tuple_repeat {X} (l : list X) (k : Z) : list X := List.concat (repeat l (Z.to_nat k)).
