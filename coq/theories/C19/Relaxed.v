(* C19 - model of the relaxed distributions of src/pydrobert/torch/_straight_through.py
   (LogisticBernoulli, GumbelOneHotCategorical: rsample, log_prob, threshold, tlog_prob, csample, clog_prob).

   Part of the executable model; no proofs in this file.

   Every formula is written ONCE over an abstract carrier [A] with an [arith] record.  It is
   * executed with the fixed-point instance [FX] (Z scaled by 2^64, exp/log computed by series to ~1e-18),
     which is what the correspondence harness compares with torch's float64 results (tolerance 1e-9), and
   * reasoned about with the real-number instance (exp, ln of Coq's Reals) in RProofs.v.
   Both are the same Gallina terms, so a theorem about the R instance is a theorem about the formulas
   that the harness ties to the code. *)
From Coq Require Import List ZArith Bool.
Import ListNotations.

Record arith (A : Type) := mkArith {
  aZ : Z -> A;
  aadd : A -> A -> A;
  asub : A -> A -> A;
  amul : A -> A -> A;
  adiv : A -> A -> A;
  aneg : A -> A;
  aexp : A -> A;
  alog : A -> A;
  alog1p : A -> A;
  aleb : A -> A -> bool
}.
Arguments aZ {A}. Arguments aadd {A}. Arguments asub {A}. Arguments amul {A}. Arguments adiv {A}.
Arguments aneg {A}. Arguments aexp {A}. Arguments alog {A}. Arguments alog1p {A}. Arguments aleb {A}.

Fixpoint zip2 {X Y Z} (f : X -> Y -> Z) (lx : list X) (ly : list Y) : list Z :=
  match lx, ly with
  | x :: tx, y :: ty => f x y :: zip2 f tx ty
  | _, _ => []
  end.

Section Formulas.
  Context {A : Type} (ar : arith A).
  Local Notation "x + y" := (aadd ar x y).
  Local Notation "x - y" := (asub ar x y).
  Local Notation "x * y" := (amul ar x y).
  Local Notation "x / y" := (adiv ar x y).
  Local Notation "- x" := (aneg ar x).
  Local Notation zero := (aZ ar 0).
  Local Notation one := (aZ ar 1).
  Local Notation two := (aZ ar 2).

  (* a Boolean sample as a number (b.to(z)) *)
  Definition bnum (b : bool) : A := if b then one else zero.
  Definition amin (x y : A) : A := if aleb ar x y then x else y.
  Definition asum (l : list A) : A := fold_right (aadd ar) zero l.

  (* ---------------- LogisticBernoulli (l = self.logits, p = self.probs) ---------------- *)
  (* rsample: z = logits + u.log() - (-u).log1p() *)
  Definition lb_rsample (l u : A) : A := l + alog ar u - alog1p ar (- u).

  (* log_prob: Ginv = logits - z; g = Ginv - 2 * Ginv.exp().log1p() *)
  Definition lb_log_prob (l z : A) : A :=
    let g := l - z in g - two * alog1p ar (aexp ar g).

  (* threshold: b = (z >= 0) *)
  Definition lb_threshold (z : A) : bool := aleb ar zero z.

  (* tlog_prob: -binary_cross_entropy_with_logits(logits, b) = b * logits - log(1 + exp(logits)) *)
  Definition lb_tlog_prob (l : A) (b : bool) : A := bnum b * l - alog1p ar (aexp ar l).

  (* csample: zcond = v / ((1 - v) * ((1 - b) * probs + b * (1 - probs))) + 1
              zcond = (2 * b - 1) * zcond.log();  return zcond + b * eps *)
  Definition lb_csample (p v : A) (b : bool) (eps : A) : A :=
    let B := bnum b in
    let zc := v / ((one - v) * ((one - B) * p + B * (one - p))) + one in
    (two * B - one) * alog ar zc + B * eps.

  (* clog_prob: None = -inf (threshold(zcond) != b) *)
  Definition lb_clog_prob (l zc : A) (b : bool) : option A :=
    if eqb (lb_threshold zc) b then
      Some (- zc + (one - bnum b) * l + alog1p ar (aexp ar l) - two * alog1p ar (aexp ar (l - zc)))
    else None.

  (* ---------------- GumbelOneHotCategorical (ls = self.logits, normalised; ps = self.probs) ---- *)
  (* rsample: z = logits - (-u.log()).log() *)
  Definition g_rsample (ls us : list A) : list A :=
    zip2 (fun l u => l - alog ar (- alog ar u)) ls us.

  (* log_prob: g = logits - z; (g - g.exp()).sum(-1) *)
  Definition g_log_prob (ls zs : list A) : A :=
    asum (zip2 (fun l z => let g := l - z in g - aexp ar g) ls zs).

  (* argmax(-1), first maximal index *)
  Fixpoint argmax_from (best : A) (bi i : nat) (zs : list A) : nat :=
    match zs with
    | [] => bi
    | z :: t => if aleb ar z best then argmax_from best bi (S i) t else argmax_from z i (S i) t
    end.
  Definition argmax (zs : list A) : nat :=
    match zs with [] => O | z :: t => argmax_from z O 1 t end.
  Definition one_hot (k n : nat) : list bool := map (Nat.eqb k) (seq 0 n).
  Definition g_threshold (zs : list A) : list bool := one_hot (argmax zs) (length zs).

  (* tlog_prob: logits.masked_select(b.bool()) *)
  Definition g_tlog_prob (ls : list A) (bs : list bool) : A :=
    asum (zip2 (fun l (b : bool) => if b then l else zero) ls bs).

  (* csample *)
  Definition g_csample (ps vs : list A) (bs : list bool) (eps : A) : list A :=
    let log_v := map (alog ar) vs in
    (* zcond_match = -(-log_v).log() * b;  zcond_match_k = zcond_match.sum(-1) *)
    let zmatch := zip2 (fun lv b => (- alog ar (- lv)) * bnum b) log_v bs in
    let zmatch_k := asum zmatch in
    (* zcond_nomatch = -(-log_v / probs - (log_v * b).sum(-1)).log() *)
    let sb := asum (zip2 (fun lv b => lv * bnum b) log_v bs) in
    let znom := zip2 (fun lv p => - alog ar ((- lv) / p - sb)) log_v ps in
    (* zcond_nomatch = min(zcond_match_k - eps, zcond_nomatch) * (1 - b) *)
    let znom' := zip2 (fun x b => amin (zmatch_k - eps) x * (one - bnum b)) znom bs in
    zip2 (aadd ar) zmatch znom'.

  Definition bools_eqb (a b : list bool) : bool :=
    Nat.eqb (length a) (length b) && forallb (fun x => x) (zip2 eqb a b).

  (* clog_prob: None = -inf *)
  Definition g_clog_prob (ls zc : list A) (bs : list bool) : option A :=
    if bools_eqb (g_threshold zc) bs then
      let negb_ := map (fun b => one - bnum b) bs in
      (* logits = self.logits * neg_b;  g = logits - zcond;  g = g - g.exp() *)
      let ls' := zip2 (amul ar) ls negb_ in
      let g := zip2 (fun l z => let g := l - z in g - aexp ar g) ls' zc in
      (* z_k = (zcond * b).sum(-1);  G = logits - z_k;  G = -G.exp() * neg_b *)
      let z_k := asum (zip2 (fun z b => z * bnum b) zc bs) in
      let G := zip2 (fun l nb => (- aexp ar (l - z_k)) * nb) ls' negb_ in
      Some (asum (zip2 (asub ar) g G))
    else None.
End Formulas.

(* ------------------------------------------------------------------------------------------ *)
(* fixed-point instance: x is represented by round(x * 2^64)                                    *)
(* ------------------------------------------------------------------------------------------ *)
Local Open Scope Z_scope.
Definition FXS : Z := 2 ^ 64.
Definition fx_mul (a b : Z) : Z := (a * b) / FXS.
Definition fx_div (a b : Z) : Z := (a * FXS) / b.

(* exp x = (exp (x / 2^10))^(2^10), 18 Taylor terms; 16 guard bits *)
Definition fx_exp (x : Z) : Z :=
  let g := 2 ^ 16 in
  let y := (x * g) / 2 ^ 10 in
  let s := FXS * g in
  let mulg := fun a b => (a * b) / s in
  let fix ser (fuel : nat) (t k : Z) : Z :=
    match fuel with O => 0 | S f => t + ser f (mulg t y / (k + 1)) (k + 1) end in
  let fix sq (n : nat) (v : Z) : Z := match n with O => v | S n' => sq n' (mulg v v) end in
  sq 10%nat (ser 18%nat s 0) / g.

(* 2 * atanh t = 2 * sum t^(2i+1) / (2i+1) *)
Fixpoint fx_atanh_series (fuel : nat) (t2 p : Z) (k : Z) : Z :=
  match fuel with
  | O => 0
  | S f => p / k + fx_atanh_series f t2 (fx_mul p t2) (k + 2)
  end.
Definition fx_log_mant (m : Z) : Z :=   (* log m for m in [1/2, 2], fixed point *)
  let t := fx_div (m - FXS) (m + FXS) in
  2 * fx_atanh_series 24 (fx_mul t t) t 1.
Definition fx_ln2 : Z := fx_log_mant (2 * FXS).
(* log x = e * ln 2 + log (x / 2^e) with x / 2^e in [1, 2);  0 for x <= 0 (never used there) *)
Definition fx_log (x : Z) : Z :=
  if x <=? 0 then 0 else
  let e := Z.log2 x - 64 in
  let m := if 0 <=? e then x / 2 ^ e else x * 2 ^ (- e) in
  e * fx_ln2 + fx_log_mant m.

Definition FX : arith Z :=
  mkArith Z (fun n => n * FXS) Z.add Z.sub fx_mul fx_div Z.opp fx_exp fx_log
          (fun x => fx_log (FXS + x)) Z.leb.

(* ------------------------------------------------------------------------------------------ *)
(* correspondence entry points (all numbers fixed point, scaled by 2^64)                        *)
(* ------------------------------------------------------------------------------------------ *)
Definition fx_close (tol a b : Z) : bool :=   (* |a - b| <= tol * (1 + |b|), tol fixed point *)
  Z.abs (a - b) <=? fx_mul tol (FXS + Z.abs b).
Definition fx_close_opt (tol : Z) (a b : option Z) : bool :=
  match a, b with
  | None, None => true
  | Some x, Some y => fx_close tol x y
  | _, _ => false
  end.
Fixpoint fx_close_list (tol : Z) (a b : list Z) : bool :=
  match a, b with
  | [], [] => true
  | x :: ta, y :: tb => fx_close tol x y && fx_close_list tol ta tb
  | _, _ => false
  end.
Definition bools_eq (a b : list bool) : bool := bools_eqb a b.
