(* C04, second tie, part 2c: the prologue of forward() (block fw_init: everything before the loop), interpreted on
   forward(initial_state = the states [inits], batch_size = len(inits), max_iters = m), yields exactly the variables that
   encode Model.init_b: one empty prefix of score 0 per batch element, the given LM states, prev_width 1, height 0, and
   pad_y = a (1, N, width) tensor of pad_value. *)
From Coq Require Import ZArith QArith List String Bool Arith Lia.
From PV Require Import MiniPy.Syntax MiniPy.Interp MiniPy.Lemmas MiniTorch.Ops MiniTorch.Value MiniTorch.Lemmas
  MiniTorch.OpsC04 MiniTorch.LemmasC04 MiniTorch.OpsC04B MiniTorch.LemmasC04B Gen.C04Src Gen.C04BSrc.
From PV Require Import C04.Model C04.SrcRun C04.TieRun C04.SrcRunB C04.TieRunB C04.TieIterB.
Import ListNotations.
Local Open Scope string_scope.

#[local] Arguments exec : simpl never.
#[local] Arguments ext04 : simpl never.
#[local] Arguments extB : simpl never.
#[local] Arguments encv : simpl never.
#[local] Arguments enc_shape : simpl never.
#[local] Arguments enc_states : simpl never.
#[local] Arguments enc_logits : simpl never.
#[local] Arguments self_val : simpl never.
#[local] Arguments torch_module : simpl never.
#[local] Arguments cmp_eval : simpl never.
#[local] Arguments foreign : simpl never.
#[local] Arguments extreme_of : simpl never.
#[local] Arguments val_eqb : simpl never.
#[local] Arguments method : simpl never.
#[local] Arguments call_fn : simpl never.
#[local] Arguments Z.of_nat !_.
#[local] Arguments Z.eqb !_ !_.
#[local] Arguments Z.ltb !_ !_.
#[local] Arguments Z.leb !_ !_.
#[local] Arguments Z.add !_ !_.
#[local] Arguments Z.sub !_ !_.
#[local] Arguments Z.mul !_ !_.
#[local] Arguments Z.min !_ !_.
#[local] Arguments Z.opp !_.
#[local] Arguments unsqueeze : simpl never.
#[local] Arguments flatten : simpl never.
#[local] Arguments add : simpl never.
#[local] Arguments add_scalar : simpl never.
#[local] Arguments topk : simpl never.
#[local] Arguments any : simpl never.
#[local] Arguments gather : simpl never.
#[local] Arguments expand : simpl never.
#[local] Arguments cat : simpl never.
#[local] Arguments new_full : simpl never.
#[local] Arguments new_zeros : simpl never.
#[local] Arguments full : simpl never.
#[local] Arguments all_int : simpl never.
#[local] Arguments size : simpl never.
#[local] Arguments dim : simpl never.
#[local] Arguments permute : simpl never.
#[local] Arguments squeeze : simpl never.
#[local] Arguments narrow_last : simpl never.
#[local] Arguments sub : simpl never.
#[local] Arguments sub_scalar : simpl never.
#[local] Arguments clamp : simpl never.
#[local] Arguments eq_scalar : simpl never.
#[local] Arguments gt_scalar : simpl never.
#[local] Arguments and_ : simpl never.
#[local] Arguments to_bool : simpl never.
#[local] Arguments to_int : simpl never.
#[local] Arguments masked_fill : simpl never.
#[local] Arguments where_ : simpl never.
#[local] Arguments all_rows : simpl never.
#[local] Arguments all : simpl never.
#[local] Arguments scalar : simpl never.
#[local] Arguments one_hot : simpl never.
#[local] Arguments arange3 : simpl never.
#[local] Arguments lg_reshape : simpl never.
#[local] Arguments lg_log_softmax : simpl never.
#[local] Arguments lm_calc : simpl never.
#[local] Arguments lm_extract : simpl never.
#[local] Arguments adv_tensor : simpl never.
#[local] Arguments ret_t _ !_ _ /.
#[local] Arguments ret_v _ !_ _ /.
#[local] Arguments ret_c _ !_ _ /.
#[local] Arguments ret_lg _ !_ _ /.
#[local] Arguments attribute : simpl never.
#[local] Arguments foreign_item : simpl never.
#[local] Arguments lm_val : simpl never.
#[local] Arguments devbuf_val : simpl never.

Definition beams0 (inits : list Z) : list (list slot) := map (fun _ => [mkSlot [] 0 (Some 0%Z)]) inits.

Lemma map_const_seq {A B} (c : B) (l : list A) : map (fun _ => c) l = map (fun _ => c) (seq 0 (List.length l)).
Proof.
  generalize 0%nat. induction l as [|x l IH]; intros k; [reflexivity|]. cbn [map List.length seq]. f_equal. apply IH.
Qed.

Lemma concat_beams0 inits : List.concat (beams0 inits) = map (fun _ => mkSlot [] 0 (Some 0%Z)) inits.
Proof. unfold beams0. induction inits as [|x l IH]; [reflexivity|]. cbn [map List.concat app]. now rewrite IH. Qed.

Lemma col_tab n (c : val) : tabv2 n 1 (fun _ _ => c) = mkVT [n; 1%nat] (map (fun _ => c) (seq 0 n)).
Proof. unfold tabv2, tl2. cbn [seq map]. now rewrite (flat_map_singleton (fun _ : nat => c)). Qed.

Lemma enc_lpp0 inits : enc_lpp (List.length inits) 1 (beams0 inits) = tabv2 (List.length inits) 1 (fun _ _ => VQ 0).
Proof. rewrite col_tab. unfold enc_lpp. f_equal. rewrite concat_beams0, map_map. cbn [sc SrcRun.esc]. apply map_const_seq. Qed.

Lemma enc_lens0 inits : enc_lens (List.length inits) 1 (beams0 inits) = tabv2 (List.length inits) 1 (fun _ _ => VInt 0).
Proof. rewrite col_tab. unfold enc_lens. f_equal. rewrite concat_beams0, map_map. cbn [len]. apply map_const_seq. Qed.

Lemma enc_y0 inits : enc_y 0 (List.length inits) 1 (beams0 inits) = tabv3 0 (List.length inits) 1 (fun _ _ _ => VInt 0).
Proof. reflexivity. Qed.

Lemma cmp_is_states l : cmp_eval Is (enc_states l) VNone = Some false. Proof. reflexivity. Qed.

Theorem init_tie : forall calc V width eos fin_all pad inits m,
  let N := List.length inits in
  exec (extB calc) fw_init (mkState (init_vars (self_val V width eos fin_all pad) inits (vnat N) (vnat m)) [])
  = Ok CNormal
      (mkState (live (enc_states inits) (vnat N) (vnat m) (enc_states inits) V width eos fin_all pad N 1
                  (enc_y 0 N 1 (beams0 inits)) inits (enc_lpp N 1 (beams0 inits)) (enc_lens N 1 (beams0 inits))
                  (tabv3 1 N width (fun _ _ _ => VInt pad)) []) []).
Proof.
  intros calc V width eos fin_all pad inits m. cbv zeta. unfold fw_init, init_vars, live.
  rewrite enc_y0, enc_lpp0, enc_lens0. set (N := List.length inits).
  stepB; goB. stepB; goB. rewrite cmp_is_states. goB.
  repeat (stepB; goB).
  change (full [0%Z; Z.of_nat N] (VInt 0)) with (full [Z.of_nat 0; Z.of_nat N] (VInt 0)). rewrite full_2. cbn [ret_t bind]. goB.
  repeat (stepB; goB).
  unfold N at 1. rewrite Nat.eqb_refl. cbn [andb]. fold N. goB.
  repeat (stepB; goB).
  rewrite unsqueeze_tab2_2. cbn [ret_t bind]. goB.
  repeat (stepB; goB).
  change (full [Z.of_nat N; 1%Z] (VQ (- 0))) with (full [Z.of_nat N; Z.of_nat 1] (VQ 0)). rewrite full_2. cbn [ret_t bind]. goB.
  repeat (stepB; goB).
  change (full [Z.of_nat N; 1%Z] (VInt 0)) with (full [Z.of_nat N; Z.of_nat 1] (VInt 0)). rewrite full_2. cbn [ret_t bind]. goB.
  repeat (stepB; goB).
  replace (Z.of_nat m <? 0)%Z with false by lia. cbn [bind]. goB.
  repeat (stepB; goB).
  change (full [1%Z; Z.of_nat N; Z.of_nat width] (VInt pad)) with (full [Z.of_nat 1; Z.of_nat N; Z.of_nat width] (VInt pad)).
  rewrite full_3. cbn [ret_t bind]. goB.
  reflexivity.
Qed.
