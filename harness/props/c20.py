"""C20 — attention: correspondence between /repo's attention modules and PV.C20.Model, plus the
property's own relations (range, masked-content blindness, permutation, query broadcast,
multi-head = composition) run directly on the implementation.

Numbers: inputs and parameters live on a dyadic grid, modules run in float64.  The Gallina model
works in Q; the exp inside softmax and the tanh of ConcatSoftAttention are handed to it as tables
of torch's float64 results (regime T of DESIGN.md section 3), outputs are compared with an absolute
tolerance of 1e-9 (values are O(1); any real defect moves an output by >= 1e-3).
"""
import itertools
import json
import warnings
from fractions import Fraction

import numpy as np
import torch

from vlib import cb, cl, cn, co, cp, cq, cz, coq_eval_bools, coq_eval_print, exc_kind, load_corpus, shrink

warnings.filterwarnings("ignore")
torch.set_num_threads(1)

IMPORTS = "From PV Require Import C20.Model C20.Spec.\n"
TOL = Fraction(1, 10**9)
QD, PD, VD = 4, 2, 8  # denominators of the grids: query/key, parameters, values
SINGLE = ["dot", "general", "concat"]
THEOREMS = ["c20_attention_in_kept_range", "c20_attention_blind_to_masked",
            "c20_attention_permutation_invariant", "c20_broadcast_query_eq_expanded",
            "c20_multihead_is_composition"]


# ----------------------------------------------------------------------------------------
# case -> arrays / modules
# ----------------------------------------------------------------------------------------
def _arr(flat, shape, den):
    return (np.array(flat, dtype=np.float64) / den).reshape(shape)


def arrays(case):
    q = _arr(case["q"], case["qshape"], QD)
    k = _arr(case["k"], case["kshape"], QD)
    v = _arr(case["v"], case["vshape"], VD)
    m = None
    if case.get("mshape") is not None:
        m = np.array(case["mask"], dtype=bool).reshape(case["mshape"])
    return q, k, v, m


def _score_params(sp):
    """numpy versions of the score parameters of a single-head flavour"""
    out = {}
    if sp["kind"] == "general":
        out["W"] = _arr(sp["W"], (sp["qs"], sp["ks"]), PD)
        out["b"] = _arr(sp["b"], (sp["qs"],), PD) if sp["bias"] else None
    elif sp["kind"] == "concat":
        out["W"] = _arr(sp["W"], (sp["hidden"], sp["qs"] + sp["ks"]), PD)
        out["b"] = _arr(sp["b"], (sp["hidden"],), PD) if sp["bias"] else None
        out["v"] = _arr(sp["vv"], (sp["hidden"],), PD)
    return out


def _set(param, arr):
    with torch.no_grad():
        param.copy_(torch.tensor(arr, dtype=torch.float64).reshape(param.shape))


def build_single(sp, dim):
    from pydrobert.torch import modules as M

    if sp["kind"] == "dot":
        mod = M.DotProductSoftAttention(sp["qs"], dim, float(Fraction(*sp["scale"])))
        return mod.double(), []
    P = _score_params(sp)
    anomalies = []
    if sp["kind"] == "general":
        mod = M.GeneralizedDotProductSoftAttention(sp["qs"], sp["ks"], dim, sp["bias"]).double()
    else:
        mod = M.ConcatSoftAttention(sp["qs"], sp["ks"], dim, sp["bias"], sp["hidden"]).double()
        _set(mod.v, P["v"])
    _set(mod.weight, P["W"])
    if sp["bias"]:
        if mod.bias is None:
            anomalies.append("bias requested for the score function but the module has none")
        else:
            _set(mod.bias, P["b"])
    elif mod.bias is not None:
        anomalies.append("score function has a bias that was not requested")
        with torch.no_grad():
            mod.bias.fill_(0.75)
    return mod, anomalies


def mha_mats(case):
    mp = case["mha"]
    H, dq, dk, dv = mp["H"], mp["dq"], mp["dk"], mp["dv_eff"]
    sizes = {"WQ": (H * dq, mp["qsize"]), "WK": (H * dk, mp["ksize"]), "WV": (H * dv, mp["vsize"]),
             "WC": (mp["osize_eff"], H * dv)}
    mats = {}
    for i, name in enumerate(["WQ", "WK", "WV", "WC"]):
        W = _arr(mp[name], sizes[name], PD)
        b = _arr(mp["b" + name[1]], (sizes[name][0],), PD) if mp["bias"][i] else None
        mats[name] = (W, b)
    return mats


def build(case):
    """-> (module, anomalies)"""
    from pydrobert.torch import modules as M

    if case["flavour"] != "mha":
        return build_single(case["score"], case["dim"])
    mp = case["mha"]
    inner, anomalies = build_single(case["score"], case["dim"])
    bq, bk, bv, bc = mp["bias"]
    mod = M.MultiHeadedAttention(mp["qsize"], mp["ksize"], mp["vsize"], mp["H"], inner,
                                 out_size=mp["osize"], d_v=mp["dv"],
                                 bias_WQ=bq, bias_WK=bk, bias_WV=bv, bias_WC=bc).double()
    # the constructor resets the wrapped attention's parameters: set them again
    inner2, _ = build_single(case["score"], case["dim"])
    mod.single_head_attention.load_state_dict(inner2.state_dict())
    mats = mha_mats(case)
    for i, name in enumerate(["WQ", "WK", "WV", "WC"]):
        lin = getattr(mod, name)
        W, b = mats[name]
        if tuple(lin.weight.shape) != W.shape:
            anomalies.append(f"{name}.weight has shape {tuple(lin.weight.shape)}, expected {W.shape}")
            continue
        _set(lin.weight, W)
        if mp["bias"][i]:
            if lin.bias is None:
                anomalies.append(f"bias_{name} requested but {name} has no bias")
            else:
                _set(lin.bias, b)
        elif lin.bias is not None:
            anomalies.append(f"{name} has a bias although bias_{name}=False")
            with torch.no_grad():
                lin.bias.fill_(0.75)
    return mod, anomalies


def _relayout(t, kind):
    """the same logical tensor as a view with another memory layout"""
    if kind == "t" and t.dim() >= 2:  # transposed - contiguous - transposed back
        return t.transpose(0, -1).contiguous().transpose(0, -1)
    if kind == "off":  # interior of a larger buffer: storage offset, padded strides
        big = torch.zeros([n + 2 for n in t.shape], dtype=t.dtype)
        if t.dtype == torch.bool:
            big.fill_(True)
        else:
            big.fill_(7.5)
        inner = big[tuple(slice(1, n + 1) for n in t.shape)]
        inner.copy_(t)
        return inner
    if kind == "step":  # every second element along the first and the last axis
        big = torch.zeros([2 * n if i in (0, t.dim() - 1) else n for i, n in enumerate(t.shape)], dtype=t.dtype)
        if t.dtype == torch.bool:
            big.fill_(True)
        else:
            big.fill_(-7.5)
        idx = tuple(slice(None, None, 2) if i in (0, t.dim() - 1) else slice(None) for i in range(t.dim()))
        big[idx].copy_(t)
        return big[idx]
    return t


def call(mod, q, k, v, m, alias=False, layout=None, kwargs=False, f32=False):
    """alias: value IS the key tensor object (the data must be equal); layout: see _relayout; kwargs: keyword-argument
    call; f32: float32 copy of the module and of the inputs (result converted back to float64)"""
    dt = torch.float32 if f32 else torch.float64
    tq, tk, tv = (torch.tensor(np.ascontiguousarray(x), dtype=dt) for x in (q, k, v))
    tm = None if m is None else torch.tensor(np.ascontiguousarray(m), dtype=torch.bool)
    if layout:
        tq, tk, tv = (_relayout(t, layout) for t in (tq, tk, tv))
        tm = None if tm is None else _relayout(tm, layout)
    if alias:
        tv = tk
    with torch.no_grad():
        if kwargs:
            out = mod(query=tq, key=tk, value=tv, mask=tm) if tm is not None else mod(value=tv, key=tk, query=tq)
        else:
            out = mod(*_args(mod, tq, tk, tv, tm))
        return out.double().numpy()


def _args(mod, tq, tk, tv, tm):
    """positional arguments; a traced module has the arity it was traced with (no mask = three arguments)"""
    if tm is None and isinstance(mod, torch.jit.TracedModule):
        return (tq, tk, tv)
    return (tq, tk, tv, tm)


def build_entry(case):
    """the module as the case enters it: eager, compiled with torch.jit.script (case["script"]), or traced the way the
    library's own tests trace it, with size-1 example inputs of the right ranks (case["trace"])"""
    mod, anomalies = build(case)
    if case.get("script"):
        mod = torch.jit.script(mod)
    elif case.get("trace"):
        r = len(case["kshape"])
        ex = [torch.zeros([1] * (r - 2) + [case["qshape"][-1]], dtype=torch.float64),
              torch.zeros([1] * (r - 1) + [case["kshape"][-1]], dtype=torch.float64),
              torch.zeros([1] * (r - 1) + [case["vshape"][-1]], dtype=torch.float64)]
        if case.get("mshape") is not None:
            ex.append(torch.ones([1] * len(case["mshape"]), dtype=torch.bool))
        with torch.no_grad():
            mod = torch.jit.trace(mod, tuple(ex))
    return mod, anomalies


def run_impl(case):
    """-> dict(out=array | None, exc=kind | None, anomalies=[...])"""
    try:
        mod, anomalies = build_entry(case)
    except Exception as e:
        return {"out": None, "exc": "build:" + exc_kind(e), "anomalies": []}
    q, k, v, m = arrays(case)
    try:
        out = call(mod, q, k, v, m, alias=bool(case.get("alias_kv")), kwargs=bool(case.get("kwcall")))
    except Exception as e:
        return {"out": None, "exc": exc_kind(e), "anomalies": anomalies}
    return {"out": out, "exc": None, "anomalies": anomalies}


# ----------------------------------------------------------------------------------------
# independent float64 re-computation of the score arguments (only to key the oracle tables)
# ----------------------------------------------------------------------------------------
def axis_of(case):
    r = len(case["kshape"])
    d = case["dim"]
    return d + r if d < 0 else d


def np_scores(sp, q, k, axis):
    """(scores over the broadcast e-shape, tanh arguments or None); q is not yet unsqueezed"""
    qu = np.expand_dims(q, axis)
    if sp["kind"] == "dot":
        return (qu * k).sum(-1) * float(Fraction(*sp["scale"])), None
    P = _score_params(sp)
    if sp["kind"] == "general":
        wk = k @ P["W"].T
        if P["b"] is not None:
            wk = wk + P["b"]
        return (qu * wk).sum(-1), None
    shp = np.broadcast_shapes(qu.shape[:-1], k.shape[:-1])
    cat = np.concatenate([np.broadcast_to(qu, shp + qu.shape[-1:]), np.broadcast_to(k, shp + k.shape[-1:])], -1)
    pre = cat @ P["W"].T
    if P["b"] is not None:
        pre = pre + P["b"]
    return np.tanh(pre) @ P["v"], pre


def head_inputs(case):
    """for mha: the per-head query/key arrays (…, H, d) computed with the requested biases"""
    q, k, v, m = arrays(case)
    mp, mats = case["mha"], mha_mats(case)

    def proj(x, name, d):
        W, b = mats[name]
        y = x @ W.T
        if b is not None:
            y = y + b
        return y.reshape(y.shape[:-1] + (mp["H"], d))

    return proj(q, "WQ", mp["dq"]), proj(k, "WK", mp["dk"]), proj(v, "WV", mp["dv_eff"])


def oracle_tables(case):
    q, k, v, m = arrays(case)
    axis = axis_of(case)
    if case["flavour"] == "mha":
        q, k, _ = head_inputs(case)
    e, pre = np_scores(case["score"], q, k, axis)

    def table(keys, fn):
        keys = sorted({float(x) for x in np.asarray(keys).reshape(-1)})
        ded = []
        for x in keys:
            if not ded or abs(x - ded[-1]) > 2e-10:
                ded.append(x)
        vals = fn(torch.tensor(ded, dtype=torch.float64)).tolist() if ded else []
        return [(Fraction(a), Fraction(b)) for a, b in zip(ded, vals)]

    if case.get("big"):
        # scores of magnitude 1e4..1e6: exp overflows / underflows, so the table holds exp(x - M), M = the largest kept
        # score of each softmax row.  Every row of such a case gets its own table entry set only if the rows share M,
        # which the generator guarantees by producing a single row (per head); weights scaled by the positive constant
        # exp(-M) give the same convex combination, and the theorems hold for every non-negative weight function.
        kept = np.ones(e.shape, dtype=bool) if m is None else np.broadcast_to(
            m[..., None] if case["flavour"] == "mha" else m, e.shape)
        big_m = float(np.where(kept, e, -np.inf).max())
        etbl = table(e, lambda t: torch.exp(torch.clamp(t - big_m, max=700.0)))  # masked scores may exceed M
    else:
        etbl = table(e, torch.exp)
    ttbl = table(pre, torch.tanh) if pre is not None else []
    return etbl, ttbl, float(np.abs(e).max()) if e.size else 0.0


# ----------------------------------------------------------------------------------------
# Coq terms
# ----------------------------------------------------------------------------------------
def clq(xs):
    return cl([cq(x) for x in xs])


def crshape(shape):
    return cl([cn(n) for n in reversed(list(shape))])


def cqt(flat, shape, den):
    return f"(qt {crshape(shape)} {clq([Fraction(int(x), den) for x in flat])})"


def cmat(flat, rows, cols):
    return cl([clq([Fraction(int(x), PD) for x in flat[r * cols:(r + 1) * cols]]) for r in range(rows)])


def cvec_opt(flat, on):
    return co(clq([Fraction(int(x), PD) for x in flat])) if on else "None"


def cflavour(sp):
    if sp["kind"] == "dot":
        return f"(Dot {cq(Fraction(*sp['scale']))})"
    if sp["kind"] == "general":
        return f"(General {cmat(sp['W'], sp['qs'], sp['ks'])} {cvec_opt(sp['b'], sp['bias'])})"
    return (f"(Concat {cmat(sp['W'], sp['hidden'], sp['qs'] + sp['ks'])} {cvec_opt(sp['b'], sp['bias'])} "
            f"{clq([Fraction(int(x), PD) for x in sp['vv']])})")


def ctable(tbl):
    return cl([cp(cq(a), cq(b)) for a, b in tbl])


def cimpl(res, undefined_ok=True):
    if res["out"] is None:
        return "None"
    out = res["out"]
    flat = []
    for x in out.reshape(-1).tolist():
        if x != x or x in (float("inf"), float("-inf")):
            flat.append(Fraction(10**30))  # never close to a model value
        else:
            flat.append(Fraction(x))
    return co(cp(crshape(out.shape), clq(flat)))


def cmha(case):
    mp = case["mha"]
    H, dq, dk, dv = mp["H"], mp["dq"], mp["dk"], mp["dv_eff"]
    dims = {"WQ": (H * dq, mp["qsize"]), "WK": (H * dk, mp["ksize"]), "WV": (H * dv, mp["vsize"]),
            "WC": (mp["osize_eff"], H * dv)}
    parts = [cn(H), cn(dq), cn(dk), cn(dv)]
    for i, name in enumerate(["WQ", "WK", "WV", "WC"]):
        parts.append(cmat(mp[name], *dims[name]))
        parts.append(cvec_opt(mp["b" + name[1]], mp["bias"][i]))
    return "(mkMHA " + " ".join(parts) + ")"


def model_term(case, res, mpos=0):
    try:
        etbl, ttbl, _ = oracle_tables(case)
    except Exception:
        if not case.get("malformed"):
            raise
        etbl, ttbl = [], []
    q = cqt(case["q"], case["qshape"], QD)
    k = cqt(case["k"], case["kshape"], QD)
    v = cqt(case["v"], case["vshape"], VD)
    if case.get("mshape") is None:
        m = "None"
    else:
        m = co(f"(bt {crshape(case['mshape'])} {cl([cb(x) for x in case['mask']])})")
    sp = case["score"]
    if case["flavour"] == "mha":
        mp = case["mha"]
        return (f"(check_mha {ctable(etbl)} {ctable(ttbl)} {cflavour(sp)} {cmha(case)} {cn(mp['qsize'])} "
                f"{cn(mp['ksize'])} {cn(mp['vsize'])} {cz(case['dim'])} {cn(mpos)} {q} {k} {v} {m} {cimpl(res)} {cq(TOL)})")
    return (f"(check_single {ctable(etbl)} {ctable(ttbl)} {cflavour(sp)} {cn(sp['qs'])} {cn(sp['ks'])} "
            f"{cz(case['dim'])} {q} {k} {v} {m} {cimpl(res)} {cq(TOL)})")


def range_term(case, res):
    """Spec.range_okb on the implementation's output (single-head flavours): no model involved"""
    v = cqt(case["v"], case["vshape"], VD)
    if case.get("mshape") is None:
        m = "None"
    else:
        m = co(f"(bt {crshape(case['mshape'])} {cl([cb(x) for x in case['mask']])})")
    out = res["out"]
    flat = [Fraction(x) if x == x and abs(x) != float("inf") else Fraction(10**30) for x in out.reshape(-1).tolist()]
    p = len(case["kshape"]) - 1 - axis_of(case)
    return f"(range_okb {cq(TOL)} {v} {m} {cn(p)} {crshape(out.shape)} {clq(flat)})"


# ----------------------------------------------------------------------------------------
# the property's relations, run on the implementation
# ----------------------------------------------------------------------------------------
def kept_views(case):
    """kept over e-shape, over the full (value-broadcast) shape, and which key / value entries are kept
    by at least one position that reads them"""
    q, k, v, m = arrays(case)
    axis = axis_of(case)
    eshape = np.broadcast_shapes(np.expand_dims(q, axis).shape[:-1], k.shape[:-1])
    kept_e = np.ones(eshape, dtype=bool) if m is None else np.broadcast_to(m, eshape)
    fshape = np.broadcast_shapes(eshape, v.shape[:-1])
    kept_f = np.broadcast_to(kept_e, fshape)

    def reduce_to(kept, shp):
        axes = tuple(i for i, (a, b) in enumerate(zip(kept.shape, shp)) if b == 1 and a != 1)
        return kept.any(axis=axes, keepdims=True) if axes else kept

    return kept_e, kept_f, reduce_to(kept_e, k.shape[:-1]), reduce_to(kept_f, v.shape[:-1]), eshape, fshape


def relations(case, res, rng_seed=0):
    """-> list of (name, detail) for relations of the property that fail on the implementation"""
    fails = []
    for a in res["anomalies"]:
        fails.append(("bias-exactly-where-requested" if "bias" in a else "module-parameters", a))
    if res["out"] is None:
        fails.append(("legal-input-raises", res["exc"]))
        return fails
    out = res["out"]
    q, k, v, m = arrays(case)
    axis = axis_of(case)
    rs = np.random.RandomState(rng_seed + 17)
    kept_e, kept_f, kept_k, kept_v, eshape, fshape = kept_views(case)
    defined = kept_f.any(axis=axis)  # per output batch cell
    try:
        mod, _ = build_entry(case)
    except Exception as e:  # pragma: no cover
        return fails + [("rebuild", exc_kind(e))]

    def same(o2, what, tol=1e-9):
        if o2.shape != out.shape:
            fails.append((what, f"shape {o2.shape} vs {out.shape}"))
            return
        d = np.abs(o2 - out)[defined]
        if d.size and not (d <= tol).all():
            fails.append((what, f"max abs difference {float(np.nanmax(d)) if not np.isnan(d).all() else 'nan'}"))

    expect_shape = tuple(np.delete(np.array(fshape, dtype=int), axis)) + (
        (case["mha"]["osize_eff"],) if case["flavour"] == "mha" else (v.shape[-1],))
    if out.shape != expect_shape:
        fails.append(("output-shape", f"{out.shape} vs {expect_shape}"))
        return fails
    # (1) range: between the smallest and the largest kept value (single-head flavours)
    if case["flavour"] != "mha":
        vb = np.broadcast_to(v, fshape + v.shape[-1:])
        kf = kept_f[..., None]
        lo = np.where(kf, vb, np.inf).min(axis=axis)
        hi = np.where(kf, vb, -np.inf).max(axis=axis)
        bad = defined[..., None] & ~((out >= lo - 1e-9) & (out <= hi + 1e-9))
        if bad.any() or np.isnan(out[defined]).any():
            idx = tuple(int(x) for x in np.argwhere(bad | (np.isnan(out) & defined[..., None]))[0])
            fails.append(("range", f"out{list(idx)}={float(out[idx])} not in [{float(lo[idx])}, {float(hi[idx])}]"))
    # (2) blind to masked positions: junk in every key / value entry no kept position reads
    if m is not None and (not kept_k.all() or not kept_v.all()):
        k2 = np.where(kept_k[..., None], k, rs.uniform(-1e6, 1e6, size=k.shape))
        v2 = np.where(kept_v[..., None], v, rs.uniform(-1e6, 1e6, size=v.shape))
        try:
            same(call(mod, q, k2, v2, m), "blind-to-masked")
        except Exception as e:
            fails.append(("blind-to-masked", "raised " + exc_kind(e)))
    # (3) consistent permutation of the sequence positions
    T = k.shape[axis]
    if T > 1:
        perm = rs.permutation(T)
        take = lambda x: np.take(x, perm, axis=axis) if x.shape[axis] == T else x  # noqa: E731

        def take_m(mm):
            if mm is None:
                return None
            ma = axis - (len(eshape) - mm.ndim)
            return np.take(mm, perm, axis=ma) if ma >= 0 and mm.shape[ma] == T else mm

        try:
            same(call(mod, q, take(k), take(v), take_m(m)), "permutation")
        except Exception as e:
            fails.append(("permutation", "raised " + exc_kind(e)))
    # (4) broadcast query == explicitly expanded query
    qshape_full = tuple(np.delete(np.array(eshape, dtype=int), axis)) + q.shape[-1:]
    if qshape_full != q.shape:
        try:
            same(call(mod, np.broadcast_to(q, qshape_full).copy(), k, v, m), "broadcast-query", 1e-12)
        except Exception as e:
            fails.append(("broadcast-query", "raised " + exc_kind(e)))
    # (6) the result is a function of the arguments' current contents and the module's current parameters - not of
    #     earlier calls: the same tensor objects (query, key, value AND mask) are passed again after being overwritten in
    #     place, and after the parameters were changed and restored (a module that memoises projections, scores, weights
    #     or the complemented mask by object identity fails).  Every flavour and every entry point (eager, scripted,
    #     traced) goes through here.
    try:
        tq, tk, tv = (torch.tensor(np.ascontiguousarray(x), dtype=torch.float64) for x in (q, k, v))
        tm = None if m is None else torch.tensor(np.ascontiguousarray(m), dtype=torch.bool)
        with torch.no_grad():
            first = mod(*_args(mod, tq, tk, tv, tm)).numpy()
            same(first, "repeat-call")
            k3 = np.where(kept_k[..., None], -k, k) if kept_k.any() else -k
            v3 = v + 1.0
            q3 = q if case.get("big") else 0.5 * q + 0.25
            m3 = m
            if m is not None:
                ma = axis - (len(eshape) - m.ndim)
                if ma >= 0 and m.shape[ma] == k.shape[axis] and k.shape[axis] > 1:
                    m3 = np.roll(m, 1, axis=ma)  # every row keeps as many positions as before
            tk.copy_(torch.tensor(np.ascontiguousarray(k3)))
            tv.copy_(torch.tensor(np.ascontiguousarray(v3)))
            tq.copy_(torch.tensor(np.ascontiguousarray(q3)))
            if tm is not None:
                tm.copy_(torch.tensor(np.ascontiguousarray(m3)))
            again = mod(*_args(mod, tq, tk, tv, tm)).numpy()
        fresh_mod, _ = build_entry(case)
        fresh = call(fresh_mod, q3, k3, v3, m3)
        d = np.abs(again - fresh)[defined] if again.shape == fresh.shape else np.array([np.inf])
        if d.size and not (d <= 1e-9).all():
            fails.append(("call-history", "same tensor objects overwritten in place between two calls: second result differs "
                          f"from a fresh module on the new contents by {float(np.nanmax(d))}"))
        sd = {n_: p_.clone() for n_, p_ in mod.state_dict().items()}
        if sd:
            with torch.no_grad():
                for p_ in mod.parameters():
                    p_.mul_(-0.5)
                mod(*_args(mod, tq, tk, tv, tm))
                mod.load_state_dict(sd)
                back = mod(*_args(mod, tq, tk, tv, tm)).numpy()
            d = np.abs(back - fresh)[defined] if back.shape == fresh.shape else np.array([np.inf])
            if d.size and not (d <= 1e-9).all():
                fails.append(("call-history", "parameters changed and restored between calls: result differs from a fresh "
                              f"module by {float(np.nanmax(d))}"))
    except Exception as e:
        fails.append(("call-history", "raised " + exc_kind(e) + ": " + str(e)[:80]))
    # (7) the result does not depend on how the caller spells the same call (notes/AUDIT_GUIDE.md): memory layout of the
    #     arguments, value being the very key object, keyword arguments, an explicit all-True mask for an omitted one,
    #     key / value / mask expanded over the axes they broadcast along, float32, one batch element alone
    alias = bool(case.get("alias_kv"))
    pick = (rng_seed + len(case["q"]) + 3 * len(case["k"]) + 5 * len(case["v"]) + sum(case["kshape"])) % 3

    def variant(name, fn, tol=1e-9):
        try:
            same(fn(), name, tol)
        except Exception as e:
            fails.append((name, "raised " + exc_kind(e) + ": " + str(e)[:80]))

    variant("memory-layout", lambda: call(mod, q, k, v, m, alias=alias, layout=("t", "off", "step")[pick]))
    if alias:
        variant("value-is-key", lambda: call(mod, q, k, v.copy(), m))
    if not case.get("kwcall") and not case.get("trace"):
        variant("keyword-call", lambda: call(mod, q, k, v, m, kwargs=True))
    if m is None and pick == 0 and not case.get("trace"):
        variant("explicit-all-true-mask", lambda: call(mod, q, k, v, np.ones(eshape, dtype=bool)))
    if pick == 1:
        full = lambda x, shp: np.broadcast_to(x, tuple(shp) + x.shape[len(shp):]).copy()  # noqa: E731
        variant("expanded-key-value-mask", lambda: call(mod, q, full(k, eshape), full(v, fshape),
                                                        None if m is None else np.broadcast_to(m, eshape).copy()))
    if pick == 2 and not case.get("big") and not case.get("trace"):
        def f32():
            m32, _ = build_entry(case)
            return call(m32.float(), q, k, v, m, f32=True)
        # size-threshold cases sum up to 257 terms of magnitude up to 1e3: float32 tolerance relative to the output
        big_ = case.get("size_extent") and defined.any()
        variant("float32", f32, 2e-4 * (max(1.0, float(np.nanmax(np.abs(out[defined])))) if big_ else 1.0))
    # one batch element alone = its slice of the batched result
    cand = [b for b in range(len(fshape)) if b != axis and fshape[b] > 1]
    if cand:
        b = cand[(pick + len(case["v"])) % len(cand)]
        i = (pick + len(case["q"])) % fshape[b]
        sl = lambda x, ax: np.take(x, [i], axis=ax) if ax >= 0 and x.shape[ax] == fshape[b] else x  # noqa: E731
        ob = b if b < axis else b - 1
        try:
            alone = call(mod, sl(q, ob), sl(k, b), sl(v, b), None if m is None else sl(m, b - (len(eshape) - m.ndim)))
            exp1 = np.take(out, [i], axis=ob)
            dfd = np.take(defined, [i], axis=ob)
            if alone.shape != exp1.shape:
                fails.append(("batch-element-alone", f"shape {alone.shape} vs {exp1.shape}"))
            else:
                d = np.abs(alone - exp1)[dfd]
                if d.size and not (d <= 1e-9).all():
                    fails.append(("batch-element-alone", f"element {i} of batch axis {b} alone differs from its slice of the "
                                  f"batched result by {float(np.nanmax(d)) if not np.isnan(d).all() else 'nan'}"))
        except Exception as e:
            fails.append(("batch-element-alone", "raised " + exc_kind(e) + ": " + str(e)[:80]))
    # (5) multi-head = project (bias where requested), wrapped attention per head, concat, project
    if case["flavour"] == "mha":
        mp, mats = case["mha"], mha_mats(case)
        qh, kh, vh = head_inputs(case)
        inner, _ = build_single(case["score"], case["dim"])
        try:
            heads = [call(inner, qh[..., h, :], kh[..., h, :], vh[..., h, :], m) for h in range(mp["H"])]
            cat = np.concatenate(heads, -1)
            W, b = mats["WC"]
            exp = cat @ W.T + (0 if b is None else b)
            same(exp, "multihead-is-composition")
        except Exception as e:
            fails.append(("multihead-is-composition", "reference raised " + exc_kind(e)))
    return fails


# ----------------------------------------------------------------------------------------
# generators
# ----------------------------------------------------------------------------------------
def _ints(rng, n, lo, hi):
    return [rng.randint(lo, hi) for _ in range(n)]


def gen_score(rng, kind, qs, ks, small=False, hidden=None):
    pm = 2 if small else 4
    if kind == "dot":
        return {"kind": "dot", "qs": qs, "ks": qs,
                "scale": rng.choice([[1, 1], [1, 1], [1, 2], [1, 4], [2, 1], [-1, 1], [0, 1], [3, 4]])}
    bias = rng.random() < 0.5
    if kind == "general":
        return {"kind": "general", "qs": qs, "ks": ks, "bias": bias,
                "W": _ints(rng, qs * ks, -pm, pm), "b": _ints(rng, qs, -pm, pm)}
    hidden = hidden or rng.randint(1, 3)
    return {"kind": "concat", "qs": qs, "ks": ks, "bias": bias, "hidden": hidden,
            "W": _ints(rng, hidden * (qs + ks), -pm, pm), "b": _ints(rng, hidden, -pm, pm),
            "vv": _ints(rng, hidden, -pm, pm)}


def prod(xs):
    r = 1
    for x in xs:
        r *= x
    return r


def gen_case(rng, flavour=None, bias_combo=None, negdim=None, opts=None):
    opts = opts or {}
    flavour = flavour or rng.choice(["dot", "general", "concat", "mha", "mha"])
    rank = opts.get("rank") or rng.choice([2, 3, 3, 3, 4, 4, 5])  # rank of key
    axis = opts.get("axis", rng.randint(0, rank - 2))
    axis = min(axis, rank - 2)
    T = opts.get("T") or rng.choice([1, 2, 2, 3, 3, 4, 5])
    base = [rng.choice([1, 2, 2, 3]) for _ in range(rank - 1)]
    if opts.get("minb"):
        base = [max(b, opts["minb"]) for b in base]
    if prod(base) > 18:
        base = [min(b, 2) for b in base]
    if opts.get("maxb"):
        base = [min(b, opts["maxb"]) for b in base]
    base[axis] = T
    ext = opts.get("ext")  # (batch axis, size): one broadcast extent made large (size-threshold stream)
    if ext:
        base[ext[0]] = ext[1]
    one = lambda b, pr: 1 if rng.random() < (pr / 3 if opts.get("minb") else pr) else b  # noqa: E731
    kb = [b if i == axis else one(b, 0.25) for i, b in enumerate(base)]
    qb = [one(b, 0.3) for i, b in enumerate(base) if i != axis]
    qu = qb[:axis] + [1] + qb[axis:]
    if ext and max(qu[ext[0]], kb[ext[0]]) != ext[1]:
        kb[ext[0]] = ext[1]
    eb = [max(a, b) for a, b in zip(qu, kb)]
    vb = [b if i == axis else one(b, 0.25) for i, b in enumerate(base)]
    mask_mode = opts.get("mask") or rng.choice(["none", "full", "full", "full", "bcast", "lowrank"])
    if mask_mode == "none":
        mb = None
    else:
        mb = [e if (i == axis or mask_mode == "full" and rng.random() < 0.7) else one(e, 0.4) for i, e in enumerate(eb)]
        if mask_mode == "bcast" and rng.random() < 0.15:
            mb[axis] = 1
        if mask_mode == "lowrank" and len(mb) > 1:
            cut = rng.randint(1, min(axis, len(mb) - 1)) if axis >= 1 else 0
            mb = mb[cut:]
    D = opts.get("D") or rng.choice([1, 2, 3])
    if flavour == "mha":
        H = opts.get("H") or rng.choice([1, 2, 2, 3])
        inner = opts.get("inner") or rng.choice(SINGLE)
        dq = opts.get("dq") or rng.choice([1, 2])
        dk = dq if inner == "dot" else (opts.get("dk") or rng.choice([1, 2]))
        qsize, ksize, vsize = (opts.get(n_) or rng.choice([1, 2, 3]) for n_ in ("qsize", "ksize", "vsize"))
        dv = opts["dv"] if "dv" in opts else rng.choice([None, None, 1, 2])
        osize = opts["osize"] if "osize" in opts else rng.choice([None, None, 1, 2, 3])
        dv_eff = dv if dv is not None else max(1, vsize // H)
        osize_eff = osize if osize is not None else vsize
        bias = list(bias_combo) if bias_combo is not None else [rng.random() < 0.5 for _ in range(4)]
        mha = {"H": H, "dq": dq, "dk": dk, "dv": dv, "dv_eff": dv_eff, "osize": osize, "osize_eff": osize_eff,
               "qsize": qsize, "ksize": ksize, "vsize": vsize, "bias": bias,
               "WQ": _ints(rng, H * dq * qsize, -2, 2), "bQ": _ints(rng, H * dq, -2, 2),
               "WK": _ints(rng, H * dk * ksize, -2, 2), "bK": _ints(rng, H * dk, -2, 2),
               "WV": _ints(rng, H * dv_eff * vsize, -4, 4), "bV": _ints(rng, H * dv_eff, -4, 4),
               "WC": _ints(rng, osize_eff * H * dv_eff, -4, 4), "bC": _ints(rng, osize_eff, -4, 4)}
        score = gen_score(rng, inner, dq, dk, small=True, hidden=opts.get("hidden"))
        Q, K, D = qsize, ksize, vsize
        qlo = 4
    else:
        mha = None
        Q = opts.get("Q") or rng.choice([1, 2, 3])
        K = Q if flavour == "dot" else (opts.get("K") or rng.choice([1, 2, 3]))
        score = gen_score(rng, flavour, Q, K, hidden=opts.get("hidden"))
        qlo = 8
    if opts.get("alias"):  # value is the key: same shape, same numbers (the value grid is twice as fine)
        vb, D = list(kb), K
        if flavour == "mha":
            mha["vsize"] = K
            if mha["dv"] is None:
                mha["dv_eff"] = max(1, K // mha["H"])
            if mha["osize"] is None:
                mha["osize_eff"] = K
            mha["WV"] = _ints(rng, mha["H"] * mha["dv_eff"] * K, -4, 4)
            mha["bV"] = _ints(rng, mha["H"] * mha["dv_eff"], -4, 4)
            mha["WC"] = _ints(rng, mha["osize_eff"] * mha["H"] * mha["dv_eff"], -4, 4)
            mha["bC"] = _ints(rng, mha["osize_eff"], -4, 4)
    qshape, kshape, vshape = qb + [Q], kb + [K], vb + [D]
    dim = axis
    if negdim is None:
        negdim = flavour != "mha" and rng.random() < 0.2
    if negdim and flavour != "mha" and axis >= 1:  # documented legal range is [-rank+1, rank-2] without -1
        dim = axis - rank
    case = {"flavour": flavour, "dim": dim, "qshape": qshape, "kshape": kshape, "vshape": vshape,
            "mshape": mb, "score": score, "mha": mha,
            "q": _ints(rng, prod(qshape), -qlo, qlo), "k": _ints(rng, prod(kshape), -qlo, qlo),
            "v": _ints(rng, prod(vshape), -32, 32), "mask": None}
    if opts.get("zero_query"):
        case["q"] = [0] * prod(qshape)
    if opts.get("alias"):
        case["v"] = [x * (VD // QD) for x in case["k"]]
    if mb is not None:
        pk = rng.choice([0.35, 0.6, 0.6, 0.85])
        marr = np.array([rng.random() < pk for _ in range(prod(mb))], dtype=bool).reshape(mb)
        maxis = axis - (len(eb) - len(mb))
        if maxis >= 0 and mb[maxis] == T and rng.random() < 0.85:
            # keep at least one position in every row of the mask itself
            mv = np.moveaxis(marr, maxis, -1)
            for idx in np.ndindex(mv.shape[:-1]):
                if not mv[idx].any():
                    mv[idx][rng.randrange(T)] = True
        case["mask"] = [int(x) for x in marr.reshape(-1)]
    return case


def gen_big(rng):
    """one softmax row (per head) whose scores have magnitude 1e4..1e6: the kept scores may all lie far below any
    finite 'very negative' constant, and far above/below the masked ones"""
    fl = rng.choice(["dot", "general", "mha"])
    opts = {"rank": 2, "axis": 0, "T": rng.choice([2, 3, 4, 5]), "mask": rng.choice(["full", "full", "full", "none"])}
    if fl == "mha":
        opts.update(H=1, inner=rng.choice(["dot", "general"]))
    c = gen_case(rng, fl, negdim=False, opts=opts)
    f = rng.choice([50, 50, 200, 800])
    sgn = rng.choice([-1, 1])
    mode = rng.choice(["anti", "anti", "mixed"])
    q = [(abs(x) + 1) * f * sgn for x in c["q"]]
    if mode == "anti":
        k = [-(abs(x) + 1) * f * sgn for x in c["k"]]
    else:
        k = [x * f for x in c["k"]]
    c["q"], c["k"] = q, k
    if c["score"]["kind"] == "dot":
        c["score"]["scale"] = rng.choice([[1, 1], [1, 2], [1, 1], [2, 1]])
    c["big"] = True
    return c


def gen_script(rng, k):
    """TorchScript entry point (torch.jit.script(module)(...)) of every flavour, mostly with a mask"""
    fl = ["dot", "general", "concat", "mha", "mha", "mha"][k % 6]
    opts = {"mask": "none" if k % 5 == 4 else rng.choice(["full", "full", "bcast", "lowrank"]),
            "rank": rng.choice([2, 3, 3, 4])}
    c = gen_case(rng, fl, negdim=(fl != "mha" and k % 4 == 1), opts=opts)
    c["script"] = True
    return c


def gen_negdim(rng, k):
    """every single-head flavour with a NEGATIVE sequence dimension: every legal value (-rank+1 .. -2) for key ranks 3..5,
    batch axes of size >= 2 next to the sequence axis (so that a softmax or a sum over a neighbouring axis shows), masks of
    every layout with lower-rank and broadcast masks over-represented; a third enters through torch.jit.script"""
    fl = SINGLE[k % 3]
    rank = [3, 4, 4, 5][(k // 3) % 4]
    axis = 1 + (k // 12) % (rank - 2)  # 1 .. rank-2  <->  dim = axis - rank in -rank+1 .. -2
    mask = ["lowrank", "bcast", "lowrank", "full", "bcast", "none"][(k // 2) % 6]
    for _ in range(20):
        c = gen_case(rng, fl, negdim=True, opts={"rank": rank, "axis": axis, "mask": mask, "T": rng.choice([2, 3, 3, 4]),
                                                 "minb": 2})
        if c["dim"] < 0:
            break
    if k % 5 in (1, 3):
        c["script"] = True
    if k % 7 == 3:
        c["kwcall"] = True
    return c


def gen_alias(rng, k):
    """value IS the key tensor (the call of the class documentation: attention(h, encoded, encoded, mask))"""
    fl = ["dot", "general", "mha", "concat", "mha"][k % 5]
    c = gen_case(rng, fl, negdim=(k % 4 == 0), opts={"alias": True})
    c["alias_kv"] = True
    if k % 3 == 2:
        c["script"] = True
    return c


def gen_trace(rng, k):
    """torch.jit.trace entry point, traced with size-1 example inputs as tests/test_attn.py does"""
    fl = ["dot", "general", "concat", "mha", "mha"][k % 5]
    c = gen_case(rng, fl, negdim=(fl != "mha" and k % 3 == 1),
                 opts={"mask": rng.choice(["none", "full", "full", "bcast", "lowrank"]), "rank": rng.choice([2, 3, 3, 4])})
    c["trace"] = True
    return c


# ----------------------------------------------------------------------------------------
# size thresholds / algorithm regimes (notes/prompts/SIZE_AUDIT.md): ONE tensor extent at a time at and next to
# 16, 32, 64, 128, 256 (sort/topk network sizes, vector widths, blocked reductions, BLAS kernels, int8 indices), every
# other extent small so that the model stays cheap; same model terms and relations as every other stream
# ----------------------------------------------------------------------------------------
SIZE_GROUPS = [[17], [31, 32, 33], [63, 64, 65], [127, 128, 129], [255, 256, 257]]
_EDGES = (15, 16, 31, 32, 63, 64, 127, 128, 255, 256)
# extent -> (flavours it exists for, cases in the quick tier, number of size groups used)
SIZE_EXTENTS = [
    ("T", ["dot", "general", "concat", "mha/dot", "mha/general", "mha/concat"], 15, 5),
    ("batch-before", ["dot", "general", "concat", "mha/dot", "mha/general", "mha/concat"], 5, 5),
    ("batch-after", ["dot", "general", "concat", "mha/dot", "mha/general", "mha/concat"], 5, 5),
    ("query_size", ["dot", "general", "concat", "mha/dot"], 6, 5),
    ("key_size", ["general", "concat", "mha/general"], 5, 5),
    ("value_size", ["dot", "general", "concat", "mha/dot"], 5, 5),
    ("hidden_size", ["concat", "mha/concat"], 5, 5),
    ("num_heads", ["mha/dot", "mha/general", "mha/concat"], 5, 4),
    ("d_q", ["mha/dot", "mha/general", "mha/concat"], 4, 4),
    ("d_k", ["mha/general", "mha/concat"], 4, 4),
    ("d_v", ["mha/dot", "mha/general"], 4, 4),
    ("out_size", ["mha/dot", "mha/concat"], 4, 4),
]


def _hot(rng, n, extra=4):
    """indices of a long reduction axis that carry non-zero numbers: both sides of every block edge, the first and the
    LAST index and a few random ones - the sum stays O(1) (scores must not saturate the softmax) while a cell dropped,
    duplicated or swapped next to a block boundary changes it; a short axis is dense"""
    if n <= 8:
        return set(range(n))
    return {i for i in _EDGES if i < n} | {0, n - 1} | {rng.randrange(n) for _ in range(extra)}


def _nz(rng, m):
    return rng.choice([x for x in range(-m, m + 1) if x])


def _vec(rng, n, m, dense=False):
    hot = set(range(n)) if dense else _hot(rng, n)
    return [_nz(rng, m) if i in hot else 0 for i in range(n)]


def _mat(rng, rows, cols, m, rowhot=None, dense=False):
    """row-major rows x cols; every row sparse along a long column axis (own hot set per row); rows outside rowhot zero"""
    out = []
    for r in range(rows):
        out += [0] * cols if rowhot is not None and r not in rowhot else _vec(rng, cols, m, dense)
    return out


def _size_score(rng, sp):
    """score parameters for long feature axes: whatever is summed inside the score is sparse, the LAST cell included"""
    qs, ks = sp["qs"], sp["ks"]
    if sp["kind"] == "dot":
        sp["scale"] = rng.choice([[1, 1], [1, 2], [1, 4], [-1, 2]])
    elif sp["kind"] == "general":
        sp["W"] = _mat(rng, qs, ks, 2)
        sp["b"] = _vec(rng, qs, 2, dense=True)
    else:
        h = sp["hidden"]
        sp["W"] = [x for _ in range(h) for x in _vec(rng, qs, 2) + _vec(rng, ks, 2)]
        sp["b"] = _vec(rng, h, 2, dense=True)
        sp["vv"] = _vec(rng, h, 2)


def _size_mask(rng, mb, maxis, T, rot):
    """mask rows over a long sequence axis: only the LAST position kept; everything kept; everything but the last;
    left-padded (a suffix kept); holes with the last kept; three scattered positions and the last; right-padded"""
    marr = np.zeros(mb, dtype=bool)
    mv = np.moveaxis(marr, maxis, -1)
    for r, idx in enumerate(np.ndindex(mv.shape[:-1])):
        p = (r + rot) % 7
        row = np.zeros(T, dtype=bool)
        if p == 0:
            row[T - 1] = True
        elif p == 1:
            row[:] = True
        elif p == 2:
            row[:T - 1] = True
        elif p == 3:
            row[T - rng.randint(2, T - 1):] = True
        elif p == 4:
            row[:] = [rng.random() < 0.8 for _ in range(T)]
            row[T - 1] = True
        elif p == 5:
            row[[rng.randrange(T) for _ in range(3)] + [T - 1]] = True
        else:
            row[:rng.randint(1, T - 1)] = True
        mv[idx] = row
    return marr


def _pooled(rng, count, make, pool):
    """count items; more than `pool` of them -> drawn from `pool` distinct ones.  Keeps the number of distinct scores
    (= the size of the exp / tanh oracle tables, which the model searches linearly once per softmax term) small, and
    gives the long axes many TIED scores with distinct values behind them"""
    if count <= pool:
        return [make() for _ in range(count)]
    items = [make() for _ in range(pool)]
    return [items[rng.randrange(pool)] for _ in range(count)]


def gen_sized(rng, extent, fl, n, k):
    """one case whose extent `extent` is n (see SIZE_EXTENTS); k varies layout, mask, entry point"""
    flavour, _, inner = fl.partition("/")
    opts = {"rank": [3, 2, 3, 4][k % 4], "T": rng.choice([2, 3]), "maxb": 1 if n >= 255 else 2,
            "mask": ["full", "none", "lowrank", "full", "bcast"][k % 5]}
    if inner:
        opts.update(inner=inner, H=rng.choice([1, 2]))
    if extent == "T":
        opts["T"] = n
        opts["mask"] = ["full", "full", "lowrank", "none", "full", "bcast"][k % 6]
        if n >= 63:  # the model's cost is ~T^2 per output cell (model_cost): few output cells
            opts.update(maxb=2, dv=1, D=rng.choice([1, 2]))
        if n >= 127:
            opts.update(rank=[3, 2][k % 2], maxb=1 if inner or n >= 255 else 2, D=1)
            if inner and n >= 255:
                opts["H"] = 1
    elif extent.startswith("batch"):
        opts["rank"] = [3, 4][k % 2] if n < 255 else 3
        opts["axis"] = 0 if extent == "batch-after" else opts["rank"] - 2
        opts["ext"] = (opts["rank"] - 2 if extent == "batch-after" else 0, n)
        if n >= 255:
            opts.update(T=2, maxb=1)
        if n >= 127:
            opts.update(dv=1, osize=rng.choice([1, 2]))
    else:
        key = {"query_size": "qsize" if inner else "Q", "key_size": "ksize" if inner else "K",
               "value_size": "vsize" if inner else "D", "hidden_size": "hidden", "num_heads": "H", "d_q": "dq",
               "d_k": "dk", "d_v": "dv", "out_size": "osize"}[extent]
        opts[key] = n
        if inner and extent in ("num_heads", "d_v", "out_size", "value_size"):
            opts.update(dq=1, dk=1, qsize=rng.choice([1, 2]), ksize=rng.choice([1, 2]))
        if extent == "num_heads":
            opts.update(dv=rng.choice([None, 1]), rank=[3, 2][k % 2], maxb=2)
        if extent in ("num_heads", "d_v"):  # closing projection: ~(H d_v)^2 per output cell
            opts.update(osize=rng.choice([1, 2]) if n < 63 else 1, maxb=2 if n < 63 else 1)
            if extent == "d_v" and n >= 63:
                opts["H"] = 1
        if extent == "out_size":
            opts["dv"] = 1
        if inner and extent == "value_size":
            opts.update(dv=rng.choice([1, 2]), osize=rng.choice([None, 2]))
    neg = flavour != "mha" and k % 3 == 1
    c = gen_case(rng, flavour, negdim=neg, opts=opts)
    # payloads: whatever is summed inside a score is sparse along a long feature axis (LAST cell included), query / key
    # rows and per-head projections come from small pools, values are all distinct
    Q, K = c["qshape"][-1], c["kshape"][-1]
    c["q"] = [x for row in _pooled(rng, prod(c["qshape"][:-1]), lambda: _vec(rng, Q, 2), 3) for x in row]
    c["k"] = [x for row in _pooled(rng, prod(c["kshape"][:-1]), lambda: _ints(rng, K, -4, 4), 5) for x in row]
    nv = prod(c["vshape"])
    c["v"] = rng.sample(range(-(nv // 2) - 32, nv // 2 + 33), nv)
    _size_score(rng, c["score"])
    if flavour == "mha":
        mp = c["mha"]
        H, dq, dk, dv = mp["H"], mp["dq"], mp["dk"], mp["dv_eff"]
        hq, hk = _hot(rng, dq), _hot(rng, dk)  # per-head query / key features that are non-zero
        for name, d, hot, size in (("Q", dq, hq, mp["qsize"]), ("K", dk, hk, mp["ksize"])):
            blocks = _pooled(rng, H, lambda: (_mat(rng, d, size, 2, rowhot=hot),
                                              [_nz(rng, 2) if j in hot else 0 for j in range(d)]), 3)
            mp["W" + name] = [x for blk in blocks for x in blk[0]]
            mp["b" + name] = [x for blk in blocks for x in blk[1]]
        mp["WV"] = _mat(rng, H * dv, mp["vsize"], 4, dense=True)
        mp["bV"] = _vec(rng, H * dv, 4, dense=True)
        mp["WC"] = _mat(rng, mp["osize_eff"], H * dv, 4, dense=True)
        mp["bC"] = _vec(rng, mp["osize_eff"], 4, dense=True)
    if extent == "T" and (k % 5 == 2 or n >= 63 and k % 3 == 0) or extent in ("d_v", "num_heads") and n >= 63 and k % 2 == 0:
        # every score is 0: the weights are uniform, the output is the plain mean of the kept values (projected) - and the
        # model is cheap at any size (exp 0 = 1: its unreduced rational sums stay small, see model_cost)
        c["q"] = [0] * len(c["q"])
        if flavour == "mha":
            c["mha"]["bias"][0] = False
        if c["score"]["kind"] == "concat":
            c["score"]["vv"] = [0] * c["score"]["hidden"]
    if extent == "T" and c["mshape"] is not None:
        mb = c["mshape"]
        maxis = axis_of(c) - (len(c["kshape"]) - 1 - len(mb))
        if maxis >= 0 and mb[maxis] == n:
            c["mask"] = [int(x) for x in _size_mask(rng, mb, maxis, n, k).reshape(-1)]
    if k % 4 == 1:
        c["script"] = True
    elif k % 8 == 6:
        c["trace"] = True
    elif k % 8 == 3:
        c["kwcall"] = True
    c["size_extent"] = "%s=%d" % (extent, n)
    return c


def sized_cases(rng, tier):
    """quick: per extent a handful of cases, sizes stratified over the groups 17 | 31..33 | 63..65 | 127..129 | 255..257
    (which member of a group, and which flavour, rotates with the run's seed); thorough: every flavour x every size"""
    cases = []
    for extent, flavours, nquick, ngroups in SIZE_EXTENTS:
        groups = SIZE_GROUPS[:ngroups]
        if tier == "thorough":
            plan = [(fl, n) for fl in flavours for g in groups for n in g]
        else:
            r0, f0 = rng.randrange(3), rng.randrange(len(flavours))
            plan = []
            for j in range(nquick):
                gi = j % len(groups)  # 15 cases: every size; 5: one of 31..33, another of 63..65, the third of 127..129
                g = groups[gi]
                fi = gi + (len(groups) - 3) * (j // len(groups)) + f0  # T: each of the 6 flavours once at 127..257
                plan.append((flavours[fi % len(flavours)], g[(j // len(groups) + gi + r0) % len(g)]))
        k0 = rng.randrange(8)
        for j, (fl, n) in enumerate(plan):
            cases.append(gen_sized(rng, extent, fl, n, k0 + j))
    return cases


def np_attend(case):
    """float64 numpy evaluation of the DEFINITION (class documentation = theorem c20_attention_is_masked_convex_
    combination): e = score(query, key); masked positions at -inf; a = softmax of e over the sequence axis; out = sum_t
    a_t value_t; multi-headed = project, that per head, concatenate, project.  Independent of torch and of the library.
    Judges the size-threshold cases, next to the Coq model wherever that can afford the size (model_cost)."""
    q, k, v, m = arrays(case)
    axis = axis_of(case)
    if case["flavour"] == "mha":
        q, k, v = head_inputs(case)
        m = None if m is None else m[..., None]
    e, _ = np_scores(case["score"], q, k, axis)
    with np.errstate(all="ignore"):
        if m is not None:
            e = np.where(m, e, -np.inf)
        w = np.exp(e - e.max(axis=axis, keepdims=True))
        a = w / w.sum(axis=axis, keepdims=True)
        out = (a[..., None] * v).sum(axis=axis)
        if case["flavour"] == "mha":
            W, b = mha_mats(case)["WC"]
            out = out.reshape(out.shape[:-2] + (-1,)) @ W.T + (0 if b is None else b)
    return out


def oracle_ok(case, res):
    """implementation output == np_attend on every cell with a kept position (abs 1e-9, as the model comparison)"""
    if res["out"] is None:
        return False
    ref = np_attend(case)
    if ref.shape != res["out"].shape:
        return False
    d = np.abs(ref - res["out"])[~np.isnan(ref)]
    return bool((d <= 1e-9).all())  # a NaN of the implementation where the oracle has a number compares False


def model_cost(case):
    """rough count of the bit-level work of vm_compute on the model term.  Q sums are not reduced: a sum of n weighted
    values (a_t = exp / row sum, a different odd denominator per term) builds numerators of ~110 n bits, so every output
    cell of attend costs ~T^2 and every output cell of the closing projection ~(H d_v)^2; the oracle tables are searched
    linearly once per softmax term"""
    if case.get("malformed"):
        return 0
    q, k, v, m = arrays(case)
    axis = axis_of(case)
    eshape = np.broadcast_shapes(np.expand_dims(q, axis).shape[:-1], k.shape[:-1])
    rows = prod(np.broadcast_shapes(eshape, v.shape[:-1])) // k.shape[axis]
    T = k.shape[axis]
    if m is not None and T in m.shape[-len(eshape):]:  # terms at masked positions are 0 and cost nothing
        kept = int(np.broadcast_to(m, eshape).sum(axis=axis).max())
    else:
        kept = T
    mp = case["mha"]
    tied = not any(case["q"]) and not (mp and mp["bias"][0]) or \
        case["score"]["kind"] == "concat" and not any(case["score"]["vv"])  # all scores 0: small numbers throughout
    slow = 2.5 if case["score"]["kind"] == "concat" else 1  # scores are sums of 53-bit tanh values: costlier lookups
    if case["flavour"] != "mha":
        return int(slow * (rows * v.shape[-1] * kept * kept // (40 if tied else 1) + prod(eshape) * T // 10))
    hd = mp["H"] * mp["dv_eff"]
    return int(2 * slow * ((rows * hd * kept * kept + rows * mp["osize_eff"] * hd * hd) // (40 if tied else 1) +
                           prod(eshape) * mp["H"] * T // 10))


# measured: ~5000 units per second of vm_compute (one output cell over a full row of 128: 3.4 s, of 257: 14 s)
MODEL_BUDGET = {"quick": 12000, "thorough": 600000}


def gen_malformed(rng):
    """inputs check_input must reject (model: attend = None)"""
    c = gen_case(rng, flavour=rng.choice(SINGLE), negdim=False, opts={"mask": "none", "rank": rng.choice([3, 4])})
    how = rng.choice(["qrank", "vrank", "qsize", "dim_hi", "dim_lo", "bcast"])
    c = json.loads(json.dumps(c))
    if how == "qrank":
        c["qshape"] = [1] + c["qshape"]
    elif how == "vrank":
        c["vshape"] = [1] + c["vshape"]
    elif how == "qsize":
        c["qshape"][-1] += 1
        c["q"] = c["q"] + [0] * (prod(c["qshape"]) - len(c["q"]))
    elif how == "dim_hi":
        c["dim"] = len(c["kshape"]) - 1
    elif how == "dim_lo":
        c["dim"] = -len(c["kshape"])
    else:
        ax = axis_of(c)
        cand = [i for i in range(len(c["kshape"]) - 1) if i != ax]
        if not cand:
            c["dim"] = len(c["kshape"]) - 1
        else:
            i = cand[0]
            qi = i if i < ax else i - 1
            c["kshape"][i], c["qshape"][qi] = 2, 3
            c["vshape"][i] = 1
            c["k"] = [1] * prod(c["kshape"])
            c["q"] = [1] * prod(c["qshape"])
            c["v"] = [1] * prod(c["vshape"])
    c["malformed"] = how
    return c


def enumerated(tier):
    """small-scope enumeration: every flavour x mask layout x axis x (for mha) all 16 bias combinations"""
    import random

    cases = []
    k = 0
    combos = list(itertools.product([False, True], repeat=4))
    inners = SINGLE
    # mha: 16 bias combos x 3 wrapped flavours x mask/no mask
    for combo, inner, mask in itertools.product(combos, inners, ["none", "full"]):
        k += 1
        rng = random.Random(1000 + k)
        cases.append(gen_case(rng, "mha", bias_combo=combo, opts={"inner": inner, "mask": mask, "rank": 3}))
    # single flavours: rank x axis x mask mode x sign of dim
    ranks = [2, 3, 4] if tier == "quick" else [2, 3, 4, 5]
    for fl, rank, mask, neg in itertools.product(SINGLE, ranks, ["none", "full", "bcast", "lowrank"], [False, True]):
        for axis in range(rank - 1):
            if tier == "quick" and (k % 2 == 0) and rank == 4:
                k += 1
                continue
            k += 1
            rng = random.Random(5000 + k)
            cases.append(gen_case(rng, fl, negdim=neg, opts={"rank": rank, "axis": axis, "mask": mask}))
    # exact stream: zero queries -> all scores equal -> output = plain mean of the kept values
    for fl in SINGLE:
        for i in range(4):
            rng = random.Random(9000 + len(cases))
            cases.append(gen_case(rng, fl, negdim=False, opts={"zero_query": True, "mask": "full", "rank": 3}))
    return cases


def nontrivial(case):
    if case.get("malformed"):
        return False
    T = case["kshape"][axis_of(case)] if 0 <= axis_of(case) < len(case["kshape"]) else 0
    return T >= 2 and case.get("mask") is not None and 0 in case["mask"] and 1 in case["mask"]


def family(case):
    """the two families of inputs on which the tree as first examined deviated from the property (both since
    repaired in /repo: 4f65990, 6eeab25); kept for bookkeeping in reports and so that a known-findings entry with
    signature {"family": ...} could be matched should one ever be listed"""
    if case.get("malformed"):
        return None
    if case["flavour"] == "mha" and case.get("mshape") is not None:
        return "mha-mask"
    if case["dim"] < 0:
        return "negdim"
    return None


# ----------------------------------------------------------------------------------------
# shrinking
# ----------------------------------------------------------------------------------------
def _slice_axis(case, name, shape_key, den_axis, keep):
    shape = case[shape_key]
    arr = np.array(case[name]).reshape(shape)
    arr = np.take(arr, range(keep), axis=den_axis)
    case[name] = [int(x) for x in arr.reshape(-1)]
    case[shape_key] = list(arr.shape)


def _cands0(case):
    if case.get("malformed"):
        return
    r = len(case["kshape"])
    ax = axis_of(case)
    # shrink one batch / sequence axis of every tensor that has it at full size
    for i in range(r - 1):
        n = max(case["kshape"][i], case["vshape"][i])
        qi = None if i == ax else (i if i < ax else i - 1)
        if qi is not None:
            n = max(n, case["qshape"][qi])
        if n <= 1:
            continue
        c = json.loads(json.dumps(case))
        for name, key, j in (("k", "kshape", i), ("v", "vshape", i), ("q", "qshape", qi)):
            if j is not None and c[key][j] == n:
                _slice_axis(c, name, key, j, n - 1)
        if c.get("mshape") is not None:
            mj = i - (r - 1 - len(c["mshape"]))
            if mj >= 0 and c["mshape"][mj] == n:
                _slice_axis(c, "mask", "mshape", mj, n - 1)
        yield c
    if case["flavour"] != "mha" and case["vshape"][-1] > 1 and not case.get("alias_kv"):
        c = json.loads(json.dumps(case))
        _slice_axis(c, "v", "vshape", r - 1, case["vshape"][-1] - 1)
        yield c
    if case.get("mshape") is not None and family(case) != "mha-mask":
        c = json.loads(json.dumps(case))
        c["mshape"], c["mask"] = None, None
        yield c
    for name in ("q", "k"):
        if any(case[name]):
            c = json.loads(json.dumps(case))
            c[name] = [0] * len(case[name])
            yield c


def _cands(case):
    """candidates of _cands0; for value-is-key cases the value stays the key's data, and the way a case enters the module
    (scripted / traced / keyword call) is dropped last"""
    for c in _cands0(case):
        if c.get("alias_kv"):
            c["v"], c["vshape"] = [x * (VD // QD) for x in c["k"]], list(c["kshape"])
        yield c
    if not case.get("malformed"):
        for flag in ("kwcall", "trace", "script"):
            if case.get(flag):
                c = json.loads(json.dumps(case))
                c.pop(flag)
                yield c


# ----------------------------------------------------------------------------------------
# source tie: the Python text of forward / check_input / score, translated (harness/py2coq) and interpreted in Coq
# ----------------------------------------------------------------------------------------
IMPORTS_SRC = IMPORTS + "From PV Require C20.SrcRun.\n"
SRC_TIE_CAP = 600
SRC_THEOREMS = ["c20_source_forward_is_model", "c20_source_forward_any_score", "c20_source_general_forward_is_model",
                "c20_source_attention_in_kept_range", "c20_source_attention_blind_to_masked",
                "c20_source_general_in_kept_range", "c20_source_forward_rejects_rank", "c20_source_forward_rejects_dim",
                "c20_source_forward_rejects_bcast"]


def _src_tie_eligible(case):
    """single-head dot-product / generalised dot-product cases (every stream: the scripted / traced / keyword entries
    must give what eager CPython gives); concat and mha are not translated"""
    return case["flavour"] in ("dot", "general") and (not case.get("size_extent") or model_cost(case) <= 6000)


def src_term(case, res):
    """SrcRun.src_attend_check on the very arguments of the model term (same exp table, same tolerance)"""
    t = model_term(case, res)
    assert t.startswith("(check_single ")
    return "(SrcRun.src_attend_check " + t[len("(check_single "):]


def source_tie(chk, cases, results):
    """run the translated source inside Coq on (a sample of) the single-head cases of this run: validates the translator,
    MiniPy's semantics, ext20 and the MiniTorch.OpsC20 definitions against CPython + torch; independent of whether the
    tie lemmas still compile"""
    import time
    from vlib import CoqError
    idx = [i for i, c in enumerate(cases) if _src_tie_eligible(c)]
    total = len(idx)
    if len(idx) > SRC_TIE_CAP:  # evenly spaced sample
        idx = [idx[(j * len(idx)) // SRC_TIE_CAP] for j in range(SRC_TIE_CAP)]
    if not idx:
        chk.extra["source_tie_run"] = {"cases": 0, "disagreements": 0}
        return
    t0 = time.time()
    try:
        terms = [src_term(cases[i], results[i]) for i in idx]
        oks = coq_eval_bools(chk.workdir, IMPORTS_SRC, terms, shard=max(10, -(-len(terms) // 16)), tag="src")
    except (CoqError, AssertionError) as e:
        chk.extra["source_tie_run"] = "not evaluated: " + str(e)[-400:]
        return
    bad = [i for i, ok in zip(idx, oks) if not ok]
    sel = [cases[i] for i in idx]
    chk.extra["source_tie_run"] = {
        "cases": len(idx), "eligible": total, "disagreements": len(bad), "wall_s": round(time.time() - t0, 1),
        "dot": sum(1 for c in sel if c["flavour"] == "dot"), "general": sum(1 for c in sel if c["flavour"] == "general"),
        "masked": sum(1 for c in sel if c.get("mshape") is not None),
        "negative_dim": sum(1 for c in sel if c["dim"] < 0),
        "raising": sum(1 for i in idx if results[i]["out"] is None),
        "key_ranks": sorted({len(c["kshape"]) for c in sel}),
        "entries_other_than_eager": sum(1 for c in sel if c.get("script") or c.get("trace") or c.get("kwcall"))}
    chk.count("source_tie_cases", len(idx))
    if bad:
        i = min(bad, key=lambda j: len(json.dumps(cases[j])))
        chk.report({"case": cases[i], "impl": _summ(results[i]),
                    "what": "the Python source of GlobalSoftAttention.forward / check_input and the score method as translated "
                            "to MiniPy and interpreted in Coq (PV.C20.SrcRun.src_attend, torch calls = PV.MiniTorch.OpsC20, "
                            "exp = the run's oracle table) does not reproduce the implementation's output: translator / "
                            "interpreter / ext20 / MiniTorch no longer describe the code",
                    "disagreeing_cases": len(bad),
                    "correspondence": "tie:C20:py2coq+MiniPy.Interp+MiniTorch:GlobalSoftAttention.forward",
                    "theorems_at_stake": SRC_THEOREMS}, no_failing_input=True)


# ----------------------------------------------------------------------------------------
# run / replay
# ----------------------------------------------------------------------------------------
def judge(chk, cases, results, tag="cases"):
    """per case: does the implementation's output agree with the model?  Ordinary cases: the Coq term, in shards of at
    least 40 cases on the 16 workers of coq_eval_bools.  Size-threshold cases (case["size_extent"]): the same Coq term
    wherever the model can afford the size (model_cost within the tier's budget; shards of their own, balanced by
    cost, in the same pool of workers), AND the numpy oracle of the definition (np_attend) for every one of them."""
    oks = [True] * len(cases)
    small = [i for i, c in enumerate(cases) if not c.get("size_extent")]
    sized = [i for i, c in enumerate(cases) if c.get("size_extent")]
    budget = MODEL_BUDGET.get(getattr(chk, "tier", "quick"), MODEL_BUDGET["quick"])
    cost = {i: model_cost(cases[i]) for i in sized}
    aff = sorted((i for i in sized if cost[i] <= budget), key=lambda i: -cost[i])
    bins = [[] for _ in range(min(16, len(aff)))]
    load = [0] * len(bins)
    for i in aff:  # longest processing time first, each to the least loaded shard
        j = load.index(min(load))
        bins[j].append(i)
        load[j] += cost[i] + 3000
    width = max([max(40, -(-len(small) // 16))] * bool(small) + [len(b) for b in bins] + [1])
    where = list(small) + [None] * (-len(small) % width)
    for b in bins:
        where += b + [None] * (width - len(b))
    flat = ["true" if i is None else model_term(cases[i], results[i]) for i in where]
    for i, ok in zip(where, coq_eval_bools(chk.workdir, IMPORTS, flat, shard=width, tag=tag)):
        if i is not None:
            oks[i] = ok
    for i in sized:
        results[i]["judged_by"] = ("Coq model + numpy oracle of the definition" if cost[i] <= budget else
                                   "numpy oracle of the definition (model cost %d > budget %d)" % (cost[i], budget))
        oks[i] = oks[i] and oracle_ok(cases[i], results[i])
    return oks


def evaluate(chk, cases, tag="cases"):
    results = [run_impl(c) for c in cases]
    return results, judge(chk, cases, results, tag)


def _known_sig(entry, record):
    sig = entry.get("signature", {})
    return sig.get("family") is not None and sig.get("family") == record.get("family")


def _summ(res):
    if res["out"] is None:
        return {"raised": res["exc"], "anomalies": res["anomalies"]}
    return {"shape": list(res["out"].shape), "out": [float(x) for x in res["out"].reshape(-1)][:64],
            "anomalies": res["anomalies"], **({"judged_by": res["judged_by"]} if "judged_by" in res else {})}


def _fails(chk, case):
    res = run_impl(case)
    if relations(case, res):
        return True
    return not judge(chk, [case], [res], tag="shr")[0]


def report_case(chk, case, res, model_ok, rel, allow_nfi):
    rec = {"case": case, "impl": _summ(res), "model_agrees": bool(model_ok),
           "relations_failed": [list(x) for x in rel], "family": family(case),
           "correspondence": "corr:C20:*SoftAttention.__call__/MultiHeadedAttention.__call__",
           "theorems_at_stake": THEOREMS}
    if case["flavour"] != "mha" and res["out"] is not None and not case.get("malformed"):
        try:
            rec["spec_range_okb"] = bool(coq_eval_bools(chk.workdir, IMPORTS, [range_term(case, res)], tag="spec")[0])
        except Exception as e:  # pragma: no cover
            rec["spec_range_okb"] = "error: " + str(e)[:200]
    if case["flavour"] == "mha" and not model_ok and res["out"] is not None:
        # does the implementation behave like the model with the mask unsqueezed at -2 (as found)?
        rec["agrees_with_mask_unsqueeze_minus2"] = bool(
            coq_eval_bools(chk.workdir, IMPORTS, [model_term(case, res, mpos=1)], tag="ascoded")[0])
    if rel:
        rec["what"] = "attention output violates the property: " + "; ".join(f"{a} ({b})" for a, b in rel)
        return chk.report(rec, _known_sig)
    if rec["family"] and chk.known_match(_known_sig, rec) is not None:
        rec["what"] = "output differs from the model on an input of a known-deviating family"
        return chk.report(rec, _known_sig)
    if case.get("malformed"):
        rec["what"] = "illegal shapes/dim accepted (model: check_input rejects)" if res["out"] is not None else \
            "malformed-input outcome differs from the model"
        return chk.report(rec, no_failing_input=True) if allow_nfi else None
    rec["what"] = ("implementation output differs from PV.C20.Model (scores/weights changed) but range, masked-content, "
                   "permutation, broadcast and composition relations hold on this input")
    return chk.report(rec, no_failing_input=True) if allow_nfi else None


def run(chk, cases=None):
    chk.rule = ("case = (flavour dot/general/concat/mha(+wrapped flavour, heads, d_v, out_size, 4 bias flags), dim incl. "
                "negative, shapes of query/key/value/mask with size-1 broadcasting and lower-rank masks, dyadic data and "
                "parameters); the float64 module output is compared (abs tol 1e-9, cells with no kept position skipped) "
                "with PV.C20.Model.attend/mha evaluated by vm_compute on exact rationals, exp/tanh supplied as tables of "
                "torch's float64 results; range, masked-junk, permutation, expanded-query and per-head composition are "
                "also run on the implementation. non-trivial = T>=2 and a mask with both kept and masked positions")
    chk.assumptions += [
        "float64 rounding is not modelled: outputs compared with absolute tolerance 1e-9; exp/tanh are oracle tables "
        "(torch float64) looked up within 1e-9; the theorems hold for every positive exp-function and every tanh-function",
        "softmax is modelled by its documented formula exp(x_i)/sum_j exp(x_j) with exp(-inf)=0",
        "rows with no kept position (NaN in the implementation) are outside the property and not compared",
        "tensor views (unsqueeze, unflatten, flatten, expand) and broadcasting are modelled as index maps",
    ]
    replaying = cases is not None
    if cases is None:
        cases = []
        for c in enumerated(chk.tier):
            c["stream"] = "enumerated"
            cases.append(c)
        for c in load_corpus("C20"):
            c = c.get("case", c)
            c["stream"] = "corpus"
            cases.append(c)
        nrand = 3000 if chk.tier == "thorough" else 450
        for i in range(nrand):
            c = gen_case(chk.rng)
            c["stream"] = "random"
            cases.append(c)
        for i in range(120 if chk.tier == "thorough" else 24):
            c = gen_malformed(chk.rng)
            c["stream"] = "malformed"
            cases.append(c)
        for i in range(600 if chk.tier == "thorough" else 90):
            c = gen_big(chk.rng)
            c["stream"] = "big-scores"
            cases.append(c)
        for i in range(360 if chk.tier == "thorough" else 54):
            c = gen_script(chk.rng, i)
            c["stream"] = "script-entry"
            cases.append(c)
        # robustness-audit streams (notes/AUDIT_GUIDE.md); generator derived from the run's seed after the older streams
        import random as _random
        arng = _random.Random(chk.rng.getrandbits(64))
        thorough = chk.tier == "thorough"
        for i in range(432 if thorough else 72):
            c = gen_negdim(arng, i)
            c["stream"] = "negative-dim"
            cases.append(c)
        for i in range(180 if thorough else 30):
            c = gen_alias(arng, i)
            c["stream"] = "value-is-key"
            cases.append(c)
        for i in range(150 if thorough else 25):
            c = gen_trace(arng, i)
            c["stream"] = "trace-entry"
            cases.append(c)
        # size thresholds / algorithm regimes (notes/prompts/SIZE_AUDIT.md); own generator, drawn after every older stream
        for c in sized_cases(_random.Random(arng.getrandbits(64)), chk.tier):
            c["stream"] = "size-threshold"
            cases.append(c)
        chk.extra["exhaustive"] = False
        chk.extra["enumeration_scope"] = ("mha: all 16 bias combinations x 3 wrapped flavours x {no mask, mask}; single: 3 flavours x "
                                          "key rank 2..4(5) x every sequence axis x {no mask, full, broadcast, lower-rank mask} x "
                                          "{dim >= 0, dim < 0}; plus zero-query cases (uniform weights)")
    streams = [c.pop("stream", "replay") for c in cases]
    results, oks = evaluate(chk, cases)
    bad = []
    for c, s, r, ok in zip(cases, streams, results, oks):
        chk.note_case(c, nontrivial(c), s)
        chk.count("flavour=" + c["flavour"] + ("/" + c["score"]["kind"] if c["flavour"] == "mha" else ""))
        chk.count("key_rank=%d" % len(c["kshape"]))
        chk.count("dim=%s" % ("neg" if c["dim"] < 0 else c["dim"]))
        chk.count("T=%d" % (c["kshape"][axis_of(c)] if 0 <= axis_of(c) < len(c["kshape"]) else -1))
        chk.count("mask=" + ("none" if c.get("mshape") is None else
                             "lowrank" if len(c["mshape"]) < len(c["kshape"]) - 1 else "rank-e"))
        chk.count("outcome=" + ("raise" if r["out"] is None else "ok"))
        chk.count("entry=" + ("script" if c.get("script") else "trace" if c.get("trace") else "eager") +
                  (" keyword-call" if c.get("kwcall") else ""))
        if c["dim"] < 0 and not c.get("malformed"):
            chk.count("negative dim=%d of key rank %d, %s, mask %s" % (
                c["dim"], len(c["kshape"]), c["flavour"],
                "none" if c.get("mshape") is None else "lower-rank" if len(c["mshape"]) < len(c["kshape"]) - 1 else
                "broadcast" if 1 in c["mshape"] else "full"))
        if c.get("alias_kv"):
            chk.count("value is key: " + c["flavour"])
        if c.get("size_extent"):
            ext_, n_ = c["size_extent"].split("=")
            chk.count("size %s in %s" % (ext_, next("..".join(map(str, sorted({g[0], g[-1]}))) for g in SIZE_GROUPS
                                                     if int(n_) in g)))
            chk.count("size-threshold judged by " + r.get("judged_by", "?").split(" (")[0])
        if c.get("big") and r["out"] is not None:
            try:
                q_, k_, v_, m_ = arrays(c)
                if c["flavour"] == "mha":
                    q_, k_, _ = head_inputs(c)
                e_, _ = np_scores(c["score"], q_, k_, axis_of(c))
                kept_ = np.ones(e_.shape, bool) if m_ is None else np.broadcast_to(
                    m_[..., None] if c["flavour"] == "mha" else m_, e_.shape)
                mx = float(np.where(kept_, e_, -np.inf).max())
                chk.count("big_max_kept_score=" + ("<-1e4" if mx < -1e4 else ">1e4" if mx > 1e4 else "mid"))
            except Exception:
                chk.count("big_max_kept_score=?")
        if c["flavour"] == "mha":
            chk.count("mha_bias=" + "".join("1" if b else "0" for b in c["mha"]["bias"]))
            chk.count("mha_heads=%d" % c["mha"]["H"])
            if c.get("mshape") is not None and not c.get("malformed"):
                chk.count("mha_mask_last_dim" + ("==H" if c["mshape"][-1] == c["mha"]["H"] else "!=H"))
        if c.get("malformed"):
            chk.count("malformed=" + c["malformed"])
            rel = []
        else:
            rel = relations(c, r)
        if rel or not ok:
            bad.append((c, r, ok, rel))
    chk.extra["model_disagreements"] = sum(1 for b in bad if not b[2])
    chk.extra["relation_failures"] = sum(1 for b in bad if b[3])
    # report: one shrunk representative per (family, kind of failure); concrete failures first
    seen = set()
    any_concrete_unknown = False
    for c, r, ok, rel in sorted(bad, key=lambda b: (not b[3], len(json.dumps(b[0])))):
        key = (family(c), tuple(sorted(a for a, _ in rel)) if rel else "model-only", c["flavour"])
        if key in seen or len(seen) >= 8:
            continue
        seen.add(key)
        if not replaying and not c.get("malformed"):
            c = shrink(c, lambda x: _fails(chk, x) and family(x) == key[0] and bool(relations(x, run_impl(x))) == bool(rel),
                       _cands, budget=30)
            r = run_impl(c)
            ok = judge(chk, [c], [r], tag="fin")[0]
            rel = relations(c, r)
        out = report_case(chk, c, r, ok, rel, allow_nfi=not any_concrete_unknown)
        if rel and out == "violation":
            any_concrete_unknown = True
    source_tie(chk, cases, results)
    from props.c20_tie import source_tieB      # second tie: MultiHeadedAttention, ConcatSoftAttention
    source_tieB(chk, cases, results)
    return bad


def replay(chk, path):
    rec = json.loads(open(path).read())
    case = rec["case"]
    case.pop("stream", None)
    run(chk, [case])
