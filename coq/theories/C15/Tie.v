(* C15 — tie lemmas, part 3: the control part of update_for_epoch as a whole, update_for_epoch and whole runs.
   Interpreting the regenerated source terms (PV.Gen.C15Src) computes exactly what Model.v computes, for
   every input.  See SrcRun.v for the environment and the encodings. *)
From Coq Require Import ZArith QArith List String Bool Arith Lia ZifyBool ZifyNat ZifyComparison.
From PV Require Import C15.Model C15.Spec C15.Proofs.
From PV Require Import MiniPy.Syntax MiniPy.Interp Gen.C15Src C15.SrcRun C15.TieLib C15.TieLoop C15.TieRlr C15.TieRec.
Import ListNotations.
Local Open Scope string_scope.
Local Open Scope Z_scope.

#[local] Arguments enc_user : simpl never.

(* es; es_cont; rlr; record *)
Lemma control_tie p c os dflt r u epoch va train cont lr : r_lr r = Some lr ->
  ctl_expected p c os dflt r u epoch va train cont lr
    (exec ext15 ufe_control
       (st_of (vars_ctl (enc_self p c) (enc_opt os dflt) (enc_row_u r u) epoch va train cont))).
Proof.
  intros Hlr. unfold ctl_expected. rewrite control_split, exec_seq_app.
  pose proof (es_tie p c os dflt r u epoch va train cont) as Hes. unfold es_expected in Hes.
  destruct (es_step p c r epoch va) as [[a b]|].
  - rewrite Hes. cbn [bind then_]. rewrite exec_seq_app, es_cont_tie. cbn [bind then_].
    pose proof (rlr_rec_tie p c os dflt (set_es r a b) u epoch va train (es_cont p (r_espcd (set_es r a b)) cont)
                  (VInt (epoch - es_pat p + r_espcd r - 1)) (vrow (hget c (epoch - es_pat p + r_espcd r - 1))) lr Hlr) as Hr.
    unfold rlr_rec_expected in Hr.
    change (rlr_step p c (set_es r a b) epoch va lr lr) with (rlr_step p c r epoch va lr lr) in Hr.
    destruct (rlr_step p c r epoch va lr lr) as [[[[a' b'] lr'] o']|]; exact Hr.
  - destruct Hes as [st Hst]. rewrite Hst. exists st. reflexivity.
Qed.

Lemma tail_tie p c os dflt prev u epoch va train cont :
  tail_expected p c os dflt prev u epoch va train cont
    (Interp.run ext15 ufe_tail (vars_ctl (enc_self p c) (enc_opt os dflt) (enc_row_u prev u) epoch va train cont)).
Proof.
  unfold tail_expected, Interp.run, ufe_tail.
  set (lr := match r_lr prev with Some l => l | None => dflt end).
  change (exec ext15 (SSeq ufe_lr_default ufe_control) ?s)
    with (bind (exec ext15 ufe_lr_default s) (then_ ext15 ufe_control)).
  change (mkState (vars_ctl (enc_self p c) (enc_opt os dflt) (enc_row_u prev u) epoch va train cont) [])
    with (st_of (vars_ctl (enc_self p c) (enc_opt os dflt) (enc_row_u prev u) epoch va train cont)).
  rewrite lr_default_tie. fold lr. cbn [bind then_].
  pose proof (control_tie p c os dflt (set_lr prev lr) u epoch va train cont lr eq_refl) as H.
  unfold ctl_expected in H.
  change (es_step p c (set_lr prev lr) epoch va) with (es_step p c prev epoch va) in H.
  change (rlr_step p c (set_lr prev lr) epoch va lr lr) with (rlr_step p c prev epoch va lr lr) in H.
  change (rlr_o p c (set_lr prev lr) epoch va lr) with (rlr_o p c prev epoch va lr) in H.
  change (r_user (set_lr prev lr)) with (r_user prev) in H.
  destruct (es_step p c prev epoch va) as [[a b]|].
  - destruct (rlr_step p c prev epoch va lr lr) as [[[[a' b'] lr'] o']|].
    + destruct H as [st [Ho H]]. exists st. rewrite Ho. split; [reflexivity|exact H].
    + destruct H as [st Ho]. exists st. rewrite Ho. reflexivity.
  - destruct H as [st Ho]. exists st. rewrite Ho. reflexivity.
Qed.

(* ---- update_for_epoch ------------------------------------------------------------------------------------ *)
Lemma user_eq_refl u : val_eqb (VDict (enc_user u)) (VDict (enc_user u)) = true.
Proof.
  induction u as [|[n v] u IH]; [reflexivity|].
  change (val_eqb (VDict (enc_user ((n, v) :: u))) (VDict (enc_user ((n, v) :: u))))
    with (val_eqb (uname n) (uname n) && val_eqb (enc_uval v) (enc_uval v)
          && val_eqb (VDict (enc_user u)) (VDict (enc_user u)))%bool.
  rewrite IH. unfold uname. cbn [val_eqb]. rewrite String.eqb_refl.
  destruct v; cbn [enc_uval val_eqb]; [rewrite Z.eqb_refl|rewrite String.eqb_refl]; reflexivity.
Qed.

Lemma q_same_refl q : q_same q q = true.
Proof. unfold q_same. rewrite Z.eqb_refl, Pos.eqb_refl. reflexivity. Qed.

(* the optimizer's rate in the model: the same statement applied to the single rate *)
Lemma rlr_step_o p c r e v lr o :
  rlr_step p c r e v lr o
  = match rlr_step p c r e v lr lr with
    | Some (a, b, l, _) => Some (a, b, l, rlr_o p c r e v lr o)
    | None => None
    end.
Proof.
  unfold rlr_o, rlr_step.
  repeat match goal with
         | |- context [if ?b then _ else _] =>
             lazymatch b with
             | context [if _ then _ else _] => fail
             | context [match _ with _ => _ end] => fail
             | _ => destruct b eqn:?
             end
         | |- context [match hget ?c ?e with _ => _ end] => destruct (hget c e) eqn:?
         end; reflexivity.
Qed.

Theorem src_update_tie rnd p decl dflt st train va kw : cache st <> [] -> num_ok p ->
  src_update rnd p decl dflt st train va kw = Some (Model.update rnd p decl dflt st train va kw).
Proof.
  intros Hc Hn. unfold src_update, Model.update.
  pose proof (head_tie p (cache st) (enc_opt (groups (opt st)) dflt) train va Hc Hn) as Hh.
  unfold head_expected in Hh. cbv zeta in Hh.
  set (epoch := last_epoch (cache st) + 1) in *.
  destruct (hget (cache st) (epoch - 1)) as [prev|].
  - destruct (Interp.run ext15 ufe_head _) as [v s1|n s1|w]; try contradiction.
    destruct v; try contradiction. destruct Hh as [He [Hct Hi]]. unfold var_in in *. rewrite He, Hct, Hi.
    unfold enc_row at 1, enc_row_u at 1.
    destruct (check_kwargs decl kw) as [e|]; [reflexivity|].
    destruct (collect decl kw) as [user|]; [|reflexivity].
    set (cont0 := match p_num p with Some n => epoch <? n | None => true end).
    set (lr := match r_lr prev with Some l => l | None => dflt end).
    match goal with |- context [vars_ctl _ _ ?i _ _ _ _] =>
      change i with (enc_row_u prev (enc_user user)) end.
    pose proof (tail_tie p (cache st) (groups (opt st)) dflt prev (enc_user user) epoch va train cont0) as Ht.
    unfold tail_expected in Ht. fold lr in Ht.
    rewrite (rlr_step_o p (cache st) prev epoch va lr (opt st)).
    destruct (es_step p (cache st) prev epoch va) as [[a b]|].
    + destruct (rlr_step p (cache st) prev epoch va lr lr) as [[[[a' b'] lr'] o']|].
      * destruct Ht as [s2 [Ho [Hi2 [Hc2 Hop]]]]. unfold var_in in *. rewrite Ho, Hi2, Hc2, Hop.
        pose proof (user_eq_refl user) as Hu.
        unfold enc_row_u, dec_row, dget, dec_opt, groups, enc_opt. cbn -[enc_user] in Hu |- *.
        rewrite Hu, q_same_refl. cbn.
        reflexivity.
      * destruct Ht as [s2 Ho]. rewrite Ho. reflexivity.
    + destruct Ht as [s2 Ho]. rewrite Ho. reflexivity.
  - destruct (Interp.run ext15 ufe_head _) as [v s1|n s1|w]; try contradiction.
    rewrite Hh. reflexivity.
Qed.

(* ---- whole runs ---------------------------------------------------------------------------------------------- *)
Lemma update_cache_nonempty rnd p decl dflt st train va kw cont st' :
  Model.update rnd p decl dflt st train va kw = inr (cont, st') -> cache st' <> [].
Proof.
  unfold Model.update. intros H.
  destruct (hget (cache st) (last_epoch (cache st) + 1 - 1)); [|discriminate].
  destruct (check_kwargs decl kw); [discriminate|].
  destruct (collect decl kw); [|discriminate].
  destruct (es_step _ _ _ _ _) as [[a b]|]; [|discriminate].
  destruct (rlr_step _ _ _ _ _ _ _) as [[[[a' b'] l'] o']|]; [|discriminate].
  injection H as _ H. subst st'. cbn [cache]. intros E. apply app_eq_nil in E. destruct E; discriminate.
Qed.

Lemma restart_cache_nonempty rd p decl dflt st st' :
  restart rd p decl dflt st = inr st' -> cache st' <> [].
Proof.
  unfold restart. intros H.
  destruct (parse_rows rd decl (csv st)); [|discriminate].
  destruct (last_epoch (row0 p :: l) =? 0).
  - injection H as H. subst st'. discriminate.
  - destruct (Model.lookup _ _); [|discriminate]. injection H as H. subst st'. discriminate.
Qed.

Theorem src_run_tie rnd rd p decl dflt steps : num_ok p -> forall st, cache st <> [] ->
  src_run rnd rd p decl dflt st steps = Some (Model.run rnd rd p decl dflt st steps).
Proof.
  intros Hn. induction steps as [|s t IH]; intros st Hc; [reflexivity|].
  cbn [src_run Model.run].
  destruct (s_restart s).
  - destruct (restart rd p decl dflt st) as [e|st1] eqn:Er.
    + rewrite (IH st Hc). destruct (Model.run rnd rd p decl dflt st t). reflexivity.
    + pose proof (restart_cache_nonempty _ _ _ _ _ _ Er) as Hc1.
      rewrite (src_update_tie rnd p decl dflt st1 _ _ _ Hc1 Hn).
      destruct (Model.update rnd p decl dflt st1 (s_train s) (s_val s) (s_kw s)) as [e|[cont st2]] eqn:Eu.
      * rewrite (IH st1 Hc1). destruct (Model.run rnd rd p decl dflt st1 t). reflexivity.
      * pose proof (update_cache_nonempty _ _ _ _ _ _ _ _ _ _ Eu) as Hc2.
        rewrite (continue_tie p st2 Hc2 Hn), (IH st2 Hc2).
        destruct (Model.run rnd rd p decl dflt st2 t). reflexivity.
  - rewrite (src_update_tie rnd p decl dflt st _ _ _ Hc Hn).
    destruct (Model.update rnd p decl dflt st (s_train s) (s_val s) (s_kw s)) as [e|[cont st2]] eqn:Eu.
    + rewrite (IH st Hc). destruct (Model.run rnd rd p decl dflt st t). reflexivity.
    + pose proof (update_cache_nonempty _ _ _ _ _ _ _ _ _ _ Eu) as Hc2.
      rewrite (continue_tie p st2 Hc2 Hn), (IH st2 Hc2).
      destruct (Model.run rnd rd p decl dflt st2 t). reflexivity.
Qed.

(* from a fresh controller *)
Corollary src_run_init_tie rnd rd p decl dflt steps : num_ok p ->
  src_run rnd rd p decl dflt (init_state p dflt) steps = Some (Model.run rnd rd p decl dflt (init_state p dflt) steps).
Proof. intros Hn. apply src_run_tie; [exact Hn|discriminate]. Qed.

(* composed with the model theorem: a statement purely about the translated source - the decisions, optimizer
   rates and recorded rates that interpreting the source produces are, epoch by epoch, those of the rules *)
Theorem source_trace_follows_rules rnd rd p decl dflt steps :
  wf p -> num_ok p -> plain decl steps -> quiet_before_last p (s_init p dflt) (map s_val steps) = true ->
  exists os stf,
    src_run rnd rd p decl dflt (init_state p dflt) steps = Some (os, stf) /\
    map obs_core os = map rule_obs (fst (s_run p (s_init p dflt) (map s_val steps))).
Proof.
  intros Hwf Hn Hpl Hq. rewrite (src_run_init_tie rnd rd p decl dflt steps Hn).
  pose proof (trace_follows_rules rnd rd p decl dflt steps Hwf Hpl Hq) as H.
  destruct (Model.run rnd rd p decl dflt (init_state p dflt) steps) as [os stf].
  exists os, stf. split; [reflexivity|exact H].
Qed.
