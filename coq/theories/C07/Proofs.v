(* C07 - lemmas (in progress) *)
From Coq Require Import List ZArith Bool Arith Lia.
From PV Require Import C07.Model C07.Spec.
Import ListNotations.
