(* C04 — the search of ONE batch element with the junk removed: a beam is a list of
   (valid token sequence, score, language-model state).  Refine.v shows that every
   element of the batched model of Model.v follows exactly this search (frozen once it
   is done); the property clauses are proved here, for every topk meeting [topk_ok]
   and every language model meeting [lm_ok]. *)
From Coq Require Import List Arith Lia ZArith Bool.
From PV Require Import C04.Model C04.Spec C04.Lists C04.Topk.
Import ListNotations.
Local Open Scope nat_scope.

Section Abs.
Context {state : Type}.
Variable topk : nat -> list score -> list nat.
Variable calc : list Z -> state -> nat -> list score * state.
Variable dstate : state.
Variables (V width : nat) (eos : option Z) (fin_all : bool).

Record aslot := mkA { apath : list Z; asc : score; ast : state }.
Definition adflt := mkA [] None dstate.

(* "finished": ends in eos (and the search is past step 0) *)
Definition pfin (t : nat) (p : list Z) : bool :=
  match eos with
  | Some e => negb (t =? 0) && ((last p 0%Z =? e)%Z && (0 <? length p))
  | None => false
  end.
Definition afin (t : nat) (a : aslot) : bool := pfin t (apath a).
Definition alive (t : nat) (a : aslot) : bool := sfin (asc a) && negb (afin t a).
(* only the state of a live finite-score path matters; forget the others *)
Definition anorm (t : nat) (a : aslot) : aslot :=
  if alive t a then a else mkA (apath a) (asc a) dstate.

Definition arow (t : nat) (a : aslot) : list score :=
  mask_row eos (afin t a) (fst (calc (apath a) (ast a) t)).
Definition acands (t : nat) (beam : list aslot) : list score :=
  concat (map (fun a => map (sadd (asc a)) (arow t a)) beam).
Definition aext (t : nat) (beam : list aslot) (cs : list score) (i : nat) : aslot :=
  let a := nth (i / V) beam adflt in
  anorm (S t) (mkA (if afin t a then apath a else apath a ++ [Z.of_nat (i mod V)])
                   (nth i cs None) (snd (calc (apath a) (ast a) t))).
Definition astep (t : nat) (beam : list aslot) : list aslot :=
  let cs := acands t beam in
  let K := Nat.min width (length beam * V) in
  map (aext t beam cs) (topk K cs) ++ repeat adflt (width - K).
Definition adone (t : nat) (beam : list aslot) : bool :=
  let m := map (afin t) beam in
  if active eos t && fin_all then forallb (fun x => x) m else hd false m.
Definition atick (t : nat) (beam : list aslot) : list aslot :=
  if adone t beam then beam else astep t beam.
Fixpoint arun (fuel t : nat) (beam : list aslot) : list aslot :=
  match fuel with 0 => beam | S f => arun f (S t) (atick t beam) end.
Definition awidth (beam : list aslot) : list aslot :=
  if length beam <? width then beam ++ repeat adflt (width - length beam) else beam.
Definition ainit (s0 : state) : list aslot := [mkA [] (Some 0%Z) s0].
Definition asearch (fuel : nat) (s0 : state) : list aslot := awidth (arun fuel 0 (ainit s0)).

(* ------------------------------------------------------------------------------- *)
Hypothesis Htopk : topk_ok topk.
Hypothesis Hlm : lm_ok calc V.
Hypothesis HV : 1 <= V.
Hypothesis Hwidth : 1 <= width.

Let calc_prefix := proj1 Hlm.
Let calc_len := proj2 Hlm.

(* ---- scores --------------------------------------------------------------------- *)
Lemma sadd_0_r a : sadd a (Some 0%Z) = a.
Proof. destruct a; cbn; [f_equal; lia|reflexivity]. Qed.
Lemma sadd_assoc a b c : sadd (sadd a b) c = sadd a (sadd b c).
Proof. destruct a, b, c; cbn; auto. f_equal. lia. Qed.
Lemma sadd_fin_l a b : sfin (sadd a b) = true -> sfin a = true.
Proof. destruct a, b; cbn; auto. Qed.
Lemma sadd_fin_r a b : sfin (sadd a b) = true -> sfin b = true.
Proof. destruct a, b; cbn; auto. Qed.

(* ---- the language model run on a fixed history ---------------------------------- *)
Fixpoint adv_state (h : list Z) (st : state) (j n : nat) : state :=
  match n with 0 => st | S n' => adv_state h (snd (calc h st j)) (S j) n' end.

Lemma adv_state_snoc h : forall n st j,
  adv_state h st j (S n) = snd (calc h (adv_state h st j n) (j + n)).
Proof.
  induction n as [|n IH]; intros st j; cbn [adv_state].
  - now rewrite Nat.add_0_r.
  - change (adv_state h (snd (calc h (snd (calc h st j)) (S j))) (S (S j)) n)
      with (adv_state h (snd (calc h st j)) (S j) (S n)).
    rewrite IH. cbn [adv_state]. now rewrite Nat.add_succ_r.
Qed.

Lemma adv_state_prefix h h' m : firstn m h = firstn m h' ->
  forall n st j, j + n <= S m -> adv_state h st j n = adv_state h' st j n.
Proof.
  intros Hm. induction n as [|n IH]; intros st j Hj; cbn [adv_state]; [reflexivity|].
  rewrite (calc_prefix h h' st j) by (eapply firstn_firstn_le; [exact Hm|lia]).
  apply IH. lia.
Qed.

Lemma chain_aux_prefix h h' m : firstn m h = firstn m h' ->
  forall rest st j, j + length rest <= S m ->
  chain_aux calc h rest st j = chain_aux calc h' rest st j.
Proof.
  intros Hm. induction rest as [|v r IH]; intros st j Hj; cbn [chain_aux]; [reflexivity|].
  cbn [length] in Hj.
  rewrite (calc_prefix h h' st j) by (eapply firstn_firstn_le; [exact Hm|lia]).
  rewrite IH by lia. reflexivity.
Qed.

Lemma chain_aux_app h : forall r1 r2 st j,
  chain_aux calc h (r1 ++ r2) st j =
  sadd (chain_aux calc h r1 st j)
       (chain_aux calc h r2 (adv_state h st j (length r1)) (j + length r1)).
Proof.
  induction r1 as [|v r1 IH]; intros r2 st j; cbn [app chain_aux length adv_state].
  - rewrite Nat.add_0_r. destruct (chain_aux calc h r2 st j); reflexivity.
  - rewrite IH, sadd_assoc. now rewrite Nat.add_succ_r.
Qed.

Lemma chain_snoc (s0 : state) (p : list Z) (v : Z) :
  chain calc s0 (p ++ [v]) =
  sadd (chain calc s0 p)
       (nth (Z.to_nat v) (fst (calc p (adv_state p s0 0 (length p)) (length p))) None).
Proof.
  unfold chain. rewrite chain_aux_app. cbn [chain_aux Nat.add].
  assert (Hp : firstn (length p) (p ++ [v]) = firstn (length p) p).
  { rewrite firstn_app_le by lia. reflexivity. }
  rewrite (chain_aux_prefix _ _ _ Hp) by lia.
  rewrite (adv_state_prefix _ _ _ Hp) by lia.
  rewrite (calc_prefix (p ++ [v]) p) by exact Hp.
  now rewrite sadd_0_r.
Qed.

(* ---- rows and candidates --------------------------------------------------------- *)
Lemma mask_row_length m row : length (mask_row eos m row) = length row.
Proof. unfold mask_row. destruct eos, m; auto. now rewrite map_length, seq_length. Qed.

Lemma arow_length t a : length (arow t a) = V.
Proof. unfold arow. now rewrite mask_row_length, calc_len. Qed.

Lemma arow_live t a : afin t a = false -> arow t a = fst (calc (apath a) (ast a) t).
Proof. unfold arow, mask_row. intros ->. now destruct eos. Qed.

Lemma arow_fin t a v : afin t a = true -> v < V ->
  exists e, eos = Some e /\
            nth v (arow t a) None = if (Z.of_nat v =? e)%Z then Some 0%Z else None.
Proof.
  unfold arow, mask_row, afin, pfin. destruct eos as [e|]; [|discriminate].
  intros -> Hv. exists e. split; [reflexivity|].
  rewrite calc_len. now rewrite nth_map_seq by lia.
Qed.

Lemma acands_length t beam : length (acands t beam) = length beam * V.
Proof.
  unfold acands. rewrite (concat_uniform_length _ V), map_length; [reflexivity|].
  intros r Hr. apply in_map_iff in Hr. destruct Hr as (a & <- & _).
  now rewrite map_length, arow_length.
Qed.

Lemma acands_nth t beam i : i < length beam * V ->
  let a := nth (i / V) beam adflt in
  In a beam /\ i mod V < V /\
  nth i (acands t beam) None = sadd (asc a) (nth (i mod V) (arow t a) None).
Proof.
  intros Hi a. assert (Hk : i / V < length beam) by (apply div_lt_rows; lia).
  split; [apply nth_In; exact Hk|]. split; [apply Nat.mod_upper_bound; lia|].
  unfold acands. rewrite (@nth_concat_uniform score None V).
  - rewrite (nth_map_lt _ _ _ adflt) by exact Hk. fold a.
    rewrite (nth_map_lt (sadd (asc a)) (arow t a) None None); [reflexivity|].
    rewrite arow_length. apply Nat.mod_upper_bound. lia.
  - intros r Hr. apply in_map_iff in Hr. destruct Hr as (b & <- & _).
    now rewrite map_length, arow_length.
  - now rewrite map_length.
Qed.

Definition Ksel (beam : list aslot) : nat := Nat.min width (length beam * V).

Lemma topk_facts t beam :
  let sel := topk (Ksel beam) (acands t beam) in
  length sel = Ksel beam /\ NoDup sel /\ (forall i, In i sel -> i < length beam * V) /\
  sorted_desc (map (fun i => nth i (acands t beam) None) sel) /\
  (forall i j, In i sel -> j < length beam * V -> ~ In j sel ->
     sleb (nth j (acands t beam) None) (nth i (acands t beam) None) = true).
Proof.
  assert (HK : Ksel beam <= length (acands t beam)).
  { rewrite acands_length. unfold Ksel. lia. }
  destruct (Htopk _ _ HK) as (H1 & H2 & H3 & H4 & H5).
  rewrite acands_length in H3, H5. repeat split; assumption.
Qed.

Lemma astep_length t beam : length (astep t beam) = width.
Proof.
  unfold astep. fold (Ksel beam). rewrite app_length, map_length, repeat_length.
  destruct (topk_facts t beam) as (-> & _). unfold Ksel. lia.
Qed.

(* ---- fields of an extension ------------------------------------------------------ *)
Lemma anorm_path t a : apath (anorm t a) = apath a.
Proof. unfold anorm. now destruct (alive t a). Qed.
Lemma anorm_sc t a : asc (anorm t a) = asc a.
Proof. unfold anorm. now destruct (alive t a). Qed.
Lemma anorm_afin t t' a : afin t' (anorm t a) = afin t' a.
Proof. unfold afin. now rewrite anorm_path. Qed.
Lemma anorm_alive t t' a : alive t' (anorm t a) = alive t' a.
Proof. unfold alive. now rewrite anorm_afin, anorm_sc. Qed.
Lemma anorm_st_alive t a : alive t a = true -> ast (anorm t a) = ast a.
Proof. unfold anorm. now intros ->. Qed.

Lemma pfin_S t p : t <> 0 -> pfin (S t) p = pfin t p.
Proof. unfold pfin. destruct eos; [|reflexivity]. intros H. apply Nat.eqb_neq in H. now rewrite H. Qed.

Lemma pfin_true_pos t p : pfin t p = true -> t <> 0 /\ exists e, eos = Some e /\ p <> [] /\ last p 0%Z = e.
Proof.
  unfold pfin. destruct eos as [e|]; [|discriminate]. intros H.
  apply andb_prop in H. destruct H as [H1 H2]. apply andb_prop in H2. destruct H2 as [H2 H3].
  split; [intros ->; discriminate|]. exists e. split; [reflexivity|]. split.
  - intros ->. discriminate.
  - now apply Z.eqb_eq.
Qed.

Lemma pfin_snoc t p v : pfin (S t) (p ++ [v]) = match eos with Some e => (v =? e)%Z | None => false end.
Proof.
  unfold pfin. destruct eos as [e|]; [|reflexivity].
  rewrite last_snoc, app_length. cbn [length negb Nat.eqb].
  replace (0 <? length p + 1) with true by (symmetry; apply Nat.ltb_lt; lia).
  now rewrite andb_true_r.
Qed.

Definition no_eos (p : list Z) : Prop := match eos with Some e => ~ In e p | None => True end.

(* ---- the invariant ---------------------------------------------------------------- *)
Record AInv (s0 : state) (t : nat) (beam : list aslot) : Prop := mkAInv
  { ai_len : length beam = if t =? 0 then 1 else width;
    ai_vocab : forall a, In a beam -> in_vocab V (apath a);
    ai_live : forall a, In a beam -> alive t a = true ->
              length (apath a) = t /\ no_eos (apath a) /\
              ast a = adv_state (apath a) s0 0 t;
    ai_fin : forall a, In a beam -> sfin (asc a) = true -> afin t a = true ->
             length (apath a) <= t /\ eos_first eos (apath a);
    ai_chain : forall a, In a beam -> sfin (asc a) = true -> asc a = chain calc s0 (apath a);
    ai_sorted : sorted_desc (map asc beam);
    ai_distinct : forall i j, i < length beam -> j < length beam -> i <> j ->
                  sfin (asc (nth i beam adflt)) = true -> sfin (asc (nth j beam adflt)) = true ->
                  apath (nth i beam adflt) <> apath (nth j beam adflt) }.

Lemma AInv_init s0 : AInv s0 0 (ainit s0).
Proof.
  constructor; cbn.
  - reflexivity.
  - intros a [<-|[]]. constructor.
  - intros a [<-|[]] _. cbn. repeat split. unfold no_eos. destruct eos; auto.
  - intros a [<-|[]] _. unfold afin, pfin. cbn. destruct eos; discriminate.
  - intros a [<-|[]] _. reflexivity.
  - intros i j Hij Hj. destruct j as [|[|j]]; cbn in Hj; try lia.
    assert (i = 0) by lia. subst. reflexivity.
  - intros i j Hi Hj. lia.
Qed.

(* what an extension is, in terms of its source *)
Lemma aext_facts s0 t beam i :
  AInv s0 t beam -> i < length beam * V ->
  let a := nth (i / V) beam adflt in
  let v := Z.of_nat (i mod V) in
  let a' := aext t beam (acands t beam) i in
  In a beam /\ (0 <= v < Z.of_nat V)%Z /\
  apath a' = (if afin t a then apath a else apath a ++ [v]) /\
  asc a' = sadd (asc a) (nth (i mod V) (arow t a) None) /\
  (alive (S t) a' = true -> ast a' = snd (calc (apath a) (ast a) t)).
Proof.
  intros Hinv Hi a v a'. destruct (acands_nth t beam i Hi) as (Hin & Hv & Hn).
  fold a in Hin, Hn. split; [exact Hin|]. split; [unfold v; lia|].
  unfold a', aext. fold a. rewrite anorm_path, anorm_sc. cbn [apath asc].
  split; [reflexivity|]. split; [exact Hn|].
  intros Hal. rewrite anorm_alive in Hal. now rewrite anorm_st_alive.
Qed.

Lemma in_vocab_snoc p v : in_vocab V p -> (0 <= v < Z.of_nat V)%Z -> in_vocab V (p ++ [v]).
Proof. intros Hp Hv. apply Forall_app. split; [exact Hp|]. now constructor. Qed.

Lemma eos_first_of_no_eos p : no_eos p -> eos_first eos p.
Proof.
  unfold no_eos, eos_first. destruct eos as [e|]; [|auto]. intros H Hin. apply H.
  destruct p as [|x p] using rev_ind; [exact Hin|].
  rewrite removelast_snoc in Hin. apply in_or_app. now left.
Qed.

(* case analysis of a finite-score extension *)
Lemma aext_finite s0 t beam i :
  AInv s0 t beam -> i < length beam * V ->
  let a := nth (i / V) beam adflt in
  let v := Z.of_nat (i mod V) in
  let a' := aext t beam (acands t beam) i in
  sfin (asc a') = true ->
  sfin (asc a) = true /\
  ( (afin t a = true /\ apath a' = apath a /\ asc a' = asc a /\ eos = Some v /\ t <> 0
     /\ afin (S t) a' = true)
    \/ (alive t a = true /\ apath a' = apath a ++ [v] /\
        asc a' = chain calc s0 (apath a ++ [v]) /\
        afin (S t) a' = match eos with Some e => (v =? e)%Z | None => false end) ).
Proof.
  intros Hinv Hi a v a' Hf.
  destruct (aext_facts s0 t beam i Hinv Hi) as (Hin & Hv & Hp & Hs & Hst).
  fold a a' v in Hp, Hs, Hst, Hv, Hin. rewrite Hs in Hf.
  assert (Hfa : sfin (asc a) = true) by (eapply sadd_fin_l; exact Hf).
  split; [exact Hfa|].
  destruct (afin t a) eqn:Efin.
  - left. destruct (arow_fin t a (i mod V) Efin) as (e & He & Hrow).
    { apply Nat.mod_upper_bound. lia. }
    rewrite Hrow in Hs, Hf. fold v in Hs, Hf.
    destruct (v =? e)%Z eqn:Eve.
    2:{ apply sadd_fin_r in Hf. discriminate. }
    apply Z.eqb_eq in Eve. subst e. rewrite sadd_0_r in Hs.
    destruct (pfin_true_pos t (apath a) Efin) as (Ht & _).
    repeat split; try assumption.
    unfold afin. rewrite Hp. rewrite pfin_S by exact Ht. exact Efin.
  - right. assert (Hal : alive t a = true) by (unfold alive; now rewrite Hfa, Efin).
    destruct (ai_live _ _ _ Hinv a Hin Hal) as (Hlen & Hne & Hsta).
    split; [exact Hal|]. split; [exact Hp|]. split.
    + rewrite Hs, chain_snoc, arow_live by exact Efin.
      rewrite <- (ai_chain _ _ _ Hinv a Hin Hfa), Hlen, <- Hsta.
      unfold v. now rewrite Nat2Z.id.
    + unfold afin. rewrite Hp. apply pfin_snoc.
Qed.

Lemma sorted_desc_app_None l n : sorted_desc l -> sorted_desc (l ++ repeat None n).
Proof.
  intros H i j Hij Hj. rewrite app_length, repeat_length in Hj.
  destruct (Nat.lt_ge_cases j (length l)) as [Hjl|Hjl].
  - rewrite !app_nth1 by lia. now apply H.
  - rewrite (app_nth2 _ _ _ Hjl), repeat_nth by lia. reflexivity.
Qed.

Lemma map_asc_repeat n : map asc (repeat adflt n) = repeat (None : score) n.
Proof. induction n as [|n IH]; cbn [repeat map]; [reflexivity|]. now rewrite IH. Qed.

Lemma map_asc_astep t beam :
  map asc (astep t beam)
  = map (fun i => nth i (acands t beam) None) (topk (Ksel beam) (acands t beam))
    ++ repeat None (width - Ksel beam).
Proof.
  unfold astep. fold (Ksel beam). rewrite map_app, map_map. f_equal.
  - apply map_ext. intros i. unfold aext. now rewrite anorm_sc.
  - apply map_asc_repeat.
Qed.

(* position j < K of the new beam is the extension by the j-th selected candidate *)
Lemma astep_nth t beam j : j < Ksel beam ->
  nth j (astep t beam) adflt
  = aext t beam (acands t beam) (nth j (topk (Ksel beam) (acands t beam)) 0).
Proof.
  intros Hj. unfold astep. fold (Ksel beam).
  destruct (topk_facts t beam) as (Hl & _).
  rewrite app_nth1 by (now rewrite map_length, Hl).
  rewrite (nth_indep _ adflt (aext t beam (acands t beam) 0)) by (now rewrite map_length, Hl).
  now rewrite map_nth.
Qed.

Lemma astep_nth_pad t beam j : Ksel beam <= j -> nth j (astep t beam) adflt = adflt.
Proof.
  intros Hj. unfold astep. fold (Ksel beam). destruct (topk_facts t beam) as (Hl & _).
  rewrite app_nth2 by (now rewrite map_length, Hl). rewrite map_length, Hl.
  destruct (Nat.lt_ge_cases (j - Ksel beam) (width - Ksel beam)).
  - now apply repeat_nth.
  - apply nth_overflow. now rewrite repeat_length.
Qed.

Lemma in_astep t beam a' : In a' (astep t beam) ->
  a' = adflt \/ exists i, In i (topk (Ksel beam) (acands t beam)) /\ i < length beam * V /\
                          a' = aext t beam (acands t beam) i.
Proof.
  unfold astep. fold (Ksel beam). intros H. apply in_app_or in H. destruct H as [H|H].
  - right. apply in_map_iff in H. destruct H as (i & <- & Hi). exists i.
    destruct (topk_facts t beam) as (_ & _ & Hlt & _). auto.
  - left. now apply repeat_spec in H.
Qed.

Theorem AInv_step s0 t beam : AInv s0 t beam -> AInv s0 (S t) (astep t beam).
Proof.
  intros Hinv. constructor.
  - rewrite astep_length. reflexivity.
  - intros a' Ha'. apply in_astep in Ha'. destruct Ha' as [->|(i & _ & Hi & ->)]; [constructor|].
    destruct (aext_facts s0 t beam i Hinv Hi) as (Hin & Hv & Hp & _). rewrite Hp.
    destruct (afin t _); [now apply (ai_vocab _ _ _ Hinv)|].
    apply in_vocab_snoc; [now apply (ai_vocab _ _ _ Hinv)|exact Hv].
  - intros a' Ha' Hal. apply in_astep in Ha'. destruct Ha' as [->|(i & _ & Hi & ->)]; [discriminate|].
    assert (Hf : sfin (asc (aext t beam (acands t beam) i)) = true).
    { unfold alive in Hal. now apply andb_prop in Hal. }
    destruct (aext_finite s0 t beam i Hinv Hi Hf) as (Hfa & [(_ & _ & _ & _ & _ & Hfin')|(Hl & Hp & Hs & Hfin')]).
    { unfold alive in Hal. rewrite Hfin' in Hal. rewrite andb_false_r in Hal. discriminate. }
    destruct (aext_facts s0 t beam i Hinv Hi) as (Hin & Hv & _ & _ & Hst).
    destruct (ai_live _ _ _ Hinv _ Hin Hl) as (Hlen & Hne & Hsta).
    rewrite Hp. split; [rewrite app_length; cbn; lia|]. split.
    + unfold alive in Hal. rewrite Hfin', Hf in Hal. unfold no_eos in *.
      destruct eos as [e|]; [|exact I]. intros Hine. apply in_app_or in Hine.
      destruct Hine as [Hine|[Hine|[]]]; [now apply Hne|].
      subst e. rewrite Z.eqb_refl in Hal. discriminate.
    + rewrite (Hst Hal). rewrite adv_state_snoc. cbn [Nat.add].
      set (p := apath (nth (i / V) beam adflt)) in *.
      assert (Hpp : firstn t (p ++ [Z.of_nat (i mod V)]) = firstn t p).
      { rewrite firstn_app_le by lia. reflexivity. }
      rewrite (adv_state_prefix _ _ _ Hpp) by lia.
      rewrite (calc_prefix (p ++ [Z.of_nat (i mod V)]) p) by exact Hpp.
      now rewrite <- Hsta.
  - intros a' Ha' Hf Hfin'. apply in_astep in Ha'. destruct Ha' as [->|(i & _ & Hi & ->)]; [discriminate|].
    destruct (aext_finite s0 t beam i Hinv Hi Hf) as (Hfa & [(Hfin & Hp & _ & _ & Ht & _)|(Hl & Hp & Hs & Hfv)]).
    + destruct (aext_facts s0 t beam i Hinv Hi) as (Hin & _).
      destruct (ai_fin _ _ _ Hinv _ Hin Hfa Hfin) as (Hlen & Hef). rewrite Hp. split; [lia|exact Hef].
    + destruct (aext_facts s0 t beam i Hinv Hi) as (Hin & _).
      destruct (ai_live _ _ _ Hinv _ Hin Hl) as (Hlen & Hne & _).
      rewrite Hp. split; [rewrite app_length; cbn; lia|].
      unfold eos_first. destruct eos as [e|] eqn:Ee; [|exact I].
      rewrite removelast_snoc. unfold no_eos in Hne. now rewrite Ee in Hne.
  - intros a' Ha' Hf. apply in_astep in Ha'. destruct Ha' as [->|(i & _ & Hi & ->)]; [discriminate|].
    destruct (aext_finite s0 t beam i Hinv Hi Hf) as (Hfa & [(Hfin & Hp & Hs & _)|(Hl & Hp & Hs & _)]).
    + destruct (aext_facts s0 t beam i Hinv Hi) as (Hin & _).
      rewrite Hp, Hs. now apply (ai_chain _ _ _ Hinv).
    + now rewrite Hp, Hs.
  - rewrite map_asc_astep. apply sorted_desc_app_None.
    now destruct (topk_facts t beam) as (_ & _ & _ & Hs & _).
  - rewrite astep_length. intros j1 j2 Hj1 Hj2 Hne Hf1 Hf2.
    destruct (Nat.lt_ge_cases j1 (Ksel beam)) as [Hk1|Hk1].
    2:{ rewrite astep_nth_pad in Hf1 by exact Hk1. discriminate. }
    destruct (Nat.lt_ge_cases j2 (Ksel beam)) as [Hk2|Hk2].
    2:{ rewrite astep_nth_pad in Hf2 by exact Hk2. discriminate. }
    rewrite (astep_nth t beam j1 Hk1), (astep_nth t beam j2 Hk2) in *.
    destruct (topk_facts t beam) as (Hl & Hnd & Hlt & _).
    set (sel := topk (Ksel beam) (acands t beam)) in *.
    set (i1 := nth j1 sel 0) in *. set (i2 := nth j2 sel 0) in *.
    assert (Hi1 : i1 < length beam * V) by (apply Hlt, nth_In; lia).
    assert (Hi2 : i2 < length beam * V) by (apply Hlt, nth_In; lia).
    assert (Hi12 : i1 <> i2).
    { intros E. apply Hne. eapply (proj1 (NoDup_nth sel 0) Hnd); [lia|lia|exact E]. }
    assert (Hk1' : i1 / V < length beam) by (apply div_lt_rows; lia).
    assert (Hk2' : i2 / V < length beam) by (apply div_lt_rows; lia).
    destruct (aext_finite s0 t beam i1 Hinv Hi1 Hf1) as (Hfa1 & C1).
    destruct (aext_finite s0 t beam i2 Hinv Hi2 Hf2) as (Hfa2 & C2).
    destruct (aext_facts s0 t beam i1 Hinv Hi1) as (Hin1 & _).
    destruct (aext_facts s0 t beam i2 Hinv Hi2) as (Hin2 & _).
    assert (Hsrc : i1 / V <> i2 / V -> apath (nth (i1 / V) beam adflt) <> apath (nth (i2 / V) beam adflt)).
    { intros Hd. now apply (ai_distinct _ _ _ Hinv). }
    assert (Hdm : i1 / V = i2 / V -> i1 mod V = i2 mod V -> False).
    { intros E1 E2. apply Hi12. rewrite (Nat.div_mod i1 V), (Nat.div_mod i2 V) by lia. now rewrite E1, E2. }
    destruct C1 as [(Hfin1 & Hp1 & _ & He1 & _)|(Hl1 & Hp1 & _)];
    destruct C2 as [(Hfin2 & Hp2 & _ & He2 & _)|(Hl2 & Hp2 & _)]; rewrite Hp1, Hp2.
    + apply Hsrc. intros E. apply (Hdm E). rewrite He1 in He2. injection He2. lia.
    + destruct (ai_fin _ _ _ Hinv _ Hin1 Hfa1 Hfin1) as (Hlen1 & _).
      destruct (ai_live _ _ _ Hinv _ Hin2 Hl2) as (Hlen2 & _).
      intros E. apply (f_equal (@length Z)) in E. rewrite app_length in E. cbn in E. lia.
    + destruct (ai_fin _ _ _ Hinv _ Hin2 Hfa2 Hfin2) as (Hlen2 & _).
      destruct (ai_live _ _ _ Hinv _ Hin1 Hl1) as (Hlen1 & _).
      intros E. apply (f_equal (@length Z)) in E. rewrite app_length in E. cbn in E. lia.
    + intros E. apply app_inj_tail in E. destruct E as [E1 E2].
      destruct (Nat.eq_dec (i1 / V) (i2 / V)) as [Ed|Ed].
      * apply (Hdm Ed). lia.
      * now apply Hsrc.
Qed.

(* ---- the whole run: stepping stops for good once the element is done ---------------- *)
Lemma pfin_0 p : pfin 0 p = false.
Proof. unfold pfin. now destruct eos. Qed.

Lemma adone_active t beam : adone t beam = true -> length beam <> 0 -> t <> 0.
Proof.
  intros H Hl Ht. subst t. unfold adone in H.
  replace (active eos 0) with false in H by (unfold active; now destruct eos).
  cbn [andb] in H. destruct beam as [|a beam]; [cbn in Hl; lia|].
  cbn [map hd] in H. unfold afin in H. rewrite pfin_0 in H. discriminate.
Qed.

Lemma afin_S t a : t <> 0 -> afin (S t) a = afin t a.
Proof. intros. now apply pfin_S. Qed.

Lemma adone_S t beam : t <> 0 -> adone (S t) beam = adone t beam.
Proof.
  intros Ht. unfold adone, active.
  replace (map (afin (S t)) beam) with (map (afin t) beam).
  2:{ apply map_ext. intros a. symmetry. now apply afin_S. }
  destruct eos; [|reflexivity]. apply Nat.eqb_neq in Ht. cbn. now rewrite Ht.
Qed.

(* either the invariant at the current step, or the element was done at step t' < t and
   has stayed as it was *)
Definition AJ (s0 : state) (t : nat) (beam : list aslot) : Prop :=
  AInv s0 t beam \/ exists t', t' <> 0 /\ t' < t /\ AInv s0 t' beam /\ adone t' beam = true.

Lemma AInv_nonempty s0 t beam : AInv s0 t beam -> length beam <> 0.
Proof. intros H. rewrite (ai_len _ _ _ H). destruct (t =? 0); lia. Qed.

Lemma adone_later t' t beam : t' <> 0 -> t' <= t -> adone t beam = adone t' beam.
Proof.
  intros H0 Hle. induction Hle as [|t Hle IH]; [reflexivity|].
  rewrite adone_S by lia. exact IH.
Qed.

Lemma AJ_tick s0 t beam : AJ s0 t beam -> AJ s0 (S t) (atick t beam).
Proof.
  intros [H|(t' & H0 & Hlt & H & Hd)]; unfold atick.
  - destruct (adone t beam) eqn:Ed.
    + right. exists t. split; [|split; [lia|split; [exact H|exact Ed]]].
      eapply adone_active; [exact Ed|]. eapply AInv_nonempty; exact H.
    + left. now apply AInv_step.
  - rewrite (adone_later t' t) by lia. rewrite Hd. right. exists t'.
    split; [exact H0|split; [lia|split; [exact H|exact Hd]]].
Qed.

Lemma AJ_run s0 : forall fuel t beam, AJ s0 t beam -> AJ s0 (t + fuel) (arun fuel t beam).
Proof.
  induction fuel as [|f IH]; intros t beam H; cbn [arun].
  - now rewrite Nat.add_0_r.
  - rewrite Nat.add_succ_r. apply (IH (S t)). now apply AJ_tick.
Qed.

(* ---- what the caller sees --------------------------------------------------------- *)
Record AOut (s0 : state) (beam : list aslot) : Prop := mkAOut
  { ao_vocab : forall a, In a beam -> in_vocab V (apath a);
    ao_eos : forall a, In a beam -> sfin (asc a) = true -> eos_first eos (apath a);
    ao_chain : forall a, In a beam -> sfin (asc a) = true -> asc a = chain calc s0 (apath a);
    ao_sorted : sorted_desc (map asc beam);
    ao_distinct : forall i j, i < length beam -> j < length beam -> i <> j ->
                  sfin (asc (nth i beam adflt)) = true -> sfin (asc (nth j beam adflt)) = true ->
                  apath (nth i beam adflt) <> apath (nth j beam adflt) }.

Lemma AInv_out s0 t beam : AInv s0 t beam -> AOut s0 beam.
Proof.
  intros H. constructor.
  - apply (ai_vocab _ _ _ H).
  - intros a Ha Hf. destruct (afin t a) eqn:E.
    + now apply (ai_fin _ _ _ H a Ha Hf E).
    + apply eos_first_of_no_eos. apply (ai_live _ _ _ H a Ha). unfold alive. now rewrite Hf, E.
  - apply (ai_chain _ _ _ H).
  - apply (ai_sorted _ _ _ H).
  - apply (ai_distinct _ _ _ H).
Qed.

Lemma AJ_out s0 t beam : AJ s0 t beam -> AOut s0 beam.
Proof. intros [H|(t' & _ & _ & H & _)]; eapply AInv_out; exact H. Qed.

Lemma AOut_awidth s0 beam : AOut s0 beam -> AOut s0 (awidth beam).
Proof.
  intros H. unfold awidth. destruct (length beam <? width); [|exact H].
  set (n := width - length beam).
  assert (Hin : forall a, In a (beam ++ repeat adflt n) -> In a beam \/ a = adflt).
  { intros a Ha. apply in_app_or in Ha. destruct Ha as [Ha|Ha]; [now left|right; now apply repeat_spec in Ha]. }
  assert (Hnth : forall i, length beam <= i -> nth i (beam ++ repeat adflt n) adflt = adflt).
  { intros i Hi. rewrite app_nth2 by lia. destruct (Nat.lt_ge_cases (i - length beam) n).
    - now apply repeat_nth.
    - apply nth_overflow. now rewrite repeat_length. }
  constructor.
  - intros a Ha. destruct (Hin a Ha) as [Ha'| ->]; [now apply (ao_vocab _ _ H)|constructor].
  - intros a Ha Hf. destruct (Hin a Ha) as [Ha'| ->]; [now apply (ao_eos _ _ H)|discriminate].
  - intros a Ha Hf. destruct (Hin a Ha) as [Ha'| ->]; [now apply (ao_chain _ _ H)|discriminate].
  - rewrite map_app, map_asc_repeat. apply sorted_desc_app_None, (ao_sorted _ _ H).
  - intros i j _ _ Hne Hf1 Hf2.
    destruct (Nat.lt_ge_cases i (length beam)) as [Hi|Hi].
    2:{ rewrite Hnth in Hf1 by exact Hi. discriminate. }
    destruct (Nat.lt_ge_cases j (length beam)) as [Hj|Hj].
    2:{ rewrite Hnth in Hf2 by exact Hj. discriminate. }
    rewrite !app_nth1 in * by assumption. now apply (ao_distinct _ _ H).
Qed.

Theorem asearch_out fuel s0 : AOut s0 (asearch fuel s0).
Proof.
  unfold asearch. apply AOut_awidth. eapply AJ_out. apply (AJ_run s0 fuel 0). left. apply AInv_init.
Qed.

Lemma asearch_length fuel s0 : length (asearch fuel s0) = width.
Proof.
  unfold asearch, awidth.
  pose proof (AJ_run s0 fuel 0 (ainit s0) (or_introl (AInv_init s0))) as HJ.
  assert (Hl : length (arun fuel 0 (ainit s0)) = 1 \/ length (arun fuel 0 (ainit s0)) = width).
  { destruct HJ as [H|(t' & _ & _ & H & _)]; rewrite (ai_len _ _ _ H); destruct (_ =? 0); auto. }
  destruct (length (arun fuel 0 (ainit s0)) <? width) eqn:E.
  - apply Nat.ltb_lt in E. rewrite app_length, repeat_length. lia.
  - apply Nat.ltb_ge in E. lia.
Qed.
(* =================================================================================== *)
(* "When the width is at least the number of complete sequences and all paths are run to
   completion the result is the full set of them."                                       *)
Section Exhaustive.
Variable T : nat.
Variable s0 : state.
(* eos is a token of the vocabulary (BeamSearch.__init__ checks it) *)
Definition eos_ok : Prop := match eos with Some e => (0 <= e < Z.of_nat V)%Z | None => True end.
(* "the width is at least the number of complete sequences" *)
Definition wide : Prop := forall l : list (list Z),
  NoDup l -> (forall p, In p l -> complete V eos T p) -> length l <= width.
(* "all paths are run to completion" *)
Definition to_completion : Prop := fin_all = true \/ eos = None.

Definition finished (p : list Z) : Prop :=
  match eos with Some e => p <> [] /\ last p 0%Z = e | None => False end.

(* the sequences a search of depth t can have produced *)
Definition partial (t : nat) (p : list Z) : Prop :=
  in_vocab V p /\
  ((finished p /\ eos_first eos p /\ length p <= t) \/ (no_eos p /\ length p = t)).

Definition EInv (t : nat) (beam : list aslot) : Prop :=
  forall p, partial t p -> sfin (chain calc s0 p) = true ->
  exists a, In a beam /\ apath a = p /\ sfin (asc a) = true.

Lemma pfin_finished t p : pfin t p = true -> finished p.
Proof.
  intros H. destruct (pfin_true_pos t p H) as (_ & e & He & Hne & Hl). unfold finished. now rewrite He.
Qed.

Lemma finished_pfin t p : t <> 0 -> finished p -> pfin t p = true.
Proof.
  unfold finished, pfin. destruct eos as [e|]; [|contradiction]. intros Ht (Hne & Hl).
  apply Nat.eqb_neq in Ht. rewrite Ht, Hl, Z.eqb_refl. cbn.
  destruct p; [contradiction|reflexivity].
Qed.

Lemma last_In {A} (l : list A) d : l <> [] -> In (last l d) l.
Proof.
  intros H. destruct (exists_last H) as (l' & x & ->). rewrite last_last. apply in_or_app. right. now left.
Qed.

Lemma no_eos_not_finished p : no_eos p -> ~ finished p.
Proof.
  unfold no_eos, finished. destruct eos as [e|]; [|tauto]. intros H (Hne & Hl). apply H.
  rewrite <- Hl. now apply last_In.
Qed.

Lemma no_eos_pfin t p : no_eos p -> pfin t p = false.
Proof.
  intros H. destruct (pfin t p) eqn:E; [|reflexivity]. exfalso.
  eapply no_eos_not_finished; [exact H|]. eapply pfin_finished; exact E.
Qed.

Lemma chain_fin_prefix q r : sfin (chain calc s0 (q ++ r)) = true -> sfin (chain calc s0 q) = true.
Proof.
  induction r as [|v r IH] using rev_ind; [now rewrite app_nil_r|].
  rewrite app_assoc, chain_snoc. intros H. apply sadd_fin_l in H. now apply IH.
Qed.

(* the path a candidate would have *)
Definition npath (t : nat) (beam : list aslot) (i : nat) : list Z :=
  apath (aext t beam (acands t beam) i).

Lemma cand_partial t beam i : AInv s0 t beam -> i < length beam * V ->
  sfin (nth i (acands t beam) None) = true -> partial (S t) (npath t beam i).
Proof.
  intros Hinv Hi Hf. unfold npath.
  assert (Hf' : sfin (asc (aext t beam (acands t beam) i)) = true).
  { unfold aext. now rewrite anorm_sc. }
  destruct (aext_facts s0 t beam i Hinv Hi) as (Hin & Hv & _).
  destruct (aext_finite s0 t beam i Hinv Hi Hf') as (Hfa & [(Hfin & Hp & _ & _ & _ & _)|(Hl & Hp & _ & _)]);
    rewrite Hp.
  - destruct (ai_fin _ _ _ Hinv _ Hin Hfa Hfin) as (Hlen & Hef).
    split; [now apply (ai_vocab _ _ _ Hinv)|]. left. split; [eapply pfin_finished; exact Hfin|]. split; [exact Hef|lia].
  - destruct (ai_live _ _ _ Hinv _ Hin Hl) as (Hlen & Hne & _).
    set (q := apath (nth (i / V) beam adflt)) in *. set (v := Z.of_nat (i mod V)) in *.
    split; [apply in_vocab_snoc; [now apply (ai_vocab _ _ _ Hinv)|exact Hv]|].
    assert (Hlq : length (q ++ [v]) = S t) by (rewrite app_length; cbn; lia).
    unfold finished, eos_first, no_eos in *. destruct eos as [e|] eqn:Ee.
    + destruct (Z.eq_dec v e) as [->|Hne'].
      * left. split; [split; [now destruct q|apply last_last]|]. split; [now rewrite removelast_snoc|lia].
      * right. split; [|exact Hlq]. intros Hine. apply in_app_or in Hine.
        destruct Hine as [Hine|[Hine|[]]]; [now apply Hne|congruence].
    + right. split; [exact I|exact Hlq].
Qed.

Lemma cand_paths_distinct t beam i1 i2 : AInv s0 t beam ->
  i1 < length beam * V -> i2 < length beam * V -> i1 <> i2 ->
  sfin (nth i1 (acands t beam) None) = true -> sfin (nth i2 (acands t beam) None) = true ->
  npath t beam i1 <> npath t beam i2.
Proof.
  intros Hinv Hi1 Hi2 Hi12 Hf1 Hf2. unfold npath.
  assert (Hf1' : sfin (asc (aext t beam (acands t beam) i1)) = true) by (unfold aext; now rewrite anorm_sc).
  assert (Hf2' : sfin (asc (aext t beam (acands t beam) i2)) = true) by (unfold aext; now rewrite anorm_sc).
  assert (Hk1' : i1 / V < length beam) by (apply div_lt_rows; lia).
  assert (Hk2' : i2 / V < length beam) by (apply div_lt_rows; lia).
  destruct (aext_finite s0 t beam i1 Hinv Hi1 Hf1') as (Hfa1 & C1).
  destruct (aext_finite s0 t beam i2 Hinv Hi2 Hf2') as (Hfa2 & C2).
  destruct (aext_facts s0 t beam i1 Hinv Hi1) as (Hin1 & _).
  destruct (aext_facts s0 t beam i2 Hinv Hi2) as (Hin2 & _).
  assert (Hsrc : i1 / V <> i2 / V -> apath (nth (i1 / V) beam adflt) <> apath (nth (i2 / V) beam adflt)).
  { intros Hd. now apply (ai_distinct _ _ _ Hinv). }
  assert (Hdm : i1 / V = i2 / V -> i1 mod V = i2 mod V -> False).
  { intros E1 E2. apply Hi12. rewrite (Nat.div_mod i1 V), (Nat.div_mod i2 V) by lia. now rewrite E1, E2. }
  destruct C1 as [(Hfin1 & Hp1 & _ & He1 & _)|(Hl1 & Hp1 & _)];
  destruct C2 as [(Hfin2 & Hp2 & _ & He2 & _)|(Hl2 & Hp2 & _)]; rewrite Hp1, Hp2.
  - apply Hsrc. intros E. apply (Hdm E). rewrite He1 in He2. injection He2. lia.
  - destruct (ai_fin _ _ _ Hinv _ Hin1 Hfa1 Hfin1) as (Hlen1 & _).
    destruct (ai_live _ _ _ Hinv _ Hin2 Hl2) as (Hlen2 & _).
    intros E. apply (f_equal (@length Z)) in E. rewrite app_length in E. cbn in E. lia.
  - destruct (ai_fin _ _ _ Hinv _ Hin2 Hfa2 Hfin2) as (Hlen2 & _).
    destruct (ai_live _ _ _ Hinv _ Hin1 Hl1) as (Hlen1 & _).
    intros E. apply (f_equal (@length Z)) in E. rewrite app_length in E. cbn in E. lia.
  - intros E. apply app_inj_tail in E. destruct E as [E1 E2].
    destruct (Nat.eq_dec (i1 / V) (i2 / V)) as [Ed|Ed].
    + apply (Hdm Ed). lia.
    + now apply Hsrc.
Qed.

(* a complete sequence that extends a partial one, chosen injectively *)
Definition finb (p : list Z) : bool :=
  match eos with Some e => (last p 0%Z =? e)%Z && (0 <? length p) | None => false end.
Definition cpl (p : list Z) : list Z :=
  match eos with
  | Some e => if finb p then p else if length p <? T then p ++ [e] else p
  | None => p ++ repeat 0%Z (T - length p)
  end.

Lemma finb_finished p : finb p = true <-> finished p.
Proof.
  unfold finb, finished. destruct eos as [e|]; [|split; [discriminate|contradiction]]. split.
  - intros H. apply andb_prop in H. destruct H as [H1 H2]. apply Z.eqb_eq in H1.
    split; [|exact H1]. intros ->. discriminate.
  - intros (Hne & Hl). rewrite Hl, Z.eqb_refl. destruct p; [contradiction|reflexivity].
Qed.

Lemma cpl_complete t p : eos_ok -> partial (S t) p -> S t <= T -> complete V eos T (cpl p).
Proof.
  intros Heos. unfold eos_ok in Heos. intros (Hv & [(Hfin & Hef & Hlen)|(Hne & Hlen)]) Ht.
  - assert (Hb : finb p = true) by now apply finb_finished.
    unfold cpl, complete, finished, eos_first in *. destruct eos as [e|]; [|contradiction].
    rewrite Hb. split; [exact Hv|]. left. destruct Hfin as (H1 & H2). repeat split; auto. lia.
  - assert (Hb : finb p = false).
    { destruct (finb p) eqn:E; [|reflexivity]. apply finb_finished in E. exfalso.
      eapply no_eos_not_finished; eassumption. }
    unfold cpl, complete, no_eos in *. destruct eos as [e|].
    + rewrite Hb. destruct (length p <? T) eqn:El.
      * apply Nat.ltb_lt in El. split; [apply in_vocab_snoc; [exact Hv|exact Heos]|]. left.
        split; [now destruct p|]. split; [apply last_last|]. split; [now rewrite removelast_snoc|].
        rewrite app_length. cbn. lia.
      * apply Nat.ltb_ge in El. split; [exact Hv|]. right. split; [exact Hne|lia].
    + split.
      * apply Forall_app. split; [exact Hv|]. apply Forall_forall. intros z Hz.
        apply repeat_spec in Hz. subst z. lia.
      * rewrite app_length, repeat_length. lia.
Qed.

Lemma cpl_inj t p1 p2 : partial (S t) p1 -> partial (S t) p2 -> cpl p1 = cpl p2 -> p1 = p2.
Proof.
  intros (Hv1 & C1) (Hv2 & C2) E. unfold cpl in E.
  destruct eos as [e|] eqn:Ee.
  - assert (Hb : forall p, (finished p /\ eos_first eos p /\ length p <= S t) -> finb p = true).
    { intros p (H & _). apply finb_finished. exact H. }
    assert (Hb' : forall p, no_eos p -> finb p = false).
    { intros p H. destruct (finb p) eqn:E'; [|reflexivity]. apply finb_finished in E'. exfalso.
      eapply no_eos_not_finished; eassumption. }
    assert (Hine : forall p, finished p -> In e p).
    { intros p Hf. unfold finished in Hf. rewrite Ee in Hf. destruct Hf as (Hn & <-). now apply last_In. }
    rewrite <- Ee in *.
    destruct C1 as [C1|(Hn1 & Hl1)], C2 as [C2|(Hn2 & Hl2)].
    + now rewrite (Hb _ C1), (Hb _ C2) in E.
    + rewrite (Hb _ C1), (Hb' _ Hn2) in E. destruct C1 as (Hf1 & _ & Hl1).
      destruct (length p2 <? T).
      * apply (f_equal (@length Z)) in E. rewrite app_length in E. cbn in E. lia.
      * subst p2. exfalso. unfold no_eos in Hn2. rewrite Ee in Hn2. apply Hn2. apply Hine. exact Hf1.
    + rewrite (Hb' _ Hn1), (Hb _ C2) in E. destruct C2 as (Hf2 & _ & Hl2).
      destruct (length p1 <? T).
      * apply (f_equal (@length Z)) in E. rewrite app_length in E. cbn in E. lia.
      * subst p1. exfalso. unfold no_eos in Hn1. rewrite Ee in Hn1. apply Hn1. apply Hine. exact Hf2.
    + rewrite (Hb' _ Hn1), (Hb' _ Hn2), Hl1, Hl2 in E.
      destruct (S t <? T); [now apply app_inv_tail in E|exact E].
  - destruct C1 as [(F & _)|(_ & Hl1)]; [unfold finished in F; rewrite Ee in F; contradiction|].
    destruct C2 as [(F & _)|(_ & Hl2)]; [unfold finished in F; rewrite Ee in F; contradiction|].
    rewrite Hl1, Hl2 in E. now apply app_inv_tail in E.
Qed.

Lemma filter_len_le {A} (f : A -> bool) (l : list A) : length (filter f l) <= length l.
Proof. induction l as [|a l IH]; cbn; [lia|]. destruct (f a); cbn; lia. Qed.

Lemma NoDup_map_inj_on {A B} (f : A -> B) (l : list A) :
  NoDup l -> (forall x y, In x l -> In y l -> f x = f y -> x = y) -> NoDup (map f l).
Proof.
  induction 1 as [|a l Hn Hd IH]; intros Hinj; cbn; constructor.
  - intros Hin. apply in_map_iff in Hin. destruct Hin as (y & Hy & Hyl).
    assert (y = a) by (apply Hinj; [now right|now left|exact Hy]). subst. contradiction.
  - apply IH. intros x y Hx Hy. apply Hinj; now right.
Qed.

(* with a wide beam every finite candidate is selected *)
Lemma all_finite_selected t beam i : eos_ok -> wide -> AInv s0 t beam -> S t <= T -> i < length beam * V ->
  sfin (nth i (acands t beam) None) = true -> In i (topk (Ksel beam) (acands t beam)).
Proof.
  intros Heos Hwide Hinv Ht Hi Hf.
  set (cs := acands t beam) in *. set (sel := topk (Ksel beam) cs).
  destruct (in_dec Nat.eq_dec i sel) as [Hin|Hnin]; [exact Hin|exfalso].
  destruct (topk_facts t beam) as (Hl & Hnd & Hlt & _ & Hdom). fold cs sel in Hl, Hnd, Hlt, Hdom.
  set (L := filter (fun j => sfin (nth j cs None)) (seq 0 (length beam * V))).
  assert (HL : forall j, In j L <-> j < length beam * V /\ sfin (nth j cs None) = true).
  { intros j. unfold L. rewrite filter_In, in_seq. split; intros (H1 & H2); split; auto; lia. }
  assert (HndL : NoDup L) by (apply NoDup_filter, seq_NoDup).
  assert (Hincl : incl (i :: sel) L).
  { intros j [<-|Hj]; apply HL; [now split|]. split; [now apply Hlt|].
    eapply sleb_fin; [|exact Hf]. now apply Hdom. }
  assert (Hlen1 : S (Ksel beam) <= length L).
  { rewrite <- Hl. change (S (length sel)) with (length (i :: sel)).
    apply NoDup_incl_length; [constructor; assumption|exact Hincl]. }
  assert (Hlen2 : length L <= length beam * V).
  { unfold L. etransitivity; [apply filter_len_le|]. now rewrite seq_length. }
  assert (Hlen3 : length L <= width).
  { rewrite <- (map_length (fun j => cpl (npath t beam j)) L). apply Hwide.
    - apply NoDup_map_inj_on; [exact HndL|]. intros j1 j2 H1 H2 E.
      apply HL in H1, H2. destruct H1 as (H1 & F1), H2 as (H2 & F2).
      destruct (Nat.eq_dec j1 j2) as [|Hne]; [assumption|exfalso].
      apply (cand_paths_distinct t beam j1 j2 Hinv H1 H2 Hne F1 F2).
      eapply (cpl_inj t); [| |exact E]; now apply cand_partial.
    - intros p Hp. apply in_map_iff in Hp. destruct Hp as (j & <- & Hj). apply HL in Hj.
      destruct Hj as (Hj & Fj). apply (cpl_complete t); [exact Heos|now apply cand_partial|exact Ht]. }
  unfold Ksel in Hlen1. lia.
Qed.

Lemma in_beam_index beam a : In a beam -> exists k, k < length beam /\ nth k beam adflt = a.
Proof. intros H. now apply In_nth. Qed.

Lemma selected_in_astep t beam i : In i (topk (Ksel beam) (acands t beam)) ->
  In (aext t beam (acands t beam) i) (astep t beam).
Proof. intros H. unfold astep. fold (Ksel beam). apply in_or_app. left. now apply in_map. Qed.

Lemma EInv_step t beam : eos_ok -> wide -> AInv s0 t beam -> EInv t beam -> S t <= T -> EInv (S t) (astep t beam).
Proof.
  intros Heos Hwide Hinv HE Ht p (Hv & C) Hfc. pose proof Heos as Heos'. unfold eos_ok in Heos'.
  (* Either p was already complete at depth t, or p = q ++ [v] with q live at depth t *)
  assert (Hcase : (finished p /\ eos_first eos p /\ length p <= t) \/
                  (exists q v, p = q ++ [v] /\ length q = t /\ no_eos q)).
  { destruct C as [(Hf & Hef & Hl)|(Hne & Hl)].
    - destruct (Nat.eq_dec (length p) (S t)) as [E|E]; [|left; repeat split; auto; lia].
      right. assert (Hnn : p <> []) by (intros ->; discriminate).
      destruct (exists_last Hnn) as (q & v & ->). exists q, v.
      rewrite app_length in E. cbn in E. split; [reflexivity|]. split; [lia|].
      unfold eos_first, no_eos in *. destruct eos; [|exact I]. now rewrite removelast_snoc in Hef.
    - right. assert (Hnn : p <> []) by (intros ->; discriminate).
      destruct (exists_last Hnn) as (q & v & ->). exists q, v.
      rewrite app_length in Hl. cbn in Hl. split; [reflexivity|]. split; [lia|].
      unfold no_eos in *. destruct eos; [|exact I]. intros Hin. apply Hne. apply in_or_app. now left. }
  destruct Hcase as [(Hf & Hef & Hl)|(q & v & -> & Hlq & Hnq)].
  - (* carried over: the finished path re-emits eos at no cost *)
    assert (Ht0 : t <> 0).
    { intros ->. unfold finished in Hf. destruct eos; [|contradiction]. destruct Hf as (Hn & _).
      destruct p; [contradiction|cbn in Hl; lia]. }
    destruct (HE p) as (a & Hin & Hp & Hfa); [split; [exact Hv|]; left; auto|exact Hfc|].
    destruct (in_beam_index beam a Hin) as (k & Hk & Hka).
    assert (Hfin : afin t a = true) by (unfold afin; rewrite Hp; now apply finished_pfin).
    unfold finished in Hf. destruct eos as [e|] eqn:Ee; [|contradiction].
    set (j := Z.to_nat e). assert (Hj : j < V) by (unfold j; lia).
    set (i := k * V + j). assert (Hi : i < length beam * V) by (unfold i; nia).
    destruct (div_mod_unique V k j Hj) as (Hdiv & Hmod). fold i in Hdiv, Hmod.
    destruct (acands_nth t beam i Hi) as (_ & _ & Hn). rewrite Hdiv, Hka, Hmod in Hn.
    destruct (arow_fin t a j Hfin Hj) as (e' & He' & Hrow). rewrite Ee in He'. injection He' as <-.
    assert (Hje : Z.of_nat j = e) by (unfold j; lia). rewrite Hje, Z.eqb_refl in Hrow.
    rewrite <- Ee in *.
    assert (Hfi : sfin (nth i (acands t beam) None) = true) by (rewrite Hn, Hrow, sadd_0_r; exact Hfa).
    pose proof (all_finite_selected t beam i Heos Hwide Hinv Ht Hi Hfi) as Hsel.
    exists (aext t beam (acands t beam) i). split; [now apply selected_in_astep|].
    destruct (aext_facts s0 t beam i Hinv Hi) as (_ & _ & Hpath & Hsc & _).
    rewrite Hdiv, Hka in Hpath, Hsc. rewrite Hfin in Hpath. split; [now rewrite Hpath|].
    now rewrite Hsc, Hmod, Hrow, sadd_0_r.
  - (* a live path of depth t extended by v *)
    assert (Hvq : in_vocab V q /\ (0 <= v < Z.of_nat V)%Z).
    { unfold in_vocab in Hv. apply Forall_app in Hv. destruct Hv as (H1 & H2). split; [exact H1|]. now inversion H2. }
    destruct Hvq as (Hvq & Hvv).
    assert (Hfq : sfin (chain calc s0 q) = true) by (eapply chain_fin_prefix; exact Hfc).
    destruct (HE q) as (a & Hin & Hp & Hfa); [split; [exact Hvq|]; right; auto|exact Hfq|].
    destruct (in_beam_index beam a Hin) as (k & Hk & Hka).
    assert (Hfin : afin t a = false) by (unfold afin; rewrite Hp; now apply no_eos_pfin).
    assert (Hal : alive t a = true) by (unfold alive; now rewrite Hfa, Hfin).
    destruct (ai_live _ _ _ Hinv a Hin Hal) as (_ & _ & Hst).
    set (j := Z.to_nat v). assert (Hj : j < V) by (unfold j; lia).
    set (i := k * V + j). assert (Hi : i < length beam * V) by (unfold i; nia).
    destruct (div_mod_unique V k j Hj) as (Hdiv & Hmod). fold i in Hdiv, Hmod.
    destruct (acands_nth t beam i Hi) as (_ & _ & Hn). rewrite Hdiv, Hka, Hmod in Hn.
    rewrite arow_live in Hn by exact Hfin.
    assert (Hch : nth i (acands t beam) None = chain calc s0 (q ++ [v])).
    { rewrite Hn, chain_snoc, (ai_chain _ _ _ Hinv a Hin Hfa), Hp, Hst, Hp, Hlq. reflexivity. }
    assert (Hfi : sfin (nth i (acands t beam) None) = true) by (now rewrite Hch).
    pose proof (all_finite_selected t beam i Heos Hwide Hinv Ht Hi Hfi) as Hsel.
    exists (aext t beam (acands t beam) i). split; [now apply selected_in_astep|].
    destruct (aext_facts s0 t beam i Hinv Hi) as (_ & _ & Hpath & Hsc & _).
    rewrite Hdiv, Hka in Hpath, Hsc. rewrite Hfin in Hpath. split.
    + rewrite Hpath, Hp, Hmod. unfold j. now rewrite Z2Nat.id by lia.
    + unfold aext. rewrite anorm_sc. cbn [asc]. exact Hfi.
Qed.

Definition EJ (t : nat) (beam : list aslot) : Prop :=
  (AInv s0 t beam /\ EInv t beam) \/
  exists t', t' <> 0 /\ t' < t /\ AInv s0 t' beam /\ EInv t' beam /\ adone t' beam = true.

Lemma EJ_tick t beam : eos_ok -> wide -> S t <= T -> EJ t beam -> EJ (S t) (atick t beam).
Proof.
  intros Heos Hwide Ht [(H & HE)|(t' & H0 & Hlt & H & HE & Hd)]; unfold atick.
  - destruct (adone t beam) eqn:Ed.
    + right. exists t. split; [|split; [lia|auto]].
      eapply adone_active; [exact Ed|]. eapply AInv_nonempty; exact H.
    + left. split; [now apply AInv_step|now apply EInv_step].
  - rewrite (adone_later t' t) by lia. rewrite Hd. right. exists t'.
    split; [exact H0|split; [lia|auto]].
Qed.

Lemma EJ_run : eos_ok -> wide -> forall fuel t beam, t + fuel <= T -> EJ t beam -> EJ (t + fuel) (arun fuel t beam).
Proof.
  intros Heos Hwide. induction fuel as [|f IH]; intros t beam Ht H; cbn [arun].
  - now rewrite Nat.add_0_r.
  - rewrite Nat.add_succ_r. apply (IH (S t)); [lia|]. apply EJ_tick; [exact Heos|exact Hwide|lia|exact H].
Qed.

Lemma EInv_init : EInv 0 (ainit s0).
Proof.
  intros p (Hv & [(_ & _ & Hl)|(_ & Hl)]) _; (destruct p; [|cbn in Hl; lia]);
    exists (mkA [] (Some 0%Z) s0); repeat split; now left.
Qed.

Lemma adone_all t beam : to_completion -> adone t beam = true -> forall a, In a beam -> afin t a = true.
Proof.
  intros Hrun Hd.
  assert (Hne : eos <> None).
  { intros E. unfold adone, active in Hd. rewrite E in Hd. cbn [andb] in Hd.
    destruct beam as [|a0 beam]; [discriminate|]. cbn in Hd. unfold afin, pfin in Hd. rewrite E in Hd. discriminate. }
  destruct Hrun as [Hr|Hr]; [|contradiction].
  unfold adone in Hd. rewrite Hr, andb_true_r in Hd. destruct (active eos t) eqn:Ea.
  - rewrite forallb_forall in Hd. intros a Ha. apply Hd. now apply in_map.
  - assert (t = 0).
    { unfold active in Ea. destruct eos; [|congruence]. now apply negb_false_iff, Nat.eqb_eq in Ea. }
    subst t. destruct beam as [|a0 beam]; [discriminate|]. cbn in Hd. unfold afin in Hd.
    rewrite pfin_0 in Hd. discriminate.
Qed.

Theorem asearch_exhaustive p : eos_ok -> wide -> to_completion ->
  complete V eos T p -> sfin (chain calc s0 p) = true ->
  exists a, In a (asearch T s0) /\ apath a = p /\ asc a = chain calc s0 p.
Proof.
  intros Heos Hwide Hrun (Hv & Hc) Hfc.
  pose proof (EJ_run Heos Hwide T 0 (ainit s0) (le_n _) (or_introl (conj (AInv_init s0) EInv_init))) as HJ.
  cbn [Nat.add] in HJ. set (x := arun T 0 (ainit s0)) in *.
  assert (Hfound : exists a, In a x /\ apath a = p /\ asc a = chain calc s0 p).
  { assert (Hfin_of : forall t', AInv s0 t' x -> (exists a, In a x /\ apath a = p /\ sfin (asc a) = true) ->
                       exists a, In a x /\ apath a = p /\ asc a = chain calc s0 p).
    { intros t' Hi (a & Hin & Hp & Hf). exists a. repeat split; auto. rewrite <- Hp. now apply (ai_chain _ _ _ Hi). }
    destruct HJ as [(Hi & HE)|(t' & H0 & Hlt & Hi & HE & Hd)].
    - apply (Hfin_of T Hi). apply HE; [|exact Hfc]. split; [exact Hv|].
      unfold finished, eos_first, no_eos. destruct eos as [e|]; [|now right].
      destruct Hc as [(H1 & H2 & H3 & H4)|(H1 & H2)]; [left|right]; auto.
    - apply (Hfin_of t' Hi).
      (* stopped at t' < T: every slot had finished; a longer complete sequence would have a live prefix *)
      assert (Hall : forall a, In a x -> afin t' a = true) by (now apply adone_all).
      assert (Hshort : (finished p /\ eos_first eos p /\ length p <= t') \/ t' < length p).
      { unfold finished, eos_first. destruct eos as [e|].
        - destruct Hc as [(H1 & H2 & H3 & H4)|(H1 & H2)]; [|right; lia].
          destruct (Nat.le_gt_cases (length p) t'); [left; auto|right; lia].
        - right. lia. }
      destruct Hshort as [Hs|Hlong].
      + apply HE; [|exact Hfc]. split; [exact Hv|]. now left.
      + exfalso. set (q := firstn t' p).
        assert (Hq : p = q ++ skipn t' p) by (symmetry; apply firstn_skipn).
        assert (Hlq : length q = t') by (unfold q; apply firstn_length_le; lia).
        assert (Hnq : no_eos q).
        { unfold no_eos, eos_first in *. destruct eos as [e|]; [|exact I].
          destruct Hc as [(H1 & H2 & H3 & H4)|(H1 & H2)].
          - intros Hin. apply H3. rewrite removelast_firstn_len.
            assert (Hqq : q = firstn t' (firstn (pred (length p)) p)).
            { rewrite firstn_firstn, Nat.min_l by lia. reflexivity. }
            rewrite Hqq in Hin. rewrite <- (firstn_skipn t' (firstn (pred (length p)) p)).
            apply in_or_app. now left.
          - intros Hin. apply H1. rewrite Hq. apply in_or_app. now left. }
        destruct (HE q) as (a & Hin & Hp & Hf).
        * split; [now apply Forall_firstn|]. right. auto.
        * rewrite Hq in Hfc. eapply chain_fin_prefix; exact Hfc.
        * specialize (Hall a Hin). unfold afin in Hall. rewrite Hp, (no_eos_pfin t' q Hnq) in Hall. discriminate. }
  destruct Hfound as (a & Hin & Hp & Hs). exists a. split; [|auto].
  unfold asearch, awidth. fold x. destruct (length x <? width); [apply in_or_app; now left|exact Hin].
Qed.
End Exhaustive.

End Abs.
