(* C20 — single-head attention: every output coordinate is a masked convex combination;
   range, masked-content blindness, permutation invariance. *)
From Coq Require Import List Arith Bool ZArith QArith Qabs Lia Lqa Permutation Setoid Morphisms.
From PV Require Import C20.Model C20.Spec C20.Sums C20.Index.
Import ListNotations.
Local Open Scope nat_scope.

(* the weight the softmax numerator gives position t of the row of output index j *)
Definition wfun (expf : Q -> Q) (sc : list Q -> list Q -> Q) (q k : tensor Q)
           (m : option (tensor bool)) (p : nat) (j : index) (t : nat) : Q :=
  if kept_at m (ins (p - 1) t j) then expf (e_at sc q k p (ins (p - 1) t j)) else 0%Q.

Lemma ins_pred p t c j : 1 <= p -> ins p t (c :: j) = c :: ins (p - 1) t j.
Proof. intros H. destruct p; [lia|]. replace (S p - 1) with p by lia. reflexivity. Qed.

(* key and value have the same sequence length (documented shapes (B*,T,C*,K), (B*,T,C*,D)) *)
Definition seq_agree (k v : tensor Q) (p : nat) : Prop := nth p (tshape v) 0 = nth p (tshape k) 0.

Record attend_facts (q k v : tensor Q) (m : option (tensor bool)) (p : nat) (es ps : shape) : Prop :=
  { af_p : 1 <= p;
    af_pk : p < length (tshape k);
    af_qrank : S (length (tshape q)) = length (tshape k);
    af_vrank : length (tshape v) = length (tshape k);
    af_es : bshape (tl (tshape (unsq p q))) (tl (tshape k)) = Some es;
    af_mask : match m with None => true | Some mt => intob (tshape mt) es end = true;
    af_ps : bshape (1 :: es) (tshape v) = Some ps }.

Lemma attend_inv expf sc q k v m p qs ks out :
  attend expf sc q k v m p qs ks = Some out ->
  exists es ps,
    attend_facts q k v m p es ps /\
    out = memo 0%Q (mkT (del p ps)
                        (out_at v p (memo 0%Q (mkT es (a_at expf p (memo None (mkT es (em_at sc q k m p))) es))) ps)).
Proof.
  unfold attend. destruct (legalb q k v p qs ks) eqn:L; [|discriminate].
  destruct (bshape (tl (tshape (qu q p))) (tl (tshape k))) as [es|] eqn:Ees; [|discriminate].
  destruct (match m with None => true | Some mt => intob (tshape mt) es end) eqn:Em; [|discriminate].
  destruct (bshape (1 :: es) (tshape v)) as [ps|] eqn:Eps; [|discriminate].
  intros H. injection H as <-. exists es, ps. split; [|reflexivity].
  unfold legalb in L. repeat (apply andb_true_iff in L; destruct L as [L ?]).
  constructor; try assumption.
  - apply Nat.leb_le; assumption.
  - apply Nat.ltb_lt; assumption.
  - apply Nat.eqb_eq; assumption.
  - apply Nat.eqb_eq; assumption.
Qed.

Section Facts.
  Variables (q k v : tensor Q) (m : option (tensor bool)) (p : nat) (es ps : shape).
  Hypothesis F : attend_facts q k v m p es ps.

  Let pe := p - 1.

  Lemma f_p : p = S pe.
  Proof. subst pe. pose proof (af_p _ _ _ _ _ _ _ F). lia. Qed.

  Lemma f_qs_len : length (tl (tshape (unsq p q))) = length (tshape k) - 1.
  Proof.
    rewrite unsq_shape. pose proof (ins_shape_length p 1 (tshape q)) as H.
    pose proof (af_qrank _ _ _ _ _ _ _ F).
    destruct (ins p 1 (tshape q)); cbn in *; lia.
  Qed.

  Lemma f_es_len : length es = length (tshape k) - 1.
  Proof.
    rewrite (bshape_length _ _ _ (af_es _ _ _ _ _ _ _ F)), f_qs_len.
    destruct (tshape k); cbn; lia.
  Qed.

  Lemma f_ps_len : length ps = length (tshape k).
  Proof.
    rewrite (bshape_length _ _ _ (af_ps _ _ _ _ _ _ _ F)). cbn [length]. rewrite f_es_len.
    pose proof (af_vrank _ _ _ _ _ _ _ F). pose proof (af_pk _ _ _ _ _ _ _ F). lia.
  Qed.

  Lemma f_pe_es : pe < length es.
  Proof. rewrite f_es_len. pose proof (af_pk _ _ _ _ _ _ _ F). pose proof f_p. lia. Qed.

  (* the unsqueezed query has size 1 on the sequence axis *)
  Lemma f_qu_one : nth pe (tl (tshape (unsq p q))) 0 = 1.
  Proof.
    rewrite unsq_shape, f_p.
    pose proof (af_qrank _ _ _ _ _ _ _ F) as Hq. pose proof (af_pk _ _ _ _ _ _ _ F) as Hp.
    rewrite f_p in Hp.
    destruct (tshape q) as [|f s]; [cbn in Hq; lia|].
    cbn in Hq. assert (Hpe : pe <= length s) by lia.
    unfold ins. cbn [firstn skipn app tl].
    rewrite app_nth2 by (rewrite firstn_length; lia).
    rewrite firstn_length. replace (pe - Nat.min pe (length s)) with 0 by lia. reflexivity.
  Qed.

  Lemma f_Te : nth pe es 0 = nth p (tshape k) 0.
  Proof.
    rewrite (bshape_nth_one _ _ _ pe (af_es _ _ _ _ _ _ _ F) f_qu_one).
    - rewrite f_p. destruct (tshape k); [destruct pe; reflexivity|reflexivity].
    - pose proof (af_pk _ _ _ _ _ _ _ F). pose proof f_p. destruct (tshape k); cbn in *; lia.
  Qed.

  Lemma f_Tp : seq_agree k v p -> nth p ps 0 = nth p (tshape k) 0.
  Proof.
    intros A. unfold seq_agree in A.
    rewrite (bshape_nth_same _ _ _ p (af_ps _ _ _ _ _ _ _ F)).
    - exact A.
    - rewrite A, f_p. cbn [nth]. rewrite <- f_p. apply f_Te.
    - cbn [length]. pose proof f_pe_es. pose proof f_p. lia.
    - rewrite (af_vrank _ _ _ _ _ _ _ F). apply (af_pk _ _ _ _ _ _ _ F).
  Qed.

  Lemma f_into_q : intob (tl (tshape (unsq p q))) es = true.
  Proof. apply (bshape_into _ _ _ (af_es _ _ _ _ _ _ _ F)). Qed.
  Lemma f_into_k : intob (tl (tshape k)) es = true.
  Proof. apply (bshape_into _ _ _ (af_es _ _ _ _ _ _ _ F)). Qed.
  Lemma f_into_a : intob (1 :: es) ps = true.
  Proof. apply (bshape_into _ _ _ (af_ps _ _ _ _ _ _ _ F)). Qed.

  (* an in-range output index, extended by a sequence position, is in range for e *)
  Lemma f_valid_row c j t :
    valid (del p ps) (c :: j) -> t < nth p ps 0 ->
    valid es (clamp es (ins pe t j)) /\ pe <= length j.
  Proof.
    intros Hv Ht.
    assert (Hp : p < length ps) by (rewrite f_ps_len; apply (af_pk _ _ _ _ _ _ _ F)).
    pose proof (valid_ins p ps (c :: j) t Hp Hv Ht) as H.
    rewrite (ins_pred p t c j (af_p _ _ _ _ _ _ _ F)) in H. fold pe in H.
    pose proof (clamp_valid _ _ _ f_into_a H) as H1. cbn [clamp] in H1.
    apply valid_cons_inv in H1. split; [apply H1|].
    apply valid_length in Hv. rewrite del_length in Hv by exact Hp. cbn in Hv.
    rewrite f_ps_len in Hv. pose proof (af_pk _ _ _ _ _ _ _ F). pose proof f_p. lia.
  Qed.
End Facts.

(* ---------- the cell lemma -------------------------------------------------------------- *)
Section Cell.
  Variables (expf : Q -> Q) (sc : list Q -> list Q -> Q).
  Variables (q k v : tensor Q) (m : option (tensor bool)) (p qs ks : nat) (out : tensor Q).
  Hypothesis Hatt : attend expf sc q k v m p qs ks = Some out.
  Hypothesis Hagree : seq_agree k v p.

  Let T := nth p (tshape k) 0.

  Lemma attend_cell_eq c j :
    valid (tshape out) (c :: j) ->
    tat out (c :: j) =
    qsum (map (fun t => (wfun expf sc q k m p j t / qsum (map (wfun expf sc q k m p j) (seq 0 T))
                         * bget v (c :: ins (p - 1) t j))%Q) (seq 0 T)).
  Proof.
    destruct (attend_inv _ _ _ _ _ _ _ _ _ _ Hatt) as [es [ps [F ->]]].
    rewrite memo_shape. cbn [tshape]. intros Hv.
    rewrite memo_at by exact Hv. cbn [tat].
    set (et := memo None (mkT es (em_at sc q k m p))).
    set (a := memo 0%Q (mkT es (a_at expf p et es))).
    unfold out_at.
    rewrite (f_Tp _ _ _ _ _ _ _ F Hagree). fold T.
    assert (HTe : nth (p - 1) es 0 = T) by apply (f_Te _ _ _ _ _ _ _ F).
    assert (HTp : nth p ps 0 = T) by apply (f_Tp _ _ _ _ _ _ _ F Hagree).
    pose proof (f_p _ _ _ _ _ _ _ F) as Hp.
    (* the weight read through the materialised tensors *)
    assert (Hw : forall t, t < T ->
               w_at expf et (clamp es (ins (p - 1) t j)) = wfun expf sc q k m p j t).
    { intros t Ht. rewrite <- HTp in Ht.
      destruct (f_valid_row _ _ _ _ _ _ _ F c j t Hv Ht) as [Hve _].
      unfold w_at, et. rewrite memo_at by exact Hve. cbn [tat].
      unfold em_at, wfun.
      rewrite (kept_at_clamp _ _ _ (af_mask _ _ _ _ _ _ _ F)).
      unfold e_at, qu.
      rewrite (brow_clamp _ _ _ (f_into_q _ _ _ _ _ _ _ F)), (brow_clamp _ _ _ (f_into_k _ _ _ _ _ _ _ F)).
      destruct (kept_at m (ins (p - 1) t j)); reflexivity. }
    f_equal. apply map_ext_in. intros t Ht. apply in_seq in Ht.
    assert (Ht' : t < T) by lia.
    assert (Htp : t < nth p ps 0) by (rewrite HTp; exact Ht').
    destruct (f_valid_row _ _ _ _ _ _ _ F c j t Hv Htp) as [Hve Hj].
    rewrite (ins_pred p t c j (af_p _ _ _ _ _ _ _ F)). cbn [prod_at].
    f_equal.
    assert (Hsa : tshape a = es) by reflexivity.
    unfold bget at 1. rewrite Hsa. unfold a. rewrite memo_at by exact Hve. cbn [tat].
    unfold a_at. rewrite (Hw t Ht'). f_equal.
    unfold den_at. rewrite HTe. f_equal. apply map_ext_in. intros t' Ht2. apply in_seq in Ht2.
    rewrite setp_clamp_ins.
    - apply Hw. lia.
    - apply (f_pe_es _ _ _ _ _ _ _ F).
    - exact Hj.
    - rewrite HTe. lia.
  Qed.

  (* normal form: each output coordinate is the masked convex combination of the values *)
  Lemma attend_cell c j :
    valid (tshape out) (c :: j) ->
    (tat out (c :: j) ==
     wavg (wfun expf sc q k m p j) (fun t => bget v (c :: ins (p - 1) t j)) (seq 0 T))%Q.
  Proof.
    intros Hv. rewrite (attend_cell_eq c j Hv). apply qsum_wavg.
  Qed.
End Cell.

(* wavg with 0/positive weights is the declarative masked convex combination *)
Lemma wavg_is_mcc (T : nat) (kept : nat -> bool) (wt x : nat -> Q) :
  (wavg (fun t => if kept t then wt t else 0%Q) x (seq 0 T)
   == masked_convex_combination T kept wt x)%Q.
Proof.
  rewrite wavg_quot. unfold masked_convex_combination.
  rewrite (psum_map_ext (fun t => ((if kept t then wt t else 0) * x t)%Q)
                        (fun t => if kept t then (wt t * x t)%Q else 0%Q)).
  - reflexivity.
  - intros t _. destruct (kept t); ring.
Qed.

Lemma attend_is_mcc expf sc q k v m p qs ks out :
  attend expf sc q k v m p qs ks = Some out -> seq_agree k v p ->
  forall c j, valid (tshape out) (c :: j) ->
  (tat out (c :: j) ==
   masked_convex_combination (nth p (tshape k) 0%nat)
     (fun t => kept_at m (ins (p - 1) t j))
     (fun t => expf (e_at sc q k p (ins (p - 1) t j)))
     (fun t => bget v (c :: ins (p - 1) t j)))%Q.
Proof.
  intros Hatt Ha c j Hv. rewrite (attend_cell _ _ _ _ _ _ _ _ _ _ Hatt Ha c j Hv).
  unfold wfun. apply wavg_is_mcc.
Qed.

(* ---------- range ------------------------------------------------------------------------ *)
Lemma attention_in_kept_range expf sc q k v m p qs ks out :
  (forall x, (0 < expf x)%Q) ->
  attend expf sc q k v m p qs ks = Some out -> seq_agree k v p ->
  forall c j lo hi, valid (tshape out) (c :: j) ->
  (exists t, t < nth p (tshape k) 0 /\ kept_at m (ins (p - 1) t j) = true) ->
  (forall t, t < nth p (tshape k) 0 -> kept_at m (ins (p - 1) t j) = true ->
             (lo <= bget v (c :: ins (p - 1) t j) <= hi)%Q) ->
  (lo <= tat out (c :: j) <= hi)%Q.
Proof.
  intros Hexp Hatt Ha c j lo hi Hv [t0 [Ht0 Hk0]] Hr.
  rewrite (attend_cell _ _ _ _ _ _ _ _ _ _ Hatt Ha c j Hv).
  apply (wavg_range _ _ _ lo hi t0).
  - intros t _. unfold wfun. destruct (kept_at m (ins (p - 1) t j)); [apply Qlt_le_weak, Hexp|apply Qle_refl].
  - apply in_seq. lia.
  - unfold wfun. rewrite Hk0. apply Hexp.
  - intros t Ht Hpos. apply in_seq in Ht. apply Hr; [lia|].
    unfold wfun in Hpos. destruct (kept_at m (ins (p - 1) t j)); [reflexivity|]. exfalso. revert Hpos. apply Qlt_irrefl.
Qed.

(* ---------- blind to masked positions ------------------------------------------------------ *)
Lemma attention_blind_to_masked expf sc q k v k' v' m p qs ks out out' :
  attend expf sc q k v m p qs ks = Some out ->
  attend expf sc q k' v' m p qs ks = Some out' ->
  tshape k' = tshape k -> tshape v' = tshape v -> seq_agree k v p ->
  forall c j, valid (tshape out) (c :: j) ->
  (forall t, t < nth p (tshape k) 0 -> kept_at m (ins (p - 1) t j) = true ->
             brow k' (ins (p - 1) t j) = brow k (ins (p - 1) t j)
             /\ bget v' (c :: ins (p - 1) t j) = bget v (c :: ins (p - 1) t j)) ->
  (tat out' (c :: j) == tat out (c :: j))%Q.
Proof.
  intros Hatt Hatt' Hks Hvs Ha c j Hv Hsame.
  assert (Ha' : seq_agree k' v' p) by (unfold seq_agree in *; rewrite Hks, Hvs; exact Ha).
  assert (Hshape : tshape out' = tshape out).
  { destruct (attend_inv _ _ _ _ _ _ _ _ _ _ Hatt) as [es [ps [F ->]]].
    destruct (attend_inv _ _ _ _ _ _ _ _ _ _ Hatt') as [es' [ps' [F' ->]]].
    rewrite !memo_shape. cbn [tshape].
    pose proof (af_es _ _ _ _ _ _ _ F) as E1. pose proof (af_es _ _ _ _ _ _ _ F') as E2.
    rewrite Hks in E2. rewrite E1 in E2. injection E2 as <-.
    pose proof (af_ps _ _ _ _ _ _ _ F) as P1. pose proof (af_ps _ _ _ _ _ _ _ F') as P2.
    rewrite Hvs in P2. rewrite P1 in P2. injection P2 as <-. reflexivity. }
  assert (Hv' : valid (tshape out') (c :: j)) by (rewrite Hshape; exact Hv).
  rewrite (attend_cell _ _ _ _ _ _ _ _ _ _ Hatt' Ha' c j Hv').
  rewrite (attend_cell _ _ _ _ _ _ _ _ _ _ Hatt Ha c j Hv).
  rewrite Hks.
  assert (Hw : forall t, In t (seq 0 (nth p (tshape k) 0)) ->
                         wfun expf sc q k' m p j t = wfun expf sc q k m p j t).
  { intros t Ht. apply in_seq in Ht. unfold wfun.
    destruct (kept_at m (ins (p - 1) t j)) eqn:K; [|reflexivity].
    destruct (Hsame t ltac:(lia) K) as [Hk _]. unfold e_at. rewrite Hk. reflexivity. }
  apply wavg_ext.
  - intros t Ht. rewrite (Hw t Ht). reflexivity.
  - intros t Ht. rewrite (Hw t Ht). pose proof Ht as Ht2. apply in_seq in Ht2. unfold wfun.
    destruct (kept_at m (ins (p - 1) t j)) eqn:K; [|ring].
    destruct (Hsame t ltac:(lia) K) as [_ Hx]. rewrite Hx. reflexivity.
Qed.

(* ---------- consistent permutation of the sequence positions --------------------------------- *)
Lemma brow_unsq_ins q p j t t' :
  1 <= p -> p <= length (tshape q) -> p - 1 <= length j ->
  brow (unsq p q) (ins (p - 1) t j) = brow (unsq p q) (ins (p - 1) t' j).
Proof.
  intros Hp Hq Hj. unfold brow. apply map_ext. intros c. unfold bget. f_equal.
  rewrite unsq_shape.
  destruct p as [|pe]; [lia|]. replace (S pe - 1) with pe in * by lia.
  destruct (tshape q) as [|f s]; [cbn in Hq; lia|].
  rewrite ins_S. cbn [clamp]. f_equal.
  apply clamp_ins_one; [|exact Hj].
  unfold ins. rewrite app_nth2 by (rewrite firstn_length; cbn in Hq; lia).
  rewrite firstn_length. cbn in Hq. replace (pe - Nat.min pe (length s)) with 0 by lia. reflexivity.
Qed.

Definition mask_shape (m : option (tensor bool)) : option shape :=
  match m with None => None | Some mt => Some (tshape mt) end.

Lemma attention_permutation_invariant expf sc q k v m k' v' m' p qs ks out out' (sigma : nat -> nat) :
  attend expf sc q k v m p qs ks = Some out ->
  attend expf sc q k' v' m' p qs ks = Some out' ->
  tshape k' = tshape k -> tshape v' = tshape v -> mask_shape m' = mask_shape m -> seq_agree k v p ->
  Permutation (map sigma (seq 0 (nth p (tshape k) 0))) (seq 0 (nth p (tshape k) 0)) ->
  forall c j, valid (tshape out) (c :: j) ->
  (forall t, t < nth p (tshape k) 0 ->
             brow k' (ins (p - 1) t j) = brow k (ins (p - 1) (sigma t) j)
             /\ bget v' (c :: ins (p - 1) t j) = bget v (c :: ins (p - 1) (sigma t) j)
             /\ kept_at m' (ins (p - 1) t j) = kept_at m (ins (p - 1) (sigma t) j)) ->
  (tat out' (c :: j) == tat out (c :: j))%Q.
Proof.
  intros Hatt Hatt' Hks Hvs Hms Ha Hperm c j Hv Hsame.
  assert (Ha' : seq_agree k' v' p) by (unfold seq_agree in *; rewrite Hks, Hvs; exact Ha).
  destruct (attend_inv _ _ _ _ _ _ _ _ _ _ Hatt) as [es [ps [F Eo]]].
  destruct (attend_inv _ _ _ _ _ _ _ _ _ _ Hatt') as [es' [ps' [F' Eo']]].
  assert (Hshape : tshape out' = tshape out).
  { rewrite Eo, Eo', !memo_shape. cbn [tshape].
    pose proof (af_es _ _ _ _ _ _ _ F) as E1. pose proof (af_es _ _ _ _ _ _ _ F') as E2.
    rewrite Hks in E2. rewrite E1 in E2. injection E2 as <-.
    pose proof (af_ps _ _ _ _ _ _ _ F) as P1. pose proof (af_ps _ _ _ _ _ _ _ F') as P2.
    rewrite Hvs in P2. rewrite P1 in P2. injection P2 as <-. reflexivity. }
  assert (Hv' : valid (tshape out') (c :: j)) by (rewrite Hshape; exact Hv).
  rewrite (attend_cell _ _ _ _ _ _ _ _ _ _ Hatt' Ha' c j Hv').
  rewrite (attend_cell _ _ _ _ _ _ _ _ _ _ Hatt Ha c j Hv).
  rewrite Hks. set (T := nth p (tshape k) 0) in *.
  (* the length of j *)
  assert (Hj : p - 1 <= length j).
  { rewrite Eo, memo_shape in Hv. cbn [tshape] in Hv.
    assert (0 < nth p ps 0 \/ nth p ps 0 = 0) as [Hpos|Hz] by lia.
    - apply (f_valid_row _ _ _ _ _ _ _ F c j 0 Hv Hpos).
    - apply valid_length in Hv. rewrite del_length in Hv
        by (rewrite (f_ps_len _ _ _ _ _ _ _ F); apply (af_pk _ _ _ _ _ _ _ F)).
      rewrite (f_ps_len _ _ _ _ _ _ _ F) in Hv. pose proof (af_pk _ _ _ _ _ _ _ F). cbn in Hv. lia. }
  assert (Hq : forall t, brow (unsq p q) (ins (p - 1) t j) = brow (unsq p q) (ins (p - 1) (sigma t) j)).
  { intros t. apply brow_unsq_ins; [apply (af_p _ _ _ _ _ _ _ F)| |exact Hj].
    pose proof (af_qrank _ _ _ _ _ _ _ F). pose proof (af_pk _ _ _ _ _ _ _ F). lia. }
  transitivity (wavg (wfun expf sc q k m p j) (fun t => bget v (c :: ins (p - 1) t j)) (map sigma (seq 0 T)));
    [|apply wavg_perm; exact Hperm].
  transitivity (wavg (fun t => wfun expf sc q k m p j (sigma t))
                     (fun t => bget v (c :: ins (p - 1) (sigma t) j)) (seq 0 T));
    [|apply (wavg_map sigma (wfun expf sc q k m p j) (fun t => bget v (c :: ins (p - 1) t j)))].
  assert (Hw : forall t, In t (seq 0 T) -> wfun expf sc q k' m' p j t = wfun expf sc q k m p j (sigma t)).
  { intros t Ht. apply in_seq in Ht. destruct (Hsame t ltac:(lia)) as [Hk [_ Hm]].
    unfold wfun. rewrite Hm. destruct (kept_at m (ins (p - 1) (sigma t) j)); [|reflexivity].
    unfold e_at, qu. rewrite Hk, (Hq t). reflexivity. }
  apply wavg_ext.
  - intros t Ht. rewrite (Hw t Ht). reflexivity.
  - intros t Ht. rewrite (Hw t Ht). apply in_seq in Ht.
    destruct (Hsame t ltac:(lia)) as [_ [Hx _]]. rewrite Hx. reflexivity.
Qed.

(* ---------- the sequence dimension ----------------------------------------------------------- *)
(* a non-negative dim and its negative spelling address the same axis; every legal dim gives
   an r-position in [1, rank-1] *)
Lemma axis_pos_legal (dim : Z) (kr : nat) :
  (0 <= dim < Z.of_nat kr - 1)%Z ->
  axis_pos dim kr = Some (kr - 1 - Z.to_nat dim)
  /\ 1 <= kr - 1 - Z.to_nat dim < kr
  /\ ((1 <= dim)%Z -> axis_pos (dim - Z.of_nat kr) kr = axis_pos dim kr).
Proof.
  intros H. unfold axis_pos.
  assert (E1 : (dim <? 0)%Z = false) by (apply Z.ltb_ge; lia). rewrite E1.
  assert (E2 : ((1 - Z.of_nat kr <=? dim) && (0 <=? dim) && (dim <? Z.of_nat kr - 1))%Z = true).
  { rewrite !andb_true_iff. repeat split; [apply Z.leb_le|apply Z.leb_le|apply Z.ltb_lt]; lia. }
  rewrite E2. split; [reflexivity|]. split; [lia|].
  intros H1.
  assert (E3 : (dim - Z.of_nat kr <? 0)%Z = true) by (apply Z.ltb_lt; lia). rewrite E3.
  replace (dim - Z.of_nat kr + Z.of_nat kr)%Z with dim by lia.
  assert (E4 : ((1 - Z.of_nat kr <=? dim - Z.of_nat kr) && (0 <=? dim) && (dim <? Z.of_nat kr - 1))%Z = true).
  { rewrite !andb_true_iff. repeat split; [apply Z.leb_le|apply Z.leb_le|apply Z.ltb_lt]; lia. }
  rewrite E4. reflexivity.
Qed.

(* ---------- projections carry a bias exactly when one is given --------------------------------- *)
Lemma linear_bias_exact W t c i :
  (forall b, tat (linear W (Some b) t) (c :: i) = (tat (linear W None t) (c :: i) + nth c b 0%Q)%Q)
  /\ tat (linear W None t) (c :: i)
     = dotq (map (fun j => tat t (j :: i)) (seq 0 (hd 0 (tshape t)))) (nth c W []).
Proof. split; [intros b|]; reflexivity. Qed.

(* ---------- the oracle used by the correspondence meets the theorems' hypothesis -------------- *)
Lemma lookup_positive tbl :
  (forall kv, In kv tbl -> (0 < snd kv)%Q) -> forall x, (0 < lookup tbl x)%Q.
Proof.
  intros H x. unfold lookup.
  destruct (find (fun kv => near (Qred x) (fst kv)) tbl) as [kv|] eqn:E.
  - apply find_some in E. apply H, E.
  - reflexivity.
Qed.
