(* C12 — tie (part 3a: tactics and small facts shared by the files about the blocks of `_info_and_validate`;
   the [Arguments] directives are local and repeated at the top of each of those files) between the Python text of `_load_ref` / `_write_hyp` (src/pydrobert/torch/_datasets.py) and
   PV.C12.Model.load_ref / write_hyp, checked by the kernel.  PV.Gen.C12ValSrc.load_ref_body / write_hyp_body are the
   MiniPy terms harness/py2coq/translate.py regenerates from /repo on every run; PV.MiniPy.Interp is their
   semantics; the torch calls mean what PV.MiniTorch.OpsC12 says (through SrcRun.ext12).  If the source is edited
   so that the statements below stop being true, this file stops compiling and the C12 check reports the broken
   obligation. *)
From Coq Require Import ZArith QArith List String Bool Arith Lia ZifyBool.
From PV Require Import MiniPy.Syntax MiniPy.Interp MiniTorch.OpsC12 MiniTorch.LemmasC12 MiniTorch.LemmasC12V Gen.C12ValSrc.
From PV Require Import MiniPy.Lemmas C12.SrcRun C12.SrcRunV C12.TieLib C12.TieLibV.
From PV Require C12.Model.
Import ListNotations.
Local Open Scope string_scope.

#[local] Arguments enc12 : simpl never.
#[local] Arguments dec12 !v /.
#[local] Arguments T1 : simpl never.
#[local] Arguments T2 : simpl never.
#[local] Arguments NZ : simpl never.
#[local] Arguments new_full : simpl never.
#[local] Arguments cat : simpl never.
#[local] Arguments ndim : simpl never.
#[local] Arguments size : simpl never.
#[local] Arguments numel : simpl never.
#[local] Arguments select_col : simpl never.
#[local] Arguments set_item : simpl never.
#[local] Arguments get_item : simpl never.
#[local] Arguments item : simpl never.
#[local] Arguments unsqueeze : simpl never.
#[local] Arguments slice0 : simpl never.
#[local] Arguments nonzero : simpl never.
#[local] Arguments eq_scalar : simpl never.
#[local] Arguments cpu : simpl never.
#[local] Arguments long : simpl never.
#[local] Arguments then_ ext b !c st /.
#[local] Arguments exec : simpl never.
#[local] Arguments for_loop : simpl never.
#[local] Arguments q_cmp : simpl never.
#[local] Arguments fill_slice : simpl never.
#[local] Arguments set_row : simpl never.
#[local] Arguments rows_of : simpl never.
#[local] Arguments tolist2 : simpl never.
#[local] Arguments full_long : simpl never.
#[local] Arguments row3 : simpl never.
#[local] Arguments inject_Z : simpl never.
#[local] Arguments firstn : simpl never.
#[local] Arguments skipn : simpl never.
#[local] Arguments cmp_eval op !a !b /.
#[local] Arguments Z.of_nat : simpl never.
#[local] Arguments torch_module : simpl never.
#[local] Arguments store : simpl never.
#[local] Arguments set_var x v !st /.
#[local] Arguments ext12 env f !args kw st /.
#[local] Arguments bind {A B} !o f /.
#[local] Arguments Z.add : simpl never.
#[local] Arguments Z.sub : simpl never.
#[local] Arguments ds_obj : simpl never.
#[local] Arguments isinstance12 : simpl never.
#[local] Arguments instance_of : simpl never.
#[local] Arguments feat_tens : simpl never.

Lemma t_cuda_T1 : forall cu dt l, t_cuda (T1 cu dt l) = cu. Proof. reflexivity. Qed.
Lemma t_dtype_T1 : forall cu dt l, t_dtype (T1 cu dt l) = dt. Proof. reflexivity. Qed.
Lemma t_cuda_T2 : forall cu dt w r, t_cuda (T2 cu dt w r) = cu. Proof. reflexivity. Qed.
Lemma t_dtype_T2 : forall cu dt w r, t_dtype (T2 cu dt w r) = dt. Proof. reflexivity. Qed.
Lemma t_shape_T1 : forall cu dt l, t_shape (T1 cu dt l) = [List.length l]. Proof. reflexivity. Qed.
Lemma t_shape_T2 : forall cu dt w r, t_shape (T2 cu dt w r) = [List.length r; w]. Proof. reflexivity. Qed.
Lemma leb_0_of_nat : forall n, (0 <=? Z.of_nat n)%Z = true. Proof. intros. lia. Qed.

(* the list of utterance ids, kept folded; indexing it *)
Definition ids_val (ids : list string) : val := VList (map VStr ids).
#[local] Arguments ids_val : simpl never.
#[local] Arguments subscript !o !k st /.

Lemma subscript_ids : forall ids i id st, nth_error ids i = Some id ->
  subscript (ids_val ids) (VInt (Z.of_nat i)) st = Ok (VStr id) st.
Proof.
  intros ids i id st H. unfold subscript, ids_val.
  assert (Hi : (i < List.length ids)%nat) by (apply nth_error_Some; congruence).
  rewrite map_length. replace (Z.of_nat i <? 0)%Z with false by lia.
  replace ((0 <=? Z.of_nat i)%Z && (Z.of_nat i <? Z.of_nat (List.length ids))%Z)%bool with true by lia.
  rewrite Nat2Z.id. f_equal. rewrite (nth_indep _ VNone (VStr id)) by (rewrite map_length; exact Hi).
  rewrite map_nth. f_equal. now apply nth_error_nth.
Qed.

Lemma env_get : forall c d dsv i u st, nth_error d i = Some u ->
  env_ds c d "$method.get_utterance_tuple" [dsv; VInt (Z.of_nat i)] [] st = utt_tuple c u st.
Proof.
  intros c d dsv i u st H. unfold env_ds. cbn [is String.eqb Ascii.eqb Bool.eqb].
  replace (Z.of_nat i <? 0)%Z with false by lia. now rewrite Nat2Z.id, H.
Qed.
#[local] Arguments utt_tuple : simpl never.
#[local] Arguments env_ds : simpl never.

Lemma env_join : forall c d a b st, env_ds c d "os.path.join" [VStr a; VStr b] [] st = Ok (VStr (a ++ "/" ++ b)) st.
Proof. reflexivity. Qed.
Lemma method_ds_get : forall ids args, method (ds_obj ids) "get_utterance_tuple" args = None.
Proof. reflexivity. Qed.
Lemma ndim_mkT : forall cu dt sh da, ndim (mkT cu dt sh da) = List.length sh. Proof. reflexivity. Qed.

Section Attr.
  Variable ext : string -> list val -> list (string * val) -> state -> outcome val.
  Lemma attr_ds_data_dir : forall ids st, attribute ext (ds_obj ids) "data_dir" st = Ok (VStr "d") st. Proof. reflexivity. Qed.
  Lemma attr_ds_feat : forall ids st, attribute ext (ds_obj ids) "feat_subdir" st = Ok (VStr "feat") st. Proof. reflexivity. Qed.
  Lemma attr_ds_ali : forall ids st, attribute ext (ds_obj ids) "ali_subdir" st = Ok (VStr "ali") st. Proof. reflexivity. Qed.
  Lemma attr_ds_ref : forall ids st, attribute ext (ds_obj ids) "ref_subdir" st = Ok (VStr "ref") st. Proof. reflexivity. Qed.
  Lemma attr_ds_prefix : forall ids st, attribute ext (ds_obj ids) "file_prefix" st = Ok (VStr "") st. Proof. reflexivity. Qed.
  Lemma attr_ds_suffix : forall ids st, attribute ext (ds_obj ids) "file_suffix" st = Ok (VStr ".pt") st. Proof. reflexivity. Qed.
  Lemma attr_ds_ids : forall ids st, attribute ext (ds_obj ids) "utt_ids" st = Ok (ids_val ids) st. Proof. reflexivity. Qed.
  Lemma attr_torch_Tensor : forall st, attribute ext torch_module "Tensor" st = Ok (class_token "Tensor") st. Proof. reflexivity. Qed.
  Lemma attr_torch_Long : forall st, attribute ext torch_module "LongTensor" st = Ok (class_token "LongTensor") st. Proof. reflexivity. Qed.
  Lemma attr_torch_Byte : forall st, attribute ext torch_module "ByteTensor" st = Ok (class_token "ByteTensor") st. Proof. reflexivity. Qed.
  Lemma attr_torch_Char : forall st, attribute ext torch_module "CharTensor" st = Ok (class_token "CharTensor") st. Proof. reflexivity. Qed.
  Lemma attr_torch_Short : forall st, attribute ext torch_module "ShortTensor" st = Ok (class_token "ShortTensor") st. Proof. reflexivity. Qed.
  Lemma attr_torch_Int : forall st, attribute ext torch_module "IntTensor" st = Ok (class_token "IntTensor") st. Proof. reflexivity. Qed.
  Lemma attr_torch_long : forall st, attribute ext torch_module "long" st = Ok long_token st. Proof. reflexivity. Qed.
End Attr.
#[local] Arguments class_token : simpl never.

Lemma isinstance_Tensor : forall t, isinstance12 t (class_token "Tensor") = Some true.
Proof. reflexivity. Qed.
Lemma isinstance_Long : forall t, isinstance12 t (class_token "LongTensor") = Some (negb (t_cuda t) && Model.dtype_beq (t_dtype t) Model.DI64)%bool.
Proof. reflexivity. Qed.
Lemma isinstance_small : forall t,
  isinstance12 t (VTuple [class_token "ByteTensor"; class_token "CharTensor"; class_token "ShortTensor"; class_token "IntTensor"])
  = Some (negb (t_cuda t) && Model.upcastable (t_dtype t))%bool.
Proof. intros [cu dt sh d]. destruct cu, dt; reflexivity. Qed.

Ltac tstep :=
  cbn;
  change (Z.of_nat 3) with 3%Z; change (Z.of_nat 2) with 2%Z; change (Z.of_nat 1) with 1%Z; change (Z.of_nat 0) with 0%Z;
  change (Pos.to_nat 1) with 1%nat; change (Pos.to_nat 2) with 2%nat; change (Pos.to_nat 3) with 3%nat;
  rewrite ?method_enc12, ?attribute_enc12, ?foreign_enc12, ?subscript_enc12_int, ?subscript_enc12_tuple, ?isnot_none_enc12,
    ?is_none_enc12, ?dec12_enc12, ?on1_enc, ?ndim_T1, ?ndim_T2, ?size_T2_1, ?cat0_T1, ?cat0_T2,
    ?t_cuda_T1, ?t_dtype_T1, ?t_cuda_T2, ?t_dtype_T2, ?leb_0_of_nat, ?Nat2Z.id, ?select_col_T2_w0, ?set_item_T1_nil,
    ?cpu_T1, ?cpu_T2, ?long_T1, ?long_T2, ?eq_scalar_T1, ?nonzero_T1, ?numel_NZ, ?item_T1_1,
    ?get_item_NZ_first, ?get_item_NZ_last, ?of_nat_S_eqb_0, ?store_name,
    ?attr_ds_data_dir, ?attr_ds_feat, ?attr_ds_ali, ?attr_ds_ref, ?attr_ds_prefix, ?attr_ds_suffix, ?attr_ds_ids,
    ?attr_torch_Tensor, ?attr_torch_Long, ?attr_torch_Byte, ?attr_torch_Char, ?attr_torch_Short, ?attr_torch_Int, ?attr_torch_long,
    ?isinstance_Tensor, ?isinstance_Long, ?isinstance_small.

Ltac open_seq := rewrite exec_seq'; match goal with |- context [then_ _ ?b] => let r := fresh "rest" in remember b as r end.
Ltac norm_state := try unfold set_var; cbn [update vars events String.eqb Ascii.eqb Bool.eqb].
Ltac close_stmt := norm_state; rewrite then_normal; match goal with H : ?r = _ |- context [exec _ ?r _] => subst r end.
Ltac stmt := open_seq; repeat (progress tstep).



(* the redex in evaluation position: the head of the nested binds *)
Ltac head_redex t k := lazymatch t with bind ?o _ => head_redex o k | _ => k t end.

Ltac fix_head X :=
  first
  [ lazymatch X with context [dec12 (enc12 _)] => rewrite !dec12_enc12 end
  | lazymatch X with context [method (enc12 _) _ _] => rewrite method_enc12 end
  | lazymatch X with context [on1 _ (enc12 _) _ _] => rewrite on1_enc end
  | lazymatch X with context [attribute _ (enc12 _) _ _] => rewrite attribute_enc12 end
  | lazymatch X with context [attribute _ (ds_obj _) "data_dir" _] => rewrite attr_ds_data_dir end
  | lazymatch X with context [attribute _ (ds_obj _) "feat_subdir" _] => rewrite attr_ds_feat end
  | lazymatch X with context [attribute _ (ds_obj _) "ali_subdir" _] => rewrite attr_ds_ali end
  | lazymatch X with context [attribute _ (ds_obj _) "ref_subdir" _] => rewrite attr_ds_ref end
  | lazymatch X with context [attribute _ (ds_obj _) "file_prefix" _] => rewrite attr_ds_prefix end
  | lazymatch X with context [attribute _ (ds_obj _) "file_suffix" _] => rewrite attr_ds_suffix end
  | lazymatch X with context [attribute _ (ds_obj _) "utt_ids" _] => rewrite attr_ds_ids end
  | lazymatch X with context [attribute _ torch_module "Tensor" _] => rewrite attr_torch_Tensor end
  | lazymatch X with context [attribute _ torch_module "LongTensor" _] => rewrite attr_torch_Long end
  | lazymatch X with context [attribute _ torch_module "ByteTensor" _] => rewrite attr_torch_Byte end
  | lazymatch X with context [attribute _ torch_module "CharTensor" _] => rewrite attr_torch_Char end
  | lazymatch X with context [attribute _ torch_module "ShortTensor" _] => rewrite attr_torch_Short end
  | lazymatch X with context [attribute _ torch_module "IntTensor" _] => rewrite attr_torch_Int end
  | lazymatch X with context [attribute _ torch_module "long" _] => rewrite attr_torch_long end
  | lazymatch X with context [subscript (ids_val _) (VInt (Z.of_nat _)) _] => erewrite subscript_ids by eassumption end
  | lazymatch X with context [env_ds _ _ "$method.get_utterance_tuple" [_; VInt (Z.of_nat _)] [] _] => erewrite env_get by eassumption end
  | lazymatch X with context [env_ds _ _ "os.path.join" [VStr _; VStr _] [] _] => rewrite env_join end
  | lazymatch X with context [method (ds_obj _) "get_utterance_tuple" _] => rewrite method_ds_get end
  | lazymatch X with context [String.eqb (dtype_name _) (dtype_name _)] => rewrite !dtype_name_eqb end
  | lazymatch X with context [ndim (mkT _ _ _ _)] => rewrite !ndim_mkT end
  | lazymatch X with context [(Z.of_nat (S (S (S _))) =? 2)%Z] => rewrite !of_nat_SSS_eqb_2 end
  | lazymatch X with context [foreign (enc12 _)] => rewrite !foreign_enc12 end
  | lazymatch X with context [subscript (enc12 _) (VInt _) _] => rewrite subscript_enc12_int end
  | lazymatch X with context [subscript (enc12 _) (VTuple _) _] => rewrite subscript_enc12_tuple end
  | lazymatch X with context [cmp_eval IsNot (enc12 _) VNone] => rewrite isnot_none_enc12 end
  | lazymatch X with context [cmp_eval Is (enc12 _) VNone] => rewrite is_none_enc12 end
  | lazymatch X with context [isinstance12 _ (class_token "Tensor")] => rewrite isinstance_Tensor end
  | lazymatch X with context [isinstance12 _ (class_token "LongTensor")] => rewrite isinstance_Long end
  | lazymatch X with context [isinstance12 _ (VTuple _)] => rewrite isinstance_small end
  | lazymatch X with context [store _ (EName _) _ _] => rewrite store_name end
  | lazymatch X with context [store _ (ESub (EName _) _) _ _] => erewrite store_sub_enc12 by (cbn; reflexivity) end
  | lazymatch X with context [set_row (T2 _ _ _ _) (Z.of_nat _) (T1 _ _ _)] => rewrite set_row_T2 by (assumption || reflexivity) end
  | lazymatch X with context [ndim (T1 _ _ _)] => rewrite !ndim_T1 end
  | lazymatch X with context [ndim (T2 _ _ _ _)] => rewrite !ndim_T2 end
  | lazymatch X with context [size (T2 _ _ _ _) 1] => rewrite size_T2_1 end
  | lazymatch X with context [size (T2 _ _ _ _) 0] => rewrite size_T2_0 end
  | lazymatch X with context [size (T1 _ _ _) 0] => rewrite size_T1_0 end
  | lazymatch X with context [t_shape (T1 _ _ _)] => rewrite !t_shape_T1 end
  | lazymatch X with context [t_shape (T2 _ _ _ _)] => rewrite !t_shape_T2 end
  | lazymatch X with context [t_cuda (T1 _ _ _)] => rewrite !t_cuda_T1 end
  | lazymatch X with context [t_dtype (T1 _ _ _)] => rewrite !t_dtype_T1 end
  | lazymatch X with context [t_cuda (T2 _ _ _ _)] => rewrite !t_cuda_T2 end
  | lazymatch X with context [t_dtype (T2 _ _ _ _)] => rewrite !t_dtype_T2 end
  | lazymatch X with context [cpu (T1 _ _ _)] => rewrite !cpu_T1 end
  | lazymatch X with context [cpu (T2 _ _ _ _)] => rewrite !cpu_T2 end
  | lazymatch X with context [long (T1 _ _ _)] => rewrite !long_T1 end
  | lazymatch X with context [long (T2 _ _ _ _)] => rewrite !long_T2 end
  | lazymatch X with context [get_item (T1 _ _ [_; _; _]) 1] => rewrite !get_item_row_1 end
  | lazymatch X with context [get_item (T1 _ _ [_; _; _]) 2] => rewrite !get_item_row_2 end
  | lazymatch X with context [fill_slice (T1 _ _ [_; _; _]) (Some 1%Z) None (-1)] => rewrite fill_slice_row end
  | lazymatch X with context [set_item (T1 _ _ [_; _; _]) 2 _] => rewrite set_item_row_2 end
  | lazymatch X with context [q_cmp Lt (inject_Z _) (inject_Z _)] => rewrite !q_cmp_lt end
  | lazymatch X with context [q_cmp LtE (inject_Z _) (inject_Z _)] => rewrite !q_cmp_le end
  | lazymatch X with context [q_cmp Gt (inject_Z _) (inject_Z _)] => rewrite !q_cmp_gt end
  | lazymatch X with context [q_cmp GtE (inject_Z _) (inject_Z _)] => rewrite !q_cmp_ge end
  | lazymatch X with context [(Z.of_nat _ =? Z.of_nat _)%Z] => rewrite !of_nat_eqb end
  | lazymatch X with context [(0 <=? Z.of_nat _)%Z] => rewrite !leb_0_of_nat end
  | lazymatch X with context [Z.to_nat (Z.of_nat _)] => rewrite !Nat2Z.id end
  | lazymatch X with context [(Z.of_nat (S _) =? 0)%Z] => rewrite !of_nat_S_eqb_0 end
  | lazymatch X with context [Z.of_nat 0] => change (Z.of_nat 0) with 0%Z end
  | lazymatch X with context [Z.of_nat 1] => change (Z.of_nat 1) with 1%Z end
  | lazymatch X with context [Z.of_nat 2] => change (Z.of_nat 2) with 2%Z end
  | lazymatch X with context [Z.of_nat 3] => change (Z.of_nat 3) with 3%Z end
  | lazymatch X with context [Pos.to_nat 1] => change (Pos.to_nat 1) with 1%nat end
  | lazymatch X with context [Pos.to_nat 2] => change (Pos.to_nat 2) with 2%nat end
  | lazymatch X with context [Pos.to_nat 3] => change (Pos.to_nat 3) with 3%nat end ].

Ltac zconsts :=
  change (Z.of_nat 3) with 3%Z; change (Z.of_nat 2) with 2%Z; change (Z.of_nat 1) with 1%Z; change (Z.of_nat 0) with 0%Z;
  change (Pos.to_nat 1) with 1%nat; change (Pos.to_nat 2) with 2%nat; change (Pos.to_nat 3) with 3%nat.

(* one round: compute, then repair the redex in evaluation position *)
Ltac hstep := progress (cbn; try (match goal with |- ?L = _ => head_redex L ltac:(fun X => fix_head X) end)).
Ltac hrun := repeat hstep.

Ltac name_stmt t k :=
  let x := fresh "s" in let H := fresh "Hs" in
  assert (H : {x : stmt | x = t}) by (exists t; reflexivity); destruct H as [x H]; k x H.

Ltac exec1 :=
  match goal with |- ?L = _ => head_redex L ltac:(fun X =>
    lazymatch X with
    | exec ?ext (SSeq ?a ?b) ?st => name_stmt b ltac:(fun r Hr => rewrite (exec_seq_named ext a b st r Hr))
    | exec ?ext (SIf ?c ?t ?f) ?st =>
        name_stmt t ltac:(fun bt Ht => name_stmt f ltac:(fun bf Hf => rewrite (exec_if_named ext c t f st bt bf Ht Hf)))
    | exec ?ext (SAssign ?ts ?e) ?st => rewrite (exec_assign ext ts e st)
    | exec ?ext (SRaise ?x) ?st => rewrite (exec_raise ext x st)
    | exec ?ext SPass ?st => rewrite (exec_pass ext st)
    | exec ?ext (SExpr (ECall ?f ?a ?k)) ?st => rewrite (exec_expr_call ext f a k st)
    | exec _ ?r _ => is_var r; subst r
    end) end.
(* a folded statement in evaluation position: unfold its name *)
Ltac unfold_stmt :=
  match goal with
  | H : ?r = _ |- context [exec _ ?r _] => is_var r; subst r
  end.
(* after a test is decided: expose the chosen branch *)
Ltac pick := cbn [truthy negb andb orb].
(* a test in evaluation position that an earlier case analysis decided: rewrite it *)
Ltac decide_head :=
  match goal with |- ?L = _ => head_redex L ltac:(fun X =>
    lazymatch X with
    | if ?b then _ else _ =>
        repeat match goal with
               | H : ?x = true |- _ => lazymatch b with context [x] => rewrite H end
               | H : ?x = false |- _ => lazymatch b with context [x] => rewrite H end
               end
    end) end.
Ltac settle := hrun; repeat (progress decide_head; hrun).
Ltac xs := exec1; settle.
Ltac run := settle; repeat xs.

(* the variable store of the glue: parameters, torch, idx, the three state variables, the slots - in this order *)
Definition mkvars (ids : list string) (fx : option Z) (idx nf r2d fdt fn t1 feat ali ref wb prefix dir_ prefix_ msg t2 T F Tp
                   idx2 r tok start end_ : val) : list (string * val) :=
  [("data_set", ds_obj ids); ("info", VBool false); ("validate", VBool true); ("fix", oz fx);
   ("torch", torch_module); ("idx", idx);
   ("num_filts", nf); ("ref_is_2d", r2d); ("feat_dtype", fdt);
   ("fn", fn); ("$t1", t1); ("feat", feat); ("ali", ali); ("ref", ref); ("write_back", wb); ("prefix", prefix);
   ("dir_", dir_); ("prefix_", prefix_); ("msg", msg); ("$t2", t2); ("T", T); ("F", F); ("Tp", Tp);
   ("idx2", idx2); ("r", r); ("tok", tok); ("start", start); ("end", end_)].


(* ---- sub-statements of the generated terms, by position ---- *)
Fixpoint seq_nth (k : nat) (s : stmt) : stmt :=
  match k, s with
  | O, SSeq a _ => a
  | O, _ => s
  | S k', SSeq _ b => seq_nth k' b
  | S _, _ => SPass
  end.
Fixpoint seq_drop (k : nat) (s : stmt) : stmt :=
  match k, s with S k', SSeq _ b => seq_drop k' b | _, _ => s end.
Definition if_then (s : stmt) : stmt := match s with SIf _ t _ => t | _ => SPass end.
Definition if_else (s : stmt) : stmt := match s with SIf _ _ f => f | _ => SPass end.
Definition for_body (s : stmt) : stmt := match s with SFor _ _ b => b | _ => SPass end.

Ltac use L :=
  match goal with |- context [exec ?e ?s ?st] =>
    let H := fresh in eassert (H : exec e s st = _) by (apply L); rewrite H; clear H end.
Ltac usex L :=
  match goal with |- context [exec ?e ?s ?st] =>
    let H := fresh in let m := fresh "m" in
    (eassert (H : exists m, exec e s st = _) by (apply L)); destruct H as [m H]; rewrite H; clear H end.
Ltac done_exc := cbn; eexists; split; reflexivity.
Ltac xsc := match goal with |- context [exec ?ext (SSeq ?a ?b) ?st] => name_stmt b ltac:(fun r Hr => rewrite (exec_seq_named ext a b st r Hr)) end.
Ltac nxt := cbn [bind then_]; unfold_stmt; match goal with |- context [exec ?ext (SSeq ?a ?b) ?st] => name_stmt b ltac:(fun r Hr => rewrite (exec_seq_named ext a b st r Hr)) end.

Definition is_long (t : tens) : bool := (negb (t_cuda t) && Model.dtype_beq (t_dtype t) Model.DI64)%bool.
Definition is_small (t : tens) : bool := (negb (t_cuda t) && Model.upcastable (t_dtype t))%bool.

Lemma long_id : forall t, is_long t = true -> long t = t.
Proof. intros [cu dt sh da]. unfold is_long. cbn. destruct cu, dt; cbn; try discriminate; reflexivity. Qed.

