(* MiniTorch, unit C11Src - the meaning given to the torch operations that occur in
   `transcript_to_token` / `token_to_transcript` (src/pydrobert/torch/_parsing.py).  DEFINITIONS ONLY
   (the algebra is in LemmasC11.v).

   The two functions use LONG tensors of 0, 1 and 2 dimensions only, element by element:
       tok = torch.empty(size, dtype=torch.long);  tok[i] = v;  tok[i, j] = v;
       for tup in ref;  tup.ndim;  tup.numel();  tup[j];  tup.item()
   A tensor is its logical content (strides, memory layout, integer dtype are not modelled; integers are
   unbounded: int64 wrap-around is not modelled):
       T0 c        a 0-dimensional tensor
       T1 cells    shape (n,)
       T2 rows     shape (m, k): m rows of k cells each (all rows have the same length; a (0, k) tensor
                   is [T2 []]: the number of columns of a tensor without rows is not represented, nothing
                   in the tied code looks at it)
   A cell is [Some z] or [None] = never written: `torch.empty` "returns a tensor filled with
   uninitialized data"; reading such a cell with `item` is outside the modelled domain ([None] ->
   Stuck), so a run that ends Ok never depended on uninitialised memory.

   As a MiniPy value (see [enc]) a tensor is the (nested) TUPLE of its rows, a 0-dimensional tensor is
   its integer: `for tup in ref` and `tup[j]` then are MiniPy's own iteration / subscript of a tuple,
   which is what torch defines them to be ([unbind0], [select0] below state it); every other operation
   reaches the unit's [ext].

   Each definition quotes the sentence of the torch documentation (2.x) it models.  TRUSTED by the C11
   source tie; exercised on every run by the harness-side source run (torch vs the interpreted source). *)
From Coq Require Import List ZArith Bool.
Import ListNotations.
Local Open Scope Z_scope.

Definition cell := option Z.

Inductive ltens := T0 (c : cell) | T1 (cells : list cell) | T2 (rows : list (list cell)).

(* torch.empty(size, dtype=torch.long): "Returns a tensor filled with uninitialized data. The shape of the
   tensor is defined by the variable argument size."   Sizes (n,) and (m, k), non-negative. *)
Definition tempty (size : list Z) : option ltens :=
  match size with
  | [n] => if 0 <=? n then Some (T1 (repeat None (Z.to_nat n))) else None
  | [m; k] => if (0 <=? m) && (0 <=? k) then Some (T2 (repeat (repeat None (Z.to_nat k)) (Z.to_nat m))) else None
  | _ => None
  end.

(* Tensor.dim() / Tensor.ndim: "Returns the number of dimensions of self tensor." ("ndim: Alias for dim()") *)
Definition tndim (t : ltens) : Z := match t with T0 _ => 0 | T1 _ => 1 | T2 _ => 2 end.

(* Tensor.numel(): "Returns the total number of elements in the input tensor." *)
Definition tnumel (t : ltens) : Z :=
  match t with
  | T0 _ => 1
  | T1 l => Z.of_nat (length l)
  | T2 rows => Z.of_nat (length (concat rows))
  end.

(* Tensor.item(): "Returns the value of this tensor as a standard Python number. This only works for tensors
   with one element."  (ValueError otherwise: not modelled, [None]; an unwritten cell: [None]) *)
Definition titem (t : ltens) : option Z :=
  match t with
  | T0 c => c
  | T1 [c] => c
  | T2 [[c]] => c
  | _ => None
  end.

(* torch.unbind(input, dim=0): "Removes a tensor dimension. Returns a tuple of all slices along a given
   dimension, already without it."  Iterating over a tensor (`for tup in ref`) is iterating over unbind(0);
   a 0-dimensional tensor cannot be iterated (TypeError: not modelled, [None]). *)
Definition unbind0 (t : ltens) : option (list ltens) :=
  match t with
  | T0 _ => None
  | T1 l => Some (map T0 l)
  | T2 rows => Some (map T1 rows)
  end.

(* python index -> position, as for sequences: negative indices count from the end *)
Definition pos_of (i : Z) (n : nat) : option nat :=
  let j := if i <? 0 then i + Z.of_nat n else i in
  if (0 <=? j) && (j <? Z.of_nat n) then Some (Z.to_nat j) else None.

(* tensor[i], i an integer: torch.select(input, dim, index): "Slices the input tensor along the selected
   dimension at the given index. This function returns a view of the original tensor with the given dimension
   removed." / "select() is equivalent to slicing. For example, tensor.select(0, index) is equivalent to
   tensor[index]".  [None]: index out of range (IndexError) or a 0-dimensional tensor. *)
Definition select0 (t : ltens) (i : Z) : option ltens :=
  match unbind0 t with
  | Some rows => match pos_of i (length rows) with Some p => nth_error rows p | None => None end
  | None => None
  end.

Fixpoint set_nth {A} (l : list A) (p : nat) (x : A) : list A :=
  match l, p with
  | [], _ => []
  | _ :: r, O => x :: r
  | y :: r, S p' => y :: set_nth r p' x
  end.

(* tok[i] = v and tok[i, j] = v with v a Python number: "The contents of a tensor can be accessed and modified
   using Python's indexing and slicing notation" (torch.Tensor).  The element is replaced by the integer v
   (a Python float assigned into a long tensor is truncated toward zero - done by the caller, which passes
   the integer).  [None]: index out of range (IndexError), or an indexing form not modelled (tok[i] = number on
   a 2-dimensional tensor would broadcast over the row). *)
Definition set1 (t : ltens) (i : Z) (v : Z) : option ltens :=
  match t with
  | T1 l => match pos_of i (length l) with Some p => Some (T1 (set_nth l p (Some v))) | None => None end
  | _ => None
  end.

Definition set2 (t : ltens) (i j : Z) (v : Z) : option ltens :=
  match t with
  | T2 rows =>
      match pos_of i (length rows) with
      | Some p =>
          let row := nth p rows [] in
          match pos_of j (length row) with
          | Some q => Some (T2 (set_nth rows p (set_nth row q (Some v))))
          | None => None
          end
      | None => None
      end
  | _ => None
  end.
