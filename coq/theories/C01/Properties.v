(* C01 — Edit distance is the weighted Levenshtein distance, per pair and per prefix.
   Property theorems only: each is closed by [exact <lemma>] and followed by
   [Print Assumptions].  The harness re-checks this file on every run.

   Reading guide.  [cfg] holds eos / include_eos / norm / batch_first / the three costs /
   padding / exclude_last.  [seq_of bf n m] is sequence n of tensor m in the given layout
   (all of it: padding and post-eos garbage included); [denote eos incl] cuts it at the
   first eos (keeping that eos when it is counted and present).  Results are [Cost v]
   (v cost units), [Ratio v d] (v / d), [Lit z] (padding value; 0/1 convention for an empty
   reference).  No theorem needs the costs to be positive; the property's "positive costs"
   is a special case.  The batch dimension of the model is a map over columns. *)
From Coq Require Import List ZArith Bool Arith.
From PV Require Import C01.Obs C01.Spec C01.Model C01.LevFacts C01.Proofs.
Import ListNotations.
Local Open Scope Z_scope.

(* "the minimum total cost of insertions, deletions and substitutions that turn the
   reference into the hypothesis": [lev] is attained by a script and bounds every script *)
Theorem c01_lev_is_min_edit_cost : forall ci cd cs r h,
  min_edit_cost ci cd cs r h (lev ci cd cs r h).
Proof. exact lev_is_min_edit_cost. Qed.
Print Assumptions c01_lev_is_min_edit_cost.

Theorem c01_min_edit_cost_unique : forall ci cd cs r h v w,
  min_edit_cost ci cd cs r h v -> min_edit_cost ci cd cs r h w -> v = w.
Proof. exact min_edit_cost_unique. Qed.
Print Assumptions c01_min_edit_cost_unique.

(* mechanism 1: the fold through the lower-triangular deletion matrix is the sequential
   sweep  v[i] := min(v[i], v[i-1] + d) *)
Theorem c01_del_fold_is_sweep : forall cd v, del_fold cd v = sweep cd v.
Proof. exact del_fold_is_sweep. Qed.
Print Assumptions c01_del_fold_is_sweep.

(* mechanism 1+2: while a pair is live (hyp_idx <= frozen = hyp_len, or hyp_len - 1 with
   exclude_last) entry i of the row after step j is lev on the prefixes - it depends on
   nothing beyond position i of the reference, which is why garbage is harmless *)
Theorem c01_row_invariant : forall ci cd cs r h hlen excl steps j i,
  (hlen <= length h)%nat -> (j <= steps)%nat -> (j <= frozen hlen excl)%nat ->
  (i <= length r)%nat ->
  nth i (nth j (all_rows ci cd cs r h hlen excl steps) []) 0
  = lev ci cd cs (firstn i r) (firstn j h).
Proof. exact row_invariant. Qed.
Print Assumptions c01_row_invariant.

(* mechanism 2: finished rows are frozen *)
Theorem c01_rows_freeze : forall ci cd cs r h hlen excl steps j,
  (hlen <= length h)%nat -> (j <= steps)%nat -> (frozen hlen excl <= j)%nat ->
  nth j (all_rows ci cd cs r h hlen excl steps) [] = lrow ci cd cs r h (frozen hlen excl).
Proof. exact rows_freeze. Qed.
Print Assumptions c01_rows_freeze.

(* mechanism 2: the length arithmetic (first eos, +1 for include_eos, -1 when there is no
   eos) cuts each column exactly where the property says *)
Theorem c01_eff_len_cuts_at_eos : forall eos incl l,
  firstn (eff_len eos incl l) l = denote eos incl l.
Proof. exact firstn_eff_len. Qed.
Print Assumptions c01_eff_len_cuts_at_eos.

(* mechanism 3: the uniform-cost shortcut *)
Theorem c01_uniform_cost_shortcut : forall c, 0 <= c ->
  forall r h, lev c c c r h = c * lev 1 1 1 r h.
Proof. exact lev_scale. Qed.
Print Assumptions c01_uniform_cost_shortcut.

Theorem c01_shortcut_harmless : forall i d s m a b c r h,
  eff_costs i d s = (m, (a, b, c)) -> lev a b c r h * m = lev i d s r h.
Proof. exact eff_costs_lev. Qed.
Print Assumptions c01_shortcut_harmless.

(* "the edit distance reported for each pair equals the minimum total cost ..." - any
   lengths, any eos placement, either layout, eos counted or not, any costs *)
Theorem c01_edit_distance_correct : forall c N ref hyp n,
  (n < N)%nat -> wf_tensor (c_bf c) N ref -> wf_tensor (c_bf c) N hyp -> c_norm c = false ->
  exists v,
    nth n (edit_distance c N ref hyp) (Lit 0) = Cost v
    /\ v = lev (c_ins c) (c_del c) (c_sub c)
             (denote (c_eos c) (c_incl c) (seq_of (c_bf c) n ref))
             (denote (c_eos c) (c_incl c) (seq_of (c_bf c) n hyp))
    /\ min_edit_cost (c_ins c) (c_del c) (c_sub c)
         (denote (c_eos c) (c_incl c) (seq_of (c_bf c) n ref))
         (denote (c_eos c) (c_incl c) (seq_of (c_bf c) n hyp)) v.
Proof. exact edit_distance_correct. Qed.
Print Assumptions c01_edit_distance_correct.

(* "... divided by the reference length when normalisation is requested" (and the
   documented 0/1 convention when that length is zero) *)
Theorem c01_edit_distance_norm : forall c N ref hyp n,
  (n < N)%nat -> wf_tensor (c_bf c) N ref -> wf_tensor (c_bf c) N hyp -> c_norm c = true ->
  nth n (edit_distance c N ref hyp) (Lit 0)
  = match length (denote (c_eos c) (c_incl c) (seq_of (c_bf c) n ref)) with
    | O => Lit (if (0 <? length (denote (c_eos c) (c_incl c) (seq_of (c_bf c) n hyp)))%nat
                then 1 else 0)
    | S _ => Ratio (lev (c_ins c) (c_del c) (c_sub c)
                      (denote (c_eos c) (c_incl c) (seq_of (c_bf c) n ref))
                      (denote (c_eos c) (c_incl c) (seq_of (c_bf c) n hyp)))
                   (length (denote (c_eos c) (c_incl c) (seq_of (c_bf c) n ref)))
    end.
Proof. exact edit_distance_norm. Qed.
Print Assumptions c01_edit_distance_norm.

(* "The per-prefix variant reports that same quantity for every prefix of the hypothesis
   (the full one omitted on request) and the padding value at positions past the
   hypothesis's own length" - every entry of the table, both layouts, norm or not *)
Theorem c01_prefix_edit_distances_correct : forall c N ref hyp n k,
  (n < N)%nat -> wf_tensor (c_bf c) N ref -> wf_tensor (c_bf c) N hyp ->
  (k < time_len (c_bf c) hyp + (if c_excl c then 0 else 1))%nat ->
  entry (c_bf c) k n (prefix_edit_distances c N ref hyp)
  = if (k <? length (denote (c_eos c) (c_incl c) (seq_of (c_bf c) n hyp))
             + (if c_excl c then 0 else 1))%nat
    then spec_value (c_norm c) (c_ins c) (c_del c) (c_sub c)
           (denote (c_eos c) (c_incl c) (seq_of (c_bf c) n ref))
           (firstn k (denote (c_eos c) (c_incl c) (seq_of (c_bf c) n hyp)))
    else Lit (c_pad c).
Proof. exact prefix_edit_distances_correct. Qed.
Print Assumptions c01_prefix_edit_distances_correct.

Theorem c01_prefix_edit_distances_cost : forall c N ref hyp n k,
  (n < N)%nat -> wf_tensor (c_bf c) N ref -> wf_tensor (c_bf c) N hyp ->
  (k < time_len (c_bf c) hyp + (if c_excl c then 0 else 1))%nat ->
  c_norm c = false ->
  (k < length (denote (c_eos c) (c_incl c) (seq_of (c_bf c) n hyp))
       + (if c_excl c then 0 else 1))%nat ->
  entry (c_bf c) k n (prefix_edit_distances c N ref hyp)
  = Cost (lev (c_ins c) (c_del c) (c_sub c)
            (denote (c_eos c) (c_incl c) (seq_of (c_bf c) n ref))
            (firstn k (denote (c_eos c) (c_incl c) (seq_of (c_bf c) n hyp))))
  /\ min_edit_cost (c_ins c) (c_del c) (c_sub c)
       (denote (c_eos c) (c_incl c) (seq_of (c_bf c) n ref))
       (firstn k (denote (c_eos c) (c_incl c) (seq_of (c_bf c) n hyp)))
       (lev (c_ins c) (c_del c) (c_sub c)
            (denote (c_eos c) (c_incl c) (seq_of (c_bf c) n ref))
            (firstn k (denote (c_eos c) (c_incl c) (seq_of (c_bf c) n hyp)))).
Proof. exact prefix_edit_distances_cost. Qed.
Print Assumptions c01_prefix_edit_distances_cost.

Theorem c01_prefix_edit_distances_padding : forall c N ref hyp n k,
  (n < N)%nat -> wf_tensor (c_bf c) N ref -> wf_tensor (c_bf c) N hyp ->
  (k < time_len (c_bf c) hyp + (if c_excl c then 0 else 1))%nat ->
  (length (denote (c_eos c) (c_incl c) (seq_of (c_bf c) n hyp))
     + (if c_excl c then 0 else 1) <= k)%nat ->
  entry (c_bf c) k n (prefix_edit_distances c N ref hyp) = Lit (c_pad c).
Proof. exact prefix_edit_distances_padding. Qed.
Print Assumptions c01_prefix_edit_distances_padding.

(* "A pair's result never depends on ... tokens after its end-of-sequence" *)
Theorem c01_garbage_is_cut : forall e incl body g, ~ In e body ->
  denote (Some e) incl (body ++ e :: g) = body ++ (if incl then [e] else []).
Proof. exact denote_garbage. Qed.
Print Assumptions c01_garbage_is_cut.

Theorem c01_post_eos_irrelevant : forall c r r' h h',
  denote (c_eos c) (c_incl c) r = denote (c_eos c) (c_incl c) r' ->
  denote (c_eos c) (c_incl c) h = denote (c_eos c) (c_incl c) h' ->
  pair_ed c r h = pair_ed c r' h'.
Proof. exact pair_ed_post_eos. Qed.
Print Assumptions c01_post_eos_irrelevant.

Theorem c01_post_eos_irrelevant_prefix : forall c r r' h h',
  denote (c_eos c) (c_incl c) r = denote (c_eos c) (c_incl c) r' ->
  denote (c_eos c) (c_incl c) h = denote (c_eos c) (c_incl c) h' ->
  length h = length h' ->
  pair_prefix c r h = pair_prefix c r' h'.
Proof. exact pair_prefix_post_eos. Qed.
Print Assumptions c01_post_eos_irrelevant_prefix.

(* "... never depends on the other pairs in the batch" (true of the model by construction:
   its batch is a map over columns; for the vectorised code this is what the
   correspondence and the single-column metamorphic relation check) *)
Theorem c01_batch_pointwise : forall c N ref hyp n N' ref' hyp' n',
  (n < N)%nat -> wf_tensor (c_bf c) N ref -> wf_tensor (c_bf c) N hyp ->
  (n' < N')%nat -> wf_tensor (c_bf c) N' ref' -> wf_tensor (c_bf c) N' hyp' ->
  denote (c_eos c) (c_incl c) (seq_of (c_bf c) n ref)
    = denote (c_eos c) (c_incl c) (seq_of (c_bf c) n' ref') ->
  denote (c_eos c) (c_incl c) (seq_of (c_bf c) n hyp)
    = denote (c_eos c) (c_incl c) (seq_of (c_bf c) n' hyp') ->
  nth n (edit_distance c N ref hyp) (Lit 0) = nth n' (edit_distance c N' ref' hyp') (Lit 0).
Proof. exact batch_pointwise. Qed.
Print Assumptions c01_batch_pointwise.

Theorem c01_batch_pointwise_prefix : forall c N ref hyp n N' ref' hyp' n' k,
  (n < N)%nat -> wf_tensor (c_bf c) N ref -> wf_tensor (c_bf c) N hyp ->
  (n' < N')%nat -> wf_tensor (c_bf c) N' ref' -> wf_tensor (c_bf c) N' hyp' ->
  (k < time_len (c_bf c) hyp + (if c_excl c then 0 else 1))%nat ->
  (k < time_len (c_bf c) hyp' + (if c_excl c then 0 else 1))%nat ->
  denote (c_eos c) (c_incl c) (seq_of (c_bf c) n ref)
    = denote (c_eos c) (c_incl c) (seq_of (c_bf c) n' ref') ->
  denote (c_eos c) (c_incl c) (seq_of (c_bf c) n hyp)
    = denote (c_eos c) (c_incl c) (seq_of (c_bf c) n' hyp') ->
  entry (c_bf c) k n (prefix_edit_distances c N ref hyp)
  = entry (c_bf c) k n' (prefix_edit_distances c N' ref' hyp').
Proof. exact batch_pointwise_prefix. Qed.
Print Assumptions c01_batch_pointwise_prefix.

(* non-vacuity: a ragged batch-first batch of three pairs with eos = 9 - eos at position 0
   (empty reference), garbage after eos, a hypothesis without eos - unequal costs
   (1/2, 1, 3/2 in quarter units), include_eos, exclude_last; the hypotheses of the
   theorems hold and the table is what they say *)
Example c01_nonvacuous :
  let c := mkCfg (Some 9) true false true 2 4 6 (-100) true in
  let ref := [[1; 2; 9; 5]; [9; 1; 1; 9]; [3; 3; 3; 3]] in
  let hyp := [[1; 9; 7]; [2; 2; 2]; [3; 9; 9]] in
  wf_tensor (c_bf c) 3 ref /\ wf_tensor (c_bf c) 3 hyp
  /\ denote (c_eos c) (c_incl c) (seq_of true 0 ref) = [1; 2; 9]
  /\ denote (c_eos c) (c_incl c) (seq_of true 1 ref) = [9]
  /\ denote (c_eos c) (c_incl c) (seq_of true 1 hyp) = [2; 2; 2]
  /\ prefix_edit_distances c 3 ref hyp
     = [[Cost 12; Cost 8; Lit (-100)]; [Cost 4; Cost 6; Cost 8]; [Cost 16; Cost 12; Lit (-100)]]
  /\ edit_distance (mkCfg (Some 9) true true true 2 4 6 0 false) 3 ref hyp
     = [Ratio 4 3; Ratio 10 1; Ratio 14 4].
Proof.
  cbv zeta.
  split; [split; [reflexivity|exists 4%nat; intros row [<-|[<-|[<-|[]]]]; reflexivity]|].
  split; [split; [reflexivity|exists 3%nat; intros row [<-|[<-|[<-|[]]]]; reflexivity]|].
  split; [reflexivity|]. split; [reflexivity|]. split; [reflexivity|].
  split; vm_compute; reflexivity.
Qed.
