(* C12 — Data-directory validation accepts exactly well-formed directories; fixes stick.
   Property theorems only: each is closed by [exact <lemma>] and followed by [Print Assumptions].
   Model.v = what /repo does (tied to it by harness/props/c12.py on every run);
   Spec.v  = the docstrings' conditions, repairs and statistics.

   Reading of the quantifier.  A directory is validated THROUGH a data set.  The theorems that say
   "exactly the documented repairs" hold for every data set that yields (feat, ali, ref) triples
   (suppress_alis = False, tokens_only = False: [plain_yield]) and either adds no sos/eos or is not
   asked to fix ([clean_writes]).  What happens outside those hypotheses is stated too, as
   [_refuted] witnesses (F9, F11 of notes/C12_report.md; F12, F13, F14 are repaired in /repo) and a characterisation (F10). *)
From Coq Require Import List ZArith Bool.
From PV Require Import C12.Model C12.Spec C12.Proofs C12.Proofs2 C12.Proofs3 C12.Proofs4.
Import ListNotations.
Local Open Scope Z_scope.

(* ---- "passes validation if and only if it meets the documented conditions" ---- *)

(* strict validation, any configured (non-negative) sos/eos *)
Theorem c12_strict_accepts_iff_wellformed : forall c d,
  plain_yield c -> syms_nonneg c -> tokens_nonneg d ->
  (validate c FNone d = (d, None) <-> WellFormed d).
Proof. exact strict_accepts_iff. Qed.
Print Assumptions c12_strict_accepts_iff_wellformed.

(* strict validation never writes, whatever the data set's options and whatever the outcome *)
Theorem c12_strict_never_writes : forall c d, fst (validate c FNone d) = d.
Proof. exact strict_never_writes. Qed.
Print Assumptions c12_strict_never_writes.

(* the boolean judge the harness applies to implementation outputs is the same predicate *)
Theorem c12_wellformedb_iff : forall d, wellformedb d = true <-> WellFormed d.
Proof. exact wellformedb_iff. Qed.
Print Assumptions c12_wellformedb_iff.

(* ---- "with a fix tolerance, exactly the documented small defects are repaired on disk ...
        while any other defect still raises" ---- *)

Theorem c12_fix_accepts_iff_repairable : forall c fa d,
  plain_yield c -> clean_writes c (tolerance fa) -> syms_nonneg c -> tokens_nonneg d ->
  ((exists d', validate c fa d = (d', None)) <-> WellFormed (repair (tolerance fa) d)).
Proof. exact validate_accepts_iff. Qed.
Print Assumptions c12_fix_accepts_iff_repairable.

Theorem c12_fix_result_is_repair : forall c fa d d',
  plain_yield c -> clean_writes c (tolerance fa) ->
  validate c fa d = (d', None) -> d' = repair (tolerance fa) d /\ WellFormed d'.
Proof. exact validate_result. Qed.
Print Assumptions c12_fix_result_is_repair.

(* "nothing else": a tensor that meets the conditions is the same after [repair] *)
Theorem c12_repair_changes_only_defects : forall k F dt d2 u, utt_ok F dt d2 u -> repair_utt k u = u.
Proof. exact repair_utt_ok. Qed.
Print Assumptions c12_repair_changes_only_defects.

Theorem c12_repair_fixes_valid_directory : forall fx d, WellFormed d -> repair fx d = d.
Proof. exact repair_wf_id. Qed.
Print Assumptions c12_repair_fixes_valid_directory.

(* when validation raises, every stored tensor is either untouched or its documented repair *)
Theorem c12_fix_error_partial : forall c fa d d' e,
  plain_yield c -> clean_writes c (tolerance fa) ->
  validate c fa d = (d', Some e) -> Forall2 (utt_partial (tolerance fa)) d d'.
Proof. exact validate_error_partial. Qed.
Print Assumptions c12_fix_error_partial.

(* ---- "a second, strict validation then passes"; idempotence; histories ---- *)

(* after an accepted validate/fix, every later validation of the same directory - strict or with any
   tolerance - returns and leaves the files as they are *)
Theorem c12_fix_then_strict_passes : forall c fa d d',
  plain_yield c -> clean_writes c (tolerance fa) -> syms_nonneg c -> tokens_nonneg d ->
  validate c fa d = (d', None) ->
  forall fa', clean_writes c (tolerance fa') -> validate c fa' d' = (d', None).
Proof. exact fix_then_strict. Qed.
Print Assumptions c12_fix_then_strict_passes.

(* a valid directory is never touched: any tolerance, any (non-negative) sos/eos on the data set *)
Theorem c12_valid_never_touched : forall c fa d,
  plain_yield c -> syms_nonneg c -> tokens_nonneg d -> WellFormed d -> validate c fa d = (d, None).
Proof. exact valid_never_touched. Qed.
Print Assumptions c12_valid_never_touched.

(* ---- "tolerance k repairs exactly overshoots <= k" ---- *)

Theorem c12_tolerance_exact_ali : forall c k T F dt v,
  plain_yield c -> no_syms c ->
  let d := [mkUtt (mkFeat false dt [T; F]) (Some (mkAli false DI64 (A1 v))) None] in
  ((exists d', validate c (FInt k) d = (d', None))
   <-> (length v = T \/ (Z.of_nat T < Z.of_nat (length v) <= Z.of_nat T + k)))
  /\ (forall d', validate c (FInt k) d = (d', None) ->
      d' = [mkUtt (mkFeat false dt [T; F]) (Some (mkAli false DI64 (A1 (firstn T v)))) None]).
Proof. exact tolerance_exact_ali. Qed.
Print Assumptions c12_tolerance_exact_ali.

Theorem c12_tolerance_exact_ref : forall c k T F dt tok s e,
  plain_yield c -> no_syms c -> 0 <= tok -> 0 <= s <= e ->
  let d := [mkUtt (mkFeat false dt [T; F]) None (Some (mkRef false DI64 (R2 [(tok, s, e)])))] in
  ((exists d', validate c (FInt k) d = (d', None))
   <-> (e <= Z.of_nat T \/ (s <= Z.of_nat T /\ e <= Z.of_nat T + k)))
  /\ (forall d', validate c (FInt k) d = (d', None) ->
      d' = [mkUtt (mkFeat false dt [T; F]) None (Some (mkRef false DI64 (R2 [(tok, s, Z.min e (Z.of_nat T))])))]).
Proof. exact tolerance_exact_ref. Qed.
Print Assumptions c12_tolerance_exact_ref.

(* ---- outside the hypotheses above: what the code does with other data-set options ---- *)

(* F9 - fixing through a data set with sos/eos: the symbols are written to disk *)
Theorem c12_fix_with_symbols_refuted :
  exists c d d', plain_yield c /\ syms_nonneg c /\ tokens_nonneg d /\
    validate c (FInt 1) d = (d', None) /\ d' <> repair (Some 1) d /\
    (exists r lr, nth_error d' 0 = Some (mkUtt w_feat None (Some r)) /\ load_ref c r = inr lr /\
                  r_data lr = R2 [(7, -1, -1); (7, -1, -1); (1, 0, 3)]).
Proof. exact fix_with_symbols_refuted. Qed.
Print Assumptions c12_fix_with_symbols_refuted.

(* F10 - suppress_alis=True: every non-empty directory raises *)
Theorem c12_suppress_alis_characterised : forall c fa u d,
  c_suppress_alis c = true -> exists e, validate c fa (u :: d) = (u :: d, Some e).
Proof. exact suppress_alis_rejects. Qed.
Print Assumptions c12_suppress_alis_characterised.

(* F11 - tokens_only=True: invalid boundaries pass and a fix overwrites the (R,3) file by its tokens *)
Theorem c12_tokens_only_refuted :
  exists c d d', c_tokens_only c = true /\ tokens_nonneg d /\
    ~ WellFormed (repair (Some 0) d) /\
    validate c (FInt 0) d = (d', None) /\
    d' = [mkUtt w_feat None (Some (mkRef false DI64 (R1 [1])))].
Proof. exact tokens_only_refuted. Qed.
Print Assumptions c12_tokens_only_refuted.

(* ---- the second entry point: get-torch-spect-data-dir-info [--strict | --fix N] ---- *)

(* with --strict or --fix N (any N): the same files afterwards and the same raise/return as
   validate_spect_data_set on a plain data set (so every theorem above transfers) *)
Theorem c12_cli_like_validate : forall strict fx d,
  cli_validates strict fx = true -> classes_nonneg d ->
  cli_info strict fx d
  = (fst (validate cfg_plain (fixarg_of fx) d),
     match snd (validate cfg_plain (fixarg_of fx) d) with
     | Some e => inl e
     | None => inr (finish (length d) (fold_left info_upd (fst (validate cfg_plain (fixarg_of fx) d)) acc0))
     end).
Proof. exact cli_like_validate. Qed.
Print Assumptions c12_cli_like_validate.

(* every --fix N validates, N = 0 included (F12, repaired in /repo 0bbdd7f), so the theorem above covers it *)
Theorem c12_cli_fix_always_validates : forall strict k, cli_validates strict (Some k) = true.
Proof. exact cli_fix_validates. Qed.
Print Assumptions c12_cli_fix_always_validates.

(* the former F12 input: --fix 0 now repairs what needs no cropping, as validate(ds, 0) does *)
Theorem c12_cli_fix0_repairs :
  exists p, ~ WellFormed w_f12_dir /\ WellFormed (repair (Some 0) w_f12_dir) /\
    cli_info false (Some 0) w_f12_dir = (repair (Some 0) w_f12_dir, inr p) /\
    validate cfg_plain (FInt 0) w_f12_dir = (repair (Some 0) w_f12_dir, None).
Proof. exact cli_fix0_repairs. Qed.
Print Assumptions c12_cli_fix0_repairs.

(* without any flag nothing is ever written *)
Theorem c12_cli_unvalidated_never_writes : forall strict fx d,
  cli_validates strict fx = false -> fst (cli_info strict fx d) = d.
Proof. exact cli_unvalidated_never_writes. Qed.
Print Assumptions c12_cli_unvalidated_never_writes.

(* ---- "the directory statistics report is the recount of the stored tensors" ----
   Full statement (the two deviations F13/F14 were repaired in /repo 9974b4d, 518042e and the model follows the
   repaired code): on every valid directory, whatever the flags, nothing changes and the report is the recount. *)
Theorem c12_info_is_recount : forall strict fx d,
  WellFormed d -> tokens_nonneg d -> classes_nonneg d ->
  cli_info strict fx d = (d, inr (recount d)).
Proof. exact cli_report_on_valid. Qed.
Print Assumptions c12_info_is_recount.

(* and after a repair: the report is the recount of the repaired files *)
Theorem c12_info_after_fix_is_recount : forall strict fx d,
  cli_validates strict fx = true -> tokens_nonneg d -> classes_nonneg d ->
  WellFormed (repair fx d) ->
  cli_info strict fx d = (repair fx d, inr (recount (repair fx d))).
Proof. exact cli_report_after_fix. Qed.
Print Assumptions c12_info_after_fix_is_recount.

(* ---- "reading a reference puts the configured start and end symbols around every transcript,
        an empty one included" ---- *)

Theorem c12_sos_eos_wrap_1d : forall c cu dt t, c_tokens_only c = false ->
  load_ref c (mkRef cu dt (R1 t)) = inr (mkRef cu dt (R1 (wrap (c_sos c) (c_eos c) t))).
Proof. exact load_ref_1d. Qed.
Print Assumptions c12_sos_eos_wrap_1d.

Theorem c12_sos_eos_wrap_2d : forall c cu dt rows, c_tokens_only c = false -> dt <> DU8 ->
  load_ref c (mkRef cu dt (R2 rows))
  = inr (mkRef cu dt (R2 (wrap (option_map sym_of (c_sos c)) (option_map sym_of (c_eos c)) rows))).
Proof. exact load_ref_2d. Qed.
Print Assumptions c12_sos_eos_wrap_2d.

Theorem c12_sos_eos_wrap_tokens_only : forall c cu dt rows, c_tokens_only c = true ->
  load_ref c (mkRef cu dt (R2 rows))
  = inr (mkRef cu dt (R1 (wrap (c_sos c) (c_eos c) (map tok_of rows)))).
Proof. exact load_ref_tokens_only. Qed.
Print Assumptions c12_sos_eos_wrap_tokens_only.

(* ---- "writing a hypothesis strips them again, so loading what was written returns the bare tokens" ---- *)

Theorem c12_strip_wrap_roundtrip_1d : forall sos eos t,
  free_of sos t -> free_of eos t -> (forall s e, sos = Some s -> eos = Some e -> s <> e) ->
  write_hyp sos eos (R1 (wrap sos eos t)) = R1 t.
Proof. exact roundtrip_1d. Qed.
Print Assumptions c12_strip_wrap_roundtrip_1d.

Theorem c12_strip_wrap_roundtrip_2d : forall sos eos rows,
  free_of sos (map tok_of rows) -> free_of eos (map tok_of rows) ->
  (forall s e, sos = Some s -> eos = Some e -> s <> e) ->
  write_hyp sos eos (R2 (wrap (option_map sym_of sos) (option_map sym_of eos) rows)) = R2 rows.
Proof. exact roundtrip_2d. Qed.
Print Assumptions c12_strip_wrap_roundtrip_2d.

(* the hypothesis sos <> eos is needed: with one symbol for both ends the stored hypothesis is empty *)
Theorem c12_strip_wrap_same_symbol_refuted :
  write_hyp (Some 5) (Some 5) (R1 (wrap (Some 5) (Some 5) [1; 2])) = R1 [].
Proof. exact roundtrip_same_symbol_fails. Qed.
Print Assumptions c12_strip_wrap_same_symbol_refuted.

(* whatever is passed: what is stored is a contiguous piece of it and contains neither symbol *)
Theorem c12_write_hyp_strips : forall (sos eos : option Z) (l : list Z),
  (exists pre post, l = pre ++ strip_hyp (fun x => x) sos eos l ++ post) /\
  (forall s, sos = Some s -> Forall (fun x => x <> s) (strip_hyp (fun x => x) sos eos l)) /\
  (forall e, eos = Some e -> Forall (fun x => x <> e) (strip_hyp (fun x => x) sos eos l)).
Proof.
  exact (fun sos eos l => conj (strip_infix (fun x => x) sos eos l) (strip_free (fun x => x) sos eos l)).
Qed.
Print Assumptions c12_write_hyp_strips.

(* ---- non-vacuity: a concrete directory with four kinds of defects is repaired by tolerance 1,
        not by tolerance 0, and stays fixed ---- *)
Example c12_nonvacuous :
  let f := mkFeat false DF32 [3%nat; 2%nat] in
  let d := [mkUtt f (Some (mkAli false DI32 (A1 [0; 0; 1; 1]))) (Some (mkRef false DI64 (R2 [(1, 0, 4); (2, -1, 3)])));
            mkUtt f (Some (mkAli false DI64 (A1 [2; 2; 2]))) (Some (mkRef false DU8 (R2 [(0, 1, 1)])))] in
  let d' := [mkUtt f (Some (mkAli false DI64 (A1 [0; 0; 1]))) (Some (mkRef false DI64 (R2 [(1, 0, 3); (2, -1, -1)])));
             mkUtt f (Some (mkAli false DI64 (A1 [2; 2; 2]))) (Some (mkRef false DI64 (R2 [(0, 1, 1)])))] in
  plain_yield cfg_plain /\ clean_writes cfg_plain (Some 1) /\ syms_nonneg cfg_plain /\ tokens_nonnegb d = true /\
  wellformedb d = false /\ validate cfg_plain (FInt 1) d = (d', None) /\ d' = repair (Some 1) d /\
  wellformedb d' = true /\ validate cfg_plain FNone d' = (d', None) /\
  (exists d0, validate cfg_plain (FInt 0) d = (d0, Some ValueErr)) /\
  validate cfg_plain FNone d = (d, Some ValueErr).
Proof.
  cbv zeta. repeat split; try reflexivity; try (intros s H; discriminate H).
  - right. split; reflexivity.
  - eexists. reflexivity.
Qed.

(* non-vacuity of the statistics theorem: a two-utterance directory whose report has every kind of entry *)
Example c12_report_nonvacuous :
  let f := mkFeat false DF32 [4%nat; 2%nat] in
  let d := [mkUtt f (Some (mkAli false DI64 (A1 [0; 0; 2; 0]))) (Some (mkRef false DI64 (R2 [(1, 0, 2); (0, -1, -1); (1, 3, 3)])));
            mkUtt f (Some (mkAli false DI64 (A1 [2; 2; 2; 2]))) (Some (mkRef false DI64 (R2 [])))] in
  let e := [mkUtt f None (Some (mkRef false DI64 (R1 [])))] in
  wellformedb d = true /\ tokens_nonnegb d = true /\ classes_nonnegb d = true /\
  cli_info false None d
  = (d, inr (mkReport 2 8 (Some 2) 2 1 3 [(3, 2); (0, 0); (5, 2)] [(-1, 1); (2, 2)])) /\
  recount d = mkReport 2 8 (Some 2) 2 1 3 [(3, 2); (0, 0); (5, 2)] [(-1, 1); (2, 2)] /\
  (* ref/ with only an empty transcript: 0 tokens, not "unavailable" *)
  cli_info true None e = (e, inr (mkReport 1 4 (Some 2) (-1) (-1) 0 [] [])).
Proof. cbv zeta. repeat split; reflexivity. Qed.

(* ============================================================================================================
   SOURCE TIE (notes/C12_tie_report.md).  PV.Gen.C12Src.* are the MiniPy terms harness/py2coq/translate.py regenerates
   from /repo/src/pydrobert/torch/_datasets.py on every run; PV.MiniPy.Interp is their semantics; the torch calls
   mean what PV.MiniTorch.OpsC12 says (through C12.SrcRun.ext12).  Hypotheses: [ref_shape_ok] (a stored reference is
   a tensor: rows of its width, "other" = not 1-/2-D) and [sym_ok] (sos/eos fit the reference's dtype - the limit
   Model.v documents: new_full overflow is not modelled). *)
From PV Require C12.SrcRun C12.TieLoad C12.TieHyp C12.Tie.
From PV Require MiniPy.Interp MiniTorch.OpsC12 Gen.C12Src.

(* `_load_ref`, whole body: for every stored reference (1-D, (R,3), (R,w), 0-/3-D; empty ones included), tokens_only
   both ways, sos/eos set or None: the interpreted source returns the model's tensor or raises the model's exception *)
Theorem c12_source_load_ref_is_model : forall c r, TieLoad.ref_shape_ok r ->
  TieLoad.sym_ok (r_dtype r) (c_sos c) -> TieLoad.sym_ok (r_dtype r) (c_eos c) ->
  match load_ref c r with
  | inl e => exists st, SrcRun.run_load_ref c (SrcRun.tens_of_ref r) = Interp.Exc (SrcRun.name_of_exn e) st
  | inr r' => exists st, SrcRun.run_load_ref c (SrcRun.tens_of_ref r) = Interp.Ok (SrcRun.enc12 (SrcRun.tens_of_ref r')) st
  end.
Proof. exact Tie.source_load_ref_is_model. Qed.
Print Assumptions c12_source_load_ref_is_model.

(* the executable form the harness evaluates on the run's cases *)
Theorem c12_source_src_load_ref_is_model : forall c r, TieLoad.ref_shape_ok r ->
  TieLoad.sym_ok (r_dtype r) (c_sos c) -> TieLoad.sym_ok (r_dtype r) (c_eos c) ->
  SrcRun.src_load_ref c (SrcRun.tens_of_ref r)
  = Some (match load_ref c r with inl e => inl e | inr r' => inr (SrcRun.tens_of_ref r') end).
Proof. exact Tie.source_src_load_ref_is_model. Qed.
Print Assumptions c12_source_src_load_ref_is_model.

(* composed with c12_sos_eos_wrap_*: statements purely about the interpreted source *)
Theorem c12_source_load_ref_wraps_1d : forall c cu dt t, c_tokens_only c = false ->
  TieLoad.sym_ok dt (c_sos c) -> TieLoad.sym_ok dt (c_eos c) ->
  exists st, SrcRun.run_load_ref c (OpsC12.T1 cu dt t)
             = Interp.Ok (SrcRun.enc12 (OpsC12.T1 cu dt (wrap (c_sos c) (c_eos c) t))) st.
Proof. exact Tie.source_load_ref_wraps_1d. Qed.
Print Assumptions c12_source_load_ref_wraps_1d.

Theorem c12_source_load_ref_wraps_2d : forall c cu dt rows, c_tokens_only c = false -> dt <> DU8 ->
  TieLoad.sym_ok dt (c_sos c) -> TieLoad.sym_ok dt (c_eos c) ->
  exists st, SrcRun.run_load_ref c (OpsC12.T2 cu dt 3 (map SrcRun.row3 rows))
             = Interp.Ok (SrcRun.enc12 (OpsC12.T2 cu dt 3
                 (map SrcRun.row3 (wrap (option_map sym_of (c_sos c)) (option_map sym_of (c_eos c)) rows)))) st.
Proof. exact Tie.source_load_ref_wraps_2d. Qed.
Print Assumptions c12_source_load_ref_wraps_2d.

Theorem c12_source_load_ref_wraps_tokens_only : forall c cu dt rows, c_tokens_only c = true ->
  TieLoad.sym_ok dt (c_sos c) -> TieLoad.sym_ok dt (c_eos c) ->
  exists st, SrcRun.run_load_ref c (OpsC12.T2 cu dt 3 (map SrcRun.row3 rows))
             = Interp.Ok (SrcRun.enc12 (OpsC12.T1 cu dt (wrap (c_sos c) (c_eos c) (map tok_of rows)))) st.
Proof. exact Tie.source_load_ref_wraps_tokens_only. Qed.
Print Assumptions c12_source_load_ref_wraps_tokens_only.

(* `_write_hyp`, whole body: for every 1-D / (R,3) hypothesis on any device, of any dtype, sos/eos set or None, the
   run returns None and its ONE effect is torch.save(<the model's stripped hypothesis, a CPU long tensor>, pth) *)
Theorem c12_source_write_hyp_is_model : forall sos eos cu dt h,
  (match h with R1 _ | R2 _ => True | _ => False end) ->
  exists st, SrcRun.run_write_hyp sos eos (SrcRun.tens_of_rdata cu dt h) = Interp.Ok MiniPy.Syntax.VNone st
             /\ Interp.events st = TieHyp.saved (SrcRun.tens_of_rdata false DI64 (write_hyp sos eos h)).
Proof. exact Tie.source_write_hyp_is_model. Qed.
Print Assumptions c12_source_write_hyp_is_model.

Theorem c12_source_src_write_hyp_is_model : forall sos eos cu dt h,
  (match h with R1 _ | R2 _ => True | _ => False end) ->
  SrcRun.src_write_hyp sos eos (SrcRun.tens_of_rdata cu dt h)
  = Some (SrcRun.tens_of_rdata false DI64 (write_hyp sos eos h)).
Proof. exact Tie.source_src_write_hyp_is_model. Qed.
Print Assumptions c12_source_src_write_hyp_is_model.

(* composed with c12_write_hyp_strips *)
Theorem c12_source_write_hyp_strips : forall sos eos cu dt (l : list Z),
  exists st stored,
    SrcRun.run_write_hyp sos eos (OpsC12.T1 cu dt l) = Interp.Ok MiniPy.Syntax.VNone st
    /\ Interp.events st = TieHyp.saved (OpsC12.T1 false DI64 stored)
    /\ (exists pre post, l = pre ++ stored ++ post)
    /\ (forall s, sos = Some s -> Forall (fun x => x <> s) stored)
    /\ (forall e, eos = Some e -> Forall (fun x => x <> e) stored).
Proof. exact Tie.source_write_hyp_strips. Qed.
Print Assumptions c12_source_write_hyp_strips.

(* composed with c12_strip_wrap_roundtrip_*: what the interpreted `_load_ref` returns, handed to the interpreted
   `_write_hyp`, is stored as the bare transcript *)
Theorem c12_source_roundtrip_1d : forall c cu dt t, c_tokens_only c = false ->
  TieLoad.sym_ok dt (c_sos c) -> TieLoad.sym_ok dt (c_eos c) ->
  free_of (c_sos c) t -> free_of (c_eos c) t ->
  (forall s e, c_sos c = Some s -> c_eos c = Some e -> s <> e) ->
  exists loaded st1 st2,
    SrcRun.run_load_ref c (OpsC12.T1 cu dt t) = Interp.Ok (SrcRun.enc12 loaded) st1
    /\ SrcRun.run_write_hyp (c_sos c) (c_eos c) loaded = Interp.Ok MiniPy.Syntax.VNone st2
    /\ Interp.events st2 = TieHyp.saved (OpsC12.T1 false DI64 t).
Proof. exact Tie.source_roundtrip_1d. Qed.
Print Assumptions c12_source_roundtrip_1d.

Theorem c12_source_roundtrip_2d : forall c cu dt rows, c_tokens_only c = false -> dt <> DU8 ->
  TieLoad.sym_ok dt (c_sos c) -> TieLoad.sym_ok dt (c_eos c) ->
  free_of (c_sos c) (map tok_of rows) -> free_of (c_eos c) (map tok_of rows) ->
  (forall s e, c_sos c = Some s -> c_eos c = Some e -> s <> e) ->
  exists loaded st1 st2,
    SrcRun.run_load_ref c (OpsC12.T2 cu dt 3 (map SrcRun.row3 rows)) = Interp.Ok (SrcRun.enc12 loaded) st1
    /\ SrcRun.run_write_hyp (c_sos c) (c_eos c) loaded = Interp.Ok MiniPy.Syntax.VNone st2
    /\ Interp.events st2 = TieHyp.saved (OpsC12.T2 false DI64 3 (map SrcRun.row3 rows)).
Proof. exact Tie.source_roundtrip_2d. Qed.
Print Assumptions c12_source_roundtrip_2d.

(* ---- `_info_and_validate` (called by validate_spect_data_set: info = False, validate = True), `_partial`:
        the three marked blocks of the loop body - the feature checks (`fn = ...` to `if info:`), `if ali is not None: ...`,
        the body of `if ref is not None:` (dtype / device / shape tests, the per-row boundary tests `r[1] <= T >= r[2] - fix`
        and repairs `r[1:] = -1`, `r[2] = T` written back through the loop variable, torch.save, the token loop) - are the
        translated text; what joins them is the GLUE of C12/SrcRunV.v (the loop header, the `del` statements, the test
        `if ref is not None:`, the initial `None`s, `fix = 1 if fix else None`).  Hypotheses: the data set yields 3-tuples
        (suppress_alis = False) and the stored tensors have the shapes the model's constructors name. ---- *)
From PV Require C12.SrcRunV C12.TieVAli C12.TieVRef2 C12.TieValidate C12.TieValidateAll.
From Coq Require Import String.   (* for the literal "idx" below; string_scope is not opened *)

(* one iteration: the interpreted blocks raise / return as Model.step_utt, the three state variables afterwards hold its
   vstate, and the files they saved (all of this utterance) read back as its updated utterance *)
Theorem c12_source_step_is_model_partial : forall c d ids fx i u vst acc evs st,
  nth_error d i = Some u -> nth_error ids i = Some (SrcRunV.uid i) -> c_suppress_alis c = false ->
  TieValidate.utt_shape_ok c u -> TieValidate.good_state ids fx vst evs st ->
  TieValidate.outcome_ok ids fx i u evs
    (SrcRunV.step_src (SrcRun.ext12 (SrcRunV.env_ds c d)) (Interp.set_var "idx"%string (MiniPy.Syntax.VInt (Z.of_nat i)) st))
    (step_utt false true c fx vst acc u).
Proof. exact Tie.source_step_is_model. Qed.
Print Assumptions c12_source_step_is_model_partial.

(* the whole pass: same exception / return and the same directory afterwards as Model.validate - every directory, every
   fix argument (None, ints, the deprecated booleans), every sos / eos / tokens_only *)
Theorem c12_source_validate_is_model_partial : forall c fa d,
  c_suppress_alis c = false -> Forall TieValidateAll.utt_stored_ok d ->
  SrcRunV.src_validate c fa d = Some (validate c fa d).
Proof. exact Tie.source_validate_is_model. Qed.
Print Assumptions c12_source_validate_is_model_partial.

(* composed with c12_strict_accepts_iff_wellformed / c12_strict_never_writes / c12_fix_result_is_repair *)
Theorem c12_source_strict_accepts_iff_wellformed_partial : forall c d,
  plain_yield c -> syms_nonneg c -> tokens_nonneg d -> Forall TieValidateAll.utt_stored_ok d ->
  (SrcRunV.src_validate c FNone d = Some (d, None) <-> WellFormed d).
Proof. exact Tie.source_strict_accepts_iff_wellformed. Qed.
Print Assumptions c12_source_strict_accepts_iff_wellformed_partial.

Theorem c12_source_strict_never_writes_partial : forall c d, c_suppress_alis c = false -> Forall TieValidateAll.utt_stored_ok d ->
  exists r, SrcRunV.src_validate c FNone d = Some (d, r).
Proof. exact Tie.source_strict_never_writes. Qed.
Print Assumptions c12_source_strict_never_writes_partial.

Theorem c12_source_fix_result_is_repair_partial : forall c fa d d',
  plain_yield c -> clean_writes c (tolerance fa) -> Forall TieValidateAll.utt_stored_ok d ->
  SrcRunV.src_validate c fa d = Some (d', None) -> d' = repair (tolerance fa) d /\ WellFormed d'.
Proof. exact Tie.source_fix_result_is_repair. Qed.
Print Assumptions c12_source_fix_result_is_repair_partial.

(* non-vacuity: the interpreted sources run (vm_compute) on a reference with segments, sos = 7, eos = 8 *)
Example c12_source_nonvacuous :
  let c := mkCfg (Some 7) (Some 8) false false in
  SrcRun.src_load_ref c (SrcRun.tens_of_ref (mkRef false DI64 (R2 [(1, 0, 2); (2, 2, 5)])))
  = Some (inr (SrcRun.tens_of_ref (mkRef false DI64 (R2 [(7, -1, -1); (1, 0, 2); (2, 2, 5); (8, -1, -1)]))))
  /\ SrcRun.src_write_hyp (Some 7) (Some 8) (SrcRun.tens_of_rdata true DI32 (R2 [(7, -1, -1); (1, 0, 2); (2, 2, 5); (8, -1, -1)]))
     = Some (SrcRun.tens_of_rdata false DI64 (R2 [(1, 0, 2); (2, 2, 5)]))
  /\ SrcRun.src_load_ref (mkCfg (Some 7) None false false) (SrcRun.tens_of_ref (mkRef false DI64 (R2w 0 [[]; []])))
     = Some (inl IndexErr)
  /\ (let f := mkFeat false DF32 [3%nat; 2%nat] in
      let d := [mkUtt f (Some (mkAli false DI32 (A1 [0; 0; 1; 1]))) (Some (mkRef false DI64 (R2 [(1, 0, 4); (2, -1, 3)])));
                mkUtt f (Some (mkAli false DI64 (A1 [2; 2; 2]))) (Some (mkRef false DU8 (R2 [(0, 1, 1)])))] in
      SrcRunV.src_validate cfg_plain (FInt 1) d
      = Some ([mkUtt f (Some (mkAli false DI64 (A1 [0; 0; 1]))) (Some (mkRef false DI64 (R2 [(1, 0, 3); (2, -1, -1)])));
               mkUtt f (Some (mkAli false DI64 (A1 [2; 2; 2]))) (Some (mkRef false DI64 (R2 [(0, 1, 1)])))], None)
      /\ SrcRunV.src_validate cfg_plain (FInt 0) d = Some (fst (validate cfg_plain (FInt 0) d), Some ValueErr)).
Proof. vm_compute. repeat split; reflexivity. Qed.
