(* C10 - the directory driver, one utterance: every chunk is the source restricted to its window, with the tokens the
   spec names; the chunked utterances are well-formed (repaired boundary arithmetic), and are not as coded (K1). *)
From Coq Require Import List ZArith Bool Arith Lia Sorted.
From PV Require Import C10.Model C10.Spec C10.Lists C10.ProofsTokens C10.ProofsFixed C10.ProofsRef
     C10.ProofsAliOps C10.ProofsAliRows C10.ProofsAli C10.ProofsAliSpec.
Import ListNotations.
Local Open Scope Z_scope.

Lemma arange01 : forall n, arange 0 n 1 = map Z.of_nat (seq 0 (Z.to_nat n)).
Proof.
  intros n. unfold arange. rewrite Z.div_1_r. replace (n - 0 + 1 - 1) with n by lia.
  apply map_ext. intros; lia.
Qed.

Lemma chunk_const_length : forall x c sl, length (chunk_const x c sl) = Z.to_nat (Z.max (snd sl - fst sl) 0).
Proof. intros. unfold chunk_const. now rewrite arange01, !map_length, seq_length. Qed.

Lemma nth_skipn' : forall A (l : list A) k i d, nth i (skipn k l) d = nth (k + i) l d.
Proof.
  intros A l; induction l as [|x l IH]; intros k i d.
  - rewrite skipn_nil. now destruct i, k.
  - destruct k as [|k]; [reflexivity|]. cbn. apply IH.
Qed.

(* a window inside the sequence: the chunk is the plain restriction *)
Lemma chunk_const_restrict : forall x c sl, inside (zlen x) sl -> chunk_const x c sl = restrict x sl.
Proof.
  intros x c [a b] [Ha Hb]. cbn [fst snd] in *. unfold zlen in Hb.
  apply (nth_ext_eq _ _ _ c).
  - rewrite chunk_const_length. unfold restrict. cbn [fst snd]. rewrite firstn_length, skipn_length. lia.
  - intros i Hi. rewrite chunk_const_length in Hi. cbn [fst snd] in Hi.
    unfold chunk_const, restrict. cbn [fst snd]. rewrite arange01, map_map.
    rewrite nth_map_seq0 by lia. rewrite nth_firstn_lt by lia. rewrite nth_skipn'.
    unfold zlen. destruct (Z.leb_spec 0 (a + Z.of_nat i)); [|lia].
    destruct (Z.ltb_spec (a + Z.of_nat i) (Z.of_nat (length x))); [|lia]. cbn [andb].
    f_equal. lia.
Qed.

Lemma nth_repeat_lt : forall A (x : A) n i d, (i < n)%nat -> nth i (repeat x n) d = x.
Proof. intros A x n; induction n as [|n IH]; intros i d H; [lia|]. destruct i; cbn; [reflexivity|]. apply IH. lia. Qed.

(* ---- the chunks of one utterance, by position ---- *)
Definition slices_of (v : variant) (p : policy) (wt : wtype) (vo : bool) (lobe : Z) (u : utt) : sres :=
  match p with
  | Fixed => slice_spect_data v (length (u_feat u)) (InFixed 1) None None wt vo lobe
  | Ali => match u_ali u with
           | Some a => slice_spect_data v (length a) (InAli [a]) None None wt vo lobe
           | None => None
           end
  | Ref => match u_ref u with
           | Some (RefSeg r) => slice_spect_data v (length r) (InRef [r]) None None wt vo lobe
           | Some (RefTok []) => Some []
           | _ => None
           end
  end.

Definition pad_vo (pad : option Z) : bool := match pad with None => true | Some _ => false end.
Definition pad_c (pad : option Z) : Z := match pad with None => 0 | Some c => c end.

Lemma In_enumerate : forall A (l : list A) x d, In x (enumerate l) -> (fst x < length l)%nat /\ snd x = nth (fst x) l d.
Proof.
  intros A l x d H. rewrite enumerate_enum_from in H.
  apply (In_nth _ _ (0%nat, d)) in H as (i & Hi & E). rewrite enum_from_length in Hi.
  rewrite nth_enum_from in E by assumption. subst x. cbn [fst snd Nat.add]. split; [assumption|reflexivity].
Qed.

Theorem chunk_utt_chunks : forall v p wt pad lobe partial retain u chunks ch,
  chunk_utt v p wt pad lobe partial retain u = Some chunks -> In ch chunks ->
  exists sws, slices_of v p wt (pad_vo pad) lobe u = Some sws
    /\ In (c_win ch) (map fst sws)
    /\ c_feat ch = chunk_const (u_feat u) (pad_c pad) (c_win ch)
    /\ c_ali ch = match u_ali u with Some a => Some (chunk_const a (pad_c pad) (c_win ch)) | None => None end
    /\ c_ref ch = match u_ref u with
                  | None => None
                  | Some (RefSeg r) => Some (row_out v partial retain None (c_win ch) r)
                  | Some (RefTok _) => Some []
                  end.
Proof.
  intros v p wt pad lobe partial retain u chunks ch Hc Hin. unfold chunk_utt in Hc.
  fold (pad_vo pad) in Hc. fold (pad_c pad) in Hc. fold (slices_of v p wt (pad_vo pad) lobe u) in Hc.
  destruct (slices_of v p wt (pad_vo pad) lobe u) as [sws|]; [|discriminate].
  exists sws. split; [reflexivity|].
  set (slices := map fst sws) in *. set (M := length slices) in *.
  destruct (match u_ref u with
            | None => Some None
            | Some (RefSeg r) => Some (Some (fst (chunk_tokens v (repeat r M) slices None partial retain)))
            | Some (RefTok _) => if d5 v then (if Nat.eqb M 0 then Some (Some []) else None) else Some (Some (repeat [] M))
            end) as [rs|] eqn:Ers; [|discriminate].
  inversion Hc; subst chunks; clear Hc.
  apply in_map_iff in Hin as ([i sl] & Ech & Hisl). subst ch. cbn [c_win c_feat c_ali c_ref]. change (fst (i, sl)) with i. change (snd (i, sl)) with sl.
  destruct (In_enumerate _ slices (i, sl) (0, 0) Hisl) as [Hi Esl]. cbn [fst snd] in Hi, Esl.
  split; [subst sl; apply nth_In; assumption|]. split; [reflexivity|]. split; [reflexivity|].
  destruct (u_ref u) as [[r|tk]|].
  - replace rs with (Some (fst (chunk_tokens v (repeat r M) slices None partial retain))) by congruence.
    cbv beta iota. apply f_equal.
    destruct (chunk_tokens_nth v (repeat r M) slices None partial retain (length r) i) as (_ & _ & Hn & _).
    + apply Forall_forall. intros x Hx. apply repeat_spec in Hx. now subst x.
    + now rewrite repeat_length.
    + now rewrite repeat_length.
    + rewrite Hn. cbn [rowL]. subst sl.
      now rewrite nth_repeat_lt by assumption.
  - destruct (d5 v).
    + destruct (Nat.eqb_spec M 0); [lia|discriminate].
    + inversion Ers; subst rs. f_equal. now rewrite nth_repeat_lt by assumption.
  - inversion Ers; subst rs. reflexivity.
Qed.

(* ---- without --pad-mode every window lies inside the utterance ---- *)
Lemma in_labelled_inv : forall per N x, In x (labelled per N) -> exists n, x = (fst x, Z.of_nat n).
Proof.
  intros per N x H. unfold labelled in H. apply in_flat_map in H as (n & _ & H).
  apply in_map_iff in H as (w & E & _). exists n. now subst x.
Qed.

Lemma tok_wf_end : forall T x, tok_wf T x -> 0 <= T -> tk_end x <= T.
Proof. intros T x [[_ H]|[_ [_ H]]] HT; lia. Qed.

Definition utt_ref_list (u : utt) : option (list (Z * Z * Z)) :=
  match u_ref u with Some (RefSeg r) => Some r | Some (RefTok _) => None | None => None end.

Theorem valid_windows_inside : forall v p wt lobe u sws w,
  d1 v = false -> d2 v = false -> d3 v = false -> d4 v = false ->
  utt_wf (u_feat u) (u_ali u) (utt_ref_list u) ->
  slices_of v p wt true lobe u = Some sws -> In w (map fst sws) ->
  inside (zlen (u_feat u)) w.
Proof.
  intros v p wt lobe u sws w H1 H2 H3 H4 [Hali Href] Hs Hin.
  apply in_map_iff in Hin as (x & Ew & Hx). subst w.
  unfold slices_of, slice_spect_data in Hs. destruct p.
  - (* fixed *)
    destruct (Nat.eqb_spec (length (u_feat u)) 0) as [E|E]; [inversion Hs; subst; contradiction|].
    destruct (Z.ltb_spec lobe 0) as [Hl|Hl]; [discriminate|].
    destruct (fixed_windows_spec v 1 (Z.of_nat (length (u_feat u))) None wt true lobe H3 Hl ltac:(lia) I) as (o & Ho & Hsp).
    rewrite Ho in Hs. inversion Hs; subst o.
    destruct Hsp as (per & Eo & Hp). pose proof Hx as Hx'. rewrite Eo in Hx'.
    destruct (in_labelled_inv _ _ _ Hx') as (n & En). rewrite En in Hx.
    destruct (fixed_valid_inside 1 _ wt lobe sws (ex_intro _ per (conj Eo Hp)) _ _ Hx) as [_ Hi]. exact Hi.
  - (* ali *)
    destruct (u_ali u) as [a|]; [|discriminate].
    destruct (Nat.eqb_spec (length a) 0) as [E|E]; [inversion Hs; subst; contradiction|].
    destruct (Z.ltb_spec lobe 0) as [Hl|Hl]; [discriminate|].
    destruct (ali_windows_spec v (length a) [a] None wt true lobe H1 H4 ltac:(lia) Hl) as (o & Ho & Hsp).
    { repeat constructor. } { exact I. }
    rewrite Ho in Hs. inversion Hs; subst o.
    pose proof Hsp as (per & Eo & Hp). pose proof Hx as Hx'. rewrite Eo in Hx'.
    destruct (in_labelled_inv _ _ _ Hx') as (n & En). rewrite En in Hx.
    destruct (ali_valid_inside _ _ wt lobe sws Hl Hsp _ _ Hx) as [Hn Hi]. cbn [length] in Hn.
    assert (n = 0%nat) by lia. subst n. cbn [nth len_of] in Hi. unfold zlen in *.
    rewrite Nat2Z.id, firstn_all in Hi. now rewrite <- Hali.
  - (* ref *)
    unfold utt_ref_list in Href. destruct (u_ref u) as [[r|[|t tk]]|]; try discriminate.
    + destruct (Nat.eqb_spec (length r) 0) as [E|E]; [inversion Hs; subst; contradiction|].
      destruct (Z.ltb_spec lobe 0) as [Hl|Hl]; [discriminate|].
      destruct (ref_windows_spec v (length r) [r] None None wt true lobe H2) as (o & Ho & Hsp).
      { intros n Hn. cbn [ref_len]. lia. }
      rewrite Ho in Hs. inversion Hs; subst o.
      pose proof Hsp as (per & Eo & Hp). pose proof Hx as Hx'. rewrite Eo in Hx'.
      destruct (in_labelled_inv _ _ _ Hx') as (n & En). rewrite En in Hx.
      destruct (ref_valid_inside _ _ _ wt lobe sws Hsp _ _ Hx) as (Hn & [Hi1 Hi2] & _). cbn [length] in Hn.
      assert (n = 0%nat) by lia. subst n. split; [assumption|].
      cbn [ref_other ref_len nth] in Hi2. unfold ref_default_other in Hi2.
      destruct (Z.eqb_spec (Z.of_nat (length r)) 0) as [E0|E0]; [lia|].
      assert (Hin : In (nth (Z.to_nat (Z.of_nat (length r) - 1)) r (0, 0, 0)) r) by (apply nth_In; lia).
      rewrite Forall_forall in Href. apply Href in Hin. apply tok_wf_end in Hin; [|unfold zlen; lia]. lia.
    + inversion Hs; subst. contradiction.
Qed.

(* "every chunk equals the source restricted to its window", for the default (valid-only) windows *)
Theorem chunk_is_restriction : forall v p wt lobe partial retain u chunks ch,
  d1 v = false -> d2 v = false -> d3 v = false -> d4 v = false -> (retain = true \/ k1 v = false) ->
  utt_wf (u_feat u) (u_ali u) (utt_ref_list u) ->
  chunk_utt v p wt None lobe partial retain u = Some chunks -> In ch chunks ->
  inside (zlen (u_feat u)) (c_win ch)
  /\ c_feat ch = restrict (u_feat u) (c_win ch)
  /\ c_ali ch = match u_ali u with Some a => Some (restrict a (c_win ch)) | None => None end
  /\ match u_ref u with
     | Some (RefSeg r) => exists out, c_ref ch = Some out /\ tokens_row_spec partial retain None (c_win ch) r out
     | Some (RefTok _) => c_ref ch = Some []
     | None => c_ref ch = None
     end.
Proof.
  intros v p wt lobe partial retain u chunks ch H1 H2 H3 H4 Hk Hwf Hc Hin.
  destruct (chunk_utt_chunks _ _ _ _ _ _ _ _ _ _ Hc Hin) as (sws & Hs & Hw & Ef & Ea & Er).
  cbn [pad_vo pad_c] in *.
  pose proof (valid_windows_inside v p wt lobe u sws (c_win ch) H1 H2 H3 H4 Hwf Hs Hw) as Hi.
  split; [assumption|]. split; [rewrite Ef; now apply chunk_const_restrict|]. split.
  - rewrite Ea. destruct Hwf as [Hali _]. destruct (u_ali u) as [a|]; [|reflexivity].
    f_equal. apply chunk_const_restrict. unfold zlen in *. now rewrite Hali.
  - destruct (u_ref u) as [[r|tk]|]; try assumption.
    eexists. split; [exact Er|]. now apply row_out_meets_spec.
Qed.

(* the chunked utterances are well-formed (any policy, any padding, default token options) *)
Theorem chunked_dir_wellformed : forall v p wt pad lobe u chunks ch,
  k1 v = false ->
  chunk_utt v p wt pad lobe false false u = Some chunks -> In ch chunks ->
  utt_wf (c_feat ch) (c_ali ch) (c_ref ch).
Proof.
  intros v p wt pad lobe u chunks ch Hk Hc Hin.
  destruct (chunk_utt_chunks _ _ _ _ _ _ _ _ _ _ Hc Hin) as (sws & _ & _ & Ef & Ea & Er).
  split.
  - rewrite Ea, Ef. destruct (u_ali u); [|exact I]. now rewrite !chunk_const_length.
  - rewrite Er. destruct (u_ref u) as [[r|tk]|]; [|constructor|exact I].
    apply Forall_forall. intros y Hy.
    pose proof (row_out_meets_spec v false false None (c_win ch) r (or_intror Hk)) as (idx & _ & Hm & Eo).
    rewrite Eo in Hy. apply in_map_iff in Hy as (t & Ey & Ht). apply Hm in Ht as [_ (_ & (K1 & K2 & K3) & (I1 & I2))].
    subst y. right. unfold tok_out, tk_start, tk_end in *. cbn [fst snd].
    unfold zlen. rewrite Ef, chunk_const_length. lia.
Qed.

(* with --pad-mode constant: inside the utterance the chunk is the source, outside it is the pad value *)
Lemma chunk_const_nth : forall x c sl i, (i < length (chunk_const x c sl))%nat ->
  nth i (chunk_const x c sl) c
  = if (0 <=? fst sl + Z.of_nat i) && (fst sl + Z.of_nat i <? zlen x) then nth (Z.to_nat (fst sl + Z.of_nat i)) x c else c.
Proof.
  intros x c sl i Hi. rewrite chunk_const_length in Hi. unfold chunk_const. rewrite arange01, map_map.
  now rewrite nth_map_seq0 by lia.
Qed.

Theorem chunk_padded_restriction : forall v p wt pad lobe partial retain u chunks ch,
  chunk_utt v p wt pad lobe partial retain u = Some chunks -> In ch chunks ->
  let a := fst (c_win ch) in
  let c := pad_c pad in
  length (c_feat ch) = Z.to_nat (Z.max (snd (c_win ch) - a) 0)
  /\ (forall i, (i < length (c_feat ch))%nat ->
        nth i (c_feat ch) c = if (0 <=? a + Z.of_nat i) && (a + Z.of_nat i <? zlen (u_feat u))
                              then nth (Z.to_nat (a + Z.of_nat i)) (u_feat u) c else c)
  /\ match u_ali u, c_ali ch with
     | Some al, Some cal =>
         length cal = length (c_feat ch)
         /\ forall i, (i < length cal)%nat ->
              nth i cal c = if (0 <=? a + Z.of_nat i) && (a + Z.of_nat i <? zlen al)
                            then nth (Z.to_nat (a + Z.of_nat i)) al c else c
     | None, None => True
     | _, _ => False
     end.
Proof.
  intros v p wt pad lobe partial retain u chunks ch Hc Hin a c.
  destruct (chunk_utt_chunks _ _ _ _ _ _ _ _ _ _ Hc Hin) as (sws & _ & _ & Ef & Ea & _).
  rewrite Ef. split; [apply chunk_const_length|]. split; [intros i Hi; now apply chunk_const_nth|].
  rewrite Ea. destruct (u_ali u) as [al|]; [|exact I].
  split; [now rewrite !chunk_const_length|]. intros i Hi. now apply chunk_const_nth.
Qed.

(* K1: as coded, a well-formed utterance yields a chunk whose token lies outside it *)
Definition k1_only := mkV true false false false false false.
Theorem dir_k1_refuted :
  exists u chunks ch,
    utt_wf (u_feat u) (u_ali u) (utt_ref_list u)
    /\ chunk_utt k1_only Fixed Causal None 2 false false u = Some chunks /\ In ch chunks
    /\ ~ utt_wf (c_feat ch) (c_ali ch) (c_ref ch).
Proof.
  exists (mkUtt [11; 12; 13; 14; 15; 16] (Some [1; 1; 2; 2; 2; 3]) (Some (RefSeg [(7, 0, 2); (8, 3, 6); (9, -1, -1)]))).
  eexists. exists (mkChunk (3, 6) [14; 15; 16] (Some [2; 2; 3]) (Some [(8, 6, 9)])).
  split; [|split; [vm_compute; reflexivity|split; [right; left; reflexivity|]]].
  - split; [reflexivity|]. cbn. repeat constructor; unfold tok_wf, tk_start, tk_end, zlen; cbn; lia.
  - intros [_ H]. cbn in H. inversion H as [|? ? Hx _]; subst. unfold tok_wf, tk_start, tk_end, zlen in Hx. cbn in Hx. lia.
Qed.
