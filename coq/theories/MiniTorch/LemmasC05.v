(* MiniTorch, unit C05 — algebra of the operations of OpsC05.v on TABULATED tensors (no new definitions of
   semantics).  Core: [get d (tab sh f) ix = f ix] for a multi-index of the shape, extensionality of [tab],
   then each operation on tabulated arguments of the ranks the C05 tie meets. *)
From Coq Require Import List ZArith QArith Qcanon Bool Arith Lia.
From PV Require Import MiniTorch.Ops MiniTorch.OpsC05.
Import ListNotations.
Local Open Scope nat_scope.

(* ---- lists ------------------------------------------------------------------------------------------ *)
Lemma flat_map_length_const {A B} (f : A -> list B) (l : list A) (c : nat) :
  (forall a, In a l -> List.length (f a) = c) -> List.length (flat_map f l) = List.length l * c.
Proof.
  induction l as [|a l IH]; intros H; [reflexivity|]. cbn [flat_map List.length]. rewrite app_length, IH, H.
  - lia.
  - now left.
  - intros b Hb. apply H. now right.
Qed.

Lemma nth_flat_map_seq {B} (f : nat -> list B) (c : nat) (d : B) :
  (forall i, List.length (f i) = c) ->
  forall n i p, i < n -> p < c -> nth (i * c + p) (flat_map f (seq 0 n)) d = nth p (f i) d.
Proof.
  intros Hc n.
  assert (G : forall s i p, i < n -> p < c -> nth (i * c + p) (flat_map f (seq s n)) d = nth p (f (s + i)) d).
  { induction n as [|n IH]; intros s i p Hi Hp; [lia|]. cbn [seq flat_map]. destruct i as [|i].
    - rewrite app_nth1 by (rewrite Hc; lia). now rewrite Nat.add_0_r.
    - rewrite app_nth2 by (rewrite Hc; lia). rewrite Hc. replace (S i * c + p - c) with (i * c + p) by lia.
      rewrite IH by lia. f_equal. f_equal. lia. }
  intros i p Hi Hp. now rewrite G.
Qed.

(* ---- multi-indices -------------------------------------------------------------------------------------- *)
Lemma indices_length sh : List.length (indices sh) = numel sh.
Proof.
  induction sh as [|n r IH]; [reflexivity|]. cbn [indices numel].
  rewrite (flat_map_length_const _ _ (numel r)).
  - now rewrite seq_length.
  - intros a _. now rewrite map_length.
Qed.

Lemma inb_ravel_lt sh : forall ix, inb sh ix = true -> ravel sh ix < numel sh.
Proof.
  induction sh as [|n r IH]; intros [|i ix] H; cbn in *; try discriminate; [lia|].
  apply andb_true_iff in H. destruct H as [H1 H2]. apply Nat.ltb_lt in H1. specialize (IH ix H2). nia.
Qed.

Lemma nth_indices_ravel sh : forall ix d, inb sh ix = true -> nth (ravel sh ix) (indices sh) d = ix.
Proof.
  induction sh as [|n r IH]; intros [|i ix] d H; cbn [inb] in H; try discriminate; [reflexivity|].
  apply andb_true_iff in H. destruct H as [H1 H2]. apply Nat.ltb_lt in H1. cbn [ravel indices].
  rewrite (nth_flat_map_seq _ (numel r)).
  - rewrite (nth_indep _ d (i :: d)) by (rewrite map_length, indices_length; now apply inb_ravel_lt).
    rewrite map_nth. f_equal. now apply IH.
  - intros j. now rewrite map_length, indices_length.
  - exact H1.
  - now apply inb_ravel_lt.
Qed.

Lemma in_indices_inb sh : forall ix, In ix (indices sh) -> inb sh ix = true.
Proof.
  induction sh as [|n r IH]; intros ix H; cbn in H.
  - destruct H as [<-|[]]. reflexivity.
  - apply in_flat_map in H. destruct H as [i [Hi H]]. apply in_map_iff in H. destruct H as [ix' [<- H]].
    apply in_seq in Hi. cbn [inb]. apply andb_true_iff. split; [apply Nat.ltb_lt; lia|now apply IH].
Qed.

Lemma get_tab {X} (d : X) sh f ix : inb sh ix = true -> get d (tab sh f) ix = f ix.
Proof.
  intros H. unfold get, tab. cbn [shp dat].
  rewrite (nth_indep _ d (f ix)) by (rewrite map_length, indices_length; now apply inb_ravel_lt).
  rewrite map_nth. f_equal. now apply nth_indices_ravel.
Qed.

Lemma tab_ext {X} sh (f g : list nat -> X) :
  (forall ix, inb sh ix = true -> f ix = g ix) -> tab sh f = tab sh g.
Proof. intros H. unfold tab. f_equal. apply map_ext_in. intros ix Hi. apply H. now apply in_indices_inb. Qed.

Lemma forallb_tab {X} (p : X -> bool) sh f :
  (forall ix, inb sh ix = true -> p (f ix) = true) -> forallb p (dat (tab sh f)) = true.
Proof.
  intros H. unfold tab. cbn [dat]. apply forallb_forall. intros x Hx. apply in_map_iff in Hx.
  destruct Hx as [ix [<- Hi]]. apply H. now apply in_indices_inb.
Qed.

Lemma tmap_tab {X Y} (g : X -> Y) sh f : tmap g (tab sh f) = tab sh (fun ix => g (f ix)).
Proof. unfold tmap, tab. cbn [shp dat]. now rewrite map_map. Qed.

Lemma shp_tab {X} sh (f : list nat -> X) : shp (tab sh f) = sh. Proof. reflexivity. Qed.

(* ---- tabulation by rank ---------------------------------------------------------------------------------- *)
Definition T1 {X} (a : nat) (F : nat -> X) : tn X := tab [a] (fun ix => F (at_ ix 0)).
Definition T2 {X} (a b : nat) (F : nat -> nat -> X) : tn X := tab [a; b] (fun ix => F (at_ ix 0) (at_ ix 1)).
Definition T3 {X} (a b c : nat) (F : nat -> nat -> nat -> X) : tn X :=
  tab [a; b; c] (fun ix => F (at_ ix 0) (at_ ix 1) (at_ ix 2)).
Definition T4 {X} (a b c e : nat) (F : nat -> nat -> nat -> nat -> X) : tn X :=
  tab [a; b; c; e] (fun ix => F (at_ ix 0) (at_ ix 1) (at_ ix 2) (at_ ix 3)).

Lemma inb_nil ix : inb [] ix = true -> ix = [].
Proof. destruct ix; [reflexivity|discriminate]. Qed.
Lemma inb_cons n r ix : inb (n :: r) ix = true -> exists i ix', ix = i :: ix' /\ i < n /\ inb r ix' = true.
Proof.
  destruct ix as [|i ix']; cbn [inb]; [discriminate|]. intros H. apply andb_true_iff in H. destruct H as [H1 H2].
  exists i, ix'. split; [reflexivity|]. split; [now apply Nat.ltb_lt|exact H2].
Qed.

Lemma inb1 a ix : inb [a] ix = true -> exists i, ix = [i] /\ i < a.
Proof.
  intros H. destruct (inb_cons _ _ _ H) as (i & r & -> & Hi & H1). apply inb_nil in H1. subst r. eauto.
Qed.
Lemma inb2 a b ix : inb [a; b] ix = true -> exists i j, ix = [i; j] /\ i < a /\ j < b.
Proof.
  intros H. destruct (inb_cons _ _ _ H) as (i & r & -> & Hi & H1). destruct (inb1 _ _ H1) as (j & -> & Hj). eauto.
Qed.
Lemma inb3 a b c ix : inb [a; b; c] ix = true -> exists i j k, ix = [i; j; k] /\ i < a /\ j < b /\ k < c.
Proof.
  intros H. destruct (inb_cons _ _ _ H) as (i & r & -> & Hi & H1). destruct (inb2 _ _ _ H1) as (j & k & -> & Hj & Hk).
  exists i, j, k. auto.
Qed.
Lemma inb4 a b c e ix : inb [a; b; c; e] ix = true ->
  exists i j k l, ix = [i; j; k; l] /\ i < a /\ j < b /\ k < c /\ l < e.
Proof.
  intros H. destruct (inb_cons _ _ _ H) as (i & r & -> & Hi & H1).
  destruct (inb3 _ _ _ _ H1) as (j & k & l & -> & Hj & Hk & Hl). exists i, j, k, l. auto.
Qed.

Lemma inb1_i a i : i < a -> inb [a] [i] = true.
Proof. intros. cbn. rewrite andb_true_r. now apply Nat.ltb_lt. Qed.
Lemma inb2_i a b i j : i < a -> j < b -> inb [a; b] [i; j] = true.
Proof. intros. cbn. rewrite andb_true_r. apply andb_true_iff. split; now apply Nat.ltb_lt. Qed.
Lemma inb3_i a b c i j k : i < a -> j < b -> k < c -> inb [a; b; c] [i; j; k] = true.
Proof. intros. cbn. rewrite andb_true_r. repeat (apply andb_true_iff; split); now apply Nat.ltb_lt. Qed.
Lemma inb4_i a b c e i j k l : i < a -> j < b -> k < c -> l < e -> inb [a; b; c; e] [i; j; k; l] = true.
Proof. intros. cbn. rewrite andb_true_r. repeat (apply andb_true_iff; split); now apply Nat.ltb_lt. Qed.

Lemma tab1_ext {X} a (f g : list nat -> X) : (forall i, i < a -> f [i] = g [i]) -> tab [a] f = tab [a] g.
Proof. intros H. apply tab_ext. intros ix Hi. destruct (inb1 _ _ Hi) as (i & -> & ?). now apply H. Qed.
Lemma tab2_ext {X} a b (f g : list nat -> X) :
  (forall i j, i < a -> j < b -> f [i; j] = g [i; j]) -> tab [a; b] f = tab [a; b] g.
Proof. intros H. apply tab_ext. intros ix Hi. destruct (inb2 _ _ _ Hi) as (i & j & -> & ? & ?). now apply H. Qed.
Lemma tab3_ext {X} a b c (f g : list nat -> X) :
  (forall i j k, i < a -> j < b -> k < c -> f [i; j; k] = g [i; j; k]) -> tab [a; b; c] f = tab [a; b; c] g.
Proof.
  intros H. apply tab_ext. intros ix Hi. destruct (inb3 _ _ _ _ Hi) as (i & j & k & -> & ? & ? & ?). now apply H.
Qed.
Lemma tab4_ext {X} a b c e (f g : list nat -> X) :
  (forall i j k l, i < a -> j < b -> k < c -> l < e -> f [i; j; k; l] = g [i; j; k; l]) ->
  tab [a; b; c; e] f = tab [a; b; c; e] g.
Proof.
  intros H. apply tab_ext. intros ix Hi. destruct (inb4 _ _ _ _ _ Hi) as (i & j & k & l & -> & ? & ? & ? & ?).
  now apply H.
Qed.

Lemma T1_ext {X} a (F G : nat -> X) : (forall i, i < a -> F i = G i) -> T1 a F = T1 a G.
Proof. intros H. apply tab1_ext. intros. now apply H. Qed.
Lemma T2_ext {X} a b (F G : nat -> nat -> X) : (forall i j, i < a -> j < b -> F i j = G i j) -> T2 a b F = T2 a b G.
Proof. intros H. apply tab2_ext. intros. now apply H. Qed.
Lemma T3_ext {X} a b c (F G : nat -> nat -> nat -> X) :
  (forall i j k, i < a -> j < b -> k < c -> F i j k = G i j k) -> T3 a b c F = T3 a b c G.
Proof. intros H. apply tab3_ext. intros. now apply H. Qed.
Lemma T4_ext {X} a b c e (F G : nat -> nat -> nat -> nat -> X) :
  (forall i j k l, i < a -> j < b -> k < c -> l < e -> F i j k l = G i j k l) -> T4 a b c e F = T4 a b c e G.
Proof. intros H. apply tab4_ext. intros. now apply H. Qed.

Lemma get_T1 {X} (d : X) a F i : i < a -> get d (T1 a F) [i] = F i.
Proof. intros. unfold T1. rewrite get_tab by (now apply inb1_i). reflexivity. Qed.
Lemma get_T2 {X} (d : X) a b F i j : i < a -> j < b -> get d (T2 a b F) [i; j] = F i j.
Proof. intros. unfold T2. rewrite get_tab by (now apply inb2_i). reflexivity. Qed.
Lemma get_T3 {X} (d : X) a b c F i j k : i < a -> j < b -> k < c -> get d (T3 a b c F) [i; j; k] = F i j k.
Proof. intros. unfold T3. rewrite get_tab by (now apply inb3_i). reflexivity. Qed.
Lemma get_T4 {X} (d : X) a b c e F i j k l :
  i < a -> j < b -> k < c -> l < e -> get d (T4 a b c e F) [i; j; k; l] = F i j k l.
Proof. intros. unfold T4. rewrite get_tab by (now apply inb4_i). reflexivity. Qed.

Lemma forallb_T2 {X} (p : X -> bool) a b F :
  (forall i j, i < a -> j < b -> p (F i j) = true) -> forallb p (dat (T2 a b F)) = true.
Proof. intros H. apply forallb_tab. intros ix Hi. destruct (inb2 _ _ _ Hi) as (i & j & -> & ? & ?). now apply H. Qed.
Lemma forallb_T3 {X} (p : X -> bool) a b c F :
  (forall i j k, i < a -> j < b -> k < c -> p (F i j k) = true) -> forallb p (dat (T3 a b c F)) = true.
Proof.
  intros H. apply forallb_tab. intros ix Hi. destruct (inb3 _ _ _ _ Hi) as (i & j & k & -> & ? & ? & ?). now apply H.
Qed.

Lemma tmap_T1 {X Y} (g : X -> Y) a F : tmap g (T1 a F) = T1 a (fun i => g (F i)).
Proof. unfold T1. now rewrite tmap_tab. Qed.
Lemma tmap_T2 {X Y} (g : X -> Y) a b F : tmap g (T2 a b F) = T2 a b (fun i j => g (F i j)).
Proof. unfold T2. now rewrite tmap_tab. Qed.
Lemma tmap_T3 {X Y} (g : X -> Y) a b c F : tmap g (T3 a b c F) = T3 a b c (fun i j k => g (F i j k)).
Proof. unfold T3. now rewrite tmap_tab. Qed.
Lemma tmap_T4 {X Y} (g : X -> Y) a b c e F : tmap g (T4 a b c e F) = T4 a b c e (fun i j k l => g (F i j k l)).
Proof. unfold T4. now rewrite tmap_tab. Qed.

(* ---- broadcasting bits ---------------------------------------------------------------------------------- *)
Lemma bdim_refl a : bdim a a = Some a. Proof. unfold bdim. now rewrite Nat.eqb_refl. Qed.
Lemma bdim_1_l a : bdim 1 a = Some a.
Proof. unfold bdim. destruct (Nat.eqb_spec 1 a) as [<-|]; reflexivity. Qed.
Lemma bdim_1_r a : bdim a 1 = Some a.
Proof.
  unfold bdim. destruct (Nat.eqb_spec a 1) as [->|]; [reflexivity|]. reflexivity.
Qed.
Lemma bidx_lt n i : i < n -> bidx n i = i.
Proof. intros H. unfold bidx. destruct (Nat.eqb_spec n 1); [lia|reflexivity]. Qed.
Lemma bidx_1 i : bidx 1 i = 0. Proof. reflexivity. Qed.
