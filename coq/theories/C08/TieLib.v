(* C08 tie - library: what reaches [ext08] call by call, tensors inside the interpreter, the state
   lemmas and the symbolic-execution tactic used by TieBlocks.v.  No new definitions of meaning. *)
From Coq Require Import ZArith QArith Qround List String Bool Arith Lia.
From PV Require Import MiniPy.Syntax MiniPy.Interp MiniTorch.Ops MiniTorch.OpsC08 MiniTorch.LemmasC08.
From PV Require Import C08.SrcRun.
From PV Require C08.Model.
Import ListNotations.
Local Open Scope string_scope.

#[local] Arguments dec_any : simpl never.
#[local] Arguments dec_feats : simpl never.
#[global] Arguments enc_f : simpl never.
#[global] Arguments enc_l : simpl never.
#[global] Arguments enc_b : simpl never.
#[global] Arguments enc_feats : simpl never.

(* ---- variables ------------------------------------------------------------------------------------ *)
Lemma lookup_update x y v l : lookup x (update y v l) = if String.eqb x y then Some v else lookup x l.
Proof.
  induction l as [|[z w] l IH]; cbn [update lookup].
  - destruct (String.eqb x y); reflexivity.
  - destruct (String.eqb y z) eqn:E; cbn [lookup].
    + apply String.eqb_eq in E. subst z. destruct (String.eqb x y); reflexivity.
    + destruct (String.eqb x z) eqn:E2; [|exact IH].
      apply String.eqb_eq in E2. subst z. rewrite String.eqb_sym in E. now rewrite E.
Qed.

(* ---- tensors inside the interpreter ------------------------------------------------------------- *)
Definition arith_op (op : binop) : bool :=
  match op with Add | Sub | Mul | Div => true | _ => false end.

Lemma binop_stuck_l op a b st : foreign a = true -> arith_op op = true ->
  exists w, binop_eval op a b st = Stuck w.
Proof.
  intros Hf Ho. destruct a; try discriminate Hf.
  destruct op; try discriminate Ho; destruct b; cbn; eauto.
Qed.

Lemma binop_stuck_r op a b st : foreign b = true -> arith_op op = true ->
  match a with VInt _ | VQ _ => true | _ => false end = true ->
  exists w, binop_eval op a b st = Stuck w.
Proof.
  intros Hf Ho Ha. destruct b; try discriminate Hf.
  destruct op; try discriminate Ho; destruct a; try discriminate Ha; cbn; eauto.
Qed.

Lemma method_foreign o m args : foreign o = true -> method o m args = None.
Proof. intros H. destruct o; try discriminate H. reflexivity. Qed.

Lemma attribute_foreign ext o at_ st : foreign o = true -> attribute ext o at_ st = ext ("$attr." ++ at_) [o] [] st.
Proof. intros H. destruct o; try discriminate H. reflexivity. Qed.

Lemma foreign_enc_f t : foreign (enc_f t) = true.  Proof. reflexivity. Qed.
Lemma foreign_enc_l t : foreign (enc_l t) = true.  Proof. reflexivity. Qed.
Lemma foreign_enc_b t : foreign (enc_b t) = true.  Proof. reflexivity. Qed.
Lemma foreign_enc_feats s e : foreign (enc_feats s e) = true.  Proof. reflexivity. Qed.
Lemma truthy_enc_f t : truthy (enc_f t) = true.  Proof. reflexivity. Qed.

Lemma cmp_is_none_f t : cmp_eval Is (enc_f t) VNone = Some false.  Proof. reflexivity. Qed.
Lemma cmp_is_none_l t : cmp_eval Is (enc_l t) VNone = Some false.  Proof. reflexivity. Qed.

(* ---- what reaches [ext08], call by call --------------------------------------------------------- *)
Section ExtLemmas.
  Variable a : Model.arith.
  Variable rnd : nat -> nat -> Q.
  Notation ext := (ext08 a rnd).
  Notation zn := (fun n : nat => VInt (Z.of_nat n)).

  Ltac ext_tac := unfold ext08, operator; cbn;
    rewrite ?dec_any_enc_f, ?dec_any_enc_l, ?dec_any_enc_b, ?dec_feats_enc, ?dec_any_feats; cbn;
    rewrite ?dec_any_enc_f, ?dec_any_enc_l, ?dec_any_enc_b; cbn; try reflexivity.

  Lemma ext_check_none N T F eps st :
    ext "_spec_augment_check_input" [enc_feats [N; T; F] eps; VNone] [] st = Ok VNone st.
  Proof. ext_tac. Qed.

  Lemma ext_check_lens N T F eps l st : List.length l = N -> lens_in_range T l = true ->
    ext "_spec_augment_check_input" [enc_feats [N; T; F] eps; enc_l (mkTn [List.length l] l)] [] st = Ok VNone st.
  Proof.
    intros HN HR. unfold ext08. cbn. rewrite dec_feats_enc. cbn.
    change (enc_l (mkTn [List.length l] l)) with (VTuple [VStr tag_long; enc_shape [List.length l]; VList (map VInt l)]) at 1.
    cbv iota. change (VTuple [VStr tag_long; enc_shape [List.length l]; VList (map VInt l)]) with (enc_l (mkTn [List.length l] l)).
    rewrite dec_any_enc_l. cbn [shp dat]. now rewrite HN, Nat.eqb_refl, HR.
  Qed.

  Lemma ext_shape sh eps st : ext "$attr.shape" [enc_feats sh eps] [] st = Ok (VTuple (map zn sh)) st.
  Proof. ext_tac. Qed.

  Lemma ext_device sh eps st : ext "$attr.device" [enc_feats sh eps] [] st = Ok device_token st.
  Proof. ext_tac. Qed.

  Lemma ext_eps sh eps st : ext "_get_tensor_eps" [enc_feats sh eps] [] st = Ok (VQ eps) st.
  Proof. ext_tac. Qed.

  Lemma ext_full n v st :
    ext "torch.full" [VTuple [VInt (Z.of_nat n)]; VInt v] [("dtype", float_token); ("device", device_token)] st
    = Ok (enc_f (full1 a n v)) st.
  Proof.
    unfold ext08. cbn. replace (0 <=? Z.of_nat n)%Z with true by (symmetry; apply Z.leb_le; lia).
    now rewrite Nat2Z.id.
  Qed.

  Lemma ext_to_l t st : ext "$method.to" [enc_l t; device_token] [] st = Ok (enc_l t) st.
  Proof. ext_tac. Qed.
  Lemma ext_to_f t st : ext "$method.to" [enc_f t; device_token] [] st = Ok (enc_f t) st.
  Proof. ext_tac. Qed.

  Lemma ext_float t st : ext "$method.float" [enc_l t] [] st = Ok (enc_f (float_of_long a t)) st.
  Proof. ext_tac. Qed.
  Lemma ext_long t st : ext "$method.long" [enc_f t] [] st = Ok (enc_l (long_of_float t)) st.
  Proof. ext_tac. Qed.
  Lemma ext_floor t st : ext "$method.floor" [enc_f t] [] st = Ok (enc_f (floor t)) st.
  Proof. ext_tac. Qed.
  Lemma ext_dtype t st : ext "$attr.dtype" [enc_f t] [] st = Ok float_token st.
  Proof. ext_tac. Qed.
  Lemma ext_empty st : ext "torch.empty" [VInt 0] [] st = Ok (enc_f empty0) st.
  Proof. reflexivity. Qed.

  Lemma ext_arange n st :
    ext "torch.arange" [VInt (Z.of_nat n)] [("dtype", float_token); ("device", device_token)] st = Ok (enc_f (arange_f n)) st.
  Proof.
    unfold ext08. cbn. replace (0 <=? Z.of_nat n)%Z with true by (symmetry; apply Z.leb_le; lia).
    now rewrite Nat2Z.id.
  Qed.

  Lemma ext_clamp_max t (M : Z) st :
    ext "torch.clamp" [enc_f t] [("max", VInt M)] st = Ok (enc_f (clamp a t None (Some (inject_Z M)))) st.
  Proof. ext_tac. Qed.

  Lemma ext_clamp t (lo : Z) (hi : Q) st :
    ext "$method.clamp" [enc_f t; VInt lo; VQ hi] [] st = Ok (enc_f (clamp a t (Some (inject_Z lo)) (Some hi))) st.
  Proof. ext_tac. Qed.

  Lemma ext_unsqueeze t d st : ext "$method.unsqueeze" [enc_f t; VInt d] [] st = ret_f "unsqueeze" (unsqueeze t d) st.
  Proof. ext_tac. Qed.

  Lemma ext_masked_fill t m v st :
    ext "$method.masked_fill" [enc_l t; enc_b m; VInt v] [] st = ret_l "masked_fill" (masked_fill_l t m v) st.
  Proof. ext_tac. Qed.

  Lemma ext_le t u st : ext "compare" [VStr "le"; enc_f t; enc_f u] [] st = ret_b "le" (le_t t u) st.
  Proof. ext_tac. Qed.

  Lemma size_arg_nats l : dec_nats (map zn l) = Some l.
  Proof. apply dec_nats_enc. Qed.

  Lemma ext_rand_tuple1 n st :
    ext "torch.rand" [VTuple [VInt (Z.of_nat n)]] [("device", device_token)] st
    = Ok (enc_f (rand rnd (List.length (events st)) [n])) (emit ("torch.rand", [VTuple [VInt (Z.of_nat n)]]) st).
  Proof. unfold ext08. cbn. replace (0 <=? Z.of_nat n)%Z with true by (symmetry; apply Z.leb_le; lia).
    cbn. now rewrite Nat2Z.id. Qed.

  Lemma ext_rand_list1 n st :
    ext "torch.rand" [VList [VInt (Z.of_nat n)]] [("device", device_token)] st
    = Ok (enc_f (rand rnd (List.length (events st)) [n])) (emit ("torch.rand", [VList [VInt (Z.of_nat n)]]) st).
  Proof. unfold ext08. cbn. replace (0 <=? Z.of_nat n)%Z with true by (symmetry; apply Z.leb_le; lia).
    cbn. now rewrite Nat2Z.id. Qed.

  Lemma ext_rand_list2 n m st :
    ext "torch.rand" [VList [VInt (Z.of_nat n); VInt (Z.of_nat m)]] [("device", device_token)] st
    = Ok (enc_f (rand rnd (List.length (events st)) [n; m]))
         (emit ("torch.rand", [VList [VInt (Z.of_nat n); VInt (Z.of_nat m)]]) st).
  Proof. unfold ext08. cbn. replace (0 <=? Z.of_nat n)%Z with true by (symmetry; apply Z.leb_le; lia).
    replace (0 <=? Z.of_nat m)%Z with true by (symmetry; apply Z.leb_le; lia).
    cbn. now rewrite !Nat2Z.id. Qed.

  (* operators *)
  Lemma ext_div_i t (k : Z) st : ext "operator" [VStr "truediv"; enc_f t; VInt k] [] st = ret_f "truediv" (div_s a t (inject_Z k)) st.
  Proof. ext_tac. Qed.

  Lemma ext_sub_q t (s : Q) st : ext "operator" [VStr "sub"; enc_f t; VQ s] [] st = Ok (enc_f (sub_s a t s)) st.
  Proof. ext_tac. Qed.
  Lemma ext_sub_i t (k : Z) st : ext "operator" [VStr "sub"; enc_f t; VInt k] [] st = Ok (enc_f (sub_s a t (inject_Z k))) st.
  Proof. ext_tac. Qed.
  Lemma ext_sub_t t u st : ext "operator" [VStr "sub"; enc_f t; enc_f u] [] st = ret_f "sub" (sub_t a t u) st.
  Proof. ext_tac. Qed.
  Lemma ext_sub_fl t u st : ext "operator" [VStr "sub"; enc_f t; enc_l u] [] st = ret_f "sub" (sub_fl a t u) st.
  Proof. ext_tac. Qed.
  Lemma ext_rsub_l (k : Z) u st : ext "operator" [VStr "sub"; VInt k; enc_l u] [] st = Ok (enc_l (rsub_l k u)) st.
  Proof. ext_tac. Qed.

  Lemma ext_mul_iq (k : Z) t st : ext "operator" [VStr "mul"; VInt k; enc_f t] [] st = Ok (enc_f (mul_s a t (inject_Z k))) st.
  Proof. ext_tac. Qed.
  Lemma ext_mul_q t (s : Q) st : ext "operator" [VStr "mul"; enc_f t; VQ s] [] st = Ok (enc_f (mul_s a t s)) st.
  Proof. ext_tac. Qed.
  Lemma ext_mul_i t (k : Z) st : ext "operator" [VStr "mul"; enc_f t; VInt k] [] st = Ok (enc_f (mul_s a t (inject_Z k))) st.
  Proof. ext_tac. Qed.
  Lemma ext_mul_t t u st : ext "operator" [VStr "mul"; enc_f t; enc_f u] [] st = ret_f "mul" (mul_t a t u) st.
  Proof. ext_tac. Qed.

  Lemma ext_add_q t (s : Q) st : ext "operator" [VStr "add"; enc_f t; VQ s] [] st = Ok (enc_f (add_s a t s)) st.
  Proof. ext_tac. Qed.
  Lemma ext_add_i t (k : Z) st : ext "operator" [VStr "add"; enc_f t; VInt k] [] st = Ok (enc_f (add_s a t (inject_Z k))) st.
  Proof. ext_tac. Qed.
  Lemma ext_add_t t u st : ext "operator" [VStr "add"; enc_f t; enc_f u] [] st = ret_f "add" (add_t a t u) st.
  Proof. ext_tac. Qed.
  Lemma ext_add_ls t (s : Q) st : ext "operator" [VStr "add"; enc_l t; VQ s] [] st = Ok (enc_f (add_ls a t s)) st.
  Proof. ext_tac. Qed.
End ExtLemmas.

#[global] Arguments ext08 : simpl never.

(* ---- symbolic execution -------------------------------------------------------------------------- *)
(* one arithmetic operator with a tensor operand: MiniPy's own arithmetic is stuck, [ext08] is asked *)
Ltac bin_step :=
  match goal with
  | |- context [binop_eval ?op ?x ?y ?s] =>
      first [ destruct (binop_stuck_l op x y s eq_refl eq_refl) as [?w ->]
            | destruct (binop_stuck_r op x y s eq_refl eq_refl eq_refl) as [?w ->] ]
  end.

Ltac istep :=
  cbn;
  rewrite ?lookup_update; cbn;
  rewrite ?method_foreign, ?attribute_foreign by reflexivity;
  rewrite ?foreign_enc_f, ?foreign_enc_l, ?foreign_enc_b, ?truthy_enc_f;
  cbn.
