(* C08, second tie - `warp_1d_grid`, the KNOT CONSTRUCTION block (unit C08BSrc, warp_knots: from
   `src = torch.min(src, lengths - 1).clamp_min(0)` to `dst = torch.stack([lowers, dst, uppers], 1)`), run symbolically
   from an arbitrary state under [ext_core a spl gso nested] (any oracles, any nested): the two (N, 3) tensors handed to
   polyharmonic_spline hold, per batch element, the knots (lowers, src | dst, uppers) computed with the float32 rounding
   [r32 a] after every tensor operation ([wk_*], as coded); at the exact arithmetic they are PV.C08.Model.warp_knots
   (pinned boundaries lowers = 1/T - 1 - eps, uppers = (2 len - 1)/T - 1 + eps; clamped source / destination). *)
From Coq Require Import ZArith QArith Qround List String Bool Arith Lia.
From PV Require Import MiniPy.Syntax MiniPy.Interp MiniTorch.Ops MiniTorch.OpsC08 MiniTorch.LemmasC08.
From PV Require Import MiniTorch.OpsC08B MiniTorch.LemmasC08B.
From PV Require Import Gen.C08BSrc C08.SrcRun C08.TieLib C08.SrcRunB C08.TieBLib C08.TieBMask.
From PV Require C08.Model MiniTorch.Lemmas.
Import ListNotations.
Local Open Scope string_scope.

#[local] Arguments Qred : simpl never.
#[local] Arguments Qdiv : simpl never.
#[local] Arguments Qmult : simpl never.
#[local] Arguments Qplus : simpl never.
#[local] Arguments Qminus : simpl never.
#[local] Arguments Qcompare : simpl never.
#[local] Arguments Qeq_bool : simpl never.
#[local] Arguments inject_Z : simpl never.
#[local] Arguments Z.of_nat : simpl never.
#[local] Arguments cmp_eval : simpl never.
#[local] Arguments numel : simpl never.
#[local] Arguments dec_any : simpl never.
#[local] Arguments dec_c : simpl never.

(* ---- what reaches ext_core in this block ------------------------------------------------------------------------ *)
Section ExtW.
  Variable a : Model.arith.
  Variable spl : nat -> list val -> list Q.
  Variable gso : nat -> list val -> list val.
  Variable nested : string -> list val -> state -> option (outcome val).
  Notation ext := (ext_core a spl gso nested).

  Ltac ext_tac := unfold ext_core, operatorB, SrcRun.operator; cbn;
    rewrite ?dec_any_enc_f, ?dec_any_enc_l; cbn; rewrite ?dec_any_enc_f, ?dec_any_enc_l; cbn; try reflexivity.

  Lemma extW_min t u st : ext "torch.min" [enc_f t; enc_f u] [] st = ret_f "min" (min_t t u) st.
  Proof. ext_tac. Qed.
  Lemma extW_clamp_min t (k : Z) st : ext "$method.clamp_min" [enc_f t; VInt k] [] st = Ok (enc_f (clamp_min a t (inject_Z k))) st.
  Proof. ext_tac. Qed.
  Lemma extW_sub_i t (k : Z) st : ext "operator" [VStr "sub"; enc_f t; VInt k] [] st = Ok (enc_f (sub_s a t (inject_Z k))) st.
  Proof. ext_tac. Qed.
  Lemma extW_sub_q t (s : Q) st : ext "operator" [VStr "sub"; enc_f t; VQ s] [] st = Ok (enc_f (sub_s a t s)) st.
  Proof. ext_tac. Qed.
  Lemma extW_add_t t u st : ext "operator" [VStr "add"; enc_f t; enc_f u] [] st = ret_f "add" (add_t a t u) st.
  Proof. ext_tac. Qed.
  Lemma extW_add_q t (s : Q) st : ext "operator" [VStr "add"; enc_f t; VQ s] [] st = Ok (enc_f (add_s a t s)) st.
  Proof. ext_tac. Qed.
  Lemma extW_mul_qf (s : Q) t st : ext "operator" [VStr "mul"; VQ s; enc_f t] [] st = Ok (enc_f (mul_s a t s)) st.
  Proof. ext_tac. Qed.
  Lemma extW_mul_if (k : Z) t st : ext "operator" [VStr "mul"; VInt k; enc_f t] [] st = Ok (enc_f (mul_s a t (inject_Z k))) st.
  Proof. ext_tac. Qed.
  Lemma extW_div_i t (k : Z) st : ext "operator" [VStr "truediv"; enc_f t; VInt k] [] st = ret_f "truediv" (div_s a t (inject_Z k)) st.
  Proof. ext_tac. Qed.
  Lemma extW_stack3 x y z (d : Z) st :
    ext "torch.stack" [VList [enc_f x; enc_f y; enc_f z]; VInt d] [] st = ret_f "stack" (stack_last 0%Q [x; y; z] d) st.
  Proof. unfold ext_core. cbn. unfold dec_fs. cbn. rewrite !dec_any_enc_f. reflexivity. Qed.
End ExtW.

(* stacking three vectors: the (n, 3) matrix of their entries *)
Lemma stack3_T1 n (x y z : nat -> Q) :
  stack_last 0%Q [T1 n x; T1 n y; T1 n z] 1 = Some (T2 n 3 (fun i j => nth j [x i; y i; z i] 0%Q)).
Proof.
  unfold stack_last, T1, T2. cbn [shp].
  match goal with |- (if ?c then _ else _) = _ => replace c with true by (cbn; now rewrite Nat.eqb_refl) end.
  cbn [dat List.length app]. f_equal. f_equal.
  unfold numel. cbn [fold_right app]. rewrite Nat.mul_1_r. unfold tabl.
  apply MiniTorch.Lemmas.flat_map_ext_in. intros i Hi. apply in_seq in Hi. cbn [map seq nth].
  cbn [dat]. rewrite !(MiniTorch.Lemmas.nth_map_seq _ n i) by lia. reflexivity.
Qed.

Lemma vars_set_varW x v st : vars (set_var x v st) = update x v (vars st).
Proof. reflexivity. Qed.

(* ---- the knots as coded ------------------------------------------------------------------------------------------- *)
Section Knots.
  Variable a : Model.arith.
  Notation r32 := (Model.r32 a).
  Notation sc := (OpsC08.sc a).
  Local Open Scope Q_scope.

  (* torch.min(x, lengths - 1).clamp_min(0) *)
  Definition wk_clamp (x l : Q) : Q := Model.qmax (Model.qmin x (r32 (l - sc (inject_Z 1)))) (sc (inject_Z 0)).
  (* (2.0 * x + 1.0) / T - 1.0 *)
  Definition wk_coord (T : nat) (x : Q) : Q :=
    r32 (r32 (r32 (r32 (x * sc (2 # 1)) + sc (1 # 1)) / sc (inject_Z (Z.of_nat T))) - sc (1 # 1)).
  Definition wk_src (T : nat) (s l : Q) : Q := wk_coord T (wk_clamp s l).
  Definition wk_dst (T : nat) (s fl l : Q) : Q := wk_coord T (wk_clamp (r32 (wk_clamp s l + fl)) l).
  (* torch.full((N,), 1 / T - 1 - eps, dtype=torch.float): Python arithmetic (exact), then float32 *)
  Definition wk_lo (T : nat) (eps : Q) : Q :=
    r32 (Qred (Qred (Qred (inject_Z 1 / inject_Z (Z.of_nat T)) - inject_Z 1) - eps)).
  (* (2 * lengths - 1) / T - 1.0 + eps *)
  Definition wk_up (T : nat) (eps l : Q) : Q :=
    r32 (r32 (r32 (r32 (r32 (l * sc (inject_Z 2)) - sc (inject_Z 1)) / sc (inject_Z (Z.of_nat T))) - sc (1 # 1)) + sc eps).
End Knots.

Ltac extW_rw := progress rewrite ?extW_min, ?extW_clamp_min, ?extW_sub_i, ?extW_sub_q, ?extW_add_t, ?extW_add_q, ?extW_mul_qf,
  ?extW_mul_if, ?extW_div_i, ?extW_stack3, ?extB_full_q.
Ltac opsW_rw := progress (unfold min_t, clamp_min, sub_s, add_s, mul_s, div_s, add_t, full_q;
  rewrite ?tmap_T1, ?bc2_T1_T1, ?stack3_T1; cbn [ret_f]).
Ltac zeroW_rw := match goal with H : Qeq_bool _ 0 = false |- _ => rewrite H end.
Ltac runW1 := first [ lookB | bin_stepB | extW_rw | zeroW_rw | opsW_rw | progress istepB ].
Ltac runW := repeat runW1.
Ltac stmtW := erewrite exec_seq_okB; [ | solve [runW; reflexivity] ].

Section Block.
  Variable a : Model.arith.
  Variable spl : nat -> list val -> list Q.
  Variable gso : nat -> list val -> list val.
  Variable nested : string -> list val -> state -> option (outcome val).
  Notation ext := (ext_core a spl gso nested).

  Lemma knots_run vs ev N T eps (s fl L : nat -> Q) :
    lookup "src" vs = Some (enc_f (T1 N s)) -> lookup "flow" vs = Some (enc_f (T1 N fl)) ->
    lookup "lengths" vs = Some (enc_f (T1 N L)) -> lookup "T" vs = Some (VInt (Z.of_nat T)) ->
    lookup "eps" vs = Some (VQ eps) -> lookup "N" vs = Some (VInt (Z.of_nat N)) ->
    lookup "device" vs = Some device_token ->
    lookup "torch" vs = Some (VDict [(VStr "float", float_token); (VStr "long", long_token)]) ->
    Qeq_bool (inject_Z (Z.of_nat T)) 0 = false -> Qeq_bool (sc a (inject_Z (Z.of_nat T))) 0 = false ->
    exists vs', exec ext warp_knots (mkState vs ev) = Ok CNormal (mkState vs' ev)
      /\ lookup "src" vs' = Some (enc_f (T2 N 3 (fun n j => nth j [wk_lo a T eps; wk_src a T (s n) (L n); wk_up a T eps (L n)] 0%Q)))
      /\ lookup "dst" vs' = Some (enc_f (T2 N 3 (fun n j => nth j [wk_lo a T eps; wk_dst a T (s n) (fl n) (L n); wk_up a T eps (L n)] 0%Q)))
      /\ forall x, String.eqb x "src" = false -> String.eqb x "dst" = false -> String.eqb x "lowers" = false ->
                   String.eqb x "uppers" = false -> lookup x vs' = lookup x vs.
  Proof.
    intros Hs Hf HL HT He HN Hd Ht Z1 Z2. unfold warp_knots.
    eexists. split; [|split; [|split]].
    - stmtW. stmtW. stmtW. stmtW. stmtW. stmtW. stmtW. runW. reflexivity.
    - rewrite !vars_set_varW. cbn [vars]. rewrite !lookup_update. cbn. reflexivity.
    - rewrite !vars_set_varW. cbn [vars]. rewrite !lookup_update. cbn. reflexivity.
    - intros x H1 H2 H3 H4. rewrite !vars_set_varW. cbn [vars]. rewrite !lookup_update, H1, H2, H3, H4. reflexivity.
  Qed.
End Block.

(* ---- at the exact arithmetic the knots are the model's -------------------------------------------------------------- *)
Lemma wk_model eps T s fl l :
  let k := Model.warp_knots eps (Z.of_nat T) s fl l in
  (wk_lo Model.exact T eps == Model.k_lo k)%Q /\ (wk_src Model.exact T s l == Model.k_src k)%Q
  /\ (wk_dst Model.exact T s fl l == Model.k_dst k)%Q /\ (wk_up Model.exact T eps l == Model.k_up k)%Q.
Proof.
  cbv zeta. unfold Model.warp_knots. cbn [Model.k_lo Model.k_src Model.k_dst Model.k_up].
  unfold wk_lo, wk_src, wk_dst, wk_up, wk_coord, wk_clamp, Model.coord, OpsC08.sc, Model.z2q. cbn [Model.r32 Model.exact].
  change (inject_Z 1) with 1%Q. change (inject_Z 0) with 0%Q. change (inject_Z 2) with 2%Q. change (1 # 1)%Q with 1%Q. change (2 # 1)%Q with 2%Q.
  repeat split.
  - rewrite !Qred_correct. reflexivity.
  - unfold Qdiv. ring.
  - unfold Qdiv. ring.
  - unfold Qdiv. ring.
Qed.

Lemma of_nat_nz T : T <> 0%nat -> Qeq_bool (inject_Z (Z.of_nat T)) 0 = false.
Proof.
  intros H. destruct (Qeq_bool (inject_Z (Z.of_nat T)) 0) eqn:E; [|reflexivity].
  apply Qeq_bool_iff in E. unfold Qeq, inject_Z in E. cbn [Qnum Qden] in E. lia.
Qed.

Theorem knots_block_exact : forall spl gso nested vs ev N T eps (s fl L : nat -> Q),
  lookup "src" vs = Some (enc_f (T1 N s)) -> lookup "flow" vs = Some (enc_f (T1 N fl)) ->
  lookup "lengths" vs = Some (enc_f (T1 N L)) -> lookup "T" vs = Some (VInt (Z.of_nat T)) ->
  lookup "eps" vs = Some (VQ eps) -> lookup "N" vs = Some (VInt (Z.of_nat N)) ->
  lookup "device" vs = Some device_token ->
  lookup "torch" vs = Some (VDict [(VStr "float", float_token); (VStr "long", long_token)]) ->
  T <> 0%nat ->
  exists vs' ks kd, exec (ext_core Model.exact spl gso nested) warp_knots (mkState vs ev) = Ok CNormal (mkState vs' ev)
    /\ lookup "src" vs' = Some (enc_f (T2 N 3 ks)) /\ lookup "dst" vs' = Some (enc_f (T2 N 3 kd))
    /\ forall n, let k := Model.warp_knots eps (Z.of_nat T) (s n) (fl n) (L n) in
         (ks n 0%nat == Model.k_lo k /\ ks n 1%nat == Model.k_src k /\ ks n 2%nat == Model.k_up k
          /\ kd n 0%nat == Model.k_lo k /\ kd n 1%nat == Model.k_dst k /\ kd n 2%nat == Model.k_up k)%Q.
Proof.
  intros spl gso nested vs ev N T eps s fl L Hs Hf HL HT He HN Hd Ht HT0.
  destruct (knots_run Model.exact spl gso nested vs ev N T eps s fl L Hs Hf HL HT He HN Hd Ht (of_nat_nz T HT0) (of_nat_nz T HT0))
    as [vs' [E [Ls [Ld _]]]].
  eexists. eexists. eexists. split; [exact E|]. split; [exact Ls|]. split; [exact Ld|].
  intros n. cbv zeta. cbn [nth]. destruct (wk_model eps T (s n) (fl n) (L n)) as [A [B [C D]]]. repeat split; assumption.
Qed.
