(* C11, second source tie - the statements used by Properties.v (collected and composed with the model's theorems). *)
From Coq Require Import ZArith QArith List String Bool Lia.
From PV Require C11.Proofs C11.ProofsTrn.
From PV Require Import C11.Model C11.ModelB C11.Spec MiniPy.Syntax MiniPy.Interp C11.SrcRun C11.SrcRunB C11.TieBBase
  C11.TieBTrn.
Import ListNotations.
Local Open Scope string_scope.

Definition trn_var : string := "trn".
Definition tg_var : string := "tg".

(* ---- write_trn ------------------------------------------------------------------------------------------------- *)
Theorem handle_x_is_model : forall x n, (edepth x <= n)%nat ->
  exists st, run_handle_x n (enc_elem x) = Ok (enc_str (handle_x x)) st.
Proof. exact handle_x_tie. Qed.

Theorem write_trn_is_model : forall ts n, (S (tdepth ts) <= n)%nat ->
  exists st, run_write_trn n (enc_trn_ts ts) (mk_file VNone []) = Ok VNone st
             /\ file_text "trn" st = Some (write_trn_tops ts).
Proof.
  intros ts n Hn. destruct (write_trn_open_tie ts n VNone [] Hn) as (st & Hr & Hv & _).
  exists st. split; [exact Hr|]. unfold file_text. rewrite Hv, is_file_mk. reflexivity.
Qed.

Theorem write_trn_path_is_model : forall ts n path, (S (S (tdepth ts)) <= n)%nat ->
  exists st, run_write_trn n (enc_trn_ts ts) (enc_str path) = Ok VNone st
             /\ last_written st = Some (enc_str path, write_trn_path (map untimed_utt ts)).
Proof.
  intros ts n path Hn. destruct (write_trn_path_tie ts n path Hn) as (st & Hr & He).
  exists st. split; [exact Hr|]. unfold last_written. rewrite He. cbn [rev app String.eqb Ascii.eqb Bool.eqb].
  rewrite is_file_mk. reflexivity.
Qed.

(* composed with Proofs.trn_roundtrip (= c11_trn_roundtrip): what the interpreted write_trn writes, the MODEL reader
   (C11.Model.read_trn_serial - the trn reader is tied to /repo by the differential runs only) reads back as the
   transcripts without their times *)
Theorem source_trn_roundtrip : forall ts n, (S (tdepth ts) <= n)%nat ->
  trn_okb (map untimed_utt ts) = true ->
  exists st text, run_write_trn n (enc_trn_ts ts) (mk_file VNone []) = Ok VNone st
                  /\ file_text "trn" st = Some text
                  /\ read_trn_serial text = Model.Ok (map untimed_utt ts).
Proof.
  intros ts n Hn Hok. destruct (write_trn_is_model ts n Hn) as (st & Hr & Hf).
  exists st, (write_trn_tops ts). split; [exact Hr|]. split; [exact Hf|].
  unfold write_trn_tops. apply ProofsTrn.trn_roundtrip. exact Hok.
Qed.
