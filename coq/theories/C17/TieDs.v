(* C17 - tie between the Python text of _TranscriptDataSet.__getitem__ (command_line.py) and the tail of
   PV.C17.Model.load_transcript: for every transcript returned by data.token_to_transcript (any length, plain and
   timed tokens), every id2token / strip_timing setting, the interpreted method returns (utt_id, the transcript with
   the timing stripped on request) or raises ValueError exactly when an id2token map was given and a token is still
   an int.  Proof: the `for idx in range(len(transcript))` loop by induction over the unprocessed items
   (MiniPy.Lemmas.for_loop), one symbolic execution of the body per kind of item. *)
From Coq Require Import ZArith QArith List String Bool Arith Lia ZifyBool ZifyNat.
From PV Require Import C11.Model C17.Model.
From PV Require Import MiniPy.Syntax MiniPy.Interp MiniPy.Lemmas MiniTorch.OpsC17 MiniTorch.ValueC17 Gen.C17Src
  C17.SrcRun C17.TieLib.
Import ListNotations.
Local Open Scope string_scope.
Local Open Scope list_scope.

Definition strip_item (strip : bool) (a : item) : item := if strip then Plain (item_tk a) else a.

(* the tail of Model.load_transcript, after rows_of and token_to_transcript *)
Definition finish_transcript (i2t : option (list (Z * tk))) (strip : bool) (tr : list item) : out (list item) :=
  match i2t with
  | Some _ => if existsb (fun a => is_int (item_tk a)) tr then Fail EValue else Done (map (strip_item strip) tr)
  | None => Done (map (strip_item strip) tr)
  end.

Lemma load_transcript_finish : forall i2t fs strip t,
  load_transcript i2t fs strip t
  = match rows_of t with
    | Fail e => Fail e
    | Done rows => finish_transcript i2t strip (token_to_transcript rows i2t fs)
    end.
Proof.
  intros. unfold load_transcript, finish_transcript, strip_item. destruct (rows_of t) as [rows|e]; [|reflexivity].
  assert (M : map (fun a : item => a) (token_to_transcript rows i2t fs) = token_to_transcript rows i2t fs) by apply map_id.
  destruct i2t as [l|]; destruct strip; try reflexivity; rewrite M; reflexivity.
Qed.

(* an int token left in the transcript is not a key of id2token *)
Definition ints_unknown (i2t : option (list (Z * tk))) (tr : list item) : Prop :=
  match i2t with
  | None => True
  | Some l => forall a z, List.In a tr -> item_tk a = TInt z -> existsb (fun kv => Z.eqb z (fst kv)) l = false
  end.

(* ---- values ---- *)
Lemma dec_chars_enc : forall s, dec_chars (map VInt s) = Some s.
Proof. induction s as [|c s IH]; [reflexivity|]. cbn [map dec_chars]. now rewrite IH. Qed.

Lemma dec_tk_enc : forall t, dec_tk (enc_tk t) = Some t.
Proof. intros [z|s]; [reflexivity|]. unfold enc_tk, dec_tk. cbn. now rewrite dec_chars_enc. Qed.

Lemma dec_item_enc : forall a, dec_item (enc_item a) = Some a.
Proof.
  intros [t|t s e]; unfold dec_item, enc_item.
  - now rewrite dec_tk_enc.
  - replace (dec_tk (VTuple [enc_tk t; VQ s; VQ e])) with (@None tk) by (destruct t; reflexivity).
    now rewrite dec_tk_enc.
Qed.

Lemma dec_items_enc : forall l, dec_items (map enc_item l) = Some l.
Proof. induction l as [|a l IH]; [reflexivity|]. cbn [map dec_items]. now rewrite dec_item_enc, IH. Qed.

Lemma mem_keys : forall z (l : list (Z * tk)),
  mem (VInt z) (map fst (map (fun kv => (VInt (fst kv), enc_tk (snd kv))) l)) = existsb (fun kv => Z.eqb z (fst kv)) l.
Proof. induction l as [|[k t] l IH]; [reflexivity|]. cbn [map fst mem existsb val_eqb]. now rewrite IH. Qed.

(* ---- indexing the transcript at the loop position ---- *)
Lemma subscript_mid : forall (l1 : list val) x l2 st,
  subscript (VList (l1 ++ x :: l2)) (VInt (Z.of_nat (List.length l1))) st = Ok x st.
Proof.
  intros. unfold subscript. replace (Z.of_nat (List.length l1) <? 0)%Z with false by lia.
  rewrite app_length. cbn [List.length].
  replace ((0 <=? Z.of_nat (List.length l1)) && (Z.of_nat (List.length l1) <? Z.of_nat (List.length l1 + S (List.length l2))))%bool%Z
    with true by lia.
  rewrite Nat2Z.id, app_nth2, Nat.sub_diag by lia. reflexivity.
Qed.

Lemma list_set_mid : forall (l1 : list val) x l2 v, list_set (l1 ++ x :: l2) (List.length l1) v = l1 ++ v :: l2.
Proof. induction l1 as [|y l1 IH]; intros; cbn; [reflexivity|now rewrite IH]. Qed.

Lemma zrange_nat : forall m, zrange 0 (Z.of_nat m) = map (fun i => VInt (Z.of_nat i)) (seq 0 m).
Proof. intros. unfold zrange. rewrite Z.sub_0_r, Nat2Z.id. apply map_ext. intros. f_equal. Qed.

(* ---- the run ---- *)
#[local] Arguments then_ : simpl never.
#[local] Arguments subscript : simpl never.
#[local] Arguments store : simpl never.
#[local] Arguments Z.of_nat : simpl never.
#[local] Arguments list_set : simpl never.

Lemma store_name : forall ext x v st, store ext (EName x) v st = Ok tt (set_var x v st).
Proof. reflexivity. Qed.

Lemma subscript_pair0 : forall a b st, subscript (VTuple [a; b]) (VInt 0) st = Ok a st.
Proof. reflexivity. Qed.
Lemma subscript_pair1 : forall a b st, subscript (VTuple [a; b]) (VInt 1) st = Ok b st.
Proof. reflexivity. Qed.

Lemma subscript_triple0_int : forall z s e st, subscript (VTuple [VInt z; s; e]) (VInt 0) st = Ok (VInt z) st.
Proof. reflexivity. Qed.
Lemma subscript_triple0_str : forall c s e st,
  subscript (VTuple [VTuple [VStr "$str"; VList c]; s; e]) (VInt 0) st = Ok (VTuple [VStr "$str"; VList c]) st.
Proof. reflexivity. Qed.

Lemma store_transcript : forall ext st pre x rest v,
  lookup "transcript" (vars st) = Some (VList (pre ++ x :: rest)) ->
  lookup "idx" (vars st) = Some (VInt (Z.of_nat (List.length pre))) ->
  store ext (ESub (EName "transcript") (EName "idx")) v st
  = Ok tt (set_var "transcript" (VList (pre ++ v :: rest)) st).
Proof.
  intros ext st pre x rest v H1 H2. unfold store. cbn [eval]. rewrite H1. cbn [bind]. rewrite H2. cbn [bind].
  replace (Z.of_nat (List.length pre) <? 0)%Z with false by lia.
  rewrite app_length. cbn [List.length].
  replace ((0 <=? Z.of_nat (List.length pre)) && (Z.of_nat (List.length pre) <? Z.of_nat (List.length pre + S (List.length rest))))%bool%Z
    with true by lia.
  rewrite Nat2Z.id, list_set_mid. reflexivity.
Qed.

Section Ds.
  Variables (utt tok : val) (i2t : option (list (Z * tk))) (fs : option Q) (strip : bool) (tr : list item).
  Let ext := ext17_ds (VTuple [utt; tok]) tr.

  (* the variables while the loop runs: [trl] the transcript list, [extra] = idx and token once they exist *)
  Definition ds_vars (trl : list val) (extra : list (string * val)) : list (string * val) :=
    [("self", ds_self i2t fs strip); ("index", VInt 0); ("tuple", tuple_type); ("int", int_type);
     ("$t1", VTuple [utt; tok]); ("utt_id", utt); ("tok", tok); ("transcript", VList trl)] ++ extra.

  Definition extra_ok (extra : list (string * val)) : Prop :=
    extra = [] \/ exists a b, extra = [("idx", a); ("token", b)].

  Definition for_body (s : stmt) : stmt :=
    match s with SSeq _ (SSeq _ (SSeq (SFor _ _ b) _)) => b | _ => SPass end.

  Ltac store_step :=
    match goal with
    | |- context [store ?e (ESub (EName "transcript") (EName "idx")) ?v ?st] =>
        match st with context [VList (?p ++ ?x :: ?r)] => rewrite (store_transcript e st p x r v) by reflexivity end
    end.
  Ltac dstep := cbn; rewrite ?store_name, ?subscript_mid, ?subscript_pair0, ?subscript_pair1, ?subscript_triple0_int, ?subscript_triple0_str;
    try store_step.

  Definition must_raise (a : item) : bool :=
    is_int (item_tk a) && match i2t with Some _ => true | None => false end.

  Definition iter_state (pre : list val) (a : item) (rest : list val) (extra : list (string * val)) : state :=
    set_var "idx" (VInt (Z.of_nat (List.length pre))) (mkState (ds_vars (pre ++ enc_item a :: rest) extra) []).

  Lemma iter_ok : forall a pre rest extra, extra_ok extra -> ints_unknown i2t [a] -> must_raise a = false ->
    exec ext (for_body tds_getitem) (iter_state pre a rest extra)
    = Ok CNormal (mkState (ds_vars (pre ++ enc_item (strip_item strip a) :: rest)
                             [("idx", VInt (Z.of_nat (List.length pre))); ("token", enc_tk (item_tk a))]) []).
  Proof.
    intros a pre rest extra [->|[a0 [b0 ->]]] U M; unfold tds_getitem, for_body, iter_state, ds_vars, ds_self; cbn [app].
    - destruct a as [[z|s]|[z|s] qs qe]; unfold must_raise in M; cbn [item_tk is_int andb] in M.
      + destruct i2t as [l|]; [discriminate|]. repeat (progress dstep). destruct strip; reflexivity.
      + repeat (progress dstep). destruct strip; reflexivity.
      + destruct i2t as [l|]; [discriminate|]. destruct strip; repeat (progress dstep); reflexivity.
      + destruct strip; repeat (progress dstep); reflexivity.
    - destruct a as [[z|s]|[z|s] qs qe]; unfold must_raise in M; cbn [item_tk is_int andb] in M.
      + destruct i2t as [l|]; [discriminate|]. repeat (progress dstep). destruct strip; reflexivity.
      + repeat (progress dstep). destruct strip; reflexivity.
      + destruct i2t as [l|]; [discriminate|]. destruct strip; repeat (progress dstep); reflexivity.
      + destruct strip; repeat (progress dstep); reflexivity.
  Qed.

  Lemma iter_raise : forall a pre rest extra, extra_ok extra -> ints_unknown i2t [a] -> must_raise a = true ->
    exists st', exec ext (for_body tds_getitem) (iter_state pre a rest extra) = Exc "ValueError" st' /\ events st' = [].
  Proof.
    intros a pre rest extra E U M. unfold must_raise in M.
    destruct i2t as [l|] eqn:Ei; [|now rewrite andb_false_r in M]. rewrite andb_true_r in M.
    assert (K : forall z, item_tk a = TInt z ->
                mem (VInt z) (map fst (map (fun kv : Z * tk => (VInt (fst kv), enc_tk (snd kv))) l)) = false).
    { intros z Hz. rewrite mem_keys. apply (U a z); [now left|exact Hz]. }
    destruct E as [->|[a0 [b0 ->]]]; unfold tds_getitem, for_body, iter_state, ds_vars, ds_self; cbn [app];
      destruct a as [[z|s]|[z|s] qs qe]; cbn [item_tk is_int] in M; try discriminate;
      specialize (K z eq_refl); rewrite ?Ei; cbn [enc_i2t].
    - repeat (progress dstep). rewrite K. repeat (progress dstep). eexists. split; reflexivity.
    - destruct strip; repeat (progress dstep); rewrite K; repeat (progress dstep); eexists; split; reflexivity.
    - repeat (progress dstep). rewrite K. repeat (progress dstep). eexists. split; reflexivity.
    - destruct strip; repeat (progress dstep); rewrite K; repeat (progress dstep); eexists; split; reflexivity.
  Qed.

  Lemma ints_unknown_cons : forall a rest, ints_unknown i2t (a :: rest) -> ints_unknown i2t [a] /\ ints_unknown i2t rest.
  Proof.
    intros a rest U. unfold ints_unknown in *. destruct i2t as [l|]; [|split; exact I]. split.
    - intros b z [<-|[]] Hb. apply (U a z); [now left|exact Hb].
    - intros b z Hin Hb. apply (U b z); [now right|exact Hb].
  Qed.

  (* the loop over the unprocessed items [rest]; [pre] = the (already processed) front of the transcript *)
  Lemma loop_run : forall rest pre extra, extra_ok extra -> ints_unknown i2t rest ->
    let items := map (fun i => VInt (Z.of_nat i)) (seq (List.length pre) (List.length rest)) in
    let st0 := mkState (ds_vars (pre ++ map enc_item rest) extra) [] in
    if existsb must_raise rest
    then exists st', for_loop ext "idx" (for_body tds_getitem) items st0 = Exc "ValueError" st' /\ events st' = []
    else exists extra', extra_ok extra' /\
           for_loop ext "idx" (for_body tds_getitem) items st0
           = Ok CNormal (mkState (ds_vars (pre ++ map enc_item (map (strip_item strip) rest)) extra') []).
  Proof.
    induction rest as [|a rest IH]; intros pre extra E U; cbn zeta.
    - cbn [existsb map seq List.length for_loop]. exists extra. split; [exact E|reflexivity].
    - destruct (ints_unknown_cons _ _ U) as [Ua Ur].
      cbn [existsb map seq List.length for_loop].
      change (set_var "idx" (VInt (Z.of_nat (List.length pre))) (mkState (ds_vars (pre ++ enc_item a :: map enc_item rest) extra) []))
        with (iter_state pre a (map enc_item rest) extra).
      destruct (must_raise a) eqn:M; cbn [orb].
      + destruct (iter_raise a pre (map enc_item rest) extra E Ua M) as [st' [X1 X2]].
        exists st'. rewrite X1. split; [reflexivity|exact X2].
      + rewrite (iter_ok a pre (map enc_item rest) extra E Ua M). cbn [bind].
        assert (E' : extra_ok [("idx", VInt (Z.of_nat (List.length pre))); ("token", enc_tk (item_tk a))])
          by (right; eexists; eexists; reflexivity).
        specialize (IH (pre ++ [enc_item (strip_item strip a)]) _ E' Ur). cbn zeta in IH.
        rewrite app_length, <- app_assoc in IH. cbn [List.length app] in IH. rewrite Nat.add_1_r in IH.
        destruct (existsb must_raise rest).
        * exact IH.
        * destruct IH as [extra' [Ex IH]]. exists extra'. split; [exact Ex|].
          rewrite IH, <- app_assoc. reflexivity.
  Qed.

  Definition outcome_of (m : out (list item)) (o : outcome val) : Prop :=
    match m with
    | Done l => exists st, o = Ok (VTuple [utt; enc_items l]) st /\ events st = []
    | Fail e => exists st, o = Exc (name_of_err e) st /\ events st = []
    end.

  Lemma must_raise_model : forall l,
    match i2t with
    | Some _ => existsb (fun a => is_int (item_tk a)) l
    | None => false
    end = existsb must_raise l.
  Proof.
    intros l. unfold must_raise. destruct i2t as [d|].
    - induction l as [|a l IH]; [reflexivity|]. cbn [existsb]. now rewrite IH, andb_true_r.
    - induction l as [|a l IH]; [reflexivity|]. cbn [existsb]. now rewrite <- IH, andb_false_r.
  Qed.

  Theorem getitem_tie : ints_unknown i2t tr ->
    outcome_of (finish_transcript i2t strip tr)
               (Interp.run ext tds_getitem (getitem_vars (ds_self i2t fs strip) (VInt 0))).
  Proof.
    intros U.
    pose proof (loop_run tr [] [] (or_introl eq_refl) U) as L. cbn zeta in L. cbn [List.length app] in L.
    rewrite <- zrange_nat in L.
    assert (FT : finish_transcript i2t strip tr
                 = if existsb must_raise tr then Fail EValue else Done (map (strip_item strip) tr)).
    { unfold finish_transcript. rewrite <- must_raise_model. destruct i2t; reflexivity. }
    rewrite FT. clear FT.
    unfold Interp.run, tds_getitem, getitem_vars.
    open_seq. repeat (progress dstep). close_stmt.
    open_seq. repeat (progress dstep). close_stmt.
    rewrite exec_seq', (exec_for ext). unfold enc_items. cbn [eval bind builtin is String.eqb Ascii.eqb Bool.eqb lookup vars container_items iter_items].
    rewrite map_length. unfold tds_getitem, for_body, ds_vars in L. cbn [app] in L.
    destruct (existsb must_raise tr).
    - destruct L as [st' [L1 L2]]. rewrite L1. cbn [bind]. exists st'. split; [reflexivity|exact L2].
    - destruct L as [extra' [Ex L1]]. rewrite L1. cbn [bind]. rewrite then_normal.
      destruct Ex as [->|[a0 [b0 ->]]]; cbn; eexists; split; reflexivity.
  Qed.
End Ds.

(* ---- with data.token_to_transcript = C11's model: the whole of Model.load_transcript ---------------------------- *)
(* id2token maps ids to STRINGS (what _parse_token2id builds from a file of "token id" lines) *)
Definition i2t_strings (i2t : option (list (Z * tk))) : Prop :=
  match i2t with None => True | Some l => Forall (fun kv : Z * tk => is_int (snd kv) = false) l end.

Lemma assoc_cases : forall (l : list (Z * tk)) i,
  match assoc Z.eqb i l with
  | Some t => List.In (i, t) l
  | None => existsb (fun kv : Z * tk => Z.eqb i (fst kv)) l = false
  end.
Proof.
  induction l as [|[k v] l IH]; intros i; [reflexivity|]. cbn [assoc existsb fst].
  destruct (Z.eqb i k) eqn:E.
  - apply Z.eqb_eq in E. subst. now left.
  - specialize (IH i). destruct (assoc Z.eqb i l); [now right|exact IH].
Qed.

Lemma ints_unknown_ttt : forall i2t fs rows, i2t_strings i2t -> ints_unknown i2t (token_to_transcript rows i2t fs).
Proof.
  intros i2t fs rows S. unfold ints_unknown. destruct i2t as [l|]; [|exact I].
  intros a z Hin Ha. unfold token_to_transcript in Hin. apply in_map_iff in Hin. destruct Hin as [[[i s] e] [Hf _]].
  pose proof (assoc_cases l i) as C. cbn [i2t_strings] in S. rewrite Forall_forall in S.
  assert (T : item_tk a = match assoc Z.eqb i l with Some t => t | None => TInt i end).
  { subst a. destruct ((s =? -1)%Z || (e =? -1)%Z)%bool; [reflexivity|]. destruct fs; reflexivity. }
  rewrite Ha in T. destruct (assoc Z.eqb i l) as [t|].
  - subst t. specialize (S _ C). discriminate S.
  - inversion T. subst. exact C.
Qed.

Theorem load_transcript_tie : forall i2t fs strip t, i2t_strings i2t ->
  src_load_transcript i2t fs strip t = Some (load_transcript i2t fs strip t).
Proof.
  intros i2t fs strip t S. rewrite load_transcript_finish. unfold src_load_transcript.
  destruct (rows_of t) as [rows|e]; [|reflexivity].
  pose proof (getitem_tie (VStr "utt") (enc_tensor t) i2t fs strip (token_to_transcript rows i2t fs)
                          (ints_unknown_ttt i2t fs rows S)) as G.
  unfold run_getitem.
  destruct (finish_transcript i2t strip (token_to_transcript rows i2t fs)) as [l|e] eqn:F; cbn [outcome_of] in G.
  - destruct G as [st [G1 G2]]. rewrite G1, G2. unfold enc_items. cbn [val_eqb String.eqb Ascii.eqb Bool.eqb].
    now rewrite dec_items_enc.
  - assert (e = EValue) as ->.
    { unfold finish_transcript in F. destruct i2t; [destruct (existsb _ _) in F|]; inversion F; reflexivity. }
    destruct G as [st [G1 G2]]. rewrite G1, G2. reflexivity.
Qed.
