(* C10 - policy 'ali', part 2: the per-row masks select the documented segment boundaries, and the two global
   nonzero() results are the concatenation of per-row (source, start, end) blocks. *)
From Coq Require Import List ZArith Bool Arith Lia Sorted.
From PV Require Import C10.Model C10.Spec C10.Lists.
Import ListNotations.
Local Open Scope Z_scope.

Lemma nonzero_from_filter : forall (p : nat -> bool) n s,
  nonzero_from (Z.of_nat s) (map p (seq s n)) = map Z.of_nat (filter p (seq s n)).
Proof.
  intros p n; induction n as [|n IH]; intros s; [reflexivity|].
  cbn [seq map nonzero_from filter]. replace (Z.of_nat s + 1) with (Z.of_nat (S s)) by lia.
  destruct (p s); cbn [map]; now rewrite IH.
Qed.

Lemma nth_firstn_lt : forall A (l : list A) k i d, (i < k)%nat -> nth i (firstn k l) d = nth i l d.
Proof.
  intros A l; induction l as [|x l IH]; intros k i d H; [now rewrite firstn_nil|].
  destruct k as [|k]; [lia|]. destruct i as [|i]; [reflexivity|]. cbn. apply IH. lia.
Qed.

(* the boundary test as the code evaluates it, at position t of a row whose length is L *)
Definition bdb (row : list Z) (L : Z) (t : nat) : bool :=
  match t with
  | O => L >? 0
  | S t' => negb (nth t' row 0 =? nth t row 0) && (L >? Z.of_nat t)
  end.
Definition bnds (T : nat) (row : list Z) (L : Z) : list nat := filter (bdb row L) (seq 0 T).
Definition ends_of (B : list nat) (L : nat) : list nat := match B with [] => [] | _ :: B' => B' ++ [L] end.

Definition Lz (T : nat) (inl : option Z) : Z := match inl with Some l => l | None => Z.of_nat T end.

Lemma nonzero_from_filter0 : forall (p : nat -> bool) n,
  nonzero_from 0 (map p (seq 0 n)) = map Z.of_nat (filter p (seq 0 n)).
Proof. intros p n. exact (nonzero_from_filter p n 0). Qed.

Lemma chg_bdb : forall T row inl t, (1 <= t < T)%nat ->
  negb (nth (t - 1) row 0 =? nth t row 0) && match inl with Some l => l >? Z.of_nat t | None => true end
  = bdb row (Lz T inl) t.
Proof.
  intros T row inl t Ht. destruct t as [|t']; [lia|]. cbn [bdb].
  replace (S t' - 1)%nat with t' by lia. f_equal.
  destruct inl as [l|]; cbn [Lz]; [reflexivity|]. symmetry. rewrite Z.gtb_ltb. apply Z.ltb_lt. lia.
Qed.

Lemma row_starts : forall v T row inl, (1 <= T)%nat ->
  nonzero_from 0 (fst (ali_row_masks v T row inl)) = map Z.of_nat (bnds T row (Lz T inl)).
Proof.
  intros v T row inl HT. unfold ali_row_masks, bnds. cbn [fst]. fold (Lz T inl).
  rewrite <- nonzero_from_filter0. f_equal.
  destruct T as [|T']; [lia|]. cbn [seq map bdb]. replace (S T' - 1)%nat with T' by lia. f_equal.
  apply map_ext_in. intros t Ht. apply in_seq in Ht. apply chg_bdb. lia.
Qed.

(* the mask whose nonzero() gives the ends, position by position (repaired variant: T + 1 columns) *)
Definition pe (T : nat) (row : list Z) (L : Z) (t : nat) : bool :=
  (match t with O => false | S _ => (t <? T)%nat && bdb row L t end) || ((L >? 0) && (L =? Z.of_nat t)).

Lemma row_ends_mask : forall v T row inl, d1 v = false -> (1 <= T)%nat ->
  snd (ali_row_masks v T row inl) = map (pe T row (Lz T inl)) (seq 0 (T + 1)).
Proof.
  intros v T row inl Hv HT. unfold ali_row_masks. cbn [snd]. fold (Lz T inl). rewrite Hv.
  set (chg := map _ (seq 1 (T - 1))).
  assert (Hchg : chg = map (bdb row (Lz T inl)) (seq 1 (T - 1))).
  { subst chg. apply map_ext_in. intros t Ht. apply in_seq in Ht. apply chg_bdb. lia. }
  assert (He0 : (false :: chg) ++ [false]
                = map (fun t => match t with O => false | S _ => (t <? T)%nat && bdb row (Lz T inl) t end) (seq 0 (T + 1))).
  { rewrite Hchg. replace (T + 1)%nat with (S (T - 1) + 1)%nat by lia. rewrite seq_app, map_app. cbn [seq map Nat.add]. f_equal.
    - f_equal. apply map_ext_in. intros t Ht. apply in_seq in Ht. destruct t as [|t']; [lia|].
      destruct (Nat.ltb_spec (S t') T); [reflexivity|lia].
    - destruct (Nat.ltb_spec (S (T - 1)) T); [lia|reflexivity]. }
  rewrite He0. unfold zlen. rewrite map_length, seq_length.
  assert (Har : arange 0 (Z.of_nat (T + 1)) 1 = map Z.of_nat (seq 0 (T + 1))).
  { unfold arange. rewrite Z.div_1_r. replace (Z.to_nat (Z.of_nat (T + 1) - 0 + 1 - 1)) with (T + 1)%nat by lia.
    apply map_ext. intros; lia. }
  rewrite Har, map2_map_map. reflexivity.
Qed.

Lemma sorted_app_single : forall l x, StronglySorted lt l -> (forall t, In t l -> (t < x)%nat) -> StronglySorted lt (l ++ [x]).
Proof.
  intros l x H; induction H as [|y l H IH Hy]; intros Hx; cbn.
  - constructor; constructor.
  - constructor.
    + apply IH. intros; apply Hx; now right.
    + rewrite Forall_forall in *. intros t Ht. apply in_app_or in Ht as [Ht|[Ht|[]]]; [now apply Hy|].
      subst t. apply Hx. now left.
Qed.

Lemma bnds_sorted : forall T row L, StronglySorted lt (bnds T row L).
Proof. intros. apply sorted_filter, sorted_seq. Qed.

Lemma bnds_in : forall T row L t, In t (bnds T row L) <-> (t < T)%nat /\ bdb row L t = true.
Proof. intros. unfold bnds. rewrite filter_In, in_seq. intuition lia. Qed.

Lemma bdb_lt : forall row L t, bdb row L t = true -> Z.of_nat t < L.
Proof.
  intros row L [|t] H; cbn [bdb] in H.
  - apply Z.gtb_lt in H. lia.
  - apply andb_true_iff in H as [_ H]. apply Z.gtb_lt in H. lia.
Qed.

Lemma bnds_head : forall T row L, (1 <= T)%nat -> 0 < L -> exists B', bnds T row L = 0%nat :: B' /\ forall t, In t B' -> (1 <= t)%nat.
Proof.
  intros T row L HT HL. unfold bnds. destruct T as [|T']; [lia|]. cbn [seq filter bdb].
  destruct (Z.gtb_spec L 0); [|lia]. eexists. split; [reflexivity|].
  intros t Ht. apply filter_In in Ht as [Ht _]. apply in_seq in Ht. lia.
Qed.

Lemma row_ends : forall T row L, (1 <= T)%nat -> 0 <= L <= Z.of_nat T ->
  filter (pe T row L) (seq 0 (T + 1)) = ends_of (bnds T row L) (Z.to_nat L).
Proof.
  intros T row L HT HL. apply sorted_lt_ext.
  - apply sorted_filter, sorted_seq.
  - pose proof (bnds_sorted T row L) as Hs. destruct (bnds T row L) as [|b B'] eqn:EB; cbn [ends_of]; [constructor|].
    apply StronglySorted_inv in Hs as [Hs _]. apply sorted_app_single; [assumption|].
    intros t Ht. assert (Hin : In t (bnds T row L)) by (rewrite EB; now right).
    apply bnds_in in Hin as [_ Hin]. apply bdb_lt in Hin. lia.
  - intros t. rewrite filter_In, in_seq. unfold pe.
    destruct (Z.le_gt_cases L 0) as [HL0|HL0].
    + (* empty sequence: nothing *)
      assert (L = 0) by lia. subst L.
      assert (EB : bnds T row 0 = []).
      { unfold bnds. rewrite (filter_ext_in _ _ (fun _ => false)); [induction (seq 0 T); cbn; auto|].
        intros a _. destruct (bdb row 0 a) eqn:E; [|reflexivity]. apply bdb_lt in E. lia. }
      rewrite EB. cbn [ends_of In]. split; [|tauto]. intros [_ H]. cbn [Z.gtb Z.compare andb] in H. rewrite orb_false_r in H.
      destruct t as [|t']; [discriminate|]. apply andb_true_iff in H as [_ H]. apply bdb_lt in H. lia.
    + destruct (bnds_head T row L HT HL0) as (B' & EB & HB'). rewrite EB. cbn [ends_of].
      rewrite in_app_iff. cbn [In].
      assert (HinB' : In t B' <-> (1 <= t < T)%nat /\ bdb row L t = true).
      { split.
        - intros Ht. assert (Hin : In t (bnds T row L)) by (rewrite EB; now right).
          apply bnds_in in Hin. specialize (HB' t Ht). intuition lia.
        - intros [H1 H2]. assert (Hin : In t (bnds T row L)) by (apply bnds_in; split; [lia|assumption]).
          rewrite EB in Hin. destruct Hin as [Hin|Hin]; [lia|assumption]. }
      rewrite HinB'. destruct (Z.gtb_spec L 0) as [Hgt|Hgt]; [|lia]. cbn [andb].
      split.
      * intros [Hr Hq]. apply orb_true_iff in Hq as [Hq|Hq].
        -- destruct t as [|t']; [discriminate|]. apply andb_true_iff in Hq as [H1 H2].
           apply Nat.ltb_lt in H1. left. split; [lia|assumption].
        -- apply Z.eqb_eq in Hq. right. left. lia.
      * intros [[H1 H2]|[Hq|[]]].
        -- split; [lia|]. apply orb_true_iff. left. destruct t as [|t']; [lia|].
           apply andb_true_iff. split; [apply Nat.ltb_lt; lia|assumption].
        -- split; [lia|]. apply orb_true_iff. right. apply Z.eqb_eq. lia.
Qed.

(* per row: starts and ends as the code finds them *)
Definition row_S (T : nat) (row : list Z) (L : Z) : list Z := map Z.of_nat (bnds T row L).
Definition row_E (T : nat) (row : list Z) (L : Z) : list Z := map Z.of_nat (ends_of (bnds T row L) (Z.to_nat L)).

Lemma row_SE_length : forall T row L, length (row_S T row L) = length (row_E T row L).
Proof.
  intros. unfold row_S, row_E. rewrite !map_length. destruct (bnds T row L); cbn [ends_of length]; [reflexivity|].
  rewrite app_length. cbn. lia.
Qed.

Lemma row_masks_SE : forall v T row inl, d1 v = false -> (1 <= T)%nat -> 0 <= Lz T inl <= Z.of_nat T ->
  nonzero_from 0 (fst (ali_row_masks v T row inl)) = row_S T row (Lz T inl)
  /\ nonzero_from 0 (snd (ali_row_masks v T row inl)) = row_E T row (Lz T inl).
Proof.
  intros v T row inl Hv HT HL. split; [now apply row_starts|].
  rewrite (row_ends_mask v T row inl Hv HT).
  rewrite nonzero_from_filter0, row_ends by assumption. reflexivity.
Qed.

(* the boundaries are those of the documented definition, on the row cut at its length *)
Lemma bnds_seg_starts : forall T row L, length row = T -> 0 <= L <= Z.of_nat T ->
  seg_starts (firstn (Z.to_nat L) row) (bnds T row L).
Proof.
  intros T row L Hrow HL. split; [apply bnds_sorted|].
  intros t. rewrite bnds_in. unfold is_boundary. rewrite firstn_length, Hrow.
  replace (Nat.min (Z.to_nat L) T) with (Z.to_nat L) by lia.
  split.
  - intros [Ht Hb]. pose proof (bdb_lt _ _ _ Hb). split; [lia|].
    destruct t as [|t']; [now left|right]. cbn [bdb] in Hb. apply andb_true_iff in Hb as [Hb _].
    replace (S t' - 1)%nat with t' by lia. rewrite !nth_firstn_lt by lia.
    apply negb_true_iff, Z.eqb_neq in Hb. exact Hb.
  - intros [Ht Hb]. split; [lia|]. destruct t as [|t']; cbn [bdb].
    + rewrite Z.gtb_ltb. apply Z.ltb_lt. lia.
    + destruct Hb as [Hb|Hb]; [discriminate|]. replace (S t' - 1)%nat with t' in Hb by lia.
      rewrite !nth_firstn_lt in Hb by lia. apply andb_true_iff. split.
      * apply negb_true_iff, Z.eqb_neq. exact Hb.
      * rewrite Z.gtb_ltb. apply Z.ltb_lt. lia.
Qed.

(* ---- the global nonzero() results are block-structured ---- *)
Definition blocks_of (rm : nat -> list Z -> list bool * list bool) (s : nat) (rows : list (list Z))
  : list (list (Z * (Z * Z))) :=
  map (fun nr => map (fun se => (Z.of_nat (fst nr), se))
                     (combine (nonzero_from 0 (fst (rm (fst nr) (snd nr)))) (nonzero_from 0 (snd (rm (fst nr) (snd nr))))))
      (enum_from s rows).

Lemma map_const_combine : forall A B C (c : C) (a : list A) (b : list B), length a = length b ->
  map (fun _ => c) a = map (fun _ => c) (combine a b).
Proof.
  intros A B C c a; induction a as [|x a IH]; intros [|y b] H; cbn in *; try lia; [reflexivity|].
  f_equal. apply IH. lia.
Qed.

Lemma nonzero2_blocks : forall rm rows s,
  (forall nr, In nr (enum_from s rows) ->
              length (nonzero_from 0 (fst (rm (fst nr) (snd nr)))) = length (nonzero_from 0 (snd (rm (fst nr) (snd nr))))) ->
  let ms := map (fun nr => rm (fst nr) (snd nr)) (enum_from s rows) in
  let X := concat (blocks_of rm s rows) in
  map snd (nonzero2_from (Z.of_nat s) (map fst ms)) = map (fun x => fst (snd x)) X
  /\ map snd (nonzero2_from (Z.of_nat s) (map snd ms)) = map (fun x => snd (snd x)) X
  /\ map fst (nonzero2_from (Z.of_nat s) (map fst ms)) = map fst X.
Proof.
  intros rm rows; induction rows as [|row rows IH]; intros s Hlen; [repeat split|].
  unfold blocks_of. rewrite enum_from_cons. cbn [map concat nonzero2_from fst snd].
  fold (blocks_of rm (S s) rows).
  replace (Z.of_nat s + 1) with (Z.of_nat (S s)) by lia.
  destruct (IH (S s)) as (I1 & I2 & I3).
  { intros nr Hnr. apply Hlen. rewrite enum_from_cons. now right. }
  specialize (Hlen (s, row) ltac:(rewrite enum_from_cons; now left)). cbn [fst snd] in Hlen.
  rewrite !map_app, I1, I2, I3, !map_map. cbn [fst snd].
  set (Sr := nonzero_from 0 (fst (rm s row))) in *. set (Er := nonzero_from 0 (snd (rm s row))) in *.
  repeat split; f_equal.
  - rewrite map_id. symmetry. apply (map_fst_combine _ _ Sr Er Hlen).
  - rewrite map_id. symmetry. apply (map_snd_combine _ _ Sr Er Hlen).
  - apply map_const_combine. exact Hlen.
Qed.
