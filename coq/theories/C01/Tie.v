(* C01 - the source tie of `_string_matching` (src/pydrobert/torch/_string.py) for the plain edit-distance call
   (what `edit_distance` / `EditDistance` make: return_mask = return_prf_dsts = return_mistakes = False), checked by
   the kernel.  PV.Gen.C01Src.{sm_pre, sm_row0, sm_main, sm_fin, sm_loop, sm_lens} are the MiniPy terms
   harness/py2coq/translate.py regenerates from /repo on every run; PV.MiniPy.Interp is their semantics; the torch
   calls mean what PV.MiniTorch.OpsC01 / OpsC07 say (through SrcRun.ext01).  Statements, for EVERY batch size,
   tensor widths, token values, lengths, eos / include_eos / norm / batch_first setting and costs (integers ci cd cs
   over any common denominator s, i.e. the floats c / s):

     loop_body_is_step_row   one execution of the loop body = Model.step_row in every column (TieLoop.body_run)
     loop_is_rows            the whole `for hyp_idx` loop = the iteration of step_row (TieLoop.loop_tie)
     edit_distance_is_model  the blocks sm_pre; sm_row0; sm_main; sm_fin run in sequence on the arguments of the call
                             return the tensor of Model.edit_distance (as floats: Cost v -> v / s, Ratio v d -> (v / s) / d,
                             Lit z -> z)
     edit_distance_is_lev    composed with Proofs.edit_distance_correct: without norm, entry n is the weighted
                             Levenshtein distance of the two sequences cut at their first eos

   If the source is edited so that one of these stops being true, this development stops compiling and the C01
   check reports the broken obligation.  The files: TieLib (tactics, what reaches ext01), TieMath (arithmetic),
   TieLoop, TieBlocks (row 0 / del_mat, loop + gather, mult + norm), TieLens (`_lens_from_eos`), TiePre (preamble),
   TieWhole (composition, Model.pair_ed). *)
From Coq Require Import ZArith QArith List String Bool Arith Lia ZifyBool ZifyNat.
From PV Require Import MiniPy.Syntax MiniPy.Interp MiniPy.Lemmas MiniTorch.Ops MiniTorch.Lemmas MiniTorch.OpsC07 MiniTorch.LemmasC07
  MiniTorch.OpsC01 MiniTorch.LemmasC01.
From PV Require Import Gen.C01Src C01.SrcRun C01.TieLib C01.TieMath C01.TieLoop C01.TieBlocks C01.TieWhole C01.TieLens C01.TiePre C01.TieBody.
From PV Require C01.Obs C01.Spec C01.Model C01.LevFacts C01.Proofs.
Import ListNotations.
Local Open Scope string_scope.

#[local] Arguments tab2 : simpl never.
#[local] Arguments enc_i : simpl never.
#[local] Arguments enc_x : simpl never.
#[local] Arguments qz : simpl never.
#[local] Arguments ext01 : simpl never.

(* ---- names used by the statements of Properties.v (which holds no string literal) ----------------------------- *)
Definition hyp_idx_name : string := "hyp_idx".
Definition max_hyp_steps_name : string := "max_hyp_steps".

(* one execution of the loop body with hyp_idx = k *)
Definition run_loop_body (k : nat) (st : state) : outcome ctl :=
  exec ext01 loop_body (set_var hyp_idx_name (VInt (Z.of_nat k)) st).

Definition run_loop (st : state) : outcome ctl := exec ext01 sm_loop st.

Definition max_hyp_steps_is (H : nat) (st : state) : Prop :=
  lookup max_hyp_steps_name (vars st) = Some (VInt (Z.of_nat H)).

(* the call edit_distance makes: _string_matching(ref, hyp, eos, include_eos, batch_first, ins, del, sub, warn, norm) *)
Definition run_edit_distance (s : positive) (c : C01.Model.cfg) (N : nat) (ref hyp : list (list Z)) (w : bool) (pad : Z)
  : outcome val :=
  Interp.run ext01 sm_blocks
    (sm_vars (mat_tensor (C01.Model.c_bf c) N ref) (mat_tensor (C01.Model.c_bf c) N hyp)
       (C01.Model.c_eos c) (C01.Model.c_incl c) (C01.Model.c_bf c)
       (qz s (C01.Model.c_ins c)) (qz s (C01.Model.c_del c)) (qz s (C01.Model.c_sub c)) w (C01.Model.c_norm c) pad).

(* ---- (1) the loop body --------------------------------------------------------------------------------------- *)
Theorem loop_body_is_step_row :
  forall (s : positive) (ci cd cs : Z) (R N H : nat) (rf hf : nat -> nat -> Z) (hl : nat -> nat)
         (vrl vmult vnorm vwarn : val) (st : state) (k : nat) (lf : nat -> nat -> Z),
  (1 <= k <= H)%nat ->
  body_pre s ci cd cs R N H rf hf hl vrl vmult vnorm vwarn lf st ->
  runs_to (body_pre s ci cd cs R N H rf hf hl vrl vmult vnorm vwarn
             (fun i n => nth i (C01.Model.step_row ci cd cs (colf R rf n) (colf H hf n) (hl n) false k (colf (S R) lf n)) 0%Z))
          (run_loop_body k st).
Proof. intros. now apply body_run. Qed.

(* ---- (1') the loop ---------------------------------------------------------------------------------------------- *)
Theorem loop_is_rows :
  forall (s : positive) (ci cd cs : Z) (R N H : nat) (rf hf : nat -> nat -> Z) (hl : nat -> nat)
         (vrl vmult vnorm vwarn : val) (st : state) (lf : nat -> nat -> Z),
  body_pre s ci cd cs R N H rf hf hl vrl vmult vnorm vwarn lf st -> max_hyp_steps_is H st ->
  runs_to (body_pre s ci cd cs R N H rf hf hl vrl vmult vnorm vwarn
             (fun i n => nth i (iter_rows ci cd cs (colf R rf n) (colf H hf n) (hl n) H 1 (colf (S R) lf n)) 0%Z))
          (run_loop st).
Proof. intros. now apply loop_tie. Qed.

(* ---- the inputs as the harness hands them over ---------------------------------------------------------------- *)
(* a (N x T) batch-first or (T x N) time-major matrix as a list of rows *)
Definition wf_src (bf : bool) (N T : nat) (m : list (list Z)) : Prop :=
  if bf then List.length m = N /\ C01.Proofs.rect T m else List.length m = T /\ C01.Proofs.rect N m.

Definition at_src (bf : bool) (m : list (list Z)) (t n : nat) : Z :=
  if bf then nth t (nth n m []) 0%Z else nth n (nth t m []) 0%Z.

Lemma concat_rect : forall (m : list (list Z)) W, C01.Proofs.rect W m ->
  List.concat m = tab2 (List.length m) W (fun i j => nth j (nth i m []) 0%Z).
Proof.
  induction m as [|row m IH]; intros W HW; [reflexivity|].
  cbn [List.concat List.length]. rewrite tab2_S. cbn [nth]. f_equal.
  - rewrite <- (HW row) by (left; reflexivity). symmetry. apply C01.Proofs.map_nth_seq.
  - apply IH. intros r Hr. apply HW. right. exact Hr.
Qed.

Lemma mat_tensor_in : forall bf N T m, (0 < N)%nat -> wf_src bf N T m ->
  mat_tensor bf N m = in_tensor bf T N (at_src bf m).
Proof.
  intros bf N T m HN Hwf. unfold mat_tensor, in_tensor, wf_src, at_src in *. destruct bf; destruct Hwf as [HL HW].
  - assert (Hhd : List.length (hd [] m) = T).
    { destruct m as [|row m]; [cbn in HL; lia|]. apply HW. left. reflexivity. }
    rewrite Hhd, (concat_rect m T HW), HL. reflexivity.
  - rewrite (concat_rect m N HW), HL. reflexivity.
Qed.

Lemma colf_seq_of : forall bf N T m n, (n < N)%nat -> wf_src bf N T m ->
  colf T (at_src bf m) n = C01.Proofs.seq_of bf n m.
Proof.
  intros bf N T m n Hn Hwf. unfold colf, at_src, C01.Proofs.seq_of, wf_src in *. destruct bf; destruct Hwf as [HL HW].
  - rewrite <- (HW (nth n m [])) by (apply nth_In; lia). apply C01.Proofs.map_nth_seq.
  - unfold C01.Model.col. rewrite <- HL. clear HL HW Hn.
    induction m as [|row m IH]; [reflexivity|].
    cbn [List.length map nth]. rewrite <- cons_seq. cbn [map nth]. f_equal.
    rewrite <- seq_shift, map_map. exact IH.
Qed.

Lemma wf_src_model : forall bf N T m, wf_src bf N T m -> C01.Proofs.wf_tensor bf N m.
Proof. intros bf N T m H. unfold wf_src, C01.Proofs.wf_tensor in *. destruct bf; [|exact I]. destruct H as [HL HW]. split; [exact HL|now exists T]. Qed.

(* ---- (2)-(4) the whole call --------------------------------------------------------------------------------- *)
Definition run_prog (prog : stmt) (s : positive) (c : C01.Model.cfg) (N : nat) (ref hyp : list (list Z)) (w : bool) (pad : Z)
  : outcome val :=
  Interp.run ext01 prog
    (sm_vars (mat_tensor (C01.Model.c_bf c) N ref) (mat_tensor (C01.Model.c_bf c) N hyp)
       (C01.Model.c_eos c) (C01.Model.c_incl c) (C01.Model.c_bf c)
       (qz s (C01.Model.c_ins c)) (qz s (C01.Model.c_del c)) (qz s (C01.Model.c_sub c)) w (C01.Model.c_norm c) pad).

(* any program that runs like sm_pre; sm_row0; flag block; <a loop with the property of sm_loop>; exits; gather; sm_fin *)
Lemma prog_is_model :
  forall (prog lp : stmt), loop_ok lp ->
  (forall st, exec ext01 prog st
              = exec ext01 (SSeq sm_pre (SSeq sm_row0 (SSeq (SSeq main_flags (SSeq lp main_rest)) sm_fin))) st) ->
  forall (s : positive) (c : C01.Model.cfg) (N R H : nat) (ref hyp : list (list Z)) (w : bool) (pad : Z),
  (0 < N)%nat -> wf_src (C01.Model.c_bf c) N R ref -> wf_src (C01.Model.c_bf c) N H hyp ->
  (C01.Model.c_eos c <> None -> R <> 0%nat /\ H <> 0%nat) ->
  exists st', run_prog prog s c N ref hyp w pad
              = Ok (enc_x (mkTn [N] (map (val_fx s) (C01.Model.edit_distance c N ref hyp)))) st'.
Proof.
  intros prog lp Hlp Hprog s c N R H ref hyp w pad HN Hr Hh Hnz.
  unfold run_prog, Interp.run. rewrite Hprog.
  rewrite (mat_tensor_in _ N R ref HN Hr), (mat_tensor_in _ N H hyp HN Hh).
  set (rf := at_src (C01.Model.c_bf c) ref). set (hf := at_src (C01.Model.c_bf c) hyp).
  match goal with |- context [exec ext01 _ ?st0] => set (st0' := st0) end.
  assert (K : known st0' (params s c R N H rf hf w)).
  { unfold st0', params, sm_vars, globals01, torch_module. cbn [known app]. repeat split; reflexivity. }
  assert (Hret : returns (enc_x (mkTn [N] (map (fin_value (eff_scale s c) (eff_ci c) (eff_cd c) (eff_cs c) (eff_mult s c)
                                                   R H rf hf (ref_len c R rf) (hyp_len c H hf) (C01.Model.c_norm c)) (seq 0 N))))
                         (exec ext01 (SSeq sm_pre (SSeq sm_row0 (SSeq (SSeq main_flags (SSeq lp main_rest)) sm_fin))) st0')).
  { eapply returns_seq; [apply pre_run; [exact Hnz|exact K]|]. intros st1 K1.
    eapply tail_run_gen; [exact Hlp| |exact K1].
    intros n Hn. unfold ref_len. rewrite <- (colf_length R rf n) at 2. apply C01.Proofs.eff_len_le. }
  destruct Hret as [st' He]. rewrite He. exists st'. do 4 f_equal.
  apply (nth_ext _ _ FNaN FNaN).
  - now rewrite !map_length, seq_length, C01.Proofs.edit_distance_length.
  - intros n Hn. rewrite map_length, seq_length in Hn.
    rewrite nth_map_seq by exact Hn.
    rewrite (C01.Proofs.nth_map_lt (val_fx s) _ n (C01.Obs.Lit 0)) by (now rewrite C01.Proofs.edit_distance_length).
    rewrite C01.Proofs.edit_distance_nth by (try exact Hn; eapply wf_src_model; eassumption).
    rewrite <- (colf_seq_of _ N R ref n Hn Hr), <- (colf_seq_of _ N H hyp n Hn Hh). fold rf. fold hf.
    unfold fin_value, final_col, iter_col, ref_len, hyp_len.
    apply (pair_value s c R H (colf R rf n) (colf H hf n) (colf_length R rf n) (colf_length H hf n)).
Qed.

(* the blocks in sequence *)
Theorem edit_distance_is_model :
  forall (s : positive) (c : C01.Model.cfg) (N R H : nat) (ref hyp : list (list Z)) (w : bool) (pad : Z),
  (0 < N)%nat -> wf_src (C01.Model.c_bf c) N R ref -> wf_src (C01.Model.c_bf c) N H hyp ->
  (C01.Model.c_eos c <> None -> R <> 0%nat /\ H <> 0%nat) ->
  exists st', run_edit_distance s c N ref hyp w pad
              = Ok (enc_x (mkTn [N] (map (val_fx s) (C01.Model.edit_distance c N ref hyp)))) st'.
Proof.
  intros. apply (prog_is_model sm_blocks sm_loop sm_loop_ok) with (R := R) (H := H); try assumption.
  intros st. unfold sm_blocks. rewrite !exec_flatten. f_equal.
Qed.

(* the whole body of the function, as one term *)
Definition run_string_matching (s : positive) (c : C01.Model.cfg) (N : nat) (ref hyp : list (list Z)) (w : bool) (pad : Z)
  : outcome val := run_prog sm_body s c N ref hyp w pad.

Theorem string_matching_is_model :
  forall (s : positive) (c : C01.Model.cfg) (N R H : nat) (ref hyp : list (list Z)) (w : bool) (pad : Z),
  (0 < N)%nat -> wf_src (C01.Model.c_bf c) N R ref -> wf_src (C01.Model.c_bf c) N H hyp ->
  (C01.Model.c_eos c <> None -> R <> 0%nat /\ H <> 0%nat) ->
  exists st', run_string_matching s c N ref hyp w pad
              = Ok (enc_x (mkTn [N] (map (val_fx s) (C01.Model.edit_distance c N ref hyp)))) st'.
Proof.
  intros. apply (prog_is_model sm_body loop3) with (R := R) (H := H); try assumption.
  - unfold loop_ok. intros. now apply loop_tie3.
  - exact sm_body_split.
Qed.

(* the executable of the harness is this run: [src_ed] on the blocks computes the model's values *)
Corollary src_ed_is_model :
  forall (c : C01.Model.cfg) (scale : Z) (N R H : nat) (ref hyp : list (list Z)),
  (0 < N)%nat -> wf_src (C01.Model.c_bf c) N R ref -> wf_src (C01.Model.c_bf c) N H hyp ->
  (C01.Model.c_eos c <> None -> R <> 0%nat /\ H <> 0%nat) ->
  src_ed sm_blocks c scale N ref hyp
  = Some (Some (map (val_fx (Z.to_pos scale)) (C01.Model.edit_distance c N ref hyp))).
Proof.
  intros c scale N R H ref hyp HN Hr Hh Hnz.
  destruct (edit_distance_is_model (Z.to_pos scale) c N R H ref hyp false (C01.Model.c_pad c) HN Hr Hh Hnz) as [st' He].
  unfold src_ed, cfg_vars, cost_q. unfold run_edit_distance, qz in He. rewrite He.
  rewrite dec01_enc_x. cbn [shp dat]. rewrite nats_eqb_refl. reflexivity.
Qed.

(* without normalisation every entry is the weighted Levenshtein distance of the two sequences cut at eos *)
Theorem edit_distance_is_lev :
  forall (s : positive) (c : C01.Model.cfg) (N R H : nat) (ref hyp : list (list Z)) (w : bool) (pad : Z),
  (0 < N)%nat -> wf_src (C01.Model.c_bf c) N R ref -> wf_src (C01.Model.c_bf c) N H hyp ->
  (C01.Model.c_eos c <> None -> R <> 0%nat /\ H <> 0%nat) -> C01.Model.c_norm c = false ->
  exists out st', run_edit_distance s c N ref hyp w pad = Ok (enc_x (mkTn [N] out)) st' /\
    List.length out = N /\
    forall n, (n < N)%nat ->
      nth n out FNaN =
      zf s (C01.Spec.lev (C01.Model.c_ins c) (C01.Model.c_del c) (C01.Model.c_sub c)
              (C01.Spec.denote (C01.Model.c_eos c) (C01.Model.c_incl c) (C01.Proofs.seq_of (C01.Model.c_bf c) n ref))
              (C01.Spec.denote (C01.Model.c_eos c) (C01.Model.c_incl c) (C01.Proofs.seq_of (C01.Model.c_bf c) n hyp))).
Proof.
  intros s c N R H ref hyp w pad HN Hr Hh Hnz Hnorm.
  destruct (edit_distance_is_model s c N R H ref hyp w pad HN Hr Hh Hnz) as [st' He].
  eexists. exists st'. split; [exact He|]. split.
  - now rewrite map_length, C01.Proofs.edit_distance_length.
  - intros n Hn.
    rewrite (C01.Proofs.nth_map_lt (val_fx s) _ n (C01.Obs.Lit 0)) by (now rewrite C01.Proofs.edit_distance_length).
    destruct (C01.Proofs.edit_distance_correct c N ref hyp n Hn (wf_src_model _ _ _ _ Hr) (wf_src_model _ _ _ _ Hh) Hnorm)
      as [v [Hv [Hlev _]]].
    rewrite Hv. cbn [val_fx]. now rewrite Hlev.
Qed.

Theorem string_matching_is_lev :
  forall (s : positive) (c : C01.Model.cfg) (N R H : nat) (ref hyp : list (list Z)) (w : bool) (pad : Z),
  (0 < N)%nat -> wf_src (C01.Model.c_bf c) N R ref -> wf_src (C01.Model.c_bf c) N H hyp ->
  (C01.Model.c_eos c <> None -> R <> 0%nat /\ H <> 0%nat) -> C01.Model.c_norm c = false ->
  exists out st', run_string_matching s c N ref hyp w pad = Ok (enc_x (mkTn [N] out)) st' /\
    List.length out = N /\
    forall n, (n < N)%nat ->
      nth n out FNaN =
      zf s (C01.Spec.lev (C01.Model.c_ins c) (C01.Model.c_del c) (C01.Model.c_sub c)
              (C01.Spec.denote (C01.Model.c_eos c) (C01.Model.c_incl c) (C01.Proofs.seq_of (C01.Model.c_bf c) n ref))
              (C01.Spec.denote (C01.Model.c_eos c) (C01.Model.c_incl c) (C01.Proofs.seq_of (C01.Model.c_bf c) n hyp))).
Proof.
  intros s c N R H ref hyp w pad HN Hr Hh Hnz Hnorm.
  destruct (string_matching_is_model s c N R H ref hyp w pad HN Hr Hh Hnz) as [st' He].
  eexists. exists st'. split; [exact He|]. split.
  - now rewrite map_length, C01.Proofs.edit_distance_length.
  - intros n Hn.
    rewrite (C01.Proofs.nth_map_lt (val_fx s) _ n (C01.Obs.Lit 0)) by (now rewrite C01.Proofs.edit_distance_length).
    destruct (C01.Proofs.edit_distance_correct c N ref hyp n Hn (wf_src_model _ _ _ _ Hr) (wf_src_model _ _ _ _ Hh) Hnorm)
      as [v [Hv [Hlev _]]].
    rewrite Hv. cbn [val_fx]. now rewrite Hlev.
Qed.

Corollary src_ed_body_is_model :
  forall (c : C01.Model.cfg) (scale : Z) (N R H : nat) (ref hyp : list (list Z)),
  (0 < N)%nat -> wf_src (C01.Model.c_bf c) N R ref -> wf_src (C01.Model.c_bf c) N H hyp ->
  (C01.Model.c_eos c <> None -> R <> 0%nat /\ H <> 0%nat) ->
  src_ed sm_body c scale N ref hyp
  = Some (Some (map (val_fx (Z.to_pos scale)) (C01.Model.edit_distance c N ref hyp))).
Proof.
  intros c scale N R H ref hyp HN Hr Hh Hnz.
  destruct (string_matching_is_model (Z.to_pos scale) c N R H ref hyp false (C01.Model.c_pad c) HN Hr Hh Hnz) as [st' He].
  unfold src_ed, cfg_vars, cost_q. unfold run_string_matching, run_prog, qz in He. rewrite He.
  rewrite dec01_enc_x. cbn [shp dat]. rewrite nats_eqb_refl. reflexivity.
Qed.
