(* C09, second tie — the translated source of `chunk_by_slices` and `pad_masked_sequence` as an executable: the
   environment [ext09b], the encoding of the model's inputs as MiniPy values, and the correspondence entry points
   [src_chunk_check] / [src_masked_check] (same interfaces as Model.check_chunk / check_masked).  Definitions only;
   the lemmas are in TieB*.v.

   PV.Gen.C09BSrc.chunk_body and masked_body are regenerated from /repo/src/pydrobert/torch/_pad.py on every run by
   harness/py2coq/translate.py (whole function bodies; the decorators `@script` / `@functional_wrapper(..)` are
   outside them: TorchScript is NOT modelled, the tie is about the text as eager CPython runs it).

   [ext09b] = the names below + SrcRun.ext09 (the first tie's environment: OpsC09 operations and the call
   `_get_padding_buffers(..)`, which INTERPRETS the translated gpb_body).  New names (all given the meaning of
   PV.MiniTorch.OpsC09B / OpsC09):
     -t                                         "$neg"                      integer tensor
     t.contiguous()                             identity on the logical content
     t.clamp_min_(c), t.clamp_min(c)            integer tensor, Python int c; the in-place form RETURNS its result (applied
                                                to fresh temporaries only)
     t.masked_fill_(mask, c)                    integer tensor, mask of the same shape
     t == c                                     "compare" eq, integer tensor with a Python int -> bool tensor
     torch.min(a, b), torch.max(a, b)           integer tensors of equal shape (also 0-dimensional)
     torch.full((1,), c, dtype=torch.long, device=d)   integer tensor; keywords: only these two, ignored
     t.expand(n)                                (1,) -> (n,)
     x.new_empty(shape)                         only a shape without elements (the N = 0 return)
     t.new_zeros((n,))                          integer tensor
     t[..., c]                                  column c of a 2-dimensional tensor
     t[mask]                                    bool mask of t's shape: masked_select
     a & b                                      bool tensors: equal shapes or (n, m, k) & (n, 1, 1)
     (1,) * k                                   tuple repetition
     t.transpose(0, 1)                          2- / 3-dimensional
     mask.sum(1)                                2-dimensional bool tensor -> integer tensor
     torch.full_like(x, v)                      payload tensor
   `torch` itself is a global of the module: it is bound in the initial variables to an object whose attribute `long`
   is an opaque dtype token. *)
From Coq Require Import ZArith List String Bool.
From PV Require Import MiniPy.Syntax MiniPy.Interp MiniTorch.Ops MiniTorch.OpsC09 MiniTorch.OpsC09B Gen.C09BSrc.
From PV Require Import C09.SrcRun.
From PV Require C09.Model.
Import ListNotations.
Local Open Scope string_scope.

Definition long_token : val := VStr "$dtype.long".
Definition torch_module : val := VDict [(VStr "long", long_token)].

Definition is_ellipsis (v : val) : bool :=
  match v with VTuple [VStr s] => String.eqb s "$ellipsis" | _ => false end.

Definition kw_full_ok (kv : string * val) : bool :=
  (is (fst kv) "device" && val_eqb (snd kv) device_token) || (is (fst kv) "dtype" && val_eqb (snd kv) long_token).

Definition ext09b (f : string) (args : list val) (kw : list (string * val)) (st : state) : outcome val :=
  if is f "torch.full" then
    match args with
    | [VTuple s; VInt c] => if forallb kw_full_ok kw then
                              match as_sizes s with Some sz => Ok (enc_i (full sz c)) st | None => stuck "full: size" end
                            else stuck "full: keyword"
    | _ => stuck "full"
    end
  else if negb (no_kw kw) then ext09 f args kw st
  else if is f "$neg" then
    match args with
    | [t] => match dec_any t with Some (TI x) => Ok (enc_i (neg x)) st | _ => stuck "neg" end
    | _ => stuck "neg"
    end
  else if is f "$method.contiguous" then
    match args with
    | [t] => match dec_any t with Some a => Ok (enc_any a) st | None => stuck "contiguous" end
    | _ => stuck "contiguous"
    end
  else if is f "$method.clamp_min_" || is f "$method.clamp_min" then
    match args with
    | [t; VInt c] => match dec_any t with Some (TI x) => Ok (enc_i (clamp_min x c)) st | _ => stuck "clamp_min" end
    | _ => stuck "clamp_min"
    end
  else if is f "$method.masked_fill_" then
    match args with
    | [t; m; VInt c] => match dec_any t, dec_any m with
                        | Some (TI x), Some (TB mk) => ret "masked_fill_" (option_map TI (masked_fill x mk c)) st
                        | _, _ => stuck "masked_fill_"
                        end
    | _ => stuck "masked_fill_"
    end
  else if is f "torch.min" then
    match args with
    | [a; b] => match dec_any a, dec_any b with
                | Some (TI x), Some (TI y) => ret "torch.min" (option_map TI (ew2 Z.min 0%Z 0%Z x y)) st
                | _, _ => stuck "torch.min"
                end
    | _ => stuck "torch.min"
    end
  else if is f "torch.max" then
    match args with
    | [a; b] => match dec_any a, dec_any b with
                | Some (TI x), Some (TI y) => ret "torch.max" (option_map TI (ew2 Z.max 0%Z 0%Z x y)) st
                | _, _ => stuck "torch.max"
                end
    | _ => stuck "torch.max"
    end
  else if is f "$method.new_empty" then
    match args with
    | [t; VTuple s] => match dec_any t, as_sizes s with
                       | Some (TP _), Some sz => ret "new_empty" (option_map TP (new_empty sz)) st
                       | _, _ => stuck "new_empty"
                       end
    | _ => stuck "new_empty"
    end
  else if is f "$method.new_zeros" then
    match args with
    | [t; VTuple s] => match dec_any t, as_sizes s with
                       | Some (TI _), Some sz => Ok (enc_i (full sz 0%Z)) st
                       | _, _ => stuck "new_zeros"
                       end
    | _ => stuck "new_zeros"
    end
  else if is f "$method.transpose" then
    match args with
    | [t; VInt 0; VInt 1] => match dec_any t with
                             | Some a => ret "transpose" (any_map (fun X d x => transpose01 d x) a) st
                             | None => stuck "transpose"
                             end
    | _ => stuck "transpose"
    end
  else if is f "torch.full_like" then
    match args with
    | [t; v] => match dec_any t with Some (TP x) => Ok (enc_p (full_like x v)) st | _ => stuck "full_like" end
    | _ => stuck "full_like"
    end
  else if is f "$method.expand" then
    match args with
    | [t; n] => match dec_any t, as_size n with
                | Some a, Some k => ret "expand" (any_map (fun X d x => expand1 d x k) a) st
                | _, _ => stuck "expand"
                end
    | _ => ext09 f args kw st
    end
  else if is f "$method.sum" then
    match args with
    | [t; VInt 1] => match dec_any t with
                     | Some (TB x) => ret "sum" (option_map TI (sum1_bool x)) st
                     | _ => stuck "sum(1)"
                     end
    | _ => ext09 f args kw st
    end
  else if is f "$getitem" then
    match args with
    | [t; VTuple [e; VInt c]] =>
        if is_ellipsis e then
          match dec_any t with
          | Some a => if Z.leb 0 c then ret "t[..., c]" (any_map (fun X d x => select_last2 d x (Z.to_nat c)) a) st
                      else stuck "t[..., negative]"
          | None => stuck "t[..., c]"
          end
        else ext09 f args kw st
    | [t; m] =>
        match dec_any m with
        | Some (TB mk) => match dec_any t with
                          | Some a => ret "t[mask]" (any_map (fun X _ x => masked_select x mk) a) st
                          | None => stuck "t[mask]"
                          end
        | _ => ext09 f args kw st
        end
    | _ => ext09 f args kw st
    end
  else if is f "compare" then
    match args with
    | [VStr o; a; VInt z] =>
        if is o "eq" then
          match dec_any a with Some (TI x) => Ok (enc_b (ew_s Z.eqb x z)) st | _ => stuck "compare eq" end
        else ext09 f args kw st
    | _ => ext09 f args kw st
    end
  else if is f "operator" then
    match args with
    | [VStr o; a; b] =>
        if is o "and" then
          match dec_any a, dec_any b with
          | Some (TB x), Some (TB y) => ret "and" (option_map TB (band_bc x y)) st
          | _, _ => stuck "and"
          end
        else if is o "mul" then
          match a, b, dec_any a with
          | VTuple l, VInt k, None => Ok (VTuple (tuple_repeat l k)) st
          | _, _, _ => stuck "operator mul"
          end
        else ext09 f args kw st
    | _ => ext09 f args kw st
    end
  else ext09 f args kw st.

(* ---- encodings ----------------------------------------------------------------------------------------- *)
Definition globalsB : list (string * val) := [("torch", torch_module)].

(* slices: N pairs (start, end) -> the (N, 2) integer tensor *)
Definition slices_tensor (sl : list (Z * Z)) : tn Z :=
  mkTn [List.length sl; 2%nat] (flat_map (fun p => [fst p; snd p]) sl).

Definition lens_val (lens : option (list nat)) : val :=
  match lens with Some l => enc_i (vec_tensor l) | None => VNone end.

(* the arguments of chunk_by_slices(x, slices, lens, mode, value) + the module's global `torch` *)
Definition chunk_vars (x slices lens mode value : val) : list (string * val) :=
  [("x", x); ("slices", slices); ("lens", lens); ("mode", mode); ("value", value)] ++ globalsB.

Definition run_chunk (x : tn val) (slices : tn Z) (lens : val) (md : Model.mode) (value : val) : outcome val :=
  Interp.run ext09b chunk_body (chunk_vars (enc_p x) (enc_i slices) lens (mode_val md) value).

(* mask: R rows of C booleans -> the (R, C) bool tensor *)
Definition mask_tensor (C : nat) (m : list (list bool)) : tn bool := mkTn [List.length m; C] (List.concat m).

(* the arguments of pad_masked_sequence(x, mask, batch_first, padding_value) *)
Definition masked_vars (x mask : val) (bf : bool) (value : val) : list (string * val) :=
  [("x", x); ("mask", mask); ("batch_first", VBool bf); ("padding_value", value)].

Definition run_masked (x : tn val) (mask : tn bool) (bf : bool) (value : val) : outcome val :=
  Interp.run ext09b masked_body (masked_vars (enc_p x) (enc_b mask) bf value).

(* ---- reading the returned pair (payload tensor, integer vector) back --------------------------------------- *)
Definition exc_res {X} (name : string) : option (Model.res X) :=
  if String.eqb name value_error then Some Model.ErrValue
  else if String.eqb name runtime_error then Some Model.ErrRuntime
  else if String.eqb name not_implemented_error then Some Model.ErrNotImpl
  else None.

Definition read_pair (o : outcome val) : option (Model.res (list (list (list val)) * list Z)) :=
  match o with
  | Ok (VTuple [a; b]) _ =>
      match dec_any a, dec_any b with
      | Some (TP t), Some (TI l) =>
          match cells_of t, shp l with
          | Some c, [_] => Some (Model.Ok (c, dat l))
          | _, _ => None
          end
      | _, _ => None
      end
  | Ok _ _ => None
  | Exc name _ => exc_res name
  | Stuck _ => None
  end.

(* outer None: the interpreter got stuck, raised something else, or returned something that is not a pair
   (3-dimensional payload tensor, 1-dimensional integer tensor) *)
Definition src_chunk (T F : nat) (value : val) (md : Model.mode) (x : list (list (list val)))
  (slices : list (Z * Z)) (lens : option (list nat)) : option (Model.res (list (list (list val)) * list Z)) :=
  read_pair (run_chunk (x_tensor T F x) (slices_tensor slices) (lens_val lens) md value).

(* x: R rows of C cells of F values, in the layout the implementation sees ((N, T) if batch_first else (T, N)) *)
Definition src_masked (C F : nat) (value : val) (bf : bool) (x : list (list (list val))) (mask : list (list bool))
  : option (Model.res (list (list (list val)) * list Z)) :=
  read_pair (run_masked (x_tensor C F x) (mask_tensor C mask) bf value).

Definition vpair_eqb (a b : list (list (list val)) * list Z) : bool :=
  vtensor_eqb (fst a) (fst b) && Model.list_eqb Z.eqb (snd a) (snd b).

Definition zpair (p : list (list Model.zcell) * list nat) : list (list (list val)) * list Z :=
  (zcells (fst p), map Z.of_nat (snd p)).

(* same interface as Model.check_chunk: integer payload (each integer as the MiniPy int that stands for the element),
   integer fill value *)
Definition src_chunk_check (T F : nat) (v : Z) (md : Model.mode) (x : list (list Model.zcell))
  (slices : list (Z * Z)) (lens : option (list nat)) (code : nat)
  (impl : option (list (list Model.zcell) * list nat)) : bool :=
  match src_chunk T F (VInt v) md (zcells x) slices lens with
  | Some r => Model.res_eqb vpair_eqb r code (option_map zpair impl)
  | None => false
  end.

(* same interface as Model.check_masked *)
Definition src_masked_check (N T F : nat) (v : Z) (bf : bool) (x : list (list Model.zcell))
  (mask : list (list bool)) (code : nat) (impl : option (list (list Model.zcell) * list nat)) : bool :=
  match src_masked (if bf then T else N) F (VInt v) bf (zcells x) mask with
  | Some r => Model.res_eqb vpair_eqb r code (option_map zpair impl)
  | None => false
  end.
