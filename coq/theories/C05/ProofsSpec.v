(* C05 - the declarative side: alignment sums obey the CTC recursion; the map-based prefix
   beam search is exact when nothing is pruned and never exceeds the true mass. *)
From Coq Require Import List Arith Bool QArith Qcanon Lia Lra Psatz.
From PV Require Import C05.Model C05.Spec C05.ProofsNum.
Import ListNotations.
Local Open Scope Qc_scope.
Local Open Scope nat_scope.

(* ---- alignments ---------------------------------------------------------------------- *)

Lemma arun_snoc : forall V frames E a c,
  arun V frames E (a ++ [c]) = astep V frames E (arun V frames E a) c.
Proof. intros. unfold arun. rewrite fold_left_app. reflexivity. Qed.

Lemma aligns_length : forall V n a, In a (aligns V n) -> length a = n.
Proof.
  induction n; intros a H; cbn [aligns] in H.
  - destruct H as [<-|[]]; auto.
  - apply in_flat_map in H. destruct H as (a0 & H0 & H1). apply in_map_iff in H1.
    destruct H1 as (c & <- & _). rewrite app_length, (IHn a0); auto. cbn; lia.
Qed.

Lemma aligns_labels : forall V n a, In a (aligns V n) -> Forall (fun c => c <= V) a.
Proof.
  induction n; intros a H; cbn [aligns] in H.
  - destruct H as [<-|[]]; auto.
  - apply in_flat_map in H. destruct H as (a0 & H0 & H1). apply in_map_iff in H1.
    destruct H1 as (c & <- & Hc). apply in_seq in Hc. apply Forall_app; split; auto.
    constructor; auto; lia.
Qed.

Lemma astep_t : forall V frames E st c, a_t (astep V frames E st c) = S (a_t st).
Proof. intros. unfold astep. destruct (Nat.eqb c V); [|destruct (opt_is _ _)]; reflexivity. Qed.

Lemma arun_t : forall V frames E a, a_t (arun V frames E a) = length a.
Proof.
  intros V frames E a. induction a using rev_ind; [reflexivity|].
  rewrite arun_snoc, astep_t, IHa, app_length. cbn; lia.
Qed.

(* the last label read is recorded; a non-blank last label is the last token of the prefix *)
Definition st_ok (V : nat) (st : astate) : Prop :=
  match a_last st with
  | None => True
  | Some c => c <= V /\ (c <> V -> last_opt (a_pre st) = Some c)
  end.

Lemma last_opt_snoc : forall p c, last_opt (p ++ [c]) = Some c.
Proof. intros. unfold last_opt. destruct (p ++ [c]) eqn:E; [destruct p; discriminate|]. rewrite <- E, last_snoc. auto. Qed.

Lemma opt_is_true : forall o c, opt_is o c = true <-> o = Some c.
Proof. destruct o; cbn; intros; [rewrite Nat.eqb_eq|]; split; congruence. Qed.

Lemma astep_ok : forall V frames E st c, st_ok V st -> c <= V -> st_ok V (astep V frames E st c).
Proof.
  intros V frames E st c H Hc. unfold astep, st_ok.
  destruct (Nat.eqb c V) eqn:E1; cbn [a_last a_pre].
  - apply Nat.eqb_eq in E1. split; auto. congruence.
  - destruct (opt_is (a_last st) c) eqn:E2; cbn [a_last a_pre].
    + apply opt_is_true in E2. unfold st_ok in H. rewrite E2 in H. tauto.
    + split; auto. intros _. apply last_opt_snoc.
Qed.

Lemma arun_ok : forall V frames E a, Forall (fun c => c <= V) a -> st_ok V (arun V frames E a).
Proof.
  intros V frames E a. induction a using rev_ind; intros H; [exact I|].
  apply Forall_app in H. destruct H as [H1 H2]. inversion H2; subst.
  rewrite arun_snoc. apply astep_ok; auto.
Qed.

Lemma astep_pre_len : forall V frames E st c,
  length (a_pre (astep V frames E st c)) <= S (length (a_pre st)).
Proof.
  intros. unfold astep. destruct (Nat.eqb c V); [|destruct (opt_is _ _)]; cbn [a_pre]; auto.
  rewrite app_length; cbn; lia.
Qed.

Lemma arun_pre_len : forall V frames E a, length (a_pre (arun V frames E a)) <= length a.
Proof.
  intros V frames E a. induction a using rev_ind; [cbn; lia|].
  rewrite arun_snoc, app_length. pose proof (astep_pre_len V frames E (arun V frames E a) x).
  cbn; lia.
Qed.

Lemma astep_pre_lt : forall V frames E st c, c <= V ->
  Forall (fun x => x < V) (a_pre st) -> Forall (fun x => x < V) (a_pre (astep V frames E st c)).
Proof.
  intros. unfold astep. destruct (Nat.eqb c V) eqn:E1; [|destruct (opt_is _ _)]; cbn [a_pre]; auto.
  apply Forall_app; split; auto. constructor; auto. apply Nat.eqb_neq in E1. lia.
Qed.

Lemma arun_pre_lt : forall V frames E a, Forall (fun c => c <= V) a ->
  Forall (fun x => x < V) (a_pre (arun V frames E a)).
Proof.
  intros V frames E a. induction a using rev_ind; intros H; [constructor|].
  apply Forall_app in H. destruct H as [H1 H2]. inversion H2; subst.
  rewrite arun_snoc. apply astep_pre_lt; auto.
Qed.

(* ---- contributions of one alignment state ------------------------------------------------ *)

Definition cb (V : nat) (st : astate) (p : list nat) : Qc :=
  if list_nat_eqb (a_pre st) p && ends_blank V st then a_w st else 0%Qc.
Definition cnb (V : nat) (st : astate) (p : list nat) : Qc :=
  if list_nat_eqb (a_pre st) p && negb (ends_blank V st) then a_w st else 0%Qc.

Lemma A_b_eq : forall V frames E n p,
  A_b V frames E n p = qsum (map (fun a => cb V (arun V frames E a) p) (aligns V n)).
Proof. reflexivity. Qed.
Lemma A_nb_eq : forall V frames E n p,
  A_nb V frames E n p = qsum (map (fun a => cnb V (arun V frames E a) p) (aligns V n)).
Proof. reflexivity. Qed.

Definition fr_at (frames : list sframe) (t : nat) : sframe := nth t frames ([], 0%Qc).

Lemma seq_nodup_in : forall V v, v <= V -> NoDup (seq 0 (S V)) /\ In v (seq 0 (S V)).
Proof. intros. split; [apply seq_NoDup|apply in_seq; lia]. Qed.

(* one more frame, blank-ending part *)
Lemma step_cb : forall V frames E st p,
  qsum (map (fun c => cb V (astep V frames E st c) p) (seq 0 (S V)))
  = ((cnb V st p + cb V st p) * snd (fr_at frames (a_t st)))%Qc.
Proof.
  intros. destruct (seq_nodup_in V V (le_n _)) as [ND IN].
  rewrite (qsum_single _ _ V ND IN).
  - unfold cb, cnb, astep. rewrite Nat.eqb_refl. cbn [a_pre a_last a_w ends_blank].
    rewrite Nat.eqb_refl. unfold fr_at.
    destruct (list_nat_eqb (a_pre st) p); destruct (ends_blank V st); cbn [andb negb]; ring.
  - intros c _ Hc. unfold cb, astep. apply Nat.eqb_neq in Hc. rewrite Hc.
    destruct (opt_is (a_last st) c); cbn [a_pre a_last ends_blank]; rewrite Hc, andb_false_r; auto.
Qed.

Lemma ends_blank_false : forall V st, ends_blank V st = false ->
  exists c, a_last st = Some c /\ c <> V.
Proof.
  unfold ends_blank. intros V st H. destruct (a_last st); [|discriminate].
  exists n. split; auto. apply Nat.eqb_neq; auto.
Qed.

Lemma last_opt_nil_iff : forall p, last_opt p = None <-> p = [].
Proof. destruct p; cbn; split; congruence. Qed.

Lemma last_opt_some : forall p v, last_opt p = Some v -> p = removelast p ++ [v].
Proof.
  intros p v H. destruct p; [discriminate|]. unfold last_opt in H.
  assert (E : last (n :: p) 0 = v) by congruence. rewrite <- E.
  apply snoc_decomp. discriminate.
Qed.

Definition opt_eqb (o : option nat) (v : nat) : bool := opt_is o v.

(* one more frame, non-blank-ending part *)
Lemma step_cnb : forall V frames E st p, st_ok V st ->
  Forall (fun x => x < V) p ->
  qsum (map (fun c => cnb V (astep V frames E st c) p) (seq 0 (S V)))
  = match last_opt p with
    | None => 0%Qc
    | Some v =>
        (cnb V st p * nth v (fst (fr_at frames (a_t st))) 0
         + (cb V st (removelast p)
            + (if opt_is (last_opt (removelast p)) v then 0 else cnb V st (removelast p)))
           * E (a_t st) (removelast p) v)%Qc
    end.
Proof.
  intros V frames E st p OK PV.
  destruct (last_opt p) as [v|] eqn:LP.
  - pose proof (last_opt_some _ _ LP) as Pdec. set (p' := removelast p) in *.
    assert (Hv : v < V).
    { rewrite Pdec in PV. apply Forall_app in PV. destruct PV as [_ PV]. inversion PV; auto. }
    destruct (seq_nodup_in V v (Nat.lt_le_incl _ _ Hv)) as [ND IN].
    rewrite (qsum_single _ _ v ND IN).
    + (* the term of label v *)
      unfold cnb at 1, astep. assert (EV : Nat.eqb v V = false) by (apply Nat.eqb_neq; lia).
      rewrite EV. destruct (opt_is (a_last st) v) eqn:OL; cbn [a_pre a_last a_w ends_blank]; rewrite ?EV; cbn [negb].
      * (* repeat of the last label *)
        apply opt_is_true in OL. unfold st_ok in OK. rewrite OL in OK. destruct OK as [_ OK].
        assert (LPre : last_opt (a_pre st) = Some v) by (apply OK; lia).
        rewrite andb_true_r. unfold cnb, cb, ends_blank. rewrite OL, EV. cbn [negb]. rewrite !andb_true_r, !andb_false_r.
        unfold fr_at.
        destruct (list_nat_eqb (a_pre st) p) eqn:E1.
        -- (* pre = p, so pre <> p' *)
           apply list_nat_eqb_true in E1.
           assert (E2 : list_nat_eqb (a_pre st) p' = false).
           { apply list_nat_eqb_false. intro C. rewrite C in E1. rewrite <- E1 in Pdec.
             apply (f_equal (@length nat)) in Pdec. rewrite app_length in Pdec. cbn in Pdec. lia. }
           rewrite E2. destruct (opt_is (last_opt p') v); ring.
        -- destruct (list_nat_eqb (a_pre st) p') eqn:E2.
           ++ apply list_nat_eqb_true in E2. rewrite <- E2, LPre. cbn [opt_is]. rewrite Nat.eqb_refl. ring.
           ++ destruct (opt_is (last_opt p') v); ring.
      * (* extension by v *)
        rewrite andb_true_r.
        assert (NL : a_last st <> Some v) by (intro C; apply opt_is_true in C; congruence).
        unfold cnb, cb.
        destruct (list_nat_eqb (a_pre st ++ [v]) p) eqn:E1.
        -- apply list_nat_eqb_true in E1. rewrite Pdec in E1. apply snoc_inj in E1. destruct E1 as [E1 _].
           assert (E0 : list_nat_eqb (a_pre st) p = false).
           { apply list_nat_eqb_false. intro C. rewrite C in E1. rewrite <- E1 in Pdec.
             apply (f_equal (@length nat)) in Pdec. rewrite app_length in Pdec. cbn in Pdec. lia. }
           rewrite E0. cbn [andb]. rewrite E1, list_nat_eqb_refl. cbn [andb].
           destruct (ends_blank V st) eqn:EB; cbn [negb].
           ++ destruct (opt_is (last_opt p') v); ring.
           ++ apply ends_blank_false in EB. destruct EB as (c & Lc & NcV).
              unfold st_ok in OK. rewrite Lc in OK. destruct OK as [_ OK]. rewrite E1 in OK.
              rewrite (OK NcV). cbn [opt_is].
              assert (Nat.eqb c v = false) by (apply Nat.eqb_neq; congruence).
              rewrite H. ring.
        -- assert (E2 : list_nat_eqb (a_pre st) p' = false).
           { apply list_nat_eqb_false. intro C. apply list_nat_eqb_false in E1. apply E1. rewrite C. auto. }
           rewrite E2. cbn [andb].
           destruct (list_nat_eqb (a_pre st) p) eqn:E0; cbn [andb].
           ++ (* pre = p but not ending non-blank on v: ends_blank must hold, or last <> v *)
              destruct (ends_blank V st) eqn:EB; cbn [negb].
              ** destruct (opt_is (last_opt p') v); ring.
              ** apply ends_blank_false in EB. destruct EB as (c & Lc & NcV).
                 unfold st_ok in OK. rewrite Lc in OK. destruct OK as [_ OK].
                 apply list_nat_eqb_true in E0. rewrite E0, LP in OK. specialize (OK NcV).
                 exfalso. apply NL. congruence.
           ++ destruct (opt_is (last_opt p') v); ring.
    + (* every other label contributes nothing *)
      intros c Hc Ncv. unfold cnb, astep.
      destruct (Nat.eqb c V) eqn:EV; cbn [a_pre a_last a_w ends_blank].
      * rewrite EV. cbn [negb]. rewrite andb_false_r. auto.
      * destruct (opt_is (a_last st) c) eqn:OL; cbn [a_pre a_last a_w ends_blank]; rewrite EV; cbn [negb]; rewrite andb_true_r.
        -- apply opt_is_true in OL. unfold st_ok in OK. rewrite OL in OK. destruct OK as [_ OK].
           apply Nat.eqb_neq in EV. specialize (OK EV).
           destruct (list_nat_eqb (a_pre st) p) eqn:E1; auto.
           apply list_nat_eqb_true in E1. rewrite E1, LP in OK. congruence.
        -- destruct (list_nat_eqb (a_pre st ++ [c]) p) eqn:E1; auto.
           apply list_nat_eqb_true in E1. rewrite Pdec in E1. apply snoc_inj in E1. tauto.
  - (* p = [] : nothing ends non-blank with an empty prefix *)
    apply last_opt_nil_iff in LP. subst p.
    apply qsum_map_zero. intros c Hc. unfold cnb, astep.
    destruct (Nat.eqb c V) eqn:EV; cbn [a_pre a_last a_w ends_blank].
    + rewrite EV. cbn [negb]. rewrite andb_false_r. auto.
    + destruct (opt_is (a_last st) c) eqn:OL; cbn [a_pre a_last a_w ends_blank]; rewrite EV; cbn [negb]; rewrite andb_true_r.
      * apply opt_is_true in OL. unfold st_ok in OK. rewrite OL in OK. destruct OK as [_ OK].
        apply Nat.eqb_neq in EV. specialize (OK EV).
        destruct (list_nat_eqb (a_pre st) []) eqn:E1; auto.
        apply list_nat_eqb_true in E1. rewrite E1 in OK. discriminate.
      * destruct (list_nat_eqb (a_pre st ++ [c]) []) eqn:E1; auto.
        apply list_nat_eqb_true in E1. destruct (a_pre st); discriminate.
Qed.

(* ---- the CTC recursion on alignment sums ---------------------------------------------- *)

Lemma sum_next : forall (f : astate -> Qc) V frames E n,
  qsum (map (fun a => f (arun V frames E a)) (aligns V (S n)))
  = qsum (map (fun a => qsum (map (fun c => f (astep V frames E (arun V frames E a) c))
                                  (seq 0 (S V)))) (aligns V n)).
Proof.
  intros. cbn [aligns]. rewrite qsum_flat_map. apply qsum_map_ext. intros a _.
  rewrite map_map. apply qsum_map_ext. intros c _. rewrite arun_snoc. auto.
Qed.

Lemma A_b_step : forall V frames E n p,
  A_b V frames E (S n) p
  = ((A_nb V frames E n p + A_b V frames E n p) * snd (fr_at frames n))%Qc.
Proof.
  intros. rewrite !A_b_eq, A_nb_eq.
  rewrite (sum_next (fun st => cb V st p)).
  rewrite <- qsum_map_plus, <- qsum_map_scale. apply qsum_map_ext. intros a Ha.
  rewrite step_cb, arun_t, (aligns_length _ _ _ Ha). reflexivity.
Qed.

Lemma A_nb_step : forall V frames E n p, Forall (fun x => x < V) p ->
  A_nb V frames E (S n) p
  = match last_opt p with
    | None => 0%Qc
    | Some v =>
        (A_nb V frames E n p * nth v (fst (fr_at frames n)) 0
         + (A_b V frames E n (removelast p)
            + (if opt_is (last_opt (removelast p)) v then 0 else A_nb V frames E n (removelast p)))
           * E n (removelast p) v)%Qc
    end.
Proof.
  intros V frames E n p PV. rewrite A_nb_eq.
  rewrite (sum_next (fun st => cnb V st p)).
  destruct (last_opt p) as [v|] eqn:LP.
  - rewrite !A_nb_eq, A_b_eq.
    destruct (opt_is (last_opt (removelast p)) v) eqn:OI.
    + rewrite <- qsum_map_scale with (f := fun a => cnb V (arun V frames E a) p).
      assert (forall X : Qc, (X + 0 = X)%Qc) as Z by (intros; ring). rewrite Z.
      rewrite <- qsum_map_scale with (f := fun a => cb V (arun V frames E a) (removelast p)).
      rewrite <- qsum_map_plus. apply qsum_map_ext. intros a Ha.
      rewrite step_cnb; auto.
      2:{ eapply arun_ok, aligns_labels; eauto. }
      rewrite LP, OI, arun_t, (aligns_length _ _ _ Ha). ring.
    + rewrite <- qsum_map_scale with (f := fun a => cnb V (arun V frames E a) p).
      rewrite <- qsum_map_plus with (f := fun a => cb V (arun V frames E a) (removelast p)).
      rewrite <- qsum_map_scale with (f := fun a => (cb V (arun V frames E a) (removelast p) + cnb V (arun V frames E a) (removelast p))%Qc).
      rewrite <- qsum_map_plus. apply qsum_map_ext. intros a Ha.
      rewrite step_cnb; auto.
      2:{ eapply arun_ok, aligns_labels; eauto. }
      rewrite LP, OI, arun_t, (aligns_length _ _ _ Ha). ring.
  - apply qsum_map_zero. intros a Ha. rewrite step_cnb; auto.
    + rewrite LP. auto.
    + eapply arun_ok, aligns_labels; eauto.
Qed.

(* a prefix longer than the number of frames has no mass *)
Lemma A_long : forall V frames E n p, n < length p ->
  A_nb V frames E n p = 0%Qc /\ A_b V frames E n p = 0%Qc.
Proof.
  intros V frames E n p L. rewrite A_nb_eq, A_b_eq.
  split; apply qsum_map_zero; intros a Ha; unfold cnb, cb;
    (destruct (list_nat_eqb (a_pre (arun V frames E a)) p) eqn:E1; auto;
     apply list_nat_eqb_true in E1;
     pose proof (arun_pre_len V frames E a) as Q; rewrite E1, (aligns_length _ _ _ Ha) in Q; lia).
Qed.

Definition nonneg_frames (frames : list sframe) (E : score) : Prop :=
  (forall t v, (0 <= nth v (fst (fr_at frames t)) 0)%Qc) /\
  (forall t, (0 <= snd (fr_at frames t))%Qc) /\
  (forall t p v, (0 <= E t p v)%Qc).

Lemma astep_w_nonneg : forall V frames E st c, nonneg_frames frames E ->
  (0 <= a_w st)%Qc -> (0 <= a_w (astep V frames E st c))%Qc.
Proof.
  intros V frames E st c (N1 & N2 & N3) H. unfold astep.
  destruct (Nat.eqb c V); [|destruct (opt_is _ _)]; cbn [a_w]; apply qmul_nonneg; auto.
  - apply N2.
  - apply N1.
Qed.

Lemma arun_w_nonneg : forall V frames E a, nonneg_frames frames E ->
  (0 <= a_w (arun V frames E a))%Qc.
Proof.
  intros V frames E a N. induction a using rev_ind; [apply qle_01|].
  rewrite arun_snoc. apply astep_w_nonneg; auto.
Qed.

Lemma A_nonneg : forall V frames E n p, nonneg_frames frames E ->
  (0 <= A_nb V frames E n p)%Qc /\ (0 <= A_b V frames E n p)%Qc.
Proof.
  intros V frames E n p N. rewrite A_nb_eq, A_b_eq.
  split; apply qsum_nonneg; intros x Hx; apply in_map_iff in Hx; destruct Hx as (a & <- & _);
    unfold cnb, cb; match goal with |- (0 <= if ?b then _ else _)%Qc => destruct b end;
    auto using arun_w_nonneg, qle_00.
Qed.

(* total mass = non-blank part + blank part *)
Lemma ctc_mass_split : forall V frames E p,
  ctc_mass V frames E p
  = (A_nb V frames E (length frames) p + A_b V frames E (length frames) p)%Qc.
Proof.
  intros. unfold ctc_mass, mass_in, runs. rewrite map_map, A_nb_eq, A_b_eq, <- qsum_map_plus.
  apply qsum_map_ext. intros a _. unfold cnb, cb.
  destruct (list_nat_eqb _ p); destruct (ends_blank V _); cbn [andb negb]; ring.
Qed.

Lemma A_0 : forall V frames E p,
  A_nb V frames E 0 p = 0%Qc /\ A_b V frames E 0 p = (if list_nat_eqb [] p then 1 else 0)%Qc.
Proof.
  intros. rewrite A_nb_eq, A_b_eq. cbn [aligns map]. unfold cnb, cb, arun. cbn.
  destruct (list_nat_eqb [] p); cbn; split; ring.
Qed.

(* ---- finite maps -------------------------------------------------------------------- *)

Lemma inb_true : forall B p, inb B p = true <-> exists m, In (p, m) B.
Proof.
  intros. unfold inb. rewrite existsb_exists. split.
  - intros ((q, m) & I & Q). apply list_nat_eqb_true in Q. cbn in Q. subst. eauto.
  - intros (m & I). exists (p, m). split; auto. apply list_nat_eqb_refl.
Qed.

Lemma lookup_in : forall B p m, NoDup (map fst B) -> In (p, m) B -> lookup B p = m.
Proof.
  unfold lookup. induction B as [|[q mq] B]; intros p m ND I; [destruct I|].
  cbn [find fst]. cbn [map fst] in ND. inversion ND; subst.
  destruct (list_nat_eqb q p) eqn:Q.
  - apply list_nat_eqb_true in Q. subst q. destruct I as [I|I]; [inversion I; reflexivity|].
    exfalso. apply H1. apply in_map_iff. exists (p, m). auto.
  - destruct I as [I|I]; [inversion I; subst; rewrite list_nat_eqb_refl in Q; discriminate|].
    apply IHB; auto.
Qed.

Lemma lookup_notin : forall B p, inb B p = false -> lookup B p = (0%Qc, 0%Qc).
Proof.
  unfold lookup, inb. induction B as [|[q mq] B]; intros p H; auto.
  cbn [existsb find fst] in *. apply orb_false_iff in H. destruct H as [H1 H2].
  rewrite H1. auto.
Qed.

Lemma nodup_pre_in : forall l x, In x (nodup_pre l) <-> In x l.
Proof.
  induction l; intros x; cbn [nodup_pre]; [tauto|].
  destruct (existsb (list_nat_eqb a) l) eqn:Ex.
  - rewrite IHl. split; auto with datatypes. intros [<-|H]; auto.
    apply existsb_exists in Ex. destruct Ex as (y & Hy & Q). apply list_nat_eqb_true in Q. subst; auto.
  - cbn [In]. rewrite IHl. tauto.
Qed.

Lemma nodup_pre_nodup : forall l, NoDup (nodup_pre l).
Proof.
  induction l; cbn [nodup_pre]; [constructor|].
  destruct (existsb (list_nat_eqb a) l) eqn:Ex; auto.
  constructor; auto. rewrite nodup_pre_in. intro I.
  assert (existsb (list_nat_eqb a) l = true); [|congruence].
  apply existsb_exists. exists a. split; auto. apply list_nat_eqb_refl.
Qed.

Lemma cand_prefixes_in : forall V B q,
  In q (cand_prefixes V B) <->
  (exists m, In (q, m) B) \/ (exists p m v, In (p, m) B /\ v < V /\ q = p ++ [v]).
Proof.
  intros. unfold cand_prefixes. rewrite nodup_pre_in, in_app_iff, in_map_iff, in_flat_map. split.
  - intros [((p, m) & <- & I)|((p, m) & I & Q)]; [left; eauto|right].
    apply in_map_iff in Q. destruct Q as (v & <- & Hv). apply in_seq in Hv.
    exists p, m, v. cbn. repeat split; auto; lia.
  - intros [(m & I)|(p & m & v & I & Hv & ->)].
    + left. exists (q, m). auto.
    + right. exists (p, m). split; auto. apply in_map_iff. exists v. split; auto. apply in_seq. lia.
Qed.

(* ---- never more than the true mass ---------------------------------------------------- *)

Definition bounded V frames E (n : nat) (B : list entry) : Prop :=
  NoDup (map fst B) /\
  forall p nb b, In (p, (nb, b)) B ->
    Forall (fun x => x < V) p /\
    (0 <= nb)%Qc /\ (nb <= A_nb V frames E n p)%Qc /\
    (0 <= b)%Qc /\ (b <= A_b V frames E n p)%Qc.

Lemma lookup_bounded : forall V frames E n B p, nonneg_frames frames E -> bounded V frames E n B ->
  let '(nb, b) := lookup B p in
  (0 <= nb)%Qc /\ (nb <= A_nb V frames E n p)%Qc /\ (0 <= b)%Qc /\ (b <= A_b V frames E n p)%Qc.
Proof.
  intros V frames E n B p N [ND Bd].
  destruct (inb B p) eqn:I.
  - apply inb_true in I. destruct I as ([nb b] & I). rewrite (lookup_in _ _ _ ND I).
    destruct (Bd _ _ _ I) as (_ & H). exact H.
  - rewrite lookup_notin; auto. destruct (A_nonneg V frames E n p N). auto using qle_00.
Qed.

Lemma new_entry_fst : forall V frames E t B q, fst (new_entry V frames E t B q) = q.
Proof. intros. unfold new_entry. destruct (lookup B q). reflexivity. Qed.

Lemma new_entry_bounded : forall V frames E n B q, nonneg_frames frames E ->
  bounded V frames E n B -> Forall (fun x => x < V) q ->
  let e := new_entry V frames E n B q in
  (0 <= fst (snd e))%Qc /\ (fst (snd e) <= A_nb V frames E (S n) q)%Qc /\
  (0 <= snd (snd e))%Qc /\ (snd (snd e) <= A_b V frames E (S n) q)%Qc.
Proof.
  intros V frames E n B q N Bd QV.
  pose proof (lookup_bounded V frames E n B q N Bd) as Lq.
  destruct N as (N1 & N2 & N3).
  unfold new_entry. destruct (lookup B q) as [nq bq]. destruct Lq as (Q1 & Q2 & Q3 & Q4).
  cbn [fst snd]. rewrite A_b_step, A_nb_step by auto. fold (fr_at frames n).
  assert (B0 : (0 <= (nq + bq) * snd (fr_at frames n))%Qc) by (apply qmul_nonneg; auto using qadd_nonneg).
  assert (B1 : ((nq + bq) * snd (fr_at frames n)
               <= (A_nb V frames E n q + A_b V frames E n q) * snd (fr_at frames n))%Qc).
  { apply qmul_le; auto using qadd_nonneg, qadd_le, qle_refl. }
  destruct (last_opt q) as [v|] eqn:LQ.
  - set (p := removelast q).
    pose proof (lookup_bounded V frames E n B p (conj N1 (conj N2 N3)) Bd) as Lp.
    destruct (A_nonneg V frames E n p (conj N1 (conj N2 N3))) as [AP1 AP2].
    assert (S0 : (0 <= nq * nth v (fst (fr_at frames n)) 0)%Qc) by (apply qmul_nonneg; auto).
    assert (S1 : (nq * nth v (fst (fr_at frames n)) 0 <= A_nb V frames E n q * nth v (fst (fr_at frames n)) 0)%Qc).
    { apply qmul_le; auto using qle_refl. }
    assert (X : let x := (if inb B p
                then let '(np, bp) := lookup B p in
                     ((if opt_is (last_opt p) v then 0 else np) + bp) * E n p v
                else 0)%Qc in
               (0 <= x)%Qc /\
               (x <= (A_b V frames E n p + (if opt_is (last_opt p) v then 0 else A_nb V frames E n p)) * E n p v)%Qc).
    { cbv zeta. destruct (inb B p).
      - destruct (lookup B p) as [np bp]. destruct Lp as (P1 & P2 & P3 & P4).
        destruct (opt_is (last_opt p) v).
        + split; [apply qmul_nonneg; auto using qadd_nonneg, qle_00|].
          apply qmul_le; auto using qadd_nonneg, qle_00, qle_refl.
          replace (A_b V frames E n p + 0)%Qc with (0 + A_b V frames E n p)%Qc by ring.
          apply qadd_le; auto using qle_refl.
        + split; [apply qmul_nonneg; auto using qadd_nonneg|].
          apply qmul_le; auto using qadd_nonneg, qle_refl.
          replace (A_b V frames E n p + A_nb V frames E n p)%Qc with (A_nb V frames E n p + A_b V frames E n p)%Qc by ring.
          apply qadd_le; auto.
      - split; [apply qle_00|]. apply qmul_nonneg; auto.
        destruct (opt_is (last_opt p) v); apply qadd_nonneg; auto using qle_00. }
    cbv zeta in X. destruct X as [X0 X1].
    repeat split; auto using qadd_nonneg, qadd_le.
  - replace (0 + 0)%Qc with 0%Qc by ring. repeat split; auto using qle_00.
Qed.

Lemma bounded_init : forall V frames E, bounded V frames E 0 pbs_init.
Proof.
  intros. split; [repeat constructor; auto|].
  intros p nb b [H|[]]. inversion H; subst. destruct (A_0 V frames E []) as [-> ->].
  rewrite list_nat_eqb_refl. repeat split; auto using qle_00, qle_01, qle_refl.
Qed.

Lemma cands_prefix_lt : forall V frames E n B q, bounded V frames E n B ->
  In q (cand_prefixes V B) -> Forall (fun x => x < V) q.
Proof.
  intros V frames E n B q [_ Bd] I. apply cand_prefixes_in in I.
  destruct I as [([nb b] & I)|(p & [nb b] & v & I & Hv & ->)].
  - apply (Bd _ _ _ I).
  - apply Forall_app; split; [apply (Bd _ _ _ I)|constructor; auto].
Qed.

Lemma bounded_step : forall V K frames E n B B', nonneg_frames frames E ->
  bounded V frames E n B -> pbs_keeps K (pbs_cands V frames E n B) B' ->
  bounded V frames E (S n) B'.
Proof.
  intros V K frames E n B B' N Bd (ND & Inc & _). split; auto.
  intros p nb b I. apply Inc in I. unfold pbs_cands in I. apply in_map_iff in I.
  destruct I as (q & Eq & Iq).
  pose proof (cands_prefix_lt _ _ _ _ _ _ Bd Iq) as QV.
  pose proof (new_entry_bounded V frames E n B q N Bd QV) as H.
  pose proof (new_entry_fst V frames E n B q) as F.
  rewrite Eq in H, F. cbn [fst snd] in H, F. subst q. tauto.
Qed.

Lemma reach_bounded : forall V K frames E n B, nonneg_frames frames E ->
  pbs_reach V K frames E n B -> bounded V frames E n B.
Proof.
  intros V K frames E n B N R. induction R; [apply bounded_init|].
  eapply bounded_step; eauto.
Qed.

(* the property's "never more than that otherwise" *)
Lemma pbs_le_exact : forall V K frames E B p nb b, nonneg_frames frames E ->
  pbs_reach V K frames E (length frames) B -> In (p, (nb, b)) B ->
  (0 <= nb + b)%Qc /\ (nb + b <= ctc_mass V frames E p)%Qc.
Proof.
  intros V K frames E B p nb b N R I. apply reach_bounded in R; auto.
  destruct R as [_ Bd]. destruct (Bd _ _ _ I) as (_ & H1 & H2 & H3 & H4).
  rewrite ctc_mass_split. split; auto using qadd_nonneg, qadd_le.
Qed.

(* ---- exact when nothing is pruned ------------------------------------------------------- *)

Definition exactB V frames E (n : nat) (B : list entry) : Prop :=
  NoDup (map fst B) /\
  forall e, In e B <->
    exists p, Forall (fun x => x < V) p /\ length p <= n /\
              e = (p, (A_nb V frames E n p, A_b V frames E n p)).

Lemma exact_lookup : forall V frames E n B p, exactB V frames E n B ->
  Forall (fun x => x < V) p -> lookup B p = (A_nb V frames E n p, A_b V frames E n p).
Proof.
  intros V frames E n B p [ND Ex] PV. destruct (le_lt_dec (length p) n) as [L|L].
  - apply lookup_in; auto. apply Ex. eauto.
  - destruct (A_long V frames E n p L) as [-> ->]. apply lookup_notin.
    destruct (inb B p) eqn:I; auto. apply inb_true in I. destruct I as (m & I).
    apply Ex in I. destruct I as (p' & _ & L' & Q). inversion Q; subst. lia.
Qed.

Lemma exact_inb : forall V frames E n B p, exactB V frames E n B ->
  Forall (fun x => x < V) p -> length p <= n -> inb B p = true.
Proof. intros V frames E n B p [ND Ex] PV L. apply inb_true. eexists. apply Ex. eauto. Qed.

Lemma removelast_forall : forall {A} (P : A -> Prop) l, Forall P l -> Forall P (removelast l).
Proof.
  intros A P l H. destruct l; [constructor|].
  rewrite (snoc_decomp (a :: l) a) in H by discriminate. apply Forall_app in H. tauto.
Qed.

Lemma removelast_length : forall {A} (l : list A), length (removelast l) = length l - 1.
Proof.
  intros. destruct l; auto. rewrite (snoc_decomp (a :: l) a) at 2 by discriminate.
  rewrite app_length. cbn [length]. lia.
Qed.

Lemma exact_new_entry : forall V frames E n B q, exactB V frames E n B ->
  Forall (fun x => x < V) q -> length q <= S n ->
  new_entry V frames E n B q = (q, (A_nb V frames E (S n) q, A_b V frames E (S n) q)).
Proof.
  intros V frames E n B q Ex QV L. unfold new_entry.
  rewrite (exact_lookup _ _ _ _ _ _ Ex QV). rewrite A_b_step, A_nb_step by auto.
  fold (fr_at frames n). destruct (last_opt q) as [v|] eqn:LQ.
  - assert (PV : Forall (fun x => x < V) (removelast q)) by (apply removelast_forall; auto).
    rewrite (exact_inb _ _ _ _ _ _ Ex PV) by (rewrite removelast_length; lia).
    rewrite (exact_lookup _ _ _ _ _ _ Ex PV).
    f_equal; f_equal; try reflexivity. destruct (opt_is (last_opt (removelast q)) v); ring.
  - f_equal; f_equal; try reflexivity; ring.
Qed.

Lemma exact_cands : forall V frames E n B q, exactB V frames E n B ->
  In q (cand_prefixes V B) <-> Forall (fun x => x < V) q /\ length q <= S n.
Proof.
  intros V frames E n B q [ND Ex]. rewrite cand_prefixes_in. split.
  - intros [(m & I)|(p & m & v & I & Hv & ->)].
    + apply Ex in I. destruct I as (p & PV & L & Q). inversion Q; subst. auto.
    + apply Ex in I. destruct I as (p' & PV & L & Q). inversion Q; subst. split.
      * apply Forall_app; auto.
      * rewrite app_length. cbn. lia.
  - intros [QV L]. destruct (le_lt_dec (length q) n) as [L'|L'].
    + left. eexists. apply Ex. eauto.
    + right. assert (NE : q <> []) by (destruct q; cbn in L'; [lia|discriminate]).
      pose proof (snoc_decomp q 0 NE) as D.
      exists (removelast q), (A_nb V frames E n (removelast q), A_b V frames E n (removelast q)), (last q 0).
      rewrite D in QV. apply Forall_app in QV. destruct QV as [Q1 Q2]. inversion Q2; subst.
      repeat split; auto. apply Ex. exists (removelast q). repeat split; auto.
      rewrite removelast_length. lia.
Qed.

Lemma exact_init : forall V frames E, exactB V frames E 0 pbs_init.
Proof.
  intros. split; [repeat constructor; auto|]. intros e.
  destruct (A_0 V frames E []) as [Z1 Z2]. rewrite list_nat_eqb_refl in Z2. split.
  - intros [<-|[]]. exists []. rewrite Z1, Z2. repeat split; auto.
  - intros (p & _ & L & ->). destruct p; [|cbn in L; lia]. rewrite Z1, Z2. left. reflexivity.
Qed.

Lemma exact_step : forall V frames E n B B', exactB V frames E n B ->
  NoDup (map fst B') -> incl B' (pbs_cands V frames E n B) -> incl (pbs_cands V frames E n B) B' ->
  exactB V frames E (S n) B'.
Proof.
  intros V frames E n B B' Ex ND I1 I2. split; auto. intros e. split.
  - intros I. apply I1 in I. unfold pbs_cands in I. apply in_map_iff in I. destruct I as (q & <- & Iq).
    apply (exact_cands _ _ _ _ _ _ Ex) in Iq. destruct Iq as [QV L].
    exists q. repeat split; auto. apply exact_new_entry; auto.
  - intros (p & PV & L & ->). apply I2. unfold pbs_cands. apply in_map_iff. exists p. split.
    + apply exact_new_entry; auto.
    + apply (exact_cands _ _ _ _ _ _ Ex). auto.
Qed.

Lemma full_exact : forall V frames E n B, pbs_full V frames E n B -> exactB V frames E n B.
Proof. intros V frames E n B F. induction F; [apply exact_init|]. eapply exact_step; eauto. Qed.

(* the property's "exact total probability of all alignments collapsing to it whenever nothing
   had to be pruned": every blank-free prefix no longer than the input is in the beam with
   exactly its alignment mass, and the beam holds nothing else *)
Lemma pbs_exact_when_unpruned : forall V frames E B,
  pbs_full V frames E (length frames) B ->
  (forall p nb b, In (p, (nb, b)) B ->
     Forall (fun x => x < V) p /\ length p <= length frames /\
     (nb + b)%Qc = ctc_mass V frames E p) /\
  (forall p, Forall (fun x => x < V) p -> length p <= length frames ->
     exists nb b, In (p, (nb, b)) B /\ (nb + b)%Qc = ctc_mass V frames E p).
Proof.
  intros V frames E B F. apply full_exact in F. destruct F as [ND Ex]. split.
  - intros p nb b I. apply Ex in I. destruct I as (p' & PV & L & Q). inversion Q; subst.
    rewrite ctc_mass_split. auto.
  - intros p PV L. do 2 eexists. split; [apply Ex; eauto|]. rewrite ctc_mass_split. auto.
Qed.

(* the checker's way of summing is the specification's *)
Lemma mass_fast_eq : forall rs p, mass_fast rs p = mass_in rs p.
Proof.
  intros rs p. unfold mass_fast, mass_in.
  assert (G : forall acc, fold_left (fun acc st => if list_nat_eqb (a_pre st) p then (acc + a_w st)%Qc else acc) rs acc
                          = (acc + qsum (map (fun st => if list_nat_eqb (a_pre st) p then a_w st else 0%Qc) rs))%Qc).
  { induction rs as [|st rs]; intros acc; cbn [fold_left map]; rewrite ?qsum_cons, ?qsum_nil; [ring|].
    rewrite IHrs. destruct (list_nat_eqb (a_pre st) p); ring. }
  rewrite G. ring.
Qed.
