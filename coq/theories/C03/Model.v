(* C03 — executable model of
     src/pydrobert/torch/_string.py::_string_matching  (return_mask = True branch),
     src/pydrobert/torch/_string.py::optimal_completion,
     src/pydrobert/torch/_string.py::hard_optimal_completion_distillation_loss.

   Mirrors what the code does.  Per column of the batch: lengths from eos (C01.eff_len), the
   uniform-cost shortcut (C01.eff_costs; the multiplier is irrelevant for a mask), row 0 =
   arange * del_cost, first mask row = (ref_len > 0) at position 0, and per hypothesis step
   the insertion / substitution candidates, the fold through the triangular deletion matrix,
   freezing with not_done, THEN (only in this branch) masked_fill of the row with +inf past
   ref_len - the filled row is what the next step starts from -, the minimum of the row, the
   comparison row[:-1] == mins & not_done, and finally the restriction to positions < ref_len.
   Floats with +inf are [option Z] (None = +inf), costs are integers (harness scale 4).
   optimal_completion: duplicate propagation through the R x R equality table, sort of the
   reference column (indices + gather), neighbour de-duplication, masked_select, counts,
   C = counts.max(), flat masked_scatter into a tensor of padding, optional transpose.
   The loss: cross entropy with ignore_index on given log-probabilities (regime T: torch's
   log_softmax is data), mean over the non-padding targets, the three reductions.
   The batch dimension of the mask is a map over columns (as in C01).  No proofs here. *)
From Coq Require Import List ZArith QArith Bool Arith.
From PV Require Import C01.Obs C01.Model.
Import ListNotations.
Local Open Scope Z_scope.

(* ---- floats with +inf ----------------------------------------------------------------- *)
Definition oadd2 (a b : option Z) : option Z :=
  match a, b with Some x, Some y => Some (x + y) | _, _ => None end.

(* == on floats: inf == inf holds *)
Definition oeqb (a b : option Z) : bool :=
  match a, b with
  | Some x, Some y => x =? y
  | None, None => true
  | _, _ => false
  end.

(* (del_mat + row).min(1) on a row that may contain +inf *)
Definition odel_fold (cd : Z) (v : list (option Z)) : list (option Z) :=
  let n := length v in
  map (fun i => omin_list (map (fun j => oadd2 (del_entry cd i j) (nth j v None)) (seq 0 n)))
      (seq 0 n).

(* ---- _string_matching(return_mask=True) for one column -------------------------------- *)
Section PairMask.
  Variables ci cd cs : Z.        (* the costs in force after the uniform-cost shortcut *)
  Variable r : list Z.           (* the whole reference column, garbage included *)
  Variable h : list Z.           (* the whole hypothesis column *)
  Variables rlen hlen : nat.     (* ref_lens[n], hyp_lens[n] *)
  Variable excl : bool.          (* exclude_last *)

  Definition orow0 : list (option Z) :=
    map (fun i => Some (Z.of_nat i * cd)) (seq 0 (S (length r))).

  (* row_mask = zeros(R); row_mask[0] = ref_lens > 0 *)
  Definition first_mask : list bool :=
    map (fun i => Nat.eqb i 0 && (0 <? rlen)%nat) (seq 0 (length r)).

  Definition not_done_at (hyp_idx : nat) : bool :=
    (hyp_idx - (if excl then 0 else 1) <? hlen)%nat.

  (* the loop body up to "row = torch.where(not_done, row, last_row)" *)
  Definition ostep_row (hyp_idx : nat) (last : list (option Z)) : list (option Z) :=
    let ins_mask := if (hyp_idx <=? hlen)%nat then 1 else 0 in
    let tok := nth (hyp_idx - 1) h 0 in
    let neq_mask := map (fun a => if a =? tok then 0 else 1) r in
    let row := map (fun x => oadd x (ci * ins_mask)) last in
    let sub_row := map2 (fun x m => oadd x (cs * m)) (removelast last) neq_mask in
    let row := hd None row :: map2 omin (tl row) sub_row in
    let row := odel_fold cd row in
    if not_done_at hyp_idx then row else last.

  (* row.masked_fill(rrange > ref_lens, inf) *)
  Definition inf_past (row : list (option Z)) : list (option Z) :=
    map2 (fun i x => if (rlen <? i)%nat then None else x) (seq 0 (length row)) row.

  (* (row carried to the next step, row_mask appended to masks) *)
  Definition mask_step (hyp_idx : nat) (last : list (option Z)) : list (option Z) * list bool :=
    let row := inf_past (ostep_row hyp_idx last) in
    let mins := omin_list row in
    (row, map (fun x => oeqb x mins && not_done_at hyp_idx) (removelast row)).

  Fixpoint masks_loop (fuel hyp_idx : nat) (last : list (option Z)) : list (list bool) :=
    match fuel with
    | O => []
    | S f => let rm := mask_step hyp_idx last in snd rm :: masks_loop f (S hyp_idx) (fst rm)
    end.

  (* torch.stack(masks) & (arange(R) < ref_lens): rows hyp_idx = 0 .. steps *)
  Definition pair_masks (steps : nat) : list (list bool) :=
    let lt_len := map (fun i => (i <? rlen)%nat) (seq 0 (length r)) in
    map (fun m => map2 andb m lt_len) (first_mask :: masks_loop steps 1%nat orow0).
End PairMask.

(* ---- optimal_completion: from one mask row to the listed tokens ------------------------- *)
(* (mask.unsqueeze & (ref.unsqueeze(1) == ref.unsqueeze(2))).any(3) *)
Definition propagate (r : list Z) (m : list bool) : list bool :=
  map (fun a => existsb (fun bm => snd bm && (fst bm =? a)) (combine r m)) r.

(* ref.sort(1): the index tensor (stable insertion sort; ties carry equal mask bits after the
   propagation, so the order among equal tokens cannot be observed) *)
Fixpoint insert_idx (key : nat -> Z) (i : nat) (l : list nat) : list nat :=
  match l with
  | [] => [i]
  | j :: t => if key i <=? key j then i :: l else j :: insert_idx key i t
  end.

Definition sort_idx (r : list Z) : list nat :=
  fold_right (insert_idx (fun i => nth i r 0)) [] (seq 0 (length r)).

(* cat([mask[:-1] & (ref[:-1] != ref[1:]), mask[-1:]]) *)
Definition dedup_mask (sref : list Z) (m : list bool) : list bool :=
  map2 andb (removelast m) (map2 (fun a b => negb (a =? b)) (removelast sref) (tl sref))
  ++ skipn (length m - 1) m.

Definition masked_select {A} (vals : list A) (m : list bool) : list A :=
  map fst (filter snd (combine vals m)).

Definition count_true (m : list bool) : nat := length (filter (fun b => b) m).

(* sorted reference column and the final mask over it *)
Definition sorted_ref (r : list Z) : list Z := map (fun s => nth s r 0) (sort_idx r).

Definition final_mask (r : list Z) (m : list bool) : list bool :=
  let m1 := propagate r m in
  let m2 := map (fun s => nth s m1 false) (sort_idx r) in    (* mask.gather(2, src) *)
  dedup_mask (sorted_ref r) m2.

(* ---- masked_scatter_ on flattened tensors ------------------------------------------------ *)
Fixpoint masked_scatter (tgt : list Z) (mask : list bool) (src : list Z) : list Z :=
  match tgt, mask with
  | t :: tgt', b :: mask' =>
      if b then match src with
                | s :: src' => s :: masked_scatter tgt' mask' src'
                | [] => t :: masked_scatter tgt' mask' []
                end
      else t :: masked_scatter tgt' mask' src
  | _, _ => tgt
  end.

(* view a flat buffer as (A, B, C) *)
Definition unflatten (A B C : nat) (flat : list Z) : list (list (list Z)) :=
  map (fun a => map (fun b => firstn C (skipn ((a * B + b) * C) flat)) (seq 0 B)) (seq 0 A).

(* tensor.transpose(0, 1) of an (A, B, _) tensor *)
Definition transpose01 {T} (A B : nat) (t : list (list (list T))) : list (list (list T)) :=
  map (fun b => map (fun a => nth b (nth a t []) []) (seq 0 A)) (seq 0 B).

(* ---- the batch ------------------------------------------------------------------------- *)
(* mask of _string_matching, as N columns of (H', R) *)
Definition oc_masks (c : cfg) (N : nat) (ref hyp : list (list Z)) : list (list (list bool)) :=
  let '(_, (ci, cd, cs)) := eff_costs (c_ins c) (c_del c) (c_sub c) in
  let refs := sequences (c_bf c) N ref in
  let hyps := sequences (c_bf c) N hyp in
  let steps := (length (hd [] hyps) + (if c_excl c then 0 else 1) - 1)%nat in
  map2 (fun r h => pair_masks ci cd cs r h (eff_len (c_eos c) (c_incl c) r)
                     (eff_len (c_eos c) (c_incl c) h) (c_excl c) steps) refs hyps.

(* number of mask rows H' *)
Definition oc_rows (c : cfg) (N : nat) (hyp : list (list Z)) : nat :=
  S (length (hd [] (sequences (c_bf c) N hyp)) + (if c_excl c then 0 else 1) - 1).

(* the (H', N) grid, row-major, of (sorted reference, final mask) *)
Definition oc_grid (c : cfg) (N : nat) (ref hyp : list (list Z)) : list (list (list Z * list bool)) :=
  let refs := sequences (c_bf c) N ref in
  let masks := oc_masks c N ref hyp in
  map (fun k => map2 (fun r ms => (sorted_ref r, final_mask r (nth k ms []))) refs masks)
      (seq 0 (oc_rows c N hyp)).

(* the (H' * N) cells in row-major order *)
Definition oc_cells (c : cfg) (N : nat) (ref hyp : list (list Z)) : list (list Z * list bool) :=
  concat (oc_grid c N ref hyp).

(* counts = mask.sum(2); C = int(counts.max().item()) *)
Definition oc_counts (c : cfg) (N : nat) (ref hyp : list (list Z)) : list nat :=
  map (fun sm => count_true (snd sm)) (oc_cells c N ref hyp).

Definition oc_width (c : cfg) (N : nat) (ref hyp : list (list Z)) : nat :=
  list_max (oc_counts c N ref hyp).

Definition optimal_completion (c : cfg) (N : nat) (ref hyp : list (list Z)) : list (list (list Z)) :=
  let Hn := oc_rows c N hyp in
  let cells := oc_cells c N ref hyp in
  let targets_flat := concat (map (fun sm => masked_select (fst sm) (snd sm)) cells) in
  let counts := oc_counts c N ref hyp in
  let C := oc_width c N ref hyp in
  let target_mask := concat (map (fun cnt => map (fun k => (k <? cnt)%nat) (seq 0 C)) counts) in
  let flat := masked_scatter (repeat (c_pad c) (Hn * N * C)) target_mask targets_flat in
  let t := unflatten Hn N C flat in
  if c_bf c then transpose01 Hn N t else t.

(* ---- hard_optimal_completion_distillation_loss ---------------------------------------- *)
Definition qsum (l : list Q) : Q := fold_right Qplus 0%Q l.

(* cross_entropy(reduction='none', ignore_index, weight) of one target given log-probs *)
Definition ce (ign : Z) (w : option (list Q)) (lp : list Q) (t : Z) : Q :=
  if t =? ign then 0%Q
  else (- nth (Z.to_nat t) lp 0%Q
        * match w with Some wv => nth (Z.to_nat t) wv 0%Q | None => 1%Q end)%Q.

(* loss.masked_fill(padding_mask, 0).sum(2) / (~padding_mask).sum(2).clamp_min(1) *)
Definition step_loss (ign : Z) (w : option (list Q)) (lp : list Q) (row : list Z) : Q :=
  let s := qsum (map (fun t => if t =? ign then 0%Q else ce ign w lp t) row) in
  let cnt := length (filter (fun t => negb (t =? ign)) row) in
  (s / inject_Z (Z.max (Z.of_nat cnt) 1))%Q.

Definition has_target (ign : Z) (row : list Z) : bool := existsb (fun t => negb (t =? ign)) row.

Inductive reduction := RNone | RSum | RMean.
Inductive loss_out := LossGrid (g : list (list Q)) | LossScalar (q : Q).

(* [c]: c_pad is ignore_index; exclude_last is forced to true by the function itself.
   [logp]: log_softmax(logits, -1), same layout as hyp plus the class axis *)
Definition hard_ocd_loss (c : cfg) (w : option (list Q)) (red : reduction) (N : nat)
  (ref hyp : list (list Z)) (logp : list (list (list Q))) : loss_out :=
  let c' := mkCfg (c_eos c) (c_incl c) (c_norm c) (c_bf c) (c_ins c) (c_del c) (c_sub c)
              (c_pad c) true in
  let optimals := optimal_completion c' N ref hyp in
  let grid := map2 (fun lrow orow => map2 (step_loss (c_pad c) w) lrow orow) logp optimals in
  match red with
  | RNone => LossGrid grid
  | RSum => LossScalar (qsum (map qsum grid))
  | RMean =>
      (* per sequence: sum over time / number of steps with a target, then the batch mean *)
      let has := map (map (has_target (c_pad c))) optimals in
      let per_seq (g : list (list Q)) (hs : list (list bool)) :=
        map2 (fun gs bs => (qsum gs / inject_Z (Z.max (Z.of_nat (count_true bs)) 1))%Q) g hs in
      let seqs := if c_bf c then per_seq grid has
                  else per_seq (transpose 0%Q N grid) (transpose false N has) in
      LossScalar (qsum seqs / inject_Z (Z.of_nat (length seqs)))%Q
  end.

(* ---- correspondence entry points ---------------------------------------------------- *)
Fixpoint list_eqb {A} (eqb : A -> A -> bool) (l1 l2 : list A) : bool :=
  match l1, l2 with
  | [], [] => true
  | x :: t1, y :: t2 => eqb x y && list_eqb eqb t1 t2
  | _, _ => false
  end.

Definition check_oc (c : cfg) (N : nat) (ref hyp : list (list Z)) (obs : list (list (list Z))) : bool :=
  list_eqb (list_eqb (list_eqb Z.eqb)) (optimal_completion c N ref hyp) obs.

Definition qclose (tol : Q) (a b : Q) : bool := Qle_bool (Qabs.Qabs (a - b)) tol.

Definition check_loss (c : cfg) (w : option (list Q)) (red : reduction) (N : nat)
  (ref hyp : list (list Z)) (logp : list (list (list Q))) (tol : Q)
  (obs_grid : list (list Q)) (obs_scalar : Q) : bool :=
  match hard_ocd_loss c w red N ref hyp logp with
  | LossGrid g => forall2b (forall2b (qclose tol)) g obs_grid
  | LossScalar q => qclose tol q obs_scalar
  end.
