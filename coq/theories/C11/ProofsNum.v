(* C11 - lemmas: decimal printing and parsing of times (f"{x:.pf}" / float(s)), rounding. *)
From Coq Require Import List ZArith Bool Lia QArith Qround Qabs Lqa.
From PV Require Import C11.Model C11.Spec.
Import ListNotations.
Local Open Scope Z_scope.

(* ---------- round half even ------------------------------------------------------------------ *)

Lemma inject_Z_succ f : (inject_Z (f + 1) == inject_Z f + 1)%Q.
Proof. rewrite inject_Z_plus. reflexivity. Qed.

Lemma rhe_cases x :
  (round_half_even x = Qfloor x /\ (x - inject_Z (Qfloor x) <= 1 # 2)%Q)
  \/ (round_half_even x = Qfloor x + 1 /\ (1 # 2 <= x - inject_Z (Qfloor x))%Q).
Proof.
  unfold round_half_even.
  destruct (Qcompare_spec (x - inject_Z (Qfloor x)) (1 # 2)) as [H|H|H].
  - destruct (Z.even (Qfloor x)); [left|right]; split; try reflexivity; lra.
  - left. split; [reflexivity|lra].
  - right. split; [reflexivity|lra].
Qed.

Lemma rhe_close x : (Qabs (inject_Z (round_half_even x) - x) <= 1 # 2)%Q.
Proof.
  pose proof (Qfloor_le x) as H1. pose proof (Qlt_floor x) as H2. rewrite inject_Z_succ in H2.
  apply Qabs_Qle_condition.
  destruct (rhe_cases x) as [[E H]|[E H]]; rewrite E; [|rewrite inject_Z_succ]; split; lra.
Qed.

Lemma rhe_mono x y : (x <= y)%Q -> round_half_even x <= round_half_even y.
Proof.
  intros Hxy.
  pose proof (Qfloor_resp_le x y Hxy) as Hfg.
  pose proof (Qfloor_le x) as X1. pose proof (Qlt_floor x) as X2. rewrite inject_Z_succ in X2.
  pose proof (Qfloor_le y) as Y1. pose proof (Qlt_floor y) as Y2. rewrite inject_Z_succ in Y2.
  destruct (Z.eq_dec (Qfloor x) (Qfloor y)) as [E|NE].
  - unfold round_half_even. rewrite <- E.
    destruct (Qcompare_spec (x - inject_Z (Qfloor x)) (1 # 2)) as [A|A|A];
    destruct (Qcompare_spec (y - inject_Z (Qfloor x)) (1 # 2)) as [B|B|B];
    destruct (Z.even (Qfloor x)); try lia; exfalso; lra.
  - destruct (rhe_cases x) as [[Ex _]|[Ex _]]; destruct (rhe_cases y) as [[Ey _]|[Ey _]]; lia.
Qed.

Lemma pow10_pos p : 0 < pow10 p.
Proof. unfold pow10. apply Z.pow_pos_nonneg; lia. Qed.

Lemma pow10_succ p : pow10 (S p) = 10 * pow10 p.
Proof. unfold pow10. rewrite Nat2Z.inj_succ, Z.pow_succ_r by lia. reflexivity. Qed.


Lemma rq_div p x : (rq p x == inject_Z (fmt_num p x) / inject_Z (pow10 p))%Q.
Proof.
  unfold rq. rewrite Qmake_Qdiv. rewrite Z2Pos.id by apply pow10_pos. reflexivity.
Qed.

Lemma Qabs_pos_eq x : (0 <= x)%Q -> Qabs x = x.
Proof.
  destruct x as [n d]. unfold Qle; cbn [Qnum Qden]. intros H. unfold Qabs. f_equal. apply Z.abs_eq. lia.
Qed.

(* "to within the print precision": half a unit of the last printed digit *)
Lemma rq_close p x : (0 <= x)%Q -> (Qabs (rq p x - x) <= half_unit p)%Q.
Proof.
  intros Hx. rewrite rq_div. unfold fmt_num. rewrite (Qabs_pos_eq x Hx).
  set (P := inject_Z (pow10 p)).
  assert (HP : (0 < P)%Q).
  { unfold P. change 0%Q with (inject_Z 0). rewrite <- Zlt_Qlt. apply pow10_pos. }
  pose proof (rhe_close (x * P)) as Hc. apply Qabs_Qle_condition in Hc.
  set (n := inject_Z (round_half_even (x * P))) in *.
  assert (Hh : (half_unit p == (1 # 2) / P)%Q).
  { unfold half_unit, P. rewrite (Qmake_Qdiv 1 (2 * Z.to_pos (pow10 p))).
    rewrite Pos2Z.inj_mul, Z2Pos.id by apply pow10_pos.
    rewrite inject_Z_mult. field. intros E. fold P in E. lra. }
  rewrite Hh.
  set (y := (n / P)%Q). assert (Hy : (y * P == n)%Q) by (unfold y; field; lra).
  set (h := ((1 # 2) / P)%Q). assert (Hhp : (h * P == 1 # 2)%Q) by (unfold h; field; lra).
  apply Qabs_Qle_condition. destruct Hc as [Hc1 Hc2]. split.
  - assert (((- h - (y - x)) * P <= 0)%Q) by nra. nra.
  - assert (((y - x - h) * P <= 0)%Q) by nra. nra.
Qed.

Lemma rq_mono p x y : (0 <= x)%Q -> (x <= y)%Q -> (rq p x <= rq p y)%Q.
Proof.
  intros Hx Hxy. unfold rq, Qle; cbn [Qnum Qden].
  apply Z.mul_le_mono_nonneg_r; [lia|].
  unfold fmt_num. rewrite (Qabs_pos_eq x Hx), (Qabs_pos_eq y) by lra.
  apply rhe_mono.
  assert (HP : (0 < inject_Z (pow10 p))%Q).
  { change 0%Q with (inject_Z 0). rewrite <- Zlt_Qlt. apply pow10_pos. }
  nra.
Qed.

Lemma fmt_num_nonneg p x : 0 <= fmt_num p x.
Proof.
  unfold fmt_num.
  assert (H : (0 <= Qabs x * inject_Z (pow10 p))%Q).
  { apply Qmult_le_0_compat; [apply Qabs_nonneg|]. change 0%Q with (inject_Z 0). rewrite <- Zle_Qle. pose proof (pow10_pos p). lia. }
  pose proof (rhe_mono 0 _ H) as Hm.
  replace (round_half_even 0) with 0 in Hm by reflexivity. exact Hm.
Qed.

(* ---------- digits --------------------------------------------------------------------------- *)

Definition is_digit (c : char) : Prop := 48 <= c <= 57.

Lemma digit_val_digit d : 0 <= d < 10 -> digit_val (digit d) = Some d.
Proof.
  intros H. unfold digit_val, digit.
  destruct ((48 <=? 48 + d) && (48 + d <=? 57)) eqn:E.
  - f_equal. lia.
  - apply andb_false_iff in E. destruct E as [E|E]; apply Z.leb_gt in E; lia.
Qed.

Lemma of_digits_app a : forall acc b,
  of_digits acc (a ++ b) = match of_digits acc a with Some v => of_digits v b | None => None end.
Proof.
  induction a as [|c a IH]; intros acc b; cbn [app of_digits]; [reflexivity|].
  destruct (digit_val c); [apply IH|reflexivity].
Qed.

Lemma frac_digits_length p : forall r, length (frac_digits p r) = p.
Proof.
  induction p as [|p IH]; intros r; cbn [frac_digits]; [reflexivity|].
  rewrite app_length, IH. cbn. lia.
Qed.

Lemma frac_digits_are_digits p : forall r c, In c (frac_digits p r) -> is_digit c.
Proof.
  induction p as [|p IH]; intros r c H; cbn [frac_digits] in H; [destruct H|].
  apply in_app_or in H. destruct H as [H|[H|[]]].
  - exact (IH _ _ H).
  - subst c. unfold is_digit, digit. pose proof (Z.mod_pos_bound r 10). lia.
Qed.

Lemma of_digits_frac p : forall r acc, 0 <= r ->
  of_digits acc (frac_digits p r) = Some (acc * pow10 p + r mod pow10 p).
Proof.
  induction p as [|p IH]; intros r acc Hr.
  - cbn [frac_digits of_digits]. f_equal. unfold pow10. cbn. rewrite Z.mod_1_r. lia.
  - cbn [frac_digits]. rewrite of_digits_app. rewrite IH by (apply Z.div_pos; lia).
    cbn [of_digits]. rewrite digit_val_digit by (apply Z.mod_pos_bound; lia). f_equal.
    rewrite pow10_succ. pose proof (pow10_pos p).
    rewrite (Z.rem_mul_r r 10 (pow10 p)) by lia. lia.
Qed.

Lemma strip_zeros_value l : of_digits 0 (strip_zeros l) = of_digits 0 l.
Proof.
  induction l as [|c t IH]; [reflexivity|]. destruct t as [|c' t']; [reflexivity|].
  change (strip_zeros (c :: c' :: t')) with (if c =? 48 then strip_zeros (c' :: t') else c :: c' :: t').
  destruct (c =? 48) eqn:E; [|reflexivity]. apply Z.eqb_eq in E. subst c. rewrite IH. reflexivity.
Qed.

Lemma strip_zeros_nonempty l : l <> [] -> strip_zeros l <> [].
Proof.
  induction l as [|c t IH]; [congruence|]. intros _. destruct t as [|c' t']; [discriminate|].
  change (strip_zeros (c :: c' :: t')) with (if c =? 48 then strip_zeros (c' :: t') else c :: c' :: t').
  destruct (c =? 48); [apply IH; discriminate|discriminate].
Qed.

Lemma strip_zeros_subset l c : In c (strip_zeros l) -> In c l.
Proof.
  induction l as [|a t IH]; [intros []|]. destruct t as [|c' t']; [intros H; exact H|].
  change (strip_zeros (a :: c' :: t')) with (if a =? 48 then strip_zeros (c' :: t') else a :: c' :: t').
  destruct (a =? 48); [intros H; right; apply IH; exact H|intros H; exact H].
Qed.

Lemma int_digits_are_digits q c : In c (int_digits q) -> is_digit c.
Proof. unfold int_digits. intros H. apply strip_zeros_subset in H. exact (frac_digits_are_digits _ _ _ H). Qed.

Lemma int_digits_nonempty q : int_digits q <> [].
Proof.
  unfold int_digits. apply strip_zeros_nonempty. intros E. apply (f_equal (@length _)) in E.
  rewrite frac_digits_length in E. discriminate.
Qed.

Lemma int_digits_value q : 0 <= q -> of_digits 0 (int_digits q) = Some q.
Proof.
  intros Hq. unfold int_digits. rewrite strip_zeros_value. rewrite of_digits_frac by exact Hq.
  f_equal. rewrite Z.mod_small; [lia|]. split; [exact Hq|].
  set (k := Z.to_nat (Z.log2 q)).
  destruct (Z.eq_dec q 0) as [->|Hne]; [apply pow10_pos|].
  assert (Hlog : 0 <= Z.log2 q) by apply Z.log2_nonneg.
  destruct (Z.log2_spec q) as [_ Hlt]; [lia|].
  unfold pow10. rewrite Nat2Z.inj_succ. unfold k. rewrite Z2Nat.id by exact Hlog.
  eapply Z.lt_le_trans; [exact Hlt|]. apply Z.pow_le_mono_l. lia.
Qed.

Lemma split_at_none c l : ~ In c l -> split_at c l = (l, None).
Proof.
  induction l as [|x t IH]; intros H; [reflexivity|]. cbn [split_at].
  destruct (x =? c) eqn:E; [apply Z.eqb_eq in E; exfalso; apply H; left; exact E|].
  rewrite IH by (intros H'; apply H; right; exact H'). reflexivity.
Qed.

Lemma split_at_some c a b : ~ In c a -> split_at c (a ++ c :: b) = (a, Some b).
Proof.
  induction a as [|x t IH]; intros H; cbn [app split_at].
  - rewrite Z.eqb_refl. reflexivity.
  - destruct (x =? c) eqn:E; [apply Z.eqb_eq in E; exfalso; apply H; left; exact E|].
    rewrite IH by (intros H'; apply H; right; exact H'). reflexivity.
Qed.

Lemma digit_not_dot c : is_digit c -> c <> c_dot.
Proof. unfold is_digit, c_dot. lia. Qed.

(* float(f"{x:.pf}") is the printed decimal *)
Lemma parse_dec_str p n : 0 <= n ->
  parse_time (dec_str p n) = Some (Qmake n (Z.to_pos (pow10 p))).
Proof.
  intros Hn. pose proof (pow10_pos p) as HP. unfold parse_time, dec_str.
  assert (Hnd : ~ In c_dot (int_digits (n / pow10 p))).
  { intros H. apply int_digits_are_digits in H. exact (digit_not_dot _ H eq_refl). }
  assert (Hq : 0 <= n / pow10 p) by (apply Z.div_pos; lia).
  destruct p as [|p'].
  - rewrite app_nil_r. rewrite split_at_none by exact Hnd.
    destruct (int_digits (n / pow10 0)) as [|c t] eqn:E; [exfalso; exact (int_digits_nonempty _ E)|].
    rewrite <- E. rewrite int_digits_value by exact Hq.
    unfold pow10. cbn [Z.of_nat Z.pow Z.to_pos]. rewrite Z.div_1_r. reflexivity.
  - rewrite split_at_some by exact Hnd.
    destruct (int_digits (n / pow10 (S p'))) as [|c t] eqn:E; [exfalso; exact (int_digits_nonempty _ E)|].
    rewrite <- E. rewrite int_digits_value by exact Hq.
    rewrite of_digits_frac by (apply Z.mod_pos_bound; lia).
    rewrite frac_digits_length. f_equal. f_equal.
    rewrite Z.mod_mod by lia. pose proof (Z.div_mod n (pow10 (S p'))). lia.
Qed.

Lemma parse_fmt_time p x : (0 <= x)%Q -> parse_time (fmt_time p x) = Some (rq p x).
Proof.
  intros Hx. unfold fmt_time. destruct (Qlt_le_dec x 0) as [H|H]; [exfalso; lra|].
  cbn [app]. apply parse_dec_str. apply fmt_num_nonneg.
Qed.

Lemma dec_str_chars p n c : In c (dec_str p n) -> is_digit c \/ c = c_dot.
Proof.
  unfold dec_str. intros H. apply in_app_or in H. destruct H as [H|H].
  - left. exact (int_digits_are_digits _ _ H).
  - destruct p as [|p']; [destruct H|]. destruct H as [H|H]; [right; symmetry; exact H|].
    left. exact (frac_digits_are_digits _ _ _ H).
Qed.

Lemma fmt_time_no_nl p x : ~ In c_nl (fmt_time p x).
Proof.
  unfold fmt_time. intros H. apply in_app_or in H. destruct H as [H|H].
  - destruct (Qlt_le_dec x 0); [destruct H as [H|[]]; discriminate H|destruct H].
  - apply dec_str_chars in H. destruct H as [H|H]; [unfold is_digit, c_nl in H; lia|discriminate H].
Qed.

Lemma int_digits_no_nl q : ~ In c_nl (int_digits q).
Proof. intros H. apply int_digits_are_digits in H. unfold is_digit, c_nl in H. lia. Qed.
