(* MiniTorch, unit C10BSrc — the meaning given to the torch operations of `slice_spect_data`
   (src/pydrobert/torch/_feats.py) that OpsC10.v (unit C10Src, `chunk_token_sequences_by_slices`) does not
   already define.  DEFINITIONS ONLY; the algebra is in LemmasC10B.v.  The tensors are OpsC10's integer /
   boolean tensors [itens] = (shape, row-major data over cell = CInt z | CBool b | CUndef); integers are
   UNBOUNDED, dtypes / devices / strides are not modelled (see the header of OpsC10.v).

   Reused from OpsC10.v as they are: ndim size new_empty arange (one argument) unsqueeze view bcast compare
   (lt le gt ge) logical_and add sub long all_last select_last slice_last set_slice_last masked_select.

   Every definition quotes the sentence of the torch documentation (2.x) it models and returns [None]
   outside the modelled domain (-> the interpreter is Stuck; a tie lemma cannot be proved there).
   This file is TRUSTED by the second C10 source tie; it is exercised on every run by the harness-side
   `src_check_slice` (torch vs the interpreted source on the same inputs). *)
From Coq Require Import List ZArith Bool Arith.
From PV Require Import MiniTorch.Ops MiniTorch.OpsC10.
Import ListNotations.

(* torch.arange(start, end, step): "Returns a 1-D tensor of size ceil((end - start) / step) with values from the
   interval [start, end) taken with common difference step beginning from start."  Integer arguments, step > 0,
   end >= start (torch raises "upper bound and larger bound inconsistent with step sign" otherwise: None). *)
Definition arange3 (a b s : Z) : option itens :=
  if ((s <=? 0) || (b <? a))%Z then None
  else let k := Z.to_nat ((b - a + s - 1) / s) in
       Some (mkIT [k] (D1 k (fun i => CInt (a + Z.of_nat i * s)))).

(* `a * b` = torch.mul: "Multiplies input by other", element-wise with broadcasting.  Integer elements. *)
Definition mul_cell (a b : cell) : option cell :=
  match a, b with CInt x, CInt y => Some (CInt (x * y)) | _, _ => None end.
Definition mul (a b : itens) : option itens := bcast mul_cell a b.

(* torch.eq / torch.ne (`a == b`, `a != b`): "Computes element-wise equality / inequality.  The second argument can
   be a number or a tensor whose shape is broadcastable with the first argument.  Returns a boolean tensor that is
   True where input is (not) equal to other and False elsewhere".  Integer elements only. *)
Definition eq_cell (neg : bool) (a b : cell) : option cell :=
  match a, b with CInt x, CInt y => Some (CBool (xorb neg (x =? y)%Z)) | _, _ => None end.
Definition compare_eq (neg : bool) (a b : itens) : option itens := bcast (eq_cell neg) a b.

(* `a | b` on boolean tensors = torch.bitwise_or: "Computes the bitwise OR of input and other.  The input tensor must
   be of integral or Boolean types.  For bool tensors, it computes the logical OR."  Boolean elements only. *)
Definition or_cell (a b : cell) : option cell :=
  match a, b with CBool x, CBool y => Some (CBool (x || y)) | _, _ => None end.
Definition logical_or (a b : itens) : option itens := bcast or_cell a b.

(* Tensor.expand( *sizes ): "Returns a new view of the self tensor with singleton dimensions expanded to a larger
   size.  Passing -1 as the size for a dimension means not changing the size of that dimension.  Tensor can be also
   expanded to a larger number of dimensions, and the new ones will be appended at the front.  For the new
   dimensions, the size cannot be set to -1."  At most 3 dimensions (OpsC10.expand does the work once the shape
   is padded with leading 1s and the -1 are resolved). *)
Fixpoint resolve_sizes (lead : nat) (padded : list nat) (s : list Z) : option (list nat) :=
  match padded, s with
  | [], [] => Some []
  | p :: padded', z :: s' =>
      match (if (z =? -1)%Z then (match lead with O => Some p | S _ => None end)
             else if (z <? 0)%Z then None else Some (Z.to_nat z)) with
      | Some d => option_map (cons d) (resolve_sizes (Nat.pred lead) padded' s')
      | None => None
      end
  | _, _ => None
  end.

Definition expand_to (x : itens) (s : list Z) : option itens :=
  if (ndim x <=? length s)%nat then
    let lead := (length s - ndim x)%nat in
    let padded := repeat 1%nat lead ++ ishape x in
    match resolve_sizes lead padded s with
    | Some t => expand (mkIT padded (idata x)) t
    | None => None
    end
  else None.

(* torch.stack(tensors, dim): "Concatenates a sequence of tensors along a new dimension.  All tensors need to be of
   the same size."  Modelled for TWO tensors and dim = the number of their dimensions (the new dimension is the
   last one): out[..., 0] = a[...], out[..., 1] = b[...]. *)
Fixpoint interleave (a b : list cell) : list cell :=
  match a, b with
  | x :: a', y :: b' => x :: y :: interleave a' b'
  | _, _ => []
  end.

Definition stack2_last (a b : itens) (d : Z) : option itens :=
  if (shape_eqb (ishape a) (ishape b) && (d =? Z.of_nat (ndim a))%Z)%bool
  then Some (mkIT (ishape a ++ [2%nat]) (interleave (idata a) (idata b)))
  else None.

(* Tensor.flatten(start_dim=0, end_dim=-1): "Flattens input by reshaping it into a one-dimensional tensor.  If
   start_dim or end_dim are passed, only dimensions starting with start_dim and ending with end_dim are flattened.
   The order of elements in input is unchanged."  At least one dimension. *)
Definition flatten (x : itens) (sd ed : Z) : option itens :=
  match wrap_dim (ndim x) sd, wrap_dim (ndim x) ed with
  | Some s, Some e =>
      if (s <=? e)%nat then
        Some (mkIT (firstn s (ishape x) ++ numel (firstn (S e - s) (skipn s (ishape x))) :: skipn (S e) (ishape x))
                   (idata x))
      else None
  | _, _ => None
  end.

(* Boolean-mask indexing x[mask] with a 1-D mask whose size is x.size(0) (NumPy / torch advanced indexing: "if
   obj.ndim < x.ndim, x[obj] is equivalent to x[obj, ...]": the rows x[i] with mask[i] True, in order). *)
Fixpoint select_rows {A} (rows : list (list A)) (m : list cell) : option (list (list A)) :=
  match rows, m with
  | [], [] => Some []
  | r :: rows', CBool b :: m' => option_map (fun t => if b then r :: t else t) (select_rows rows' m')
  | _, _ => None
  end.

Definition mask_rows (x mask : itens) : option itens :=
  match ishape x, ishape mask with
  | n :: rest, [n'] =>
      if (n =? n')%nat then
        match select_rows (chunks n (numel rest) (idata x)) (idata mask) with
        | Some rows => Some (mkIT (length rows :: rest) (concat rows))
        | None => None
        end
      else None
  | _, _ => None
  end.

(* torch.full(size, fill_value): "Creates a tensor of size size filled with fill_value."  Integer fill value. *)
Definition full_int (s : list nat) (v : Z) : itens := full s (CInt v).

(* torch.cat(tensors, dim): "Concatenates the given sequence of tensors in the given dimension.  All tensors must
   either have the same shape (except in the concatenating dimension) or be ..."  Modelled for dim = the LAST
   dimension of tensors with at least one dimension: each row of the result is the concatenation of the
   corresponding rows. *)
Definition cat_last (ts : list itens) (d : Z) : option itens :=
  match ts with
  | [] => None
  | t0 :: _ =>
      match split_last (ishape t0) with
      | Some (pre, _) =>
          if (is_last_dim t0 d && forallb (fun t => shape_eqb (removelast (ishape t)) pre) ts)%bool then
            let parts := map (fun t => chunks (numel pre) (last (ishape t) 0%nat) (idata t)) ts in
            Some (mkIT (pre ++ [fold_right Nat.add 0%nat (map (fun t => last (ishape t) 0%nat) ts)])
                       (flat_map (fun i => flat_map (fun rows => nth i rows []) parts) (seq 0 (numel pre))))
          else None
      | None => None
      end
  end.

(* Tensor.nonzero(): "returns a 2-D tensor where each row is the index for a nonzero value in input.  ... the result
   is sorted lexicographically, with the last index changing the fastest (C-style)."  Modelled for a 2-D boolean
   tensor: the (z x 2) tensor of the (i, j) with input[i, j] True, row-major. *)
Fixpoint nonzero_row (i : nat) (j : nat) (r : list cell) : option (list (nat * nat)) :=
  match r with
  | [] => Some []
  | CBool b :: r' => option_map (fun t => if b then (i, j) :: t else t) (nonzero_row i (S j) r')
  | _ => None
  end.

Fixpoint nonzero_rows (i : nat) (rows : list (list cell)) : option (list (nat * nat)) :=
  match rows with
  | [] => Some []
  | r :: rows' =>
      match nonzero_row i 0 r, nonzero_rows (S i) rows' with
      | Some a, Some b => Some (a ++ b)
      | _, _ => None
      end
  end.

Definition idx_cells (p : nat * nat) : list cell := [CInt (Z.of_nat (fst p)); CInt (Z.of_nat (snd p))].

Definition nonzero2 (x : itens) : option itens :=
  match ishape x with
  | [n; m] =>
      match nonzero_rows 0 (chunks n m (idata x)) with
      | Some ps => Some (mkIT [length ps; 2%nat] (flat_map idx_cells ps))
      | None => None
      end
  | _ => None
  end.

(* torch.zeros_like(input): "Returns a tensor filled with the scalar value 0, with the same size as input" and the
   same dtype: False for a boolean tensor, 0 for an integer one. *)
Definition zero_cell (c : cell) : option cell :=
  match c with CBool _ => Some (CBool false) | CInt _ => Some (CInt 0) | CUndef => None end.
Definition zeros_like (x : itens) : option itens :=
  option_map (mkIT (ishape x)) (all_some (map zero_cell (idata x))).

(* Tensor.clone(): "Returns a copy of input" (value semantics: the tensor itself). *)
Definition clone (x : itens) : itens := x.

(* Indexing x[idx] of a 1-D tensor with a 1-D integer tensor (advanced indexing = torch.index_select along 0:
   out[i] = x[idx[i]]); "negative indices are interpreted as counting from the end"; None: an index outside
   [-n, n) (torch: IndexError), a non-integer index. *)
Definition index_cell (d : list cell) (c : cell) : option cell :=
  match c with
  | CInt i => option_map (fun p => nth p d CUndef) (wrap_dim (length d) i)
  | _ => None
  end.

Definition index_select1 (x idx : itens) : option itens :=
  match ishape x, ishape idx with
  | [_], [_] => option_map (mkIT (ishape idx)) (all_some (map (index_cell (idata x)) (idata idx)))
  | _, _ => None
  end.

(* Tensor.gather(dim, index): "Gathers values along an axis specified by dim.  For a 2-D tensor
   out[i][j] = input[i][index[i][j]]  # if dim == 1".  input and index must have the same number of dimensions,
   index.size(0) <= input.size(0).  Modelled for 2-D, dim = 1, index.size(0) = input.size(0); None: an index
   outside [0, input.size(1)) (torch raises). *)
Definition gather_cell (r : list cell) (c : cell) : option cell :=
  match c with
  | CInt i => if ((0 <=? i) && (i <? Z.of_nat (length r)))%Z then Some (nth (Z.to_nat i) r CUndef) else None
  | _ => None
  end.

Definition gather1 (x : itens) (d : Z) (idx : itens) : option itens :=
  match ishape x, ishape idx with
  | [n; m], [n'; k] =>
      if ((n =? n')%nat && (d =? 1)%Z)%bool then
        option_map (mkIT [n; k])
          (all_some (concat (map (fun ri => map (gather_cell (fst ri)) (snd ri))
                                 (combine (chunks n m (idata x)) (chunks n k (idata idx))))))
      else None
  | _, _ => None
  end.

(* Tensor.clamp_min_(min) / torch.clamp(input, min=min): "Clamps all elements in input to be larger than min."
   Integer elements. *)
Definition clamp_min_cell (lo : Z) (c : cell) : option cell :=
  match c with CInt z => Some (CInt (Z.max z lo)) | _ => None end.
Definition clamp_min (x : itens) (lo : Z) : option itens :=
  option_map (mkIT (ishape x)) (all_some (map (clamp_min_cell lo) (idata x))).

(* Tensor.squeeze(dim): "Returns a tensor with all specified dimensions of input of size 1 removed.  ... When dim is
   given, a squeeze operation is done only in the given dimension" (a dimension of another size is left alone). *)
Definition squeeze (x : itens) (d : Z) : option itens :=
  match wrap_dim (ndim x) d with
  | Some k => if (nth k (ishape x) 0 =? 1)%nat
              then Some (mkIT (firstn k (ishape x) ++ skipn (S k) (ishape x)) (idata x))
              else Some x
  | None => None
  end.

(* Tensor.masked_fill_(mask, value): "Fills elements of self tensor with value where mask is True.  The shape of
   mask must be broadcastable with the shape of the underlying tensor."  Modelled for a mask of self's shape,
   integer value. *)
Fixpoint fill_cells (d m : list cell) (v : Z) : option (list cell) :=
  match d, m with
  | [], [] => Some []
  | x :: d', CBool b :: m' => option_map (cons (if b then CInt v else x)) (fill_cells d' m' v)
  | _, _ => None
  end.

Definition masked_fill (x mask : itens) (v : Z) : option itens :=
  if shape_eqb (ishape x) (ishape mask) then option_map (mkIT (ishape x)) (fill_cells (idata x) (idata mask) v)
  else None.

(* torch.empty( *size ): "Returns a tensor filled with uninitialized data.  The shape of the tensor is defined by the
   variable argument size."  = OpsC10.new_empty (cells CUndef). *)
Definition empty (s : list nat) : itens := new_empty s.
