(* C03, second tie - the argument checks of `hard_optimal_completion_distillation_loss` (PV.Gen.C03BSrc.loss_checks), interpreted
   with SrcRunB.ext03B: they pass (leaving the state as it is) on a 3-D logits tensor whose leading sizes are hyp's, when a counted
   eos is a class index other than ignore_index; they raise RuntimeError when it is not. *)
From Coq Require Import ZArith QArith List String Bool Arith Lia ZifyBool ZifyNat.
From PV Require Import MiniPy.Syntax MiniPy.Interp MiniPy.Lemmas MiniTorch.Ops MiniTorch.Lemmas MiniTorch.OpsC07 MiniTorch.LemmasC07
  MiniTorch.OpsC01 MiniTorch.LemmasC01 MiniTorch.OpsC03 MiniTorch.LemmasC03 MiniTorch.OpsC03B MiniTorch.LemmasC03B.
From PV Require Import Gen.C03Src Gen.C03BSrc C01.SrcRun C01.TieLib C03.SrcRun C03.TieLib C03.TieOcLib C03.SrcRunB C03.TieBLib.
Import ListNotations.
Local Open Scope string_scope.

#[local] Arguments dec01 : simpl never.
#[local] Arguments enc_b : simpl never.
#[local] Arguments enc_i : simpl never.
#[local] Arguments enc_x : simpl never.
#[local] Arguments Z.of_nat : simpl never.
#[local] Arguments size_dim : simpl never.
#[local] Arguments ext03B : simpl never.
#[local] Arguments cmp_eval : simpl never.
#[local] Arguments Z.eqb : simpl never.
#[local] Arguments Z.ltb : simpl never.
#[local] Arguments Z.leb : simpl never.

Lemma cmp_isnot_none_none : cmp_eval IsNot VNone VNone = Some false.  Proof. reflexivity. Qed.
Lemma cmp_isnot_int_none e : cmp_eval IsNot (VInt e) VNone = Some true.  Proof. reflexivity. Qed.
Lemma cmp_eq_int a b : cmp_eval Eq (VInt a) (VInt b) = Some (a =? b)%Z.  Proof. reflexivity. Qed.
Lemma cmp_ne_int a b : cmp_eval NotEq (VInt a) (VInt b) = Some (negb (a =? b)%Z).  Proof. reflexivity. Qed.
Lemma cmp_ne_pair a b a' b' :
  cmp_eval NotEq (VTuple [VInt a; VInt b]) (VTuple [VInt a'; VInt b']) = Some (negb ((a =? a') && ((b =? b') && true))%Z%bool).
Proof. reflexivity. Qed.

Create HintDb c03cmp discriminated.
#[export] Hint Rewrite cmp_isnot_none_none cmp_isnot_int_none cmp_eq_int cmp_ne_int cmp_ne_pair cmp_eval_lt_int cmp_eval_ge_int : c03cmp.

Ltac evc := repeat (progress (cbn; autorewrite with c03b c03cmp; look; normb)).

Section Checks.
  Variable lsm : list fx -> list Q.
  Definition checks_stage (A B V : nat) (dl : list fx) (dh : list Z) (incl : bool) (eos : option Z) (ign : Z) : list (string * val) :=
    [("logits", enc_x (mkTn [A; B; V] dl)); ("hyp", enc_i (mkTn [A; B] dh)); ("include_eos", VBool incl);
     ("eos", opt_int eos); ("ignore_index", VInt ign)].

  Lemma three : Z.of_nat 3 = 3%Z.  Proof. reflexivity. Qed.

  Ltac head_checks :=
    ifstep3_t ltac:(evc; rewrite ?three; reflexivity); change (3 =? 3)%Z with true; cbn [negb truthy];
    ifstep3_t ltac:(evc; rewrite ?Z.eqb_refl; reflexivity); cbn [negb andb truthy].

  Lemma checks_pass : forall A B V dl dh incl eos ign st, known3 st (checks_stage A B V dl dh incl eos ign) ->
    (incl = true -> forall e, eos = Some e -> (0 <= e < Z.of_nat V)%Z /\ e <> ign) ->
    exec (ext03B lsm) loss_checks st = Ok CNormal st.
  Proof.
    intros A B V dl dh incl eos ign st K0 Hg. unfold checks_stage in K0. open_known3 K0. unfold loss_checks.
    head_checks.
    destruct incl.
    - ifstep3_t ltac:(evc; reflexivity). cbn [truthy].
      destruct eos as [e|]; cbn [opt_int] in *.
      + destruct (Hg eq_refl e eq_refl) as [[H0 H1] H2].
        assert (E1 : (e <? 0)%Z = false) by lia. assert (E2 : (Z.of_nat V <=? e)%Z = false) by lia.
        assert (E3 : (e =? ign)%Z = false) by lia.
        ifstep3_t ltac:(repeat (progress (evc; rewrite ?E1, ?E2, ?E3)); reflexivity). cbn [truthy].
        ifstep3_t ltac:(repeat (progress (evc; rewrite ?E1, ?E2, ?E3)); reflexivity). cbn [truthy]. reflexivity.
      + ifstep3_t ltac:(evc; reflexivity). cbn [truthy].
        ifstep3_t ltac:(evc; reflexivity). cbn [truthy]. reflexivity.
    - ifstep3_t ltac:(evc; reflexivity). cbn [truthy]. reflexivity.
  Qed.

  (* "If include_eos=True, eos must be a class idx" *)
  Lemma checks_raise_class : forall A B V dl dh ign st e, known3 st (checks_stage A B V dl dh true (Some e) ign) ->
    (e < 0 \/ Z.of_nat V <= e)%Z -> exec (ext03B lsm) loss_checks st = Exc "RuntimeError" st.
  Proof.
    intros A B V dl dh ign st e K0 Hb. unfold checks_stage in K0. open_known3 K0. unfold loss_checks.
    cbn [opt_int] in *. head_checks.
    ifstep3_t ltac:(evc; reflexivity). cbn [truthy].
    destruct (e <? 0)%Z eqn:E1.
    - ifstep3_t ltac:(repeat (progress (evc; rewrite ?E1)); reflexivity). cbn [truthy]. reflexivity.
    - assert (E2 : (Z.of_nat V <=? e)%Z = true) by lia.
      ifstep3_t ltac:(repeat (progress (evc; rewrite ?E1, ?E2)); reflexivity). cbn [truthy]. reflexivity.
  Qed.

  (* "If include_eos=True, eos cannot equal ignore_index" *)
  Lemma checks_raise_ign : forall A B V dl dh ign st e, known3 st (checks_stage A B V dl dh true (Some e) ign) ->
    (0 <= e < Z.of_nat V)%Z -> e = ign -> exec (ext03B lsm) loss_checks st = Exc "RuntimeError" st.
  Proof.
    intros A B V dl dh ign st e K0 [H0 H1] Hb. unfold checks_stage in K0. open_known3 K0. unfold loss_checks.
    cbn [opt_int] in *. head_checks.
    assert (E1 : (e <? 0)%Z = false) by lia. assert (E2 : (Z.of_nat V <=? e)%Z = false) by lia.
    assert (E3 : (e =? ign)%Z = true) by lia.
    ifstep3_t ltac:(evc; reflexivity). cbn [truthy].
    ifstep3_t ltac:(repeat (progress (evc; rewrite ?E1, ?E2, ?E3)); reflexivity). cbn [truthy].
    ifstep3_t ltac:(repeat (progress (evc; rewrite ?E1, ?E2, ?E3)); reflexivity). cbn [truthy]. reflexivity.
  Qed.
End Checks.
