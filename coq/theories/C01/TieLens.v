(* C01 - `_lens_from_eos(tok, eos, 0)` on a (T x B) tensor: the body PV.Gen.C01Src.sm_lens (the same text as
   C07's unit), interpreted by C07.SrcRun.call_body with the C07 environment, returns for every column the
   index of its first eos, or T when there is none - PV.C01.Model.first_eos.  (C07.Tie proves the same for the
   (A x T x B) layout along dimension 1; the lemmas on the torch calls are C07.Tie's.) *)
From Coq Require Import ZArith QArith List String Bool Arith Lia ZifyBool ZifyNat.
From PV Require Import MiniPy.Syntax MiniPy.Interp MiniTorch.Ops MiniTorch.Lemmas MiniTorch.OpsC07 MiniTorch.LemmasC07
  MiniTorch.OpsC01 MiniTorch.LemmasC01.
From PV Require Import Gen.C01Src C07.SrcRun C07.Tie.
From PV Require C07.Model C07.Spec C07.ProofsSlp C01.Model.
Import ListNotations.
Local Open Scope string_scope.

#[local] Arguments dec_any : simpl never.
#[local] Arguments enc_b : simpl never.
#[local] Arguments enc_i : simpl never.
#[local] Arguments enc_f : simpl never.
#[local] Arguments tab2 : simpl never.
#[local] Arguments tab3 : simpl never.
#[local] Arguments ext07_ops : simpl never.
#[local] Arguments cumsum_bool : simpl never.
#[local] Arguments max_bool : simpl never.
#[local] Arguments seq : simpl never.

Lemma first_eos_same : forall e l, C07.Model.lens_from_eos e l = C01.Model.first_eos e l.
Proof.
  intros e l. rewrite C07.ProofsSlp.lens_from_eos_spec. induction l as [|x t IH]; [reflexivity|].
  cbn [C07.Spec.first_eos C01.Model.first_eos List.length].
  destruct (x =? e)%Z; [reflexivity|]. rewrite <- IH. destruct (C07.Spec.first_eos e t); reflexivity.
Qed.

Ltac norm2 :=
  unfold eq_s, lt_s, ge_s, cmp_scalar, eq_sb, add_s, bor, band, masked_fill, zip_same; cbn [shp dat];
  rewrite ?nats_eqb_refl, ?map_tab2, ?zipw_tab2, ?map_map, ?zipw_map;
  cbn [option_map ret_any enc_any].

Lemma lens_run_2 : forall lsm T B h e, T <> 0%nat ->
  exists st, Interp.run (ext07_ops lsm) sm_lens
               (("tok", enc_i (mkTn [T; B] (tab2 T B h))) :: ("eos", VInt e) :: ("dim", VInt 0) :: globals07) =
    Ok (enc_i (mkTn [B] (map (fun b => Z.of_nat (C01.Model.first_eos e (map (fun t => h t b) (seq 0 T)))) (seq 0 B)))) st.
Proof.
  intros lsm T B h e HT. unfold Interp.run, sm_lens, globals07.
  istep. rewrite ext_eq_i. norm2. istep.
  rewrite ext_cumsum, cumsum_bool_2. norm2. istep.
  rewrite ext_eq_i. norm2. istep. rewrite ext_and. norm2. istep.
  rewrite ext_max, max_bool_2 by assumption. istep.
  rewrite ext_eq_b. norm2. istep. rewrite ext_shape_i. istep.
  rewrite ext_mfill_i. norm2. istep.
  eexists. do 3 f_equal. apply map_ext_seq. intros b Hb.
  rewrite <- first_eos_same. apply (lens_col e T (fun t => h t b)).
Qed.

Lemma lens_run_2_empty : forall lsm B h e,
  exists st, Interp.run (ext07_ops lsm) sm_lens
               (("tok", enc_i (mkTn [0%nat; B] (tab2 0 B h))) :: ("eos", VInt e) :: ("dim", VInt 0) :: globals07) =
    Exc index_error st.
Proof.
  intros lsm B h e. unfold Interp.run, sm_lens, globals07.
  istep. rewrite ext_eq_i. norm2. istep.
  rewrite ext_cumsum, cumsum_bool_2. norm2. istep.
  rewrite ext_eq_i. norm2. istep. rewrite ext_and. norm2. istep.
  rewrite ext_max, max_bool_2_empty. istep. eexists. reflexivity.
Qed.
