(* MiniTorch, unit C06Src — algebra of the operations of OpsC06 on TABULATED tensors: a 1-D tensor [T1 l F] holds
   F e for the lanes e of an index list l, a 2-D tensor [T2 l ks F] holds F e k (row e, column k).  Every
   operation the loop of `_lookup_calc_idx_log_probs` applies is lane-wise on such tensors.  No new semantics
   here; no axioms. *)
From Coq Require Import List ZArith QArith Bool Arith Lia ZifyBool ZifyNat.
From PV Require Import MiniTorch.OpsC06.
Import ListNotations.

Definition T1 {X} (l : list X) (F : X -> cell) : tens6 := T6 [length l] (map F l).
Definition T2 {X Y} (l : list X) (ks : list Y) (F : X -> Y -> cell) : tens6 :=
  T6 [length l; length ks] (flat_map (fun e => map (F e) ks) l).
(* a column vector: the result of unsqueeze(1) *)
Definition TC {X} (l : list X) (F : X -> cell) : tens6 := T6 [length l; 1%nat] (map F l).

Lemma shape_eqb_refl s : shape_eqb s s = true.
Proof. induction s as [|x s IH]; [reflexivity|]. cbn. rewrite Nat.eqb_refl. exact IH. Qed.

Lemma shape_eqb_eq a : forall b, shape_eqb a b = true -> a = b.
Proof.
  induction a as [|x a IH]; intros [|y b] H; try discriminate; [reflexivity|].
  cbn in H. apply andb_prop in H as [H1 H2]. apply Nat.eqb_eq in H1. rewrite (IH _ H2), H1. reflexivity.
Qed.

Lemma sequence_map_some {A B} (g : A -> B) (l : list A) : sequence (map (fun x => Some (g x)) l) = Some (map g l).
Proof. induction l as [|x l IH]; [reflexivity|]. cbn [map sequence]. rewrite IH. reflexivity. Qed.

Lemma sequence_map_ext {A B} (f : A -> option B) (g : A -> B) (l : list A) :
  (forall x, In x l -> f x = Some (g x)) -> sequence (map f l) = Some (map g l).
Proof.
  intros H. rewrite <- sequence_map_some. f_equal. apply map_ext_in. exact H.
Qed.

Lemma sequence_app {A} (a b : list (option A)) x y :
  sequence a = Some x -> sequence b = Some y -> sequence (a ++ b) = Some (x ++ y).
Proof.
  revert x. induction a as [|[u|] a IH]; intros x Ha Hb; cbn in *.
  - injection Ha as <-. exact Hb.
  - destruct (sequence a) as [r|]; [|discriminate]. cbn in Ha. injection Ha as <-.
    rewrite (IH r eq_refl Hb). reflexivity.
  - discriminate.
Qed.

Lemma sequence_flat_map {X A} (f : X -> list (option A)) (g : X -> list A) (l : list X) :
  (forall e, In e l -> sequence (f e) = Some (g e)) -> sequence (flat_map f l) = Some (flat_map g l).
Proof.
  induction l as [|e l IH]; intros H; [reflexivity|]. cbn [flat_map].
  apply sequence_app; [apply H; left; reflexivity|apply IH; intros; apply H; right; assumption].
Qed.

Lemma combine_map_map {X A B} (F : X -> A) (G : X -> B) (l : list X) :
  combine (map F l) (map G l) = map (fun e => (F e, G e)) l.
Proof. induction l as [|e l IH]; [reflexivity|]. cbn. rewrite IH. reflexivity. Qed.

Lemma combine_flat_map {X Y A B} (F : X -> Y -> A) (G : X -> Y -> B) (ks : list Y) (l : list X) :
  combine (flat_map (fun e => map (F e) ks) l) (flat_map (fun e => map (G e) ks) l)
  = flat_map (fun e => map (fun k => (F e k, G e k)) ks) l.
Proof.
  induction l as [|e l IH]; [reflexivity|]. cbn [flat_map].
  rewrite <- IH, <- combine_map_map.
  assert (Hc : forall (a1 a2 : list A) (b1 b2 : list B), length a1 = length b1 ->
             combine (a1 ++ a2) (b1 ++ b2) = combine a1 b1 ++ combine a2 b2).
  { induction a1 as [|x a1 IHa]; intros a2 [|y b1] b2 Hl; try discriminate; [reflexivity|].
    cbn. rewrite IHa by (cbn in Hl; lia). reflexivity. }
  apply Hc. rewrite !map_length. reflexivity.
Qed.

Lemma map_flat_map {X Y A B} (h : A -> B) (F : X -> Y -> A) (ks : list Y) (l : list X) :
  map h (flat_map (fun e => map (F e) ks) l) = flat_map (fun e => map (fun k => h (F e k)) ks) l.
Proof.
  induction l as [|e l IH]; [reflexivity|]. cbn [flat_map]. rewrite map_app, IH, map_map. reflexivity.
Qed.

Lemma flat_map_length_const {X A} (f : X -> list A) m (l : list X) :
  (forall e, In e l -> length (f e) = m) -> length (flat_map f l) = (length l * m)%nat.
Proof.
  induction l as [|e l IH]; intros H; [reflexivity|]. cbn [flat_map length]. rewrite app_length, IH, H.
  - reflexivity.
  - left; reflexivity.
  - intros; apply H; right; assumption.
Qed.

Lemma flat_map_single {X A} (Q : X -> A) (l : list X) : flat_map (fun e => [Q e]) l = map Q l.
Proof. induction l as [|e l IH]; [reflexivity|]. cbn. rewrite IH. reflexivity. Qed.

(* ---- lane-wise operations on T1 -------------------------------------------------------------------------- *)
Section Lanes.
  Context {X : Type}.
  Variable l : list X.

  Lemma map_cells_T1 f (F G : X -> cell) :
    (forall e, In e l -> f (F e) = Some (G e)) -> map_cells f (T1 l F) = Some (T1 l G).
  Proof.
    intros H. unfold map_cells, T1. cbn [sh6 dt6]. rewrite map_map.
    rewrite (sequence_map_ext (fun e => f (F e)) G l H). reflexivity.
  Qed.

  Lemma bc2_T1 f (F G H : X -> cell) :
    (forall e, In e l -> f (F e) (G e) = Some (H e)) -> bc2 f (T1 l F) (T1 l G) = Some (T1 l H).
  Proof.
    intros Hf. unfold bc2, T1. cbn [sh6 dt6]. rewrite shape_eqb_refl. unfold zipc.
    rewrite combine_map_map, map_map. cbn [fst snd].
    rewrite (sequence_map_ext (fun e => f (F e) (G e)) H l Hf). reflexivity.
  Qed.

  Lemma masked_fill_T1 v (F : X -> cell) (m : X -> bool) :
    masked_fill (T1 l F) (T1 l (fun e => CB (m e))) v = Some (T1 l (fun e => if m e then v else F e)).
  Proof.
    unfold masked_fill, T1. cbn [sh6 dt6]. rewrite shape_eqb_refl. unfold zipc.
    rewrite combine_map_map, map_map. cbn [fst snd fillc]. rewrite sequence_map_some. reflexivity.
  Qed.

  Lemma twhere_T1 (c : X -> bool) (A B : X -> cell) :
    twhere (T1 l (fun e => CB (c e))) (T1 l A) (T1 l B) = Some (T1 l (fun e => if c e then A e else B e)).
  Proof.
    unfold twhere, T1. cbn [sh6 dt6]. rewrite shape_eqb_refl. cbn [andb].
    rewrite combine_map_map, combine_map_map, map_map. cbn [fst snd].
    rewrite (sequence_map_ext _ (fun e => if c e then A e else B e)); [reflexivity|].
    intros e _. destruct (c e); reflexivity.
  Qed.

  Lemma unsqueeze_T1 (F : X -> cell) : unsqueeze (T1 l F) 1 = Some (TC l F).
  Proof. reflexivity. Qed.

  Lemma index1_T1 (xs : list cell) (F G : X -> cell) :
    (forall e, In e l -> pick xs (F e) = Some (G e)) ->
    index1 (T6 [length xs] xs) (T1 l F) = Some (T1 l G).
  Proof.
    intros H. unfold index1, T1. cbn [sh6 dt6]. rewrite map_map.
    rewrite (sequence_map_ext (fun e => pick xs (F e)) G l H). reflexivity.
  Qed.

  Lemma zeros_like_T1 (F : X -> cell) : zeros_like (T1 l F) = T1 l (fun e => zero_of (F e)).
  Proof. unfold zeros_like, T1. cbn [sh6 dt6]. rewrite map_map. reflexivity. Qed.
End Lanes.

(* ---- T2 ------------------------------------------------------------------------------------------------------ *)
Section Lanes2.
  Context {X Y : Type}.
  Variable l : list X.
  Variable ks : list Y.

  Lemma T2_data_length (F : X -> Y -> cell) :
    length (flat_map (fun e => map (F e) ks) l) = (length l * length ks)%nat.
  Proof. apply flat_map_length_const. intros. apply map_length. Qed.

  Lemma map_cells_T2 f (F G : X -> Y -> cell) :
    (forall e k, In e l -> In k ks -> f (F e k) = Some (G e k)) -> map_cells f (T2 l ks F) = Some (T2 l ks G).
  Proof.
    intros H. unfold map_cells, T2. cbn [sh6 dt6]. rewrite map_flat_map.
    rewrite (sequence_flat_map _ (fun e => map (G e) ks)); [reflexivity|].
    intros e He. apply (sequence_map_ext (fun k => f (F e k)) (G e)). intros k Hk. apply H; assumption.
  Qed.

  Lemma bc2_T2 f (F G H : X -> Y -> cell) :
    (forall e k, In e l -> In k ks -> f (F e k) (G e k) = Some (H e k)) ->
    bc2 f (T2 l ks F) (T2 l ks G) = Some (T2 l ks H).
  Proof.
    intros Hf. unfold bc2, T2. cbn [sh6 dt6]. rewrite shape_eqb_refl. unfold zipc.
    rewrite combine_flat_map, map_flat_map. cbn [fst snd].
    rewrite (sequence_flat_map _ (fun e => map (H e) ks)); [reflexivity|].
    intros e He. apply (sequence_map_ext (fun k => f (F e k) (G e k)) (H e)). intros k Hk. apply Hf; assumption.
  Qed.

  (* (n, 1) with (m,) *)
  Lemma bc2_outer f (F : X -> cell) (G : Y -> cell) (H : X -> Y -> cell) :
    (forall e k, In e l -> In k ks -> f (F e) (G k) = Some (H e k)) ->
    bc2 f (TC l F) (T1 ks G) = Some (T2 l ks H).
  Proof.
    intros Hf. unfold bc2, TC, T1, T2. cbn [sh6 dt6 shape_eqb]. rewrite andb_false_r.
    unfold outer. rewrite flat_map_concat_map, map_map, <- flat_map_concat_map.
    rewrite (sequence_flat_map _ (fun e => map (H e) ks)); [reflexivity|].
    intros e He. rewrite map_map. apply (sequence_map_ext (fun k => f (F e) (G k)) (H e)).
    intros k Hk. apply Hf; assumption.
  Qed.

  Lemma rowwise_tab f (F : X -> cell) (G : X -> Y -> cell) :
    rowwise f (map F l) (length ks) (flat_map (fun e => map (G e) ks) l)
    = flat_map (fun e => map (fun k => f (F e) (G e k)) ks) l.
  Proof.
    induction l as [|e l' IH]; [reflexivity|]. cbn [map rowwise flat_map].
    rewrite firstn_app, firstn_all2 by (rewrite map_length; lia).
    rewrite map_length, Nat.sub_diag, firstn_O, app_nil_r.
    rewrite skipn_app, skipn_all2 by (rewrite map_length; lia).
    rewrite map_length, Nat.sub_diag, skipn_O. cbn [app]. rewrite IH, map_map. reflexivity.
  Qed.

  (* (n, 1) with (n, m) *)
  Lemma bc2_rowwise f (F : X -> cell) (G H : X -> Y -> cell) :
    (forall e k, In e l -> In k ks -> f (F e) (G e k) = Some (H e k)) ->
    bc2 f (TC l F) (T2 l ks G) = Some (T2 l ks H).
  Proof.
    intros Hf. unfold bc2, TC, T2. cbn [sh6 dt6].
    assert (Hres : sequence (flat_map (fun e => map (fun k => f (F e) (G e k)) ks) l)
                   = Some (flat_map (fun e => map (H e) ks) l)).
    { apply sequence_flat_map. intros e He.
      apply (sequence_map_ext (fun k => f (F e) (G e k)) (H e)). intros k Hk. apply Hf; assumption. }
    destruct (shape_eqb [length l; 1%nat] [length l; length ks]) eqn:Es.
    - (* one column: the shapes coincide *)
      cbn [shape_eqb] in Es. rewrite Nat.eqb_refl in Es. cbn [andb] in Es. rewrite andb_true_r in Es.
      apply Nat.eqb_eq in Es. unfold zipc.
      destruct ks as [|k0 [|k1 r]]; try discriminate Es.
      cbn [map] in *. clear Es.
      rewrite flat_map_single, combine_map_map, map_map. cbn [fst snd]. rewrite flat_map_single in Hres.
      rewrite flat_map_single. rewrite Hres. reflexivity.
    - rewrite Nat.eqb_refl. rewrite rowwise_tab, Hres. reflexivity.
  Qed.

  Lemma masked_fill_T2 v (F : X -> Y -> cell) (m : X -> Y -> bool) :
    masked_fill (T2 l ks F) (T2 l ks (fun e k => CB (m e k))) v
    = Some (T2 l ks (fun e k => if m e k then v else F e k)).
  Proof.
    unfold masked_fill, T2. cbn [sh6 dt6]. rewrite shape_eqb_refl. unfold zipc.
    rewrite combine_flat_map, map_flat_map. cbn [fst snd fillc].
    rewrite (sequence_flat_map _ (fun e => map (fun k => if m e k then v else F e k) ks)); [reflexivity|].
    intros e He. apply sequence_map_some.
  Qed.

  Lemma index1_T2 (xs : list cell) (F G : X -> Y -> cell) :
    (forall e k, In e l -> In k ks -> pick xs (F e k) = Some (G e k)) ->
    index1 (T6 [length xs] xs) (T2 l ks F) = Some (T2 l ks G).
  Proof.
    intros H. unfold index1, T2. cbn [sh6 dt6]. rewrite map_flat_map.
    rewrite (sequence_flat_map _ (fun e => map (G e) ks)); [reflexivity|].
    intros e He. apply (sequence_map_ext (fun k => pick xs (F e k)) (G e)). intros k Hk. apply H; assumption.
  Qed.

  Lemma rows_red_tab {A} (g : list cell -> A) (F : X -> Y -> cell) :
    rows_red g (length ks) (length l) (flat_map (fun e => map (F e) ks) l) = map (fun e => g (map (F e) ks)) l.
  Proof.
    induction l as [|e l' IH]; [reflexivity|]. cbn [length rows_red flat_map map].
    rewrite firstn_app, firstn_all2 by (rewrite map_length; lia).
    rewrite map_length, Nat.sub_diag, firstn_O, app_nil_r.
    rewrite skipn_app, skipn_all2 by (rewrite map_length; lia).
    rewrite map_length, Nat.sub_diag, skipn_O. cbn [app]. rewrite IH. reflexivity.
  Qed.

  Lemma any1_T2 (m : X -> Y -> bool) :
    any1 (T2 l ks (fun e k => CB (m e k))) 1 = Some (T1 l (fun e => CB (existsb (m e) ks))).
  Proof.
    unfold any1, T2, T1. cbn [sh6 dt6]. cbn [Z.eqb orb Pos.eqb].
    rewrite rows_red_tab.
    rewrite (sequence_map_ext _ (fun e => CB (existsb (m e) ks))); [reflexivity|].
    intros e _. unfold any_row. rewrite map_map. cbn [bool_of]. rewrite sequence_map_some. cbn [option_map].
    f_equal. f_equal. induction ks as [|k r IH]; [reflexivity|]. cbn. rewrite IH. reflexivity.
  Qed.

  Lemma sum1_T2 (z : X -> Y -> Z) :
    sum1 (T2 l ks (fun e k => CI (z e k))) 1 = Some (T1 l (fun e => CI (fold_right Z.add 0%Z (map (z e) ks)))).
  Proof.
    unfold sum1, T2, T1. cbn [sh6 dt6]. cbn [Z.eqb orb Pos.eqb].
    rewrite rows_red_tab.
    rewrite (sequence_map_ext _ (fun e => CI (fold_right Z.add 0%Z (map (z e) ks)))); [reflexivity|].
    intros e _. unfold sum_row. rewrite map_map. cbn [int_of]. rewrite sequence_map_some. reflexivity.
  Qed.
End Lanes2.

(* ---- cutting and gluing --------------------------------------------------------------------------------------- *)
Lemma cat0_T1 {X} (l1 l2 : list X) (F : X -> cell) : cat0 [T1 l1 F; T1 l2 F] = Some (T1 (l1 ++ l2) F).
Proof.
  unfold cat0, T1. cbn [sh6 dt6 cat_rows shape_eqb option_map fst snd].
  rewrite app_nil_r, Nat.add_0_r, map_app, app_length. reflexivity.
Qed.

Lemma slice0_T1_front {X} (l1 l2 : list X) (F : X -> cell) (m : Z) : m = Z.of_nat (length l1) ->
  slice0 (T1 (l1 ++ l2) F) None (Some m) = Some (T1 l1 F).
Proof.
  intros ->. unfold slice0, T1. cbn [sh6 dt6 prodn fold_right clip].
  rewrite app_length.
  replace (Z.of_nat (length l1) <? 0)%Z with false by lia.
  rewrite Z.min_r by lia. rewrite Z.max_r by lia. rewrite Z.sub_0_r, Nat2Z.id, Nat.mul_1_r.
  cbn [Z.to_nat Nat.mul skipn]. rewrite map_app, firstn_app, firstn_all2 by (rewrite map_length; lia).
  rewrite map_length, Nat.sub_diag, firstn_O, app_nil_r. reflexivity.
Qed.

Lemma slice0_T1_back {X} (l1 l2 : list X) (F : X -> cell) (m : Z) : m = Z.of_nat (length l1) ->
  slice0 (T1 (l1 ++ l2) F) (Some m) None = Some (T1 l2 F).
Proof.
  intros ->. unfold slice0, T1. cbn [sh6 dt6 prodn fold_right clip].
  rewrite app_length.
  replace (Z.of_nat (length l1) <? 0)%Z with false by lia.
  rewrite Z.min_r by lia. rewrite Z.max_r by lia.
  replace (Z.to_nat (Z.of_nat (length l1 + length l2) - Z.of_nat (length l1))) with (length l2) by lia.
  rewrite Nat2Z.id, !Nat.mul_1_r. rewrite map_app, skipn_app, skipn_all2 by (rewrite map_length; lia).
  rewrite map_length, Nat.sub_diag, skipn_O. cbn [app]. rewrite firstn_all2 by (rewrite map_length; lia). reflexivity.
Qed.

Lemma pick_in (xs : list cell) (i : Z) : (0 <= i < Z.of_nat (length xs))%Z ->
  pick xs (CI i) = Some (nth (Z.to_nat i) xs (CI 0)).
Proof.
  intros H. unfold pick. replace ((0 <=? i)%Z && (i <? Z.of_nat (length xs))%Z) with true by lia.
  apply nth_error_nth'. lia.
Qed.

(* ---- change of index list, extensionality ---------------------------------------------------------------------- *)
Lemma T1_ext {X} (l : list X) (F G : X -> cell) : (forall e, In e l -> F e = G e) -> T1 l F = T1 l G.
Proof. intros H. unfold T1. f_equal. apply map_ext_in. exact H. Qed.

Lemma T2_ext {X Y} (l : list X) (ks : list Y) (F G : X -> Y -> cell) :
  (forall e k, In e l -> In k ks -> F e k = G e k) -> T2 l ks F = T2 l ks G.
Proof.
  intros H. unfold T2. f_equal. induction l as [|e l IH]; [reflexivity|]. cbn [flat_map]. f_equal.
  - apply map_ext_in. intros k Hk. apply H; [left; reflexivity|assumption].
  - apply IH. intros. apply H; [right|]; assumption.
Qed.

Lemma T1_map {X W} (g : W -> X) (l : list W) (F : X -> cell) : T1 (map g l) F = T1 l (fun w => F (g w)).
Proof. unfold T1. rewrite map_length, map_map. reflexivity. Qed.

Lemma as_int_like_T1 {X} (l : list X) (z : X -> Z) :
  map_cells (fun x => match x with CI z => Some (CI z) | _ => None end) (T1 l (fun e => CI (z e))) = Some (T1 l (fun e => CI (z e))).
Proof. apply map_cells_T1. reflexivity. Qed.

(* ---- rows of a 2-D tensor ------------------------------------------------------------------------------------------ *)
Lemma firstn_skipn_flat_map {X A} (f : X -> list A) (m : nat) (d : X) :
  forall (l : list X) (j : nat), (forall e, In e l -> length (f e) = m) -> (j < length l)%nat ->
  firstn m (skipn (j * m) (flat_map f l)) = f (nth j l d).
Proof.
  induction l as [|e l IH]; intros j Hm Hj; [cbn in Hj; lia|].
  cbn [flat_map]. destruct j as [|j].
  - cbn [Nat.mul skipn nth]. rewrite firstn_app, firstn_all2 by (rewrite Hm; [lia|left; reflexivity]).
    rewrite Hm by (left; reflexivity). rewrite Nat.sub_diag, firstn_O, app_nil_r. reflexivity.
  - cbn [nth]. replace (S j * m)%nat with (m + j * m)%nat by lia.
    rewrite skipn_app, skipn_all2 by (rewrite Hm; [lia|left; reflexivity]).
    rewrite Hm by (left; reflexivity). cbn [app].
    replace (m + j * m - m)%nat with (j * m)%nat by lia.
    apply IH; [intros; apply Hm; right; assumption|cbn in Hj; lia].
Qed.

(* x[i] on a tabulated 2-D tensor: row (i mod rows) *)
Lemma select0_T2 {X Y} (l : list X) (ks : list Y) (F : X -> Y -> cell) (i : Z) (d : X) :
  let j := if (i <? 0)%Z then (i + Z.of_nat (length l))%Z else i in
  (0 <= j < Z.of_nat (length l))%Z ->
  select0 (T2 l ks F) i = Some (T1 ks (F (nth (Z.to_nat j) l d))).
Proof.
  intros j Hj. unfold select0, T2, T1. cbn [sh6 dt6]. fold j.
  replace ((0 <=? j)%Z && (j <? Z.of_nat (length l))%Z) with true by lia.
  cbn [prodn fold_right]. rewrite Nat.mul_1_r.
  rewrite (firstn_skipn_flat_map (fun e => map (F e) ks) (length ks) d) by (try (intros; apply map_length); lia).
  reflexivity.
Qed.

(* ---- the lanes of the batch: (batch element, Some candidate token) for the n path, (batch element, None) for the
   p path -------------------------------------------------------------------------------------------------------- *)
Definition lane : Type := (nat * option nat)%type.
Definition nl (B Vn : nat) : list lane := flat_map (fun bi => map (fun v => (bi, Some v)) (seq 0 Vn)) (seq 0 B).
Definition pl (B : nat) : list lane := map (fun bi => (bi, None)) (seq 0 B).
Definition vof (e : lane) : nat := match snd e with Some v => v | None => O end.

Lemma nl_length B Vn : length (nl B Vn) = (B * Vn)%nat.
Proof.
  unfold nl. rewrite (flat_map_length_const _ Vn), seq_length; [reflexivity|].
  intros. rewrite map_length, seq_length. reflexivity.
Qed.

Lemma pl_length B : length (pl B) = B.
Proof. unfold pl. rewrite map_length, seq_length. reflexivity. Qed.

Lemma nl_in B Vn e : In e (nl B Vn) -> exists bi v, e = (bi, Some v) /\ (bi < B)%nat /\ (v < Vn)%nat.
Proof.
  unfold nl. rewrite in_flat_map. intros (bi & Hbi & He). apply in_map_iff in He as (v & <- & Hv).
  apply in_seq in Hbi, Hv. exists bi, v. repeat split; lia.
Qed.

Lemma pl_in B e : In e (pl B) -> exists bi, e = (bi, None) /\ (bi < B)%nat.
Proof.
  unfold pl. rewrite in_map_iff. intros (bi & <- & Hbi). apply in_seq in Hbi. exists bi. split; [reflexivity|lia].
Qed.

Lemma T1_pl B (F : lane -> cell) : T1 (pl B) F = T1 (seq 0 B) (fun bi => F (bi, None)).
Proof. unfold pl. apply T1_map. Qed.

Lemma repeat_as_map {A} (x : A) n : repeat x n = map (fun _ => x) (seq 0 n).
Proof.
  generalize 0%nat. induction n as [|n IH]; intros s; [reflexivity|]. cbn. rewrite (IH (S s)). reflexivity.
Qed.

(* x.repeat_interleave(V) of a per-batch-element vector: one copy per n lane *)
Lemma repeat_interleave_nl B Vn (G : nat -> cell) (V : Z) : V = Z.of_nat Vn ->
  repeat_interleave (T1 (seq 0 B) G) V = Some (T1 (nl B Vn) (fun e => G (fst e))).
Proof.
  intros ->. unfold repeat_interleave, T1. cbn [sh6 dt6]. replace (0 <=? Z.of_nat Vn)%Z with true by lia.
  rewrite Nat2Z.id, seq_length, nl_length. f_equal. f_equal.
  unfold nl. rewrite !flat_map_concat_map. rewrite concat_map, !map_map. f_equal. apply map_ext. intros bi.
  rewrite map_map. cbn [fst]. apply repeat_as_map.
Qed.

(* x.repeat(B) of a per-token vector *)
Lemma repeat1_nl B Vn (G : nat -> cell) :
  repeat1 (T1 (seq 0 Vn) G) (Z.of_nat B) = Some (T1 (nl B Vn) (fun e => G (vof e))).
Proof.
  unfold repeat1, T1. cbn [sh6 dt6]. replace (0 <=? Z.of_nat B)%Z with true by lia.
  rewrite Nat2Z.id, seq_length, nl_length. f_equal. f_equal.
  unfold nl. rewrite !flat_map_concat_map. rewrite concat_map, !map_map. f_equal. rewrite repeat_as_map.
  apply map_ext. intros bi. rewrite map_map. reflexivity.
Qed.
