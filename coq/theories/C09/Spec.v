(* C09 — declarative reading of the property: what ONE sequence, taken alone, becomes.
   Nothing here knows about batches, masks or flat buffers.  The boolean checkers at the end
   judge an *implementation output* against this reading (used by the harness when the
   implementation and the model disagree). *)
From Coq Require Import List Arith Bool ZArith QArith Qround.
From PV Require Import C09.Model.   (* only for the datatypes [mode], [zcell] and the eqb helpers *)
Import ListNotations.
Local Close Scope Q_scope.
Local Open Scope nat_scope.

Section Spec.
  Context {A : Type}.

  (* the standard constant / reflect / replicate rule of torch.nn.functional.pad on one
     sequence [s], [l] cells on the left and [r] on the right *)
  Definition pad1 (md : mode) (v : A) (l r : nat) (s : list A) : list A :=
    match md with
    | Constant => repeat v l ++ s ++ repeat v r
    | Reflect => rev (firstn l (skipn 1 s)) ++ s ++ firstn r (skipn 1 (rev s))
    | Replicate => repeat (hd v s) l ++ s ++ repeat (last s v) r
    | OtherMode => s
    end.

  (* pad amounts legal for the mode *)
  Definition legalb (md : mode) (l r len : nat) : bool :=
    match md with
    | Constant => true
    | Reflect => (l <? len) && (r <? len)
    | Replicate => 1 <=? len
    | OtherMode => false
    end.

  (* slice [start, end) of the sequence, in the sequence's own coordinates: negative indices
     and indices >= length fall into padding; an empty or inverted slice is empty *)
  Definition chunk_l (start end_ : Z) : nat :=
    if (end_ <=? start)%Z then 0 else Z.to_nat (- start).
  Definition chunk_r (len : nat) (start end_ : Z) : nat :=
    if (end_ <=? start)%Z then 0 else Z.to_nat (end_ - Z.of_nat len).
  Definition chunk1 (md : mode) (v : A) (s : list A) (start end_ : Z) : list A :=
    if (end_ <=? start)%Z then []
    else
      let l := Z.to_nat (- start) in
      let r := Z.to_nat (end_ - Z.of_nat (length s)) in
      firstn (Z.to_nat (end_ - start))
             (skipn (Z.to_nat (start + Z.of_nat l)) (pad1 md v l r s)).
  Definition chunk_len1 (start end_ : Z) : nat := Z.to_nat (end_ - start).

  (* compaction by a boolean mask: selected cells in order, then the padding value *)
  Fixpoint select1 (s : list A) (m : list bool) : list A :=
    match s, m with
    | a :: s', b :: m' => if b then a :: select1 s' m' else select1 s' m'
    | _, _ => []
    end.
  Definition compact1 (v : A) (s : list A) (m : list bool) : list A * nat :=
    let sel := select1 s m in (sel ++ repeat v (length s - length sel), length sel).
End Spec.

(* ---- boolean checkers on implementation outputs (cells = list Z) ------------------------ *)
Definition seq_eqb := list_eqb cell_eqb.

Definition forall_idx (n : nat) (f : nat -> bool) : bool := forallb f (seq 0 n).

(* pad_variable: if every row is legal (and the batch is non-empty) the call must succeed and
   row n must start with pad1 of sequence n; if some row is illegal the call must raise *)
Definition spec_pad_okb (F : nat) (v : Z) (md : mode) (x : list (list zcell)) (lens pl pr : list nat)
           (impl : option (list (list zcell))) : bool :=
  let N := length x in
  let legal := forall_idx N (fun n => legalb md (nth n pl 0) (nth n pr 0) (nth n lens 0)) in
  if N =? 0 then true
  else if legal then
    match impl with
    | None => false
    | Some out =>
        (length out =? N) &&
        forall_idx N (fun n =>
          let want := pad1 md (fillc F v) (nth n pl 0) (nth n pr 0) (firstn (nth n lens 0) (nth n x [])) in
          seq_eqb (firstn (length want) (nth n out [])) want)
    end
  else match impl with None => true | Some _ => false end.

Definition spec_chunk_okb (T F : nat) (v : Z) (md : mode) (x : list (list zcell))
           (slices : list (Z * Z)) (lens : option (list nat))
           (impl : option (list (list zcell) * list nat)) : bool :=
  let N := length x in
  let len n := match lens with Some l => nth n l 0 | None => T end in
  let st n := fst (nth n slices (0, 0)%Z) in
  let en n := snd (nth n slices (0, 0)%Z) in
  let legal := forall_idx N (fun n => legalb md (chunk_l (st n) (en n)) (chunk_r (len n) (st n) (en n)) (len n)) in
  if N =? 0 then true
  else if legal then
    match impl with
    | None => false
    | Some (out, olens) =>
        (length out =? N) && (length olens =? N) &&
        forall_idx N (fun n =>
          let want := chunk1 md (fillc F v) (firstn (len n) (nth n x [])) (st n) (en n) in
          (nth n olens 0 =? chunk_len1 (st n) (en n)) &&
          (length want =? chunk_len1 (st n) (en n)) &&
          seq_eqb (firstn (nth n olens 0) (nth n out [])) want)
    end
  else match impl with None => true | Some _ => false end.

(* pad_masked_sequence, judged in batch-first normal form (the harness transposes the
   implementation's input and output when batch_first is false) *)
Definition spec_masked_okb (F : nat) (v : Z) (x : list (list zcell)) (mask : list (list bool))
           (impl : option (list (list zcell) * list nat)) : bool :=
  match impl with
  | None => false
  | Some (out, olens) =>
      (length out =? length x) && (length olens =? length x) &&
      forall_idx (length x) (fun n =>
        let want := compact1 (fillc F v) (nth n x []) (nth n mask []) in
        seq_eqb (nth n out []) (fst want) && (nth n olens 0 =? snd want))
  end.

(* random shift: training: some whole l <= p0*len, r <= p1*len with out_len = len + l + r and the
   original sequence at offset l; evaluation: output = input *)
Definition within (p : Q) (len k : nat) : bool :=
  Qle_bool (inject_Z (Z.of_nat k)) (p * inject_Z (Z.of_nat len)).

Definition spec_shift_okb (md : mode) (p0 p1 : Q) (training : bool) (x : list (list zcell))
           (lens : list nat) (impl : option (list (list zcell) * list nat)) : bool :=
  let N := length x in
  match impl with
  | None =>
      (* raising is legal only when some row is illegal for the mode whatever the draw *)
      training && negb (forall_idx N (fun n => legalb md 0 0 (nth n lens 0)))
  | Some (out, olens) =>
      if training then
        (length out =? N) && (length olens =? N) &&
        forall_idx N (fun n =>
          let len := nth n lens 0 in
          let tot := nth n olens 0 in
          existsb (fun l =>
            let r := tot - len - l in
            (len + l <=? tot) && within p0 len l && within p1 len r &&
            seq_eqb (firstn len (skipn l (nth n out []))) (firstn len (nth n x []))
            && (len + l + r <=? length (nth n out [])))
            (seq 0 (S (tot - len))))
      else tensor_eqb out x && list_eqb Nat.eqb olens lens
  end.
