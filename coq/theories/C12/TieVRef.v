(* C12 — tie (part 3c) of the blocks of `_info_and_validate`: the reference block.  See TieVTac.v for the method. *)
From Coq Require Import ZArith QArith List String Bool Arith Lia ZifyBool.
From PV Require Import MiniPy.Syntax MiniPy.Interp MiniPy.Lemmas MiniTorch.OpsC12 MiniTorch.LemmasC12 MiniTorch.LemmasC12V Gen.C12ValSrc.
From PV Require Import C12.SrcRun C12.SrcRunV C12.TieLib C12.TieLibV C12.TieVTac.
From PV Require C12.Model.
Import ListNotations.
Local Open Scope string_scope.

#[local] Arguments enc12 : simpl never.
#[local] Arguments dec12 !v /.
#[local] Arguments T1 : simpl never.
#[local] Arguments T2 : simpl never.
#[local] Arguments NZ : simpl never.
#[local] Arguments new_full : simpl never.
#[local] Arguments cat : simpl never.
#[local] Arguments ndim : simpl never.
#[local] Arguments size : simpl never.
#[local] Arguments numel : simpl never.
#[local] Arguments select_col : simpl never.
#[local] Arguments set_item : simpl never.
#[local] Arguments get_item : simpl never.
#[local] Arguments item : simpl never.
#[local] Arguments unsqueeze : simpl never.
#[local] Arguments slice0 : simpl never.
#[local] Arguments nonzero : simpl never.
#[local] Arguments eq_scalar : simpl never.
#[local] Arguments cpu : simpl never.
#[local] Arguments long : simpl never.
#[local] Arguments then_ ext b !c st /.
#[local] Arguments exec : simpl never.
#[local] Arguments for_loop : simpl never.
#[local] Arguments q_cmp : simpl never.
#[local] Arguments fill_slice : simpl never.
#[local] Arguments set_row : simpl never.
#[local] Arguments rows_of : simpl never.
#[local] Arguments tolist2 : simpl never.
#[local] Arguments full_long : simpl never.
#[local] Arguments row3 : simpl never.
#[local] Arguments inject_Z : simpl never.
#[local] Arguments firstn : simpl never.
#[local] Arguments skipn : simpl never.
#[local] Arguments cmp_eval op !a !b /.
#[local] Arguments Z.of_nat : simpl never.
#[local] Arguments torch_module : simpl never.
#[local] Arguments store : simpl never.
#[local] Arguments set_var x v !st /.
#[local] Arguments ext12 env f !args kw st /.
#[local] Arguments bind {A B} !o f /.
#[local] Arguments Z.add : simpl never.
#[local] Arguments Z.sub : simpl never.
#[local] Arguments ds_obj : simpl never.
#[local] Arguments isinstance12 : simpl never.
#[local] Arguments instance_of : simpl never.
#[local] Arguments feat_tens : simpl never.
#[local] Arguments ids_val : simpl never.
#[local] Arguments subscript !o !k st /.
#[local] Arguments utt_tuple : simpl never.
#[local] Arguments env_ds : simpl never.
#[local] Arguments class_token : simpl never.

(* ================================================ the reference block ================================================ *)
Definition ref_vbody : stmt := Eval cbv in if_then (seq_nth 3 iv_ref).
Definition ref_cuda : stmt := Eval cbv in seq_nth 0 ref_vbody.
Definition ref_long : stmt := Eval cbv in seq_nth 1 ref_vbody.
Definition ref_dispatch : stmt := Eval cbv in seq_nth 2 ref_vbody.
Definition ref_save : stmt := Eval cbv in seq_drop 3 ref_vbody.
Definition ref_2d_body : stmt := Eval cbv in if_then ref_dispatch.
Definition ref_for : stmt := Eval cbv in seq_drop 3 ref_2d_body.
Definition row_body : stmt := Eval cbv in for_body ref_for.
Definition ref_expand : stmt := Eval cbv in seq_nth 4 iv_ref.
Definition ref_tokloop : stmt := Eval cbv in seq_drop 5 iv_ref.
Definition tok_body : stmt := Eval cbv in for_body ref_tokloop.

Section Ref.
  Variables (c : Model.cfg) (d : Model.dir) (ids : list string) (fx : option Z).
  Variables (idx nf fdt feat ali prefix F Tp : val) (fnv : string) (T : nat).
  Local Notation ext := (ext12 (env_ds c d)).
  Definition stR (r2d dir_ prefix_ msg ref wb t1 idx2 r t2 tok start end_ : val) (evs : list event) : state :=
    mkState (mkvars ids fx idx nf r2d fdt (VStr fnv) t1 feat ali ref wb prefix dir_ prefix_ msg t2 (VInt (Z.of_nat T)) F Tp
                    idx2 r tok start end_) evs.

  Lemma ref_cuda_run : forall r2d dir_ prefix_ msg t (wb : bool) t1 idx2 r t2 tok start end_ evs,
    exists msg',
    exec ext ref_cuda (stR r2d dir_ prefix_ msg (enc12 t) (VBool wb) t1 idx2 r t2 tok start end_ evs)
    = if (t_cuda t && negb (Model.is_some fx))%bool
      then Exc "ValueError" (stR r2d dir_ prefix_ msg' (enc12 t) (VBool wb) t1 idx2 r t2 tok start end_ evs)
      else Ok CNormal (stR r2d dir_ prefix_ msg' (enc12 (cpu t)) (VBool (wb || t_cuda t)) t1 idx2 r t2 tok start end_ evs).
  Proof.
    intros. unfold ref_cuda, stR, mkvars.
    destruct t as [cu dt sh da]; cbn [t_cuda]. destruct cu; cbn [andb orb negb]; eexists.
    - run. destruct fx as [k|]; run.
      + rewrite orb_true_r. reflexivity.
      + reflexivity.
    - run. rewrite orb_false_r. reflexivity.
  Qed.

  Lemma ref_long_run : forall r2d dir_ prefix_ msg t (wb : bool) t1 idx2 r t2 tok start end_ evs,
    exists msg',
    exec ext ref_long (stR r2d dir_ prefix_ msg (enc12 t) (VBool wb) t1 idx2 r t2 tok start end_ evs)
    = if (negb (is_long t) && negb (Model.is_some fx && is_small t))%bool
      then Exc "ValueError" (stR r2d dir_ prefix_ msg' (enc12 t) (VBool wb) t1 idx2 r t2 tok start end_ evs)
      else Ok CNormal (stR r2d dir_ prefix_ msg' (enc12 (long t)) (VBool (wb || negb (is_long t))) t1 idx2 r t2 tok start end_ evs).
  Proof.
    intros. unfold ref_long, stR, mkvars.
    destruct (is_long t) eqn:EL; cbn [negb andb orb]; eexists.
    - unfold is_long in EL. run. rewrite orb_false_r, (long_id t (EL : is_long t = true)). reflexivity.
    - unfold is_long in EL. run. unfold is_small. destruct fx as [k|]; run.
      + destruct (negb (t_cuda t) && Model.upcastable (t_dtype t))%bool eqn:ES; cbn [negb andb Model.is_some]; run.
        * rewrite orb_true_r. reflexivity.
        * reflexivity.
      + reflexivity.
  Qed.

  (* -- one iteration of `for idx2, r in enumerate(ref):` (with the write-back `ref[idx2] = r` the translator adds) -- *)
  Lemma row_body_run : forall r2d dir_ prefix_ msg rows (wb : bool) i idx2 r t2 tok start end_ evs a b cc,
    Forall (fun x => List.length x = 3%nat) rows -> (i < List.length rows)%nat ->
    let st := stR r2d dir_ prefix_ msg (enc12 (T2 false Model.DI64 3 rows)) (VBool wb)
                  (VTuple [VInt (Z.of_nat i); enc12 (T1 false Model.DI64 [a; b; cc])]) idx2 r t2 tok start end_ evs in
    match Model.row_part fx (Z.of_nat T) (a, b, cc) with
    | inl _ => exists st', exec ext row_body st = Exc "ValueError" st' /\ events st' = evs
    | inr (r', w1) =>
        exists msg', exec ext row_body st
        = Ok CNormal (stR r2d dir_ prefix_ msg' (enc12 (T2 false Model.DI64 3 (set_nth rows i (row3 r')))) (VBool (wb || w1))
                          (VTuple [VInt (Z.of_nat i); enc12 (T1 false Model.DI64 [a; b; cc])]) (VInt (Z.of_nat i))
                          (enc12 (T1 false Model.DI64 (row3 r'))) t2 tok start end_ evs)
    end.
  Proof.
    intros r2d dir_ prefix_ msg rows wb i idx2 r t2 tok start end_ evs a b cc HF Hi. cbv zeta.
    unfold Model.row_part, row_body, stR, mkvars.
    destruct (b <? 0)%Z eqn:E1; destruct (cc <? 0)%Z eqn:E2; cbn [andb orb].
    - (* both unknown *)
      eexists. run. rewrite orb_false_r. reflexivity.
    - (* start unknown, end known *)
      destruct fx as [k|]; cbn [Model.is_some].
      + eexists. run. rewrite orb_true_r. reflexivity.
      + eexists. split; [run; reflexivity|reflexivity].
    - (* end unknown, start known *)
      destruct fx as [k|]; cbn [Model.is_some].
      + eexists. run. rewrite orb_true_r. reflexivity.
      + eexists. split; [run; reflexivity|reflexivity].
    - (* both known *)
      destruct (cc <? b)%Z eqn:E3.
      + eexists. split; [run; reflexivity|reflexivity].
      + destruct (cc >? Z.of_nat T)%Z eqn:E4.
        * destruct fx as [k|].
          -- destruct (b <=? Z.of_nat T)%Z eqn:E5; [destruct (Z.of_nat T >=? cc - k)%Z eqn:E6|]; cbn [andb].
             ++ eexists. run. rewrite orb_true_r. reflexivity.
             ++ eexists. split; [run; reflexivity|reflexivity].
             ++ eexists. split; [run; reflexivity|reflexivity].
          -- eexists. split; [run; reflexivity|reflexivity].
        * eexists. run. rewrite orb_false_r. reflexivity.
  Qed.
End Ref.
