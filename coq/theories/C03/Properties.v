(* C03 — Optimal-completion targets are exactly the distance-preserving next tokens.
   Property theorems only: each is closed by [exact <lemma>] and followed by
   [Print Assumptions].  The harness re-checks this file on every run.

   Reading guide.  [cfg] (from C01) holds eos / include_eos / norm (unused) / batch_first / the
   three costs / padding (ignore_index for the loss) / exclude_last.  [seq_of bf n m] is
   sequence n of tensor m in the given layout, padding and post-eos garbage included;
   [denote eos incl] cuts it at the first eos (keeping that eos when counted and present).
   Spec: [reachable r p v] = some completion p ++ s is at edit distance v from r (minimum cost
   over edit scripts, C01); [best_reachable r p m] = m is the smallest such v; [preserving r p t]
   = p and p ++ [t] have the same best.  [entry3 bf k n out] is row (prefix length k, pair n)
   of the returned (H', N, C) tensor ((N, H', C) when batch_first); [oc_width] is C.
   Costs are positive where stated (the quantifier's cost triples; c03_positive_costs_needed
   shows the statement is false for a zero insertion cost). *)
From Coq Require Import List ZArith QArith Bool Arith Sorted.
From PV Require Import C01.Obs C01.Spec C01.Model C01.LevFacts C01.Proofs.
From PV Require Import C03.Spec C03.Model C03.ProofsSpec C03.ProofsMask C03.ProofsSelect
  C03.ProofsTop C03.ProofsMain C03.ProofsLoss C03.ProofsExamples.
Import ListNotations.
Local Open Scope Z_scope.

(* "the smallest edit distance any completion of it can still reach": it exists and is the
   minimum of the prefix's row of the distance table (non-negative costs) *)
Theorem c03_best_completion_is_row_min : forall ci cd cs, 0 <= ci -> 0 <= cd -> 0 <= cs ->
  forall r p, best_reachable ci cd cs r p (row_min ci cd cs r p).
Proof. exact best_reachable_row_min. Qed.
Print Assumptions c03_best_completion_is_row_min.

(* the diagonal argument of the OCD paper, for all positive cost triples: the tokens that can be
   appended without raising the best reachable distance are exactly the reference tokens that
   sit right after a minimum of the row *)
Theorem c03_preserving_iff_after_row_minimum : forall ci cd cs, 0 < ci -> 0 < cd -> 0 < cs ->
  forall r p t,
  preserving ci cd cs r p t <->
  exists i, (i < length r)%nat /\ nth i r 0 = t /\
            lev ci cd cs (firstn i r) p = row_min ci cd cs r p.
Proof. exact preserving_iff_argmin. Qed.
Print Assumptions c03_preserving_iff_after_row_minimum.

(* mechanism 1 (_string_matching, return_mask branch, one column): mask row k marks position i
   iff i is inside the reference, the prefix is still live, and i is a minimum of the table row
   of prefix k restricted to 0..ref_len ([tab k i] = lev (firstn i r) (firstn k h)) *)
Theorem c03_mask_marks_row_minima : forall ci cd cs r h rlen hlen excl,
  (rlen <= length r)%nat -> (hlen <= length h)%nat ->
  forall steps k i, 0 < cd -> (k <= steps)%nat -> (i < length r)%nat ->
  nth i (nth k (pair_masks ci cd cs r h rlen hlen excl steps) []) false = true <->
  (i < rlen)%nat /\ (k = 0%nat \/ not_done_at hlen excl k = true) /\
  (forall i', (i' <= rlen)%nat -> tab ci cd cs r h k i <= tab ci cd cs r h k i').
Proof. exact pair_masks_spec. Qed.
Print Assumptions c03_mask_marks_row_minima.

(* mechanism 2 (optimal_completion: duplicate propagation, sort, neighbour de-duplication,
   masked_select): for every multiset of reference tokens and every mask, the selected list is
   strictly increasing and holds exactly the tokens found at a marked position *)
Theorem c03_dedup_lists_marked_tokens_once : forall r m, length m = length r ->
  StronglySorted Z.lt (pair_targets r m) /\
  forall t, In t (pair_targets r m) <->
            exists i, (i < length r)%nat /\ nth i m false = true /\ nth i r 0 = t.
Proof. exact pair_targets_spec. Qed.
Print Assumptions c03_dedup_lists_marked_tokens_once.

(* mechanism 2, the scatter: if no cell selects more than C tokens the flat masked_scatter_ puts
   each cell's tokens at the start of its own row of padding *)
Theorem c03_scatter_is_rowwise_placement : forall pad C rows,
  (forall L, In L rows -> (length L <= C)%nat) ->
  masked_scatter (repeat pad (length rows * C))
    (concat (map (fun L => map (fun k => (k <? length L)%nat) (seq 0 C)) rows)) (concat rows)
  = concat (map (fun L => L ++ repeat pad (C - length L)) rows).
Proof. exact scatter_rows. Qed.
Print Assumptions c03_scatter_is_rowwise_placement.

(* THE PROPERTY, first sentence: for every batch, pair n and prefix length k of the (cut)
   hypothesis - k <= |hyp|, or k < |hyp| with exclude_last - the output row lists, strictly
   increasing hence once each, and followed only by padding, exactly the distance-preserving
   tokens.  (The case k = 0 is included unconditionally: it also describes what row 0 holds in
   the excluded case "empty hypothesis with exclude_last".) *)
Theorem c03_oc_row_correct : forall c N ref hyp n,
  (n < N)%nat -> wf_tensor (c_bf c) N ref -> wf_tensor (c_bf c) N hyp ->
  forall k, 0 < c_ins c -> 0 < c_del c -> 0 < c_sub c ->
  (k = 0 \/ k < length (denote (c_eos c) (c_incl c) (seq_of (c_bf c) n hyp))
                 + (if c_excl c then 0 else 1))%nat ->
  exists L,
    entry3 (c_bf c) k n (optimal_completion c N ref hyp)
      = L ++ repeat (c_pad c) (oc_width c N ref hyp - length L)
    /\ (length L <= oc_width c N ref hyp)%nat
    /\ StronglySorted Z.lt L
    /\ forall t, In t L <->
         preserving (c_ins c) (c_del c) (c_sub c)
           (denote (c_eos c) (c_incl c) (seq_of (c_bf c) n ref))
           (firstn k (denote (c_eos c) (c_incl c) (seq_of (c_bf c) n hyp))) t.
Proof. exact oc_row_correct. Qed.
Print Assumptions c03_oc_row_correct.

(* "once each and followed only by padding", for every row and every cost triple: a strictly
   increasing, duplicate-free list of counted reference tokens, then padding to the width *)
Theorem c03_oc_sorted_nodup_then_padding : forall c N ref hyp n,
  (n < N)%nat -> wf_tensor (c_bf c) N ref -> wf_tensor (c_bf c) N hyp ->
  forall k, (k < oc_rows c N hyp)%nat ->
  exists L,
    entry3 (c_bf c) k n (optimal_completion c N ref hyp)
      = L ++ repeat (c_pad c) (oc_width c N ref hyp - length L)
    /\ (length L <= oc_width c N ref hyp)%nat /\ StronglySorted Z.lt L /\ NoDup L
    /\ forall t, In t L -> In t (denote (c_eos c) (c_incl c) (seq_of (c_bf c) n ref)).
Proof. exact oc_sorted_nodup_then_padding. Qed.
Print Assumptions c03_oc_sorted_nodup_then_padding.

(* "Prefixes past the hypothesis's end yield only padding" (row 0 is past the end only in the
   excluded case) *)
Theorem c03_oc_past_end_is_padding : forall c N ref hyp n,
  (n < N)%nat -> wf_tensor (c_bf c) N ref -> wf_tensor (c_bf c) N hyp ->
  forall k, (1 <= k)%nat -> (k < oc_rows c N hyp)%nat ->
  (length (denote (c_eos c) (c_incl c) (seq_of (c_bf c) n hyp)) + (if c_excl c then 0 else 1) <= k)%nat ->
  entry3 (c_bf c) k n (optimal_completion c N ref hyp) = repeat (c_pad c) (oc_width c N ref hyp).
Proof. exact oc_past_end_is_padding. Qed.
Print Assumptions c03_oc_past_end_is_padding.

(* a pair's listed tokens depend only on its two sequences cut at eos - not on the batch, the
   position in it or the garbage after eos; only the amount of padding is batch-wide *)
Theorem c03_oc_row_pointwise : forall c N ref hyp n N' ref' hyp' n' k,
  0 < c_ins c -> 0 < c_del c -> 0 < c_sub c ->
  (n < N)%nat -> wf_tensor (c_bf c) N ref -> wf_tensor (c_bf c) N hyp ->
  (n' < N')%nat -> wf_tensor (c_bf c) N' ref' -> wf_tensor (c_bf c) N' hyp' ->
  denote (c_eos c) (c_incl c) (seq_of (c_bf c) n ref)
    = denote (c_eos c) (c_incl c) (seq_of (c_bf c) n' ref') ->
  denote (c_eos c) (c_incl c) (seq_of (c_bf c) n hyp)
    = denote (c_eos c) (c_incl c) (seq_of (c_bf c) n' hyp') ->
  (k = 0 \/ k < length (denote (c_eos c) (c_incl c) (seq_of (c_bf c) n hyp))
                 + (if c_excl c then 0 else 1))%nat ->
  exists L,
    entry3 (c_bf c) k n (optimal_completion c N ref hyp)
      = L ++ repeat (c_pad c) (oc_width c N ref hyp - length L) /\
    entry3 (c_bf c) k n' (optimal_completion c N' ref' hyp')
      = L ++ repeat (c_pad c) (oc_width c N' ref' hyp' - length L).
Proof. exact oc_row_pointwise. Qed.
Print Assumptions c03_oc_row_pointwise.

(* the boolean judgement the harness applies to implementation outputs decides the spec's
   [target_row] (any order, once each, then padding), and the model passes it on every row *)
Theorem c03_row_checker_decides_spec : forall ci cd cs, 0 < ci -> 0 < cd -> 0 < cs ->
  forall r p pad row,
  target_row_okb ci cd cs r p pad row = true <-> target_row ci cd cs r p pad row.
Proof. exact target_row_okb_iff. Qed.
Print Assumptions c03_row_checker_decides_spec.

Theorem c03_oc_row_meets_spec : forall c N ref hyp n,
  (n < N)%nat -> wf_tensor (c_bf c) N ref -> wf_tensor (c_bf c) N hyp ->
  forall k, 0 < c_ins c -> 0 < c_del c -> 0 < c_sub c -> (k < oc_rows c N hyp)%nat ->
  spec_row_okb (c_eos c) (c_incl c) (c_excl c) (c_ins c) (c_del c) (c_sub c) (c_pad c)
    (seq_of (c_bf c) n ref) (seq_of (c_bf c) n hyp) k
    (entry3 (c_bf c) k n (optimal_completion c N ref hyp)) = true.
Proof. exact oc_row_meets_spec. Qed.
Print Assumptions c03_oc_row_meets_spec.

(* mechanism 3: cross entropy with ignore_index summed over a row "targets then padding" and
   divided by the clamped number of non-padding entries is the mean of -log p (x weight) over
   the targets, and zero when there are none ([qmean f [] = 0]) *)
Theorem c03_step_loss_formula : forall ign w lp L n, ~ In ign L ->
  (step_loss ign w lp (L ++ repeat ign n) == qmean (nll w lp) L)%Q.
Proof. exact step_loss_formula. Qed.
Print Assumptions c03_step_loss_formula.

(* THE PROPERTY, last sentence, reduction 'none': at every prefix k < |hyp| of pair n the loss is
   the average negative log-probability over the set of distance-preserving tokens (listed once
   each), zero if the set is empty.  [c_pad c] is ignore_index; it must not be a counted
   reference token.  [logp] = log_softmax(logits) laid out like hyp *)
Theorem c03_hard_ocd_loss_formula : forall c w N ref hyp logp,
  (1 <= time_len (c_bf c) hyp)%nat -> (1 <= N)%nat ->
  wf_tensor (c_bf c) N ref -> wf_tensor (c_bf c) N hyp ->
  wf_logp (c_bf c) N (time_len (c_bf c) hyp) logp ->
  forall n, (n < N)%nat ->
  ~ In (c_pad c) (denote (c_eos c) (c_incl c) (seq_of (c_bf c) n ref)) ->
  forall k, 0 < c_ins c -> 0 < c_del c -> 0 < c_sub c ->
  (k < length (denote (c_eos c) (c_incl c) (seq_of (c_bf c) n hyp)))%nat ->
  exists L,
    NoDup L /\
    (forall t, In t L <->
       preserving (c_ins c) (c_del c) (c_sub c)
         (denote (c_eos c) (c_incl c) (seq_of (c_bf c) n ref))
         (firstn k (denote (c_eos c) (c_incl c) (seq_of (c_bf c) n hyp))) t) /\
    (entryQ (c_bf c) k n (loss_grid c w N ref hyp logp)
     == qmean (nll w (entryL (c_bf c) k n logp)) L)%Q.
Proof. exact loss_entry_formula. Qed.
Print Assumptions c03_hard_ocd_loss_formula.

(* ... and zero at steps past the end of the hypothesis *)
Theorem c03_hard_ocd_loss_past_end_zero : forall c w N ref hyp logp,
  (1 <= time_len (c_bf c) hyp)%nat -> (1 <= N)%nat ->
  wf_tensor (c_bf c) N ref -> wf_tensor (c_bf c) N hyp ->
  wf_logp (c_bf c) N (time_len (c_bf c) hyp) logp ->
  forall n, (n < N)%nat ->
  forall k, (1 <= k)%nat -> (k < time_len (c_bf c) hyp)%nat ->
  (length (denote (c_eos c) (c_incl c) (seq_of (c_bf c) n hyp)) <= k)%nat ->
  (entryQ (c_bf c) k n (loss_grid c w N ref hyp logp) == 0)%Q.
Proof. exact loss_entry_past_end. Qed.
Print Assumptions c03_hard_ocd_loss_past_end_zero.

(* "reduced as requested": 'none' returns the grid, 'sum' adds every entry, 'mean' divides each
   sequence's sum over time by its number of steps that have a target (at least 1) and averages
   over the batch - in both layouts *)
Theorem c03_hard_ocd_loss_none : forall c w N ref hyp logp,
  hard_ocd_loss c w RNone N ref hyp logp = LossGrid (loss_grid c w N ref hyp logp).
Proof. exact hard_ocd_loss_none. Qed.
Print Assumptions c03_hard_ocd_loss_none.

Theorem c03_hard_ocd_loss_sum : forall c w N ref hyp logp,
  hard_ocd_loss c w RSum N ref hyp logp
  = LossScalar (qsum (map qsum (loss_grid c w N ref hyp logp))).
Proof. exact loss_sum. Qed.
Print Assumptions c03_hard_ocd_loss_sum.

Theorem c03_hard_ocd_loss_mean : forall c w N ref hyp logp,
  (1 <= time_len (c_bf c) hyp)%nat -> (1 <= N)%nat ->
  wf_tensor (c_bf c) N ref -> wf_tensor (c_bf c) N hyp ->
  wf_logp (c_bf c) N (time_len (c_bf c) hyp) logp ->
  hard_ocd_loss c w RMean N ref hyp logp
  = LossScalar (qsum (map (seq_mean c w N ref hyp logp) (seq 0 N)) / inject_Z (Z.of_nat N))%Q.
Proof. exact loss_mean. Qed.
Print Assumptions c03_hard_ocd_loss_mean.

(* the positivity of the costs is needed: with a zero insertion cost a token outside the
   reference preserves the best reachable distance and is not listed *)
Theorem c03_positive_costs_needed : exists c N ref hyp t,
  c_ins c = 0 /\
  preserving (c_ins c) (c_del c) (c_sub c)
    (denote (c_eos c) (c_incl c) (seq_of (c_bf c) 0 ref))
    (firstn 0 (denote (c_eos c) (c_incl c) (seq_of (c_bf c) 0 hyp))) t /\
  ~ In t (entry3 (c_bf c) 0 0 (optimal_completion c N ref hyp)).
Proof. exact positive_costs_needed. Qed.
Print Assumptions c03_positive_costs_needed.

(* non-vacuity: the docstring's "foot"/"bot" example and a ragged batch-first batch with eos,
   garbage after it, a repeated reference token, non-uniform costs and exclude_last meet the
   hypotheses of c03_oc_row_correct, and the model returns the expected rows *)
Example c03_nonvacuous :
  optimal_completion ex_cfg_foot 1 ex_ref_foot ex_hyp_foot
    = [[[102; -100]]; [[102; 111]]; [[111; -100]]; [[111; 116]]]
  /\ (0 < 1)%nat /\ wf_tensor (c_bf ex_cfg_foot) 1 ex_ref_foot /\ wf_tensor (c_bf ex_cfg_foot) 1 ex_hyp_foot
  /\ 0 < c_ins ex_cfg_foot /\ 0 < c_del ex_cfg_foot /\ 0 < c_sub ex_cfg_foot
  /\ (3 < length (denote (c_eos ex_cfg_foot) (c_incl ex_cfg_foot) (seq_of (c_bf ex_cfg_foot) 0 ex_hyp_foot)) + 1)%nat
  /\ optimal_completion ex_cfg_rag 2 ex_ref_rag ex_hyp_rag = ex_out_rag
  /\ (1 < 2)%nat /\ wf_tensor (c_bf ex_cfg_rag) 2 ex_ref_rag /\ wf_tensor (c_bf ex_cfg_rag) 2 ex_hyp_rag
  /\ 0 < c_ins ex_cfg_rag /\ 0 < c_del ex_cfg_rag /\ 0 < c_sub ex_cfg_rag
  /\ (1 < length (denote (c_eos ex_cfg_rag) (c_incl ex_cfg_rag) (seq_of (c_bf ex_cfg_rag) 1 ex_hyp_rag)) + 0)%nat.
Proof. exact nonvacuous. Qed.
