#!/usr/bin/env python3
"""add_manifest.py Cnn...: pull the MANIFEST text/note from notes/Cnn_report.md into manifest_table.json"""
import json, re, sys
p='/verif/harness/manifest_table.json'
t=json.load(open(p))
for pid in sys.argv[1:]:
    s=open(f'/verif/notes/{pid}_report.md').read()
    m=re.search(r'`?\**text\**`?\**\s*[:=]\s*(.*?)\n\s*[-*]?\s*`?\**note\**`?\**\s*[:=]\s*(.*?)(\n\s*\n|\n#|\Z)', s, flags=re.S)
    if not m:
        print("no entry found in report for", pid); continue
    t['checks'][pid]={"text":' '.join(m.group(1).split()), "note":' '.join(m.group(2).split())}
json.dump(t,open(p,'w'),indent=1)
