(* C01 — declarative reading of "edit distance = weighted Levenshtein distance".
   Independent of how the code works: edit scripts, their cost, the minimum, and which
   sequence a padded column of the tensor denotes.  Shared with C02 / C03. *)
From Coq Require Import List ZArith QArith Bool Arith.
From PV Require Import C01.Obs.
Import ListNotations.
Local Open Scope Z_scope.

(* ---- edit scripts -------------------------------------------------------------- *)
Inductive op := Ins (b : Z) | Del (a : Z) | Sub (a b : Z) | Keep (a : Z).

(* [transforms s r h]: reading r left to right, script s deletes / keeps / substitutes its
   tokens and inserts new ones so that h results. *)
Inductive transforms : list op -> list Z -> list Z -> Prop :=
| T_nil : transforms [] [] []
| T_ins s r h b : transforms s r h -> transforms (Ins b :: s) r (b :: h)
| T_del s r h a : transforms s r h -> transforms (Del a :: s) (a :: r) h
| T_sub s r h a b : a <> b -> transforms s r h -> transforms (Sub a b :: s) (a :: r) (b :: h)
| T_keep s r h a : transforms s r h -> transforms (Keep a :: s) (a :: r) (a :: h).

Section Costs.
  Variables ci cd cs : Z.   (* insertion, deletion, substitution *)

  Definition op_cost (o : op) : Z :=
    match o with Ins _ => ci | Del _ => cd | Sub _ _ => cs | Keep _ => 0 end.

  Fixpoint cost (s : list op) : Z :=
    match s with [] => 0 | o :: t => op_cost o + cost t end.

  (* "v is the minimum total cost of insertions, deletions and substitutions that turn r
     into h" *)
  Definition min_edit_cost (r h : list Z) (v : Z) : Prop :=
    (exists s, transforms s r h /\ cost s = v) /\
    (forall s, transforms s r h -> v <= cost s).

  (* the textbook recursion; proved in Proofs.v to satisfy [min_edit_cost] *)
  Fixpoint lev (r h : list Z) {struct r} : Z :=
    match r with
    | [] => Z.of_nat (length h) * ci
    | a :: r' =>
        (fix inner (h : list Z) {struct h} : Z :=
           match h with
           | [] => Z.of_nat (length r) * cd
           | b :: h' =>
               Z.min (Z.min (lev r' h + cd) (inner h' + ci))
                     (lev r' h' + (if a =? b then 0 else cs))
           end) h
    end.
End Costs.

(* ---- what a padded column denotes ---------------------------------------------- *)
Fixpoint before_eos (e : Z) (l : list Z) : list Z :=
  match l with [] => [] | x :: t => if x =? e then [] else x :: before_eos e t end.

Definition has_eos (e : Z) (l : list Z) : bool := existsb (Z.eqb e) l.

(* no eos given: the whole column.  Otherwise everything before the first eos (anything
   after it is garbage), plus that eos itself when it is to be counted and is there. *)
Definition denote (eos : option Z) (incl : bool) (l : list Z) : list Z :=
  match eos with
  | None => l
  | Some e => if incl && has_eos e l then before_eos e l ++ [e] else before_eos e l
  end.

(* ---- the values the property demands -------------------------------------------- *)
Section Expected.
  Variables (eos : option Z) (incl norm : bool) (ci cd cs : Z).

  (* distance between reference r and hypothesis (prefix) h, normalised on request.  The
     property is silent about dividing by an empty reference; the documented convention
     ("1 if any insertion and 0 otherwise") is accepted here. *)
  Definition spec_value (r h : list Z) : val :=
    let v := lev ci cd cs r h in
    if norm then
      match length r with
      | O => Lit (if (0 <? length h)%nat then 1 else 0)
      | S _ => Ratio v (length r)
      end
    else Cost v.

  Definition spec_pair_ed (rcol hcol : list Z) : val :=
    spec_value (denote eos incl rcol) (denote eos incl hcol).

  (* out_len = number of rows of the returned tensor (H+1, or H with exclude_last) *)
  Definition spec_pair_prefix (excl : bool) (pad : Z) (out_len : nat) (rcol hcol : list Z)
    : list val :=
    let r := denote eos incl rcol in
    let h := denote eos incl hcol in
    map (fun k => if (k <? length h + (if excl then 0 else 1))%nat
                  then spec_value r (firstn k h) else Lit pad)
        (seq 0 out_len).
End Expected.

(* boolean judgement of observed floats (exact rationals) for one pair *)
Definition spec_ed_okb eos incl norm ci cd cs (scale : Z) (rcol hcol : list Z) (q : Q) : bool :=
  match_val scale (spec_pair_ed eos incl norm ci cd cs rcol hcol) q.

Definition spec_prefix_okb eos incl norm ci cd cs excl pad (scale : Z)
  (rcol hcol : list Z) (qs : list Q) : bool :=
  forall2b (match_val scale)
    (spec_pair_prefix eos incl norm ci cd cs excl pad (length qs) rcol hcol) qs.
