(* C16 — the checkpoints under crashes, file-name formats WITH the epoch field. *)
From Coq Require Import List Arith Bool ZArith Lia.
From PV Require Import C16.Model C16.Spec C16.Proofs C16.Hist.
Import ListNotations.

(* both format strings contain {epoch} *)
Definition epf (P : params) : Prop := ep_m P = true /\ ep_o P = true.

Lemma pth_ep P k e : epf P -> pth P k e = Ckpt k (Some e).
Proof. intros [Hm Ho]. unfold pth, has_ep. destruct k; rewrite ?Hm, ?Ho; reflexivity. Qed.

Lemma pth_inj P k k' e e' : epf P -> pth P k e = pth P k' e' -> k = k' /\ e = e'.
Proof. intros H. rewrite !(pth_ep P _ _ H). intros E; injection E; auto. Qed.

Lemma pth_not_tmp P k e c k' : pth P k e <> Tmp c k'.
Proof. unfold pth. discriminate. Qed.

(* epoch e is recorded, and both its files hold the parameters of the call that recorded it *)
Definition stored (P : params) (d : disk) (e : nat) : Prop :=
  exists r, In r (csv d) /\ r_epoch r = e /\
            forall k, fs_get (pth P k e) (files d) = Some (r_tag r).

(* ---------- shape of one update: keep last and best, epoch formats ---------- *)

Lemma best_snoc_cases b c r :
  best_epoch b (c ++ [r]) = r_epoch r \/ best_epoch b (c ++ [r]) = best_epoch b c.
Proof. rewrite best_epoch_snoc. destruct (lt_inf _ _); auto. Qed.

Lemma klb_ep_ops P d c n tr va cn v ro ops r :
  epf P -> klb P = true -> map r_epoch c = seq 1 n ->
  update_ops P d c tr va cn v ro = Some (ops, r) ->
  let e := S n in
  let cb := best_epoch (bt P) (c ++ [r]) in
  let lb := best_epoch (bt P) c in
  exists rl,
    ops = save_ops P cn e v ++ Append r :: map Remove rl /\
    (forall q, In q rl -> cb <> n /\ exists k e', q = pth P k e' /\ (e' = n \/ (e' = lb /\ lb <> cb))) /\
    (forall k e', cb <> n -> (e' = n \/ (e' = lb /\ lb <> cb)) ->
                  fs_get (pth P k e') (files d) <> None -> In (pth P k e') rl).
Proof.
  intros Hep Hk Hc Hu e cb lb.
  pose proof (update_ops_appends _ _ _ _ _ _ _ _ _ _ Hu) as [Hr _].
  pose proof (last_epoch_seq n c Hc) as Hl. rewrite Hl in Hr.
  assert (Hlb : lb <= n) by (apply best_epoch_le; exact Hc).
  assert (Hfresh : cache_set r c = c ++ [r]).
  { apply cache_set_fresh. rewrite Hc, Hr. cbn. intros Hin; apply in_seq in Hin; lia. }
  unfold update_ops in Hu. cbv zeta in Hu. rewrite Hl, Hk in Hu.
  rewrite <- Hr in Hu. rewrite Hfresh in Hu. fold e in Hu. fold cb lb in Hu.
  destruct (negb (Nat.eqb cb e) && _); [discriminate|].
  replace (e - 1) with n in Hu by (unfold e; lia).
  destruct (Nat.eqb cb n) eqn:Ecb.
  - apply Nat.eqb_eq in Ecb. apply some_pair_inv in Hu as [<- _].
    exists []. split; [reflexivity|]. split; [intros q []|]. intros k e' Hne. contradiction.
  - apply Nat.eqb_neq in Ecb.
    (* the new files collide with nothing: the checkpoint is saved before the history *)
    assert (Hif : mem (pth P KM e) [pth P KM n; pth P KM lb; pth P KO n; pth P KO lb]
                  || mem (pth P KO e) [pth P KM n; pth P KM lb; pth P KO n; pth P KO lb] = false).
    { apply orb_false_iff; split; apply mem_false; cbn [In]; intros H;
        repeat (destruct H as [H|H]; [apply (pth_inj P _ _ _ _ Hep) in H; unfold e in H; lia|]); exact H. }
    rewrite Hif in Hu. cbn [app] in Hu.
    apply some_pair_inv in Hu as [<- _].
    set (cl := filter _ (dedup _)).
    set (d1 := apply_ops d _).
    exists (order_by ro (filter (exists_b (files d1)) cl)).
    split; [reflexivity|].
    assert (Hcl : forall q, In q cl <->
              (q <> pth P KM e /\ q <> pth P KO e) /\
              exists k e', q = pth P k e' /\ (e' = n \/ (e' = lb /\ lb <> cb))).
    { intros q. unfold cl. rewrite filter_In, dedup_In. cbn [In].
      rewrite negb_true_iff, orb_false_iff.
      split.
      - intros [Hin [N1 N2]]. split; [split; apply path_eqb_false; assumption|].
        destruct Hin as [<-|[<-|Hin]]; [exists KM, n; auto|exists KO, n; auto|].
        destruct (Nat.eqb lb cb) eqn:El; [destruct Hin|]. apply Nat.eqb_neq in El.
        destruct Hin as [<-|[<-|[]]]; [exists KM, lb; auto|exists KO, lb; auto].
      - intros [[N1 N2] (k & e' & -> & He')]. split; [|split; apply path_eqb_neq; assumption].
        destruct He' as [-> | [-> Hne]].
        + destruct k; auto.
        + right; right. destruct (Nat.eqb lb cb) eqn:El; [apply Nat.eqb_eq in El; contradiction|].
          destruct k; cbn; auto. }
    assert (Hd1 : forall k e', e' <= n -> fs_get (pth P k e') (files d1) = fs_get (pth P k e') (files d)).
    { intros k e' Hle. unfold d1. rewrite apply_ops_files, fold_left_app. cbn [fold_left fapply].
      rewrite save_ops_get.
      rewrite !path_eqb_neq; [reflexivity|discriminate|discriminate| |];
        intros H; apply (pth_inj P _ _ _ _ Hep) in H; unfold e in H; lia. }
    split.
    + intros q Hq. apply order_by_In in Hq. apply filter_In in Hq as [Hq _].
      apply Hcl in Hq as [_ Hq]. split; [exact Ecb|exact Hq].
    + intros k e' _ He' Hex. apply order_by_In. apply filter_In. split.
      * apply Hcl. split; [|exists k, e'; auto].
        split; intros H; apply (pth_inj P _ _ _ _ Hep) in H; unfold e in H; lia.
      * unfold exists_b. rewrite Hd1 by lia. destruct (fs_get _ (files d)); [reflexivity|contradiction].
Qed.

(* ---------- files after a prefix of such an update ---------------------------- *)

Lemma flat_map_appended_nil l : (forall o, In o l -> appended o = []) -> flat_map appended l = [].
Proof.
  induction l as [|o t IH]; intros H; [reflexivity|]. cbn [flat_map].
  rewrite (H o (or_introl eq_refl)), IH; [reflexivity|]. intros; apply H; right; assumption.
Qed.

Lemma save_prefix_csv P cn e v k d : csv (apply_ops d (firstn k (save_ops P cn e v))) = csv d.
Proof.
  rewrite apply_ops_csv, flat_map_appended_nil, app_nil_r; [reflexivity|].
  intros o Ho. apply In_firstn in Ho. unfold save_ops in Ho. cbn [In] in Ho.
  repeat (destruct Ho as [<-|Ho]; [reflexivity|]). destruct Ho.
Qed.

(* a prefix of the save touches no checkpoint of another epoch *)
Lemma save_prefix_get P cn e v k d kk e' :
  epf P -> e' <> e ->
  fs_get (pth P kk e') (files (apply_ops d (firstn k (save_ops P cn e v)))) = fs_get (pth P kk e') (files d).
Proof.
  intros Hep Hne. rewrite apply_ops_files. apply fold_untouched.
  intros o Ho Hq. apply In_firstn in Ho.
  destruct (save_ops_touches P cn e v o _ Ho Hq) as [H|[H|[H|H]]];
    try (exact (pth_not_tmp _ _ _ _ _ H)); apply (pth_inj P _ _ _ _ Hep) in H; lia.
Qed.

Lemma save_append_removes_get P cn e v r l d q :
  fs_get q (files (apply_ops d (save_ops P cn e v ++ Append r :: map Remove l))) =
  if mem q l then None
  else if path_eqb (pth P KO e) q then Some v
  else if path_eqb (pth P KM e) q then Some v
  else if path_eqb (Tmp cn KO) q then None
  else if path_eqb (Tmp cn KM) q then None
  else fs_get q (files d).
Proof.
  rewrite apply_ops_files, fold_left_app. cbn [fold_left fapply].
  rewrite fold_removes, save_ops_get. reflexivity.
Qed.

Lemma save_append_removes_csv P cn e v r l d :
  csv (apply_ops d (save_ops P cn e v ++ Append r :: map Remove l)) = csv d ++ [r].
Proof.
  rewrite apply_ops_csv, flat_map_app, flat_map_appended_save. cbn [flat_map appended app].
  rewrite flat_map_appended_removes. reflexivity.
Qed.

Lemma firstn_save_more P cn e v k (tl : list fsop) :
  firstn k (save_ops P cn e v ++ tl) =
  if Nat.leb k 6 then firstn k (save_ops P cn e v) else save_ops P cn e v ++ firstn (k - 6) tl.
Proof.
  rewrite firstn_app. change (length (save_ops P cn e v)) with 6.
  destruct (Nat.leb k 6) eqn:E.
  - apply Nat.leb_le in E. replace (k - 6) with 0 by lia. cbn [firstn]. apply app_nil_r.
  - apply Nat.leb_gt in E. rewrite firstn_all2 by (cbn; lia). reflexivity.
Qed.

(* ---------- keep last and best: the invariant --------------------------------- *)

Definition inv_lb (P : params) (E : env) (d : disk) (n : nat) : Prop :=
  wfh E d n /\
  forall e, 1 <= e -> (e = n \/ e = best_epoch (bt P) (csv d)) -> stored P d e.

Lemma klb_step_inv P E d n cn ops r k :
  epf P -> klb P = true -> inv_lb P E d n ->
  attempt P E d cn = Some (Some (ops, r)) ->
  exists n', inv_lb P E (apply_ops d (firstn k ops)) n'.
Proof.
  intros Hep Hk [Hw Hst] Ha.
  destruct (wfh_attempt P E d n cn ops r Hw Ha) as (tr & va & rest & Es & Hu).
  pose proof (wfh_epochs E d n Hw) as Hepo.
  destruct (klb_ep_ops P d (csv d) n tr va cn (pv E cn) (ro E cn) ops r Hep Hk Hepo Hu)
    as (rl & Hops & Hrl & _).
  pose proof (update_ops_appends _ _ _ _ _ _ _ _ _ _ Hu) as [Hr _].
  destruct (wfh_cache E d n Hw) as [_ Hl]. rewrite Hl in Hr.
  assert (Hlb : best_epoch (bt P) (csv d) <= n) by (apply best_epoch_le; exact Hepo).
  pose proof (wfh_step P E d n cn ops r k Hw Ha) as Hws. cbv zeta in Hws.
  rewrite Hops in *. rewrite firstn_save_more in *.
  destruct (Nat.leb k 6).
  - (* died inside the save: nothing recorded, older checkpoints untouched *)
    exists n. destruct Hws as [[Hcsv Hw']|[Hcsv _]].
    2:{ rewrite save_prefix_csv in Hcsv. apply (f_equal (@length _)) in Hcsv.
        rewrite app_length in Hcsv. cbn in Hcsv. lia. }
    split; [exact Hw'|]. intros e0 H1 He0. rewrite Hcsv in He0.
    destruct (Hst e0 H1 He0) as (r0 & Hin & Hre & Hf).
    exists r0. rewrite Hcsv. split; [exact Hin|]. split; [exact Hre|].
    intros kk. rewrite save_prefix_get; [apply Hf|exact Hep|]. destruct He0; lia.
  - (* the save completed and the row was appended; some clean-up may have happened *)
    destruct (k - 6) as [|j]; [rewrite app_nil_r in *|].
    + (* exactly the six calls of the save *)
      exists n. destruct Hws as [[Hcsv Hw']|[Hcsv _]].
      2:{ rewrite <- (firstn_all (save_ops P cn (S n) (pv E cn))) in Hcsv.
          rewrite save_prefix_csv in Hcsv. apply (f_equal (@length _)) in Hcsv.
          rewrite app_length in Hcsv. cbn in Hcsv. lia. }
      split; [exact Hw'|]. intros e0 H1 He0. rewrite Hcsv in He0.
      destruct (Hst e0 H1 He0) as (r0 & Hin & Hre & Hf).
      exists r0. rewrite Hcsv. split; [exact Hin|]. split; [exact Hre|].
      intros kk. rewrite <- (firstn_all (save_ops P cn (S n) (pv E cn))).
      rewrite save_prefix_get; [apply Hf|exact Hep|]. destruct He0; lia.
    + cbn [firstn] in *. rewrite firstn_map in *.
      exists (S n). destruct Hws as [[Hcsv _]|[Hcsv [Hw' _]]].
      { rewrite save_append_removes_csv in Hcsv. apply (f_equal (@length _)) in Hcsv.
        rewrite app_length in Hcsv. cbn in Hcsv. lia. }
      split; [exact Hw'|]. intros e0 H1 He0. rewrite Hcsv in He0.
      assert (Hnot : forall kk e1, (e1 = S n \/ e1 = best_epoch (bt P) (csv d ++ [r])) ->
                       mem (pth P kk e1) (firstn j rl) = false).
      { intros kk e1 He1. apply mem_false. intros Hin. apply In_firstn in Hin.
        destruct (Hrl _ Hin) as [Hcb (k2 & e2 & Heq & He2)].
        apply (pth_inj P _ _ _ _ Hep) in Heq as [_ ->].
        destruct He1 as [-> | ->]; destruct He2 as [He2|[He2 Hne]]; lia. }
      assert (He0' : e0 = S n \/ (e0 <> S n /\ e0 = best_epoch (bt P) (csv d))).
      { destruct (Nat.eq_dec e0 (S n)) as [|Hne]; [left; assumption|right].
        split; [exact Hne|]. destruct He0 as [|He0]; [contradiction|].
        destruct (best_snoc_cases (bt P) (csv d) r) as [Hb|Hb]; [|congruence].
        exfalso. rewrite Hb, Hr in He0. cbn in He0. lia. }
      destruct He0' as [->|[Hne Hb]].
      * exists r. rewrite Hcsv. split; [apply in_or_app; right; left; reflexivity|].
        split; [rewrite Hr; reflexivity|]. intros kk.
        rewrite save_append_removes_get, Hnot by (left; reflexivity).
        destruct kk.
        -- rewrite (path_eqb_neq (pth P KO (S n)) (pth P KM (S n))), path_eqb_refl;
             [rewrite Hr; reflexivity|]. intros H. apply (pth_inj P _ _ _ _ Hep) in H as [H _]. discriminate.
        -- rewrite path_eqb_refl. rewrite Hr; reflexivity.
      * assert (Hst0 : stored P d e0) by (apply Hst; [exact H1|right; exact Hb]).
        destruct Hst0 as (r0 & Hin & Hre & Hf).
        exists r0. rewrite Hcsv. split; [apply in_or_app; left; exact Hin|]. split; [exact Hre|].
        intros kk. rewrite save_append_removes_get, Hnot by (right; destruct He0; [contradiction|assumption]).
        rewrite !path_eqb_neq; [apply Hf|discriminate|discriminate| |];
          intros H; apply (pth_inj P _ _ _ _ Hep) in H as [_ H]; lia.
Qed.

Lemma inv_lb_init P E : inv_lb P E empty_disk 0.
Proof.
  split; [split; [lia|reflexivity]|]. intros e H1 [-> | ->]; [lia|]. cbn in H1. lia.
Qed.

Lemma reach_inv_lb P E d cn :
  epf P -> klb P = true -> reach P E d cn -> exists n, inv_lb P E d n.
Proof.
  intros Hep Hk. induction 1 as [|d cn ops r k _ [n Hi] Ha].
  - exists 0. apply inv_lb_init.
  - apply (klb_step_inv P E d n cn ops r k Hep Hk Hi Ha).
Qed.

(* what a controller started on the files computes as last and best epoch *)
Definition seen_last (d : disk) : nat := last_epoch (read_cache (csv d)).
Definition seen_best (P : params) (d : disk) : nat := best_epoch (bt P) (read_cache (csv d)).

Lemma crash_last_and_best_loadable P E d cn :
  epf P -> klb P = true -> reach P E d cn ->
  forall e, 1 <= e -> (e = seen_last d \/ e = seen_best P d) -> stored P d e.
Proof.
  intros Hep Hk Hre e H1 He.
  destruct (reach_inv_lb P E d cn Hep Hk Hre) as [n [Hw Hst]].
  destruct (wfh_cache E d n Hw) as [Hc Hl].
  unfold seen_last, seen_best in He. rewrite Hc, Hl in He. apply Hst; assumption.
Qed.

(* ---------- keep last and best, no crash: the directory is exactly last + best -- *)

Definition exact_lb (P : params) (d : disk) (n : nat) : Prop :=
  forall q, fs_get q (files d) <> None <->
            exists k e, q = pth P k e /\ 1 <= e /\ (e = n \/ e = best_epoch (bt P) (csv d)).

Lemma klb_full_exact P E d n cn ops r :
  epf P -> klb P = true -> wfh E d n -> exact_lb P d n ->
  attempt P E d cn = Some (Some (ops, r)) ->
  wfh E (apply_ops d ops) (S n) /\ exact_lb P (apply_ops d ops) (S n).
Proof.
  intros Hep Hk Hw Hex Ha.
  destruct (wfh_attempt P E d n cn ops r Hw Ha) as (tr & va & rest & Es & Hu).
  pose proof (wfh_epochs E d n Hw) as Hepo.
  destruct (klb_ep_ops P d (csv d) n tr va cn (pv E cn) (ro E cn) ops r Hep Hk Hepo Hu)
    as (rl & Hops & Hrl & Hrl2).
  pose proof (update_ops_appends _ _ _ _ _ _ _ _ _ _ Hu) as [Hr _].
  destruct (wfh_cache E d n Hw) as [_ Hl]. rewrite Hl in Hr.
  assert (Hre : r_epoch r = S n) by (rewrite Hr; reflexivity).
  assert (Hlb : best_epoch (bt P) (csv d) <= n) by (apply best_epoch_le; exact Hepo).
  pose proof (wfh_step P E d n cn ops r (length ops) Hw Ha) as Hws. cbv zeta in Hws.
  rewrite firstn_all in Hws.
  assert (Hcsv : csv (apply_ops d ops) = csv d ++ [r]).
  { rewrite Hops. apply save_append_removes_csv. }
  destruct Hws as [[Hc0 _]|[_ [Hw' _]]].
  { rewrite Hcsv in Hc0. apply (f_equal (@length _)) in Hc0. rewrite app_length in Hc0. cbn in Hc0. lia. }
  split; [exact Hw'|].
  set (cb := best_epoch (bt P) (csv d ++ [r])) in *.
  set (lb := best_epoch (bt P) (csv d)) in *.
  assert (Hcb : cb = S n \/ cb = lb).
  { destruct (best_snoc_cases (bt P) (csv d) r) as [H|H]; [left; fold cb in H; lia|right; exact H]. }
  assert (Hnot : forall kk e1, (e1 = S n \/ e1 = cb) -> mem (pth P kk e1) rl = false).
  { intros kk e1 He1. apply mem_false. intros Hin.
    destruct (Hrl _ Hin) as [Hcbn (k2 & e2 & Heq & He2)].
    apply (pth_inj P _ _ _ _ Hep) in Heq as [_ ->].
    destruct He1 as [-> | ->]; destruct He2 as [He2|[He2 Hne]]; lia. }
  intros q. rewrite Hcsv. fold cb. rewrite Hops, save_append_removes_get. split.
  - intros Hq. destruct (mem q rl) eqn:Em; [contradiction|].
    destruct (path_eqb (pth P KO (S n)) q) eqn:E1; [apply path_eqb_eq in E1; exists KO, (S n); split; [auto|lia]|].
    destruct (path_eqb (pth P KM (S n)) q) eqn:E2; [apply path_eqb_eq in E2; exists KM, (S n); split; [auto|lia]|].
    destruct (path_eqb (Tmp cn KO) q); [contradiction|].
    destruct (path_eqb (Tmp cn KM) q); [contradiction|].
    pose proof Hq as Hq0.
    apply Hex in Hq as (k0 & e0 & -> & H1 & He0). fold lb in He0.
    exists k0, e0. split; [reflexivity|]. split; [exact H1|]. right.
    destruct (Nat.eq_dec cb n) as [Hcn|Hcn]; [destruct He0; lia|].
    destruct (Nat.eq_dec e0 cb) as [|Hne0]; [assumption|exfalso].
    assert (Hin : In (pth P k0 e0) rl).
    { apply Hrl2; [exact Hcn| |exact Hq0].
      destruct He0 as [He0|He0]; [left; exact He0|right; split; [exact He0|lia]]. }
    apply mem_In in Hin. congruence.
  - intros (k0 & e0 & -> & H1 & He0).
    rewrite Hnot by exact He0.
    destruct He0 as [-> |He0].
    + destruct k0.
      * rewrite (path_eqb_neq (pth P KO (S n)) (pth P KM (S n))), path_eqb_refl; [discriminate|].
        intros H. apply (pth_inj P _ _ _ _ Hep) in H as [H _]. discriminate.
      * rewrite path_eqb_refl. discriminate.
    + destruct (Nat.eq_dec e0 (S n)) as [->|Hne].
      * destruct k0.
        -- rewrite (path_eqb_neq (pth P KO (S n)) (pth P KM (S n))), path_eqb_refl; [discriminate|].
           intros H. apply (pth_inj P _ _ _ _ Hep) in H as [H _]. discriminate.
        -- rewrite path_eqb_refl. discriminate.
      * assert (Helb : e0 = lb) by lia.
        rewrite !path_eqb_neq; [|discriminate|discriminate| |];
          try (intros HH; apply (pth_inj P _ _ _ _ Hep) in HH as [_ HH]; lia).
        apply Hex. exists k0, e0. split; [reflexivity|]. split; [exact H1|]. right; exact Helb.
Qed.

Lemma completed_update_dir_exact P E d cn :
  epf P -> klb P = true -> reach_full P E d cn ->
  exists n, wfh E d n /\ exact_lb P d n.
Proof.
  intros Hep Hk. induction 1 as [|d cn ops r _ [n [Hw Hex]] Ha].
  - exists 0. split; [split; [lia|reflexivity]|].
    intros q. cbn. split; [intros H; contradiction|]. intros (k & e & _ & H1 & [->| ->]); lia.
  - exists (S n). apply (klb_full_exact P E d n cn ops r Hep Hk Hw Hex Ha).
Qed.

(* ---------- keep everything ----------------------------------------------------- *)

Lemma all_ops P d c tr va cn v ro ops r :
  klb P = false -> update_ops P d c tr va cn v ro = Some (ops, r) ->
  let e := S (last_epoch c) in
  ops = (if exists_b (files d) (pth P KM e) || exists_b (files d) (pth P KO e)
         then Append r :: save_ops P cn e v else save_ops P cn e v ++ [Append r]).
Proof.
  intros Hk Hu e. pose proof (update_ops_appends _ _ _ _ _ _ _ _ _ _ Hu) as [Hr _].
  unfold update_ops in Hu. cbv zeta in Hu. rewrite Hk in Hu. rewrite <- Hr in Hu.
  apply some_pair_inv in Hu as [<- _]. fold e.
  destruct (exists_b _ _ || exists_b _ _); [|reflexivity]. cbn [app]. rewrite app_nil_r. reflexivity.
Qed.

Definition inv_all (P : params) (E : env) (d : disk) (n : nat) : Prop :=
  wfh E d n /\ forall e, 1 <= e <= n -> stored P d e.

(* no checkpoint file of an epoch later than n *)
Definition none_after (P : params) (d : disk) (n : nat) : Prop :=
  forall k e, n < e -> fs_get (pth P k e) (files d) = None.

Lemma all_full P E d n cn ops r :
  epf P -> klb P = false -> inv_all P E d n -> none_after P d (S n) ->
  attempt P E d cn = Some (Some (ops, r)) ->
  inv_all P E (apply_ops d ops) (S n) /\ none_after P (apply_ops d ops) (S n).
Proof.
  intros Hep Hk [Hw Hst] Hna Ha.
  destruct (wfh_attempt P E d n cn ops r Hw Ha) as (tr & va & rest & Es & Hu).
  pose proof (update_ops_appends _ _ _ _ _ _ _ _ _ _ Hu) as [Hr Happ].
  pose proof (all_ops _ _ _ _ _ _ _ _ _ _ Hk Hu) as Hops. cbv zeta in Hops.
  destruct (wfh_cache E d n Hw) as [_ Hl]. rewrite Hl in Hr, Hops.
  pose proof (wfh_step P E d n cn ops r (length ops) Hw Ha) as Hws. cbv zeta in Hws.
  rewrite firstn_all in Hws.
  assert (Hcsv : csv (apply_ops d ops) = csv d ++ [r]) by (rewrite apply_ops_csv, Happ; reflexivity).
  destruct Hws as [[Hc0 _]|[_ [Hw' _]]].
  { rewrite Hcsv in Hc0. apply (f_equal (@length _)) in Hc0. rewrite app_length in Hc0. cbn in Hc0. lia. }
  assert (Hget : forall q, fs_get q (files (apply_ops d ops)) =
            if path_eqb (pth P KO (S n)) q then Some (pv E cn)
            else if path_eqb (pth P KM (S n)) q then Some (pv E cn)
            else if path_eqb (Tmp cn KO) q then None
            else if path_eqb (Tmp cn KM) q then None
            else fs_get q (files d)).
  { intros q. rewrite Hops, apply_ops_files.
    destruct (exists_b _ _ || exists_b _ _).
    - cbn [fold_left fapply]. apply save_ops_get.
    - rewrite fold_left_app. cbn [fold_left fapply]. apply save_ops_get. }
  split; [split; [exact Hw'|]|].
  - intros e He. destruct (Nat.eq_dec e (S n)) as [->|Hne].
    + exists r. rewrite Hcsv. split; [apply in_or_app; right; left; reflexivity|].
      split; [rewrite Hr; reflexivity|]. intros kk. rewrite Hget. destruct kk.
      * rewrite (path_eqb_neq (pth P KO (S n)) (pth P KM (S n))), path_eqb_refl; [rewrite Hr; reflexivity|].
        intros H. apply (pth_inj P _ _ _ _ Hep) in H as [H _]. discriminate.
      * rewrite path_eqb_refl. rewrite Hr; reflexivity.
    + destruct (Hst e) as (r0 & Hin & Hre & Hf); [lia|].
      exists r0. rewrite Hcsv. split; [apply in_or_app; left; exact Hin|]. split; [exact Hre|].
      intros kk. rewrite Hget.
      rewrite !path_eqb_neq; [apply Hf|discriminate|discriminate| |];
        intros H; apply (pth_inj P _ _ _ _ Hep) in H as [_ H]; lia.
  - intros kk e He. rewrite Hget.
    rewrite !path_eqb_neq; [apply Hna; lia|discriminate|discriminate| |];
      intros H; apply (pth_inj P _ _ _ _ Hep) in H as [_ H]; lia.
Qed.

Lemma all_prefix P E d n cn ops r k :
  epf P -> klb P = false -> inv_all P E d n -> none_after P d n ->
  attempt P E d cn = Some (Some (ops, r)) ->
  let d' := apply_ops d (firstn k ops) in
  (inv_all P E d' n /\ none_after P d' (S n)) \/ (inv_all P E d' (S n) /\ none_after P d' (S n)).
Proof.
  intros Hep Hk Hi Hna Ha d'. pose proof Hi as [Hw Hst].
  destruct (wfh_attempt P E d n cn ops r Hw Ha) as (tr & va & rest & Es & Hu).
  pose proof (all_ops _ _ _ _ _ _ _ _ _ _ Hk Hu) as Hops. cbv zeta in Hops.
  destruct (wfh_cache E d n Hw) as [_ Hl]. rewrite Hl in Hops.
  unfold exists_b in Hops. rewrite !Hna in Hops by lia. cbn [orb] in Hops.
  destruct (Nat.leb k 6) eqn:Ek.
  - left. unfold d'. rewrite Hops, firstn_save_more, Ek. split; [split|].
    + destruct Hw as [Hn Hh]. split; [exact Hn|]. rewrite save_prefix_csv. exact Hh.
    + intros e He. destruct (Hst e He) as (r0 & Hin & Hre & Hf).
      exists r0. rewrite save_prefix_csv. split; [exact Hin|]. split; [exact Hre|].
      intros kk. rewrite save_prefix_get; [apply Hf|exact Hep|lia].
    + intros kk e He. rewrite save_prefix_get; [apply Hna; lia|exact Hep|lia].
  - right. apply Nat.leb_gt in Ek.
    assert (Hall : firstn k ops = ops).
    { apply firstn_all2. rewrite Hops, app_length. cbn. lia. }
    unfold d'. rewrite Hall. apply (all_full P E d n cn ops r Hep Hk Hi); [|exact Ha].
    intros kk e He. apply Hna. lia.
Qed.

Lemma reach_c1_inv P E d cn :
  epf P -> klb P = false -> reach_c1 P E d cn ->
  exists n, inv_all P E d n /\ none_after P d n.
Proof.
  intros Hep Hk. induction 1 as [|d cn ops r _ [n [Hi Hna]] Ha|d cn ops r k ops' r' _ [n [Hi Hna]] Ha Ha'].
  - exists 0. split; [split; [split; [lia|reflexivity]|intros e He; lia]|intros k e _; reflexivity].
  - exists (S n). apply (all_full P E d n cn ops r Hep Hk Hi); [|exact Ha].
    intros kk e He. apply Hna. lia.
  - destruct (all_prefix P E d n cn ops r k Hep Hk Hi Hna Ha) as [[Hi' Hna']|[Hi' Hna']].
    + exists (S n). apply (all_full P E _ n (S cn) ops' r' Hep Hk Hi' Hna' Ha').
    + exists (S (S n)). apply (all_full P E _ (S n) (S cn) ops' r' Hep Hk Hi'); [|exact Ha'].
      intros kk e He. apply Hna'. lia.
Qed.

Lemma keep_all_every_epoch_loadable P E d cn :
  epf P -> klb P = false -> reach1 P E d cn ->
  forall e, 1 <= e <= seen_last d -> stored P d e.
Proof.
  intros Hep Hk Hre.
  assert (Hinv : exists n, inv_all P E d n).
  { destruct Hre as [d cn Hc|d cn ops r k Hc Ha].
    - destruct (reach_c1_inv P E d cn Hep Hk Hc) as [n [Hi _]]. exists n; exact Hi.
    - destruct (reach_c1_inv P E d cn Hep Hk Hc) as [n [Hi Hna]].
      destruct (all_prefix P E d n cn ops r k Hep Hk Hi Hna Ha) as [[Hi' _]|[Hi' _]]; eauto. }
  destruct Hinv as [n [Hw Hst]]. destruct (wfh_cache E d n Hw) as [Hc Hl].
  intros e He. unfold seen_last in He. rewrite Hc, Hl in He. apply Hst; exact He.
Qed.
