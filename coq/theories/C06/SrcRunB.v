(* C06, second tie — the translated sources of `LookupLanguageModel.calc_full_log_probs_chunked` and
   `LookupLanguageModel.calc_full_log_probs` (src/pydrobert/torch/_lm.py) as executables: the environment [ext06B],
   the encoding of the model's inputs / outputs, and the correspondence entry points [src_chunked_check] /
   [src_full_check].  Definitions only; the lemmas are in TieB*.v.

   PV.Gen.C06BSrc.chunked_body and full_body are regenerated from /repo on every run by harness/py2coq/translate.py
   (the WHOLE bodies; `@torch.jit.export` is outside them: TorchScript is NOT modelled).

   [ext06B] = SrcRun.ext06_ops (first tie: the meaning of every torch call of `_lookup_calc_idx_log_probs`, reused
   for `hist.shape`, `hist.device`, `torch.arange(n, device=)`, `x.unsqueeze(0)`, `x.view(a, b, c)`, `x.size(0)`)
   extended by what only the all-positions code uses:
     self.calc_idx_log_probs(h, prev, idx)   the OTHER translated method: PV.Gen.C06Src.calc_idx_body is interpreted
                                             with the first tie's environment SrcRun.ext06 on a fresh frame
                                             (self, hist, prev, idx); `self` is read from the caller's variables
     iter(t)                                 (the `for` statement's implicit iter(), made explicit by the translator
                                             for an iterable that is the result of a library call): OpsC06B.iter0
     hist[:idx_]                             a slice bound that is a 0-dimensional integer tensor is converted by
                                             __index__ (OpsC06B.index_of), then SrcRun's slicing
     range(a, b, c)                          Python's three-argument range, c > 0: a, a + c, ... below b
     torch.empty(0, B, V, device=)           OpsC06B.empty0 (no element)
     torch.tensor(n, dtype=torch.long, device=)   OpsC06B.tensor_int
     x.contiguous()  x.storage_offset()  x.as_strided((n, m), (s0, s1), off)   OpsC06B (see STORAGE there)
     torch.cat(list, 0)                      OpsC06.cat0 (dimension 0)
   ASSUMPTIONS: as for SrcRun.v (dtypes are not part of a value, devices are ignored); `prev` is any value, handed
   on untouched.  Everything else is Stuck. *)
From Coq Require Import ZArith QArith List String Bool Arith.
From PV Require Import MiniPy.Syntax MiniPy.Interp MiniTorch.OpsC06 MiniTorch.OpsC06B Gen.C06Src Gen.C06BSrc.
From PV Require Import C06.SrcRun.
From PV Require C06.Model.
Import ListNotations.
Local Open Scope string_scope.

(* a call of another translated method: fresh frame, the caller's state is untouched *)
Definition call_in (ext : string -> list val -> list (string * val) -> state -> outcome val)
  (body : stmt) (frame : list (string * val)) (st : state) : outcome val :=
  match Interp.run ext body frame with
  | Ok v _ => Ok v st
  | Exc n _ => Exc n st
  | Stuck w => Stuck w
  end.

(* Tensor.__index__ where a slice bound is a 0-dimensional integer tensor; any other bound is left as it is *)
Definition bound_val (v : val) : val :=
  match dec6 v with
  | Some t => match index_of t with Some z => VInt z | None => v end
  | None => v
  end.

(* range(a, b, c) for c > 0: "For a positive step, the contents of a range r are determined by the formula
   r[i] = start + step*i where i >= 0 and r[i] < stop."  (b - a items suffice as fuel when c >= 1) *)
Fixpoint range_step (fuel : nat) (a b c : Z) : list Z :=
  match fuel with
  | O => []
  | S f => if (a <? b)%Z then a :: range_step f (a + c) b c else []
  end.

Definition kw_dev_only (kw : list (string * val)) : bool := forallb kw_device kw.

Definition ext06B (f : string) (args : list val) (kw : list (string * val)) (st : state) : outcome val :=
  if is f "self.calc_idx_log_probs" then
    match kw, args, lookup "self" (vars st) with
    | [], [hist; prev; idx], Some self =>
        call_in ext06 calc_idx_body [("self", self); ("hist", hist); ("prev", prev); ("idx", idx)] st
    | _, _, _ => Stuck "self.calc_idx_log_probs: arguments"
    end
  else if is f "iter" then
    match kw, args with
    | [], [t] => match dec6 t with
                 | Some x => match iter0 x with
                             | Some l => Ok (VList (map enc6 l)) st
                             | None => stuck6 "iter"
                             end
                 | None => stuck6 "iter: not a tensor"
                 end
    | _, _ => stuck6 "iter"
    end
  else if is f "range" then
    match kw, args with
    | [], [VInt a; VInt b; VInt c] =>
        if (0 <? c)%Z then Ok (VList (map VInt (range_step (Z.to_nat (b - a)) a b c))) st
        else stuck6 "range with a step <= 0"
    | _, _ => stuck6 "range"
    end
  else if is f "torch.empty" then
    match ints_of args with
    | Some zs => if kw_dev_only kw then ret6 "empty" (empty0 zs) st else stuck6 "empty: keyword"
    | None => stuck6 "empty"
    end
  else if is f "torch.tensor" then
    match args with
    | [VInt z] => if (kw_int_ok kw && existsb kw_long kw)%bool then Ok (enc6 (tensor_int z)) st
                  else stuck6 "tensor: keyword"
    | _ => stuck6 "tensor"
    end
  else if is f "$method.contiguous" then
    match kw, args with
    | [], [t] => on1 "contiguous" t (fun x => Some (contiguous x)) st
    | _, _ => stuck6 "contiguous"
    end
  else if is f "$method.storage_offset" then
    match kw, args with
    | [], [t] => match dec6 t with Some x => Ok (VInt (storage_offset x)) st | None => stuck6 "storage_offset" end
    | _, _ => stuck6 "storage_offset"
    end
  else if is f "$method.as_strided" then
    match kw, args with
    | [], [t; VTuple [VInt n; VInt m]; VTuple [VInt s0; VInt s1]; VInt off] =>
        on1 "as_strided" t (fun x => as_strided2 x n m s0 s1 off) st
    | _, _ => stuck6 "as_strided"
    end
  else if is f "torch.cat" then
    match kw, args with
    | [], [VList ts; VInt 0] =>
        match tensors_of ts with Some l => ret6 "cat" (cat0 l) st | None => stuck6 "cat: not tensors" end
    | _, _ => ext06_ops f args kw st
    end
  else if is f "$getitem" then
    match args with
    | [x; VTuple [VStr tag; lo; hi; step]] =>
        ext06_ops f [x; VTuple [VStr tag; bound_val lo; bound_val hi; step]] kw st
    | _ => ext06_ops f args kw st
    end
  else ext06_ops f args kw st.

(* `calc_full_log_probs` calls the chunked method of `self`: its body is interpreted with [ext06B] on a fresh frame *)
Definition ext06B_full (f : string) (args : list val) (kw : list (string * val)) (st : state) : outcome val :=
  if is f "self.calc_full_log_probs_chunked" then
    match kw, args, lookup "self" (vars st) with
    | [], [hist; prev; chunk], Some self =>
        call_in ext06B chunked_body
          ([("self", self); ("hist", hist); ("prev", prev); ("chunk_size", chunk)] ++ globals06) st
    | _, _, _ => Stuck "self.calc_full_log_probs_chunked: arguments"
    end
  else ext06B f args kw st.

(* ---- the model's inputs / outputs as values ----------------------------------------------------------------- *)
(* the arguments of calc_full_log_probs_chunked(self, hist, prev, chunk_size) + the module global `torch`; prev = {} *)
Definition chunked_vars (b : Model.bufs) (sh : Model.shape) (hist : list (list Z)) (B : nat) (chunk : Z)
  : list (string * val) :=
  [("self", self_value b sh); ("hist", enc6 (hist_tensor hist B)); ("prev", VDict []); ("chunk_size", VInt chunk)]
  ++ globals06.

(* the arguments of calc_full_log_probs(self, hist, prev) *)
Definition full_vars (b : Model.bufs) (sh : Model.shape) (hist : list (list Z)) (B : nat) : list (string * val) :=
  [("self", self_value b sh); ("hist", enc6 (hist_tensor hist B)); ("prev", VDict [])] ++ globals06.

(* the result: T1 matrices of B rows of V values *)
Definition mats_tensor (T1 B V : nat) (mats : list (list (list Model.val))) : tens6 :=
  T6 [T1; B; V] (map (fun v => CF (fl_of v)) (List.concat (List.concat mats))).

Definition run_chunked (b : Model.bufs) (sh : Model.shape) (hist : list (list Z)) (B : nat) (chunk : Z) : outcome val :=
  Interp.run ext06B chunked_body (chunked_vars b sh hist B chunk).

Definition run_full (b : Model.bufs) (sh : Model.shape) (hist : list (list Z)) (B : nat) : outcome val :=
  Interp.run ext06B_full full_body (full_vars b sh hist B).

(* ---- reading the result back ---------------------------------------------------------------------------------- *)
Fixpoint mats_of_data (n m k : nat) (d : list Model.val) : list (list (list Model.val)) :=
  match n with
  | O => []
  | S n' => rows_of_data m k (firstn (m * k) d) :: mats_of_data n' m k (skipn (m * k) d)
  end.

Definition mats_of (v : val) : option (list (list (list Model.val))) :=
  match dec6 v with
  | Some t => match sh6 t, sequence (map val_of (dt6 t)) with
              | [n; m; k], Some d => if wf6 t then Some (mats_of_data n m k d) else None
              | _, _ => None
              end
  | None => None
  end.

(* outer None: the interpreter got stuck or returned something that is not a 3-D float tensor; inner None: a Python
   exception (as Model.chunked's None) *)
Definition src_of_run (r : outcome val) : option (option (list (list (list Model.val)))) :=
  match r with
  | Ok t _ => option_map Some (mats_of t)
  | Exc _ _ => Some None
  | Stuck _ => None
  end.

Definition src_chunked (b : Model.bufs) (sh : Model.shape) (hist : list (list Z)) (B : nat) (chunk : Z)
  : option (option (list (list (list Model.val)))) := src_of_run (run_chunked b sh hist B chunk).

Definition src_full (b : Model.bufs) (sh : Model.shape) (hist : list (list Z)) (B : nat)
  : option (option (list (list (list Model.val)))) := src_of_run (run_full b sh hist B).

(* same interface as the comparisons c06.py makes:
     Model.omats_eqb (Model.chunked b sh hist B chunk) impl           (a chunked query)
     Model.out_eqb (Model.forward b sh hist B None) impl               (an all-positions query) *)
Definition src_chunked_check (b : Model.bufs) (sh : Model.shape) (hist : list (list Z)) (B : nat) (chunk : nat)
  (impl : option (list (list (list Model.val)))) : bool :=
  match src_chunked b sh hist B (Z.of_nat chunk) with
  | Some r => Model.omats_eqb r impl
  | None => false
  end.

Definition src_full_check (b : Model.bufs) (sh : Model.shape) (hist : list (list Z)) (B : nat)
  (impl : option Model.output) : bool :=
  match src_full b sh hist B with
  | Some r => Model.out_eqb (option_map Model.Full r) impl
  | None => false
  end.
