(* C06 — the translated sources of `_lookup_calc_idx_log_probs` and `LookupLanguageModel.calc_idx_log_probs`
   (src/pydrobert/torch/_lm.py) as executables: the environment [ext06], the encoding of the model's buffers /
   histories / indices as MiniPy tensor values, and the correspondence entry point [src_lookup_check].
   Definitions only; the lemmas are in TieRun.v / TieSrc.v.

   PV.Gen.C06Src.lookup_body and calc_idx_body are regenerated from /repo on every run by
   harness/py2coq/translate.py (the WHOLE bodies; the decorator `@script` is outside them: TorchScript
   compilation is NOT modelled, the tie is about the Python text as eager CPython runs it).

   [ext06] gives the torch calls of those bodies the meaning defined in PV.MiniTorch.OpsC06.  What arrives here
   (see MiniPy.Interp):
     x.size(k) x.numel() x.expand(..) x.min() x.item() x.unsqueeze(k) x.masked_select(m) x.view(..)
     x.masked_fill(m, v) x.eq(c) x.to(dtype) x.long() x.repeat(k) x.repeat_interleave(k) x.clamp_max(c)
     x.any(1) x.sum(1)                  "$method.<name>" with the tensor as first argument
     x.device x.dtype x.shape x.T       "$attr.<name>" (device / dtype: opaque tokens; shape: a tuple of ints)
     x[a:b], x[i], x[idx]               "$getitem" [x; slice | int | integer tensor]
     a + b, a + k, a - k, a & b         "operator" ["add" | "sub" | "and"; a; b]
     a < b, a > b, a == b, a >= k       "compare" ["lt" | "gt" | "eq" | "ge"; a; b]
     ~m                                 "$invert" [m]
     torch.cat([a, b]) torch.full(size, v, dtype=, device=) torch.arange(n, device=[, dtype=])
     torch.as_tensor(x, dtype=, device=) torch.ones(n, device=, dtype=torch.bool) torch.where(c, a, b)
     torch.zeros_like(x) torch.isfinite(x) int(v)
     _lookup_calc_idx_log_probs(...)    the call of the OTHER translated function: its body is interpreted
                                        (with the same environment minus this entry) on fresh variables = its
                                        parameters + the module global `torch`
   ASSUMPTIONS of the ext: dtypes are not part of a value (`x.to(ids.dtype)`, `x.long()`, `torch.as_tensor` are the
   identity on integer tensors: the history tokens fit the dtype of `ids`, which the trie builder sizes for U);
   `torch.long` / `torch.bool` are attributes of the object bound to the global name `torch` ([torch_module]);
   keyword arguments are accepted only where listed and only with those tokens; devices are ignored.
   Everything else is Stuck. *)
From Coq Require Import ZArith QArith List String Bool Arith.
From PV Require Import MiniPy.Syntax MiniPy.Interp MiniTorch.OpsC06 Gen.C06Src.
From PV Require C06.Model.
Import ListNotations.
Local Open Scope string_scope.

(* ---- tensors as MiniPy values ------------------------------------------------------------------------- *)
Definition tag6 : string := "$tensor06".

Definition enc_cell (c : cell) : val :=
  match c with
  | CI z => VInt z
  | CB b => VBool b
  | CF (FQ q) => VQ q
  | CF FNInf => VInf false
  | CF FNaN => VStr "nan"
  end.

Definition dec_cell (v : val) : option cell :=
  match v with
  | VInt z => Some (CI z)
  | VBool b => Some (CB b)
  | VQ q => Some (CF (FQ q))
  | VInf false => Some (CF FNInf)
  | VStr s => if String.eqb s "nan" then Some (CF FNaN) else None
  | _ => None
  end.

Definition enc_shape (s : list nat) : list val := map (fun n => VInt (Z.of_nat n)) s.

Fixpoint dec_shape (l : list val) : option (list nat) :=
  match l with
  | [] => Some []
  | VInt z :: r => if Z.leb 0 z then option_map (cons (Z.to_nat z)) (dec_shape r) else None
  | _ => None
  end.

Definition enc6 (t : tens6) : val := VTuple [VStr tag6; VList (enc_shape (sh6 t)); VList (map enc_cell (dt6 t))].

(* (the tensors that enter a run - [lookup_vars] / [method_vars] below - have as many elements as their shape says,
   and [rows_of] checks the returned one; the operations of OpsC06 are meant on such tensors) *)
Definition dec6 (v : val) : option tens6 :=
  match v with
  | VTuple [VStr tag; VList s; VList d] =>
      if String.eqb tag tag6 then
        match dec_shape s, sequence (map dec_cell d) with
        | Some s', Some d' => Some (T6 s' d')
        | _, _ => None
        end
      else None
  | _ => None
  end.

Definition stuck6 {A} (why : string) : outcome A := Stuck ("MiniTorch(C06): outside the modelled domain: " ++ why).

Definition ret6 (why : string) (o : option tens6) (st : state) : outcome val :=
  match o with Some t => Ok (enc6 t) st | None => stuck6 why end.

Definition retn (why : string) (o : option nat) (st : state) : outcome val :=
  match o with Some n => Ok (VInt (Z.of_nat n)) st | None => stuck6 why end.

(* a Python number where torch takes a scalar value *)
Definition scalar_cell (v : val) : option cell :=
  match v with VInt z => Some (CI z) | VQ q => Some (CF (FQ q)) | _ => None end.

Fixpoint ints_of (l : list val) : option (list Z) :=
  match l with
  | [] => Some []
  | VInt z :: r => option_map (cons z) (ints_of r)
  | _ => None
  end.

Fixpoint tensors_of (l : list val) : option (list tens6) :=
  match l with
  | [] => Some []
  | v :: r => match dec6 v, tensors_of r with Some t, Some ts => Some (t :: ts) | _, _ => None end
  end.

(* a bound of a slice: None = missing *)
Definition bound_of (v : val) : option (option Z) :=
  match v with VNone => Some None | VInt z => Some (Some z) | _ => None end.

Definition device_token : val := VStr "$device".
Definition long_token : val := VStr "$dtype.long".
Definition bool_token : val := VStr "$dtype.bool".
Definition int_dtype_token : val := VStr "$dtype.int".    (* what x.dtype answers for an integer tensor *)
Definition torch_module : val := VDict [(VStr "long", long_token); (VStr "bool", bool_token)].

Definition kw_device (kv : string * val) : bool := is (fst kv) "device" && val_eqb (snd kv) device_token.
Definition kw_long (kv : string * val) : bool := is (fst kv) "dtype" && val_eqb (snd kv) long_token.
Definition kw_bool (kv : string * val) : bool := is (fst kv) "dtype" && val_eqb (snd kv) bool_token.
(* integer-valued creation: device= and dtype=torch.long are accepted (and ignored) *)
Definition kw_int_ok (kw : list (string * val)) : bool := forallb (fun kv => kw_device kv || kw_long kv) kw.
(* torch.ones without dtype=torch.bool would be a float tensor: not modelled *)
Definition kw_bool_ok (kw : list (string * val)) : bool :=
  forallb (fun kv => kw_device kv || kw_bool kv) kw && existsb kw_bool kw.
Definition no_kw (kw : list (string * val)) : bool := match kw with [] => true | _ => false end.

(* integer tensor -> itself (x.long(), x.to(<integer dtype>), torch.as_tensor(x, dtype=torch.long)) *)
Definition as_int (t : tens6) : option tens6 :=
  map_cells (fun x => match x with CI z => Some (CI z) | _ => None end) t.

Definition on1 (why : string) (v : val) (k : tens6 -> option tens6) (st : state) : outcome val :=
  match dec6 v with Some t => ret6 why (k t) st | None => stuck6 ("not a tensor: " ++ why) end.

Definition on2 (why : string) (v w : val) (k : tens6 -> tens6 -> option tens6) (st : state) : outcome val :=
  match dec6 v, dec6 w with
  | Some t, Some u => ret6 why (k t u) st
  | _, _ => stuck6 ("not a tensor: " ++ why)
  end.

(* everything but the call of _lookup_calc_idx_log_probs *)
Definition ext06_ops (f : string) (args : list val) (kw : list (string * val)) (st : state) : outcome val :=
  if is f "torch.full" then
    match args with
    | [VTuple sizes; v] =>
        if kw_int_ok kw then
          match ints_of sizes, v with
          | Some zs, VInt z => ret6 "full" (full zs (CI z)) st
          | _, _ => stuck6 "full: arguments"
          end
        else stuck6 "full: keyword"
    | _ => stuck6 "full"
    end
  else if is f "torch.arange" then
    match args with
    | [VInt n] => if kw_int_ok kw then ret6 "arange" (arange n) st else stuck6 "arange: keyword"
    | _ => stuck6 "arange"
    end
  else if is f "torch.as_tensor" then
    match args with
    | [x] => if kw_int_ok kw then on1 "as_tensor" x as_int st else stuck6 "as_tensor: keyword"
    | _ => stuck6 "as_tensor"
    end
  else if is f "torch.ones" then
    match args with
    | [VInt n] => if kw_bool_ok kw then ret6 "ones" (ones_bool n) st else stuck6 "ones: keyword"
    | _ => stuck6 "ones"
    end
  else if negb (no_kw kw) then stuck6 ("keyword arguments of " ++ f)
  else if is f "$method.size" then
    match args with
    | [t; VInt d] => match dec6 t with Some x => retn "size" (size x d) st | None => stuck6 "size" end
    | _ => stuck6 "size"
    end
  else if is f "$method.numel" then
    match args with
    | [t] => match dec6 t with Some x => Ok (VInt (Z.of_nat (numel x))) st | None => stuck6 "numel" end
    | _ => stuck6 "numel"
    end
  else if is f "$attr.device" then
    match args with
    | [t] => match dec6 t with Some _ => Ok device_token st | None => stuck6 "device" end
    | _ => stuck6 "device"
    end
  else if is f "$attr.dtype" then
    match args with
    | [t] => match dec6 t with
             | Some x => match as_int x with Some _ => Ok int_dtype_token st | None => stuck6 "dtype of a non-integer tensor" end
             | None => stuck6 "dtype" end
    | _ => stuck6 "dtype"
    end
  else if is f "$attr.shape" then
    match args with
    | [t] => match dec6 t with Some x => Ok (VTuple (enc_shape (sh6 x))) st | None => stuck6 "shape" end
    | _ => stuck6 "shape"
    end
  else if is f "$attr.T" then
    match args with [t] => on1 "T" t transpose st | _ => stuck6 "T" end
  else if is f "$getitem" then
    match args with
    | [x; VInt i] => on1 "x[int]" x (fun t => select0 t i) st
    | [x; VTuple [VStr tag; lo; hi; VNone]] =>
        if String.eqb tag "$slice" then
          match bound_of lo, bound_of hi with
          | Some a, Some b => on1 "x[a:b]" x (fun t => slice0 t a b) st
          | _, _ => stuck6 "slice bounds"
          end
        else stuck6 "getitem key"
    | [x; k] => on2 "x[tensor]" x k index1 st
    | _ => stuck6 "getitem"
    end
  else if is f "operator" then
    match args with
    | [VStr o; a; VInt c] =>
        if is o "add" then on1 "tensor + int" a (fun t => add_s t c) st
        else if is o "sub" then on1 "tensor - int" a (fun t => sub_s t c) st
        else stuck6 ("operator " ++ o)
    | [VStr o; a; b] =>
        if is o "add" then on2 "add" a b add st
        else if is o "and" then on2 "and" a b band st
        else stuck6 ("operator " ++ o)
    | _ => stuck6 "operator"
    end
  else if is f "compare" then
    match args with
    | [VStr o; a; VInt c] =>
        if is o "ge" then on1 "tensor >= int" a (fun t => ge_s t c) st else stuck6 ("compare with a number: " ++ o)
    | [VStr o; a; b] =>
        if is o "lt" then on2 "lt" a b lt st
        else if is o "gt" then on2 "gt" a b gt st
        else if is o "eq" then on2 "eq" a b eq st
        else stuck6 ("compare " ++ o)
    | _ => stuck6 "compare"
    end
  else if is f "$invert" then
    match args with [m] => on1 "invert" m invert st | _ => stuck6 "invert" end
  else if is f "torch.cat" then
    match args with
    | [VList ts] => match tensors_of ts with Some l => ret6 "cat" (cat0 l) st | None => stuck6 "cat: not tensors" end
    | _ => stuck6 "cat"
    end
  else if is f "torch.where" then
    match args with
    | [c; a; b] => match dec6 c, dec6 a, dec6 b with
                   | Some x, Some y, Some z => ret6 "where" (twhere x y z) st
                   | _, _, _ => stuck6 "where: not tensors"
                   end
    | _ => stuck6 "where"
    end
  else if is f "torch.zeros_like" then
    match args with [t] => on1 "zeros_like" t (fun x => Some (zeros_like x)) st | _ => stuck6 "zeros_like" end
  else if is f "torch.isfinite" then
    match args with [t] => on1 "isfinite" t isfinite st | _ => stuck6 "isfinite" end
  else if is f "int" then
    match args with [VInt z] => Ok (VInt z) st | _ => stuck6 "int" end
  else if is f "$method.expand" then
    match args with
    | t :: sizes => match ints_of sizes with Some zs => on1 "expand" t (fun x => expand x zs) st | None => stuck6 "expand: sizes" end
    | _ => stuck6 "expand"
    end
  else if is f "$method.view" then
    match args with
    | t :: sizes => match ints_of sizes with Some zs => on1 "view" t (fun x => view x zs) st | None => stuck6 "view: sizes" end
    | _ => stuck6 "view"
    end
  else if is f "$method.min" then
    match args with [t] => on1 "min" t tmin st | _ => stuck6 "min" end
  else if is f "$method.item" then
    match args with
    | [t] => match dec6 t with
             | Some x => match item x with Some c => Ok (enc_cell c) st | None => stuck6 "item" end
             | None => stuck6 "item" end
    | _ => stuck6 "item"
    end
  else if is f "$method.unsqueeze" then
    match args with [t; VInt d] => on1 "unsqueeze" t (fun x => unsqueeze x d) st | _ => stuck6 "unsqueeze" end
  else if is f "$method.masked_select" then
    match args with [t; m] => on2 "masked_select" t m masked_select st | _ => stuck6 "masked_select" end
  else if is f "$method.masked_fill" then
    match args with
    | [t; m; v] => match scalar_cell v with
                   | Some c => on2 "masked_fill" t m (fun x y => masked_fill x y c) st
                   | None => stuck6 "masked_fill: value"
                   end
    | _ => stuck6 "masked_fill"
    end
  else if is f "$method.eq" then
    match args with [t; VInt c] => on1 "eq" t (fun x => eq_s x c) st | _ => stuck6 "eq" end
  else if is f "$method.to" then
    match args with
    | [t; tok] => if val_eqb tok int_dtype_token then on1 "to" t as_int st else stuck6 "to: dtype"
    | _ => stuck6 "to"
    end
  else if is f "$method.long" then
    match args with [t] => on1 "long" t as_int st | _ => stuck6 "long" end
  else if is f "$method.repeat" then
    match args with [t; VInt k] => on1 "repeat" t (fun x => repeat1 x k) st | _ => stuck6 "repeat" end
  else if is f "$method.repeat_interleave" then
    match args with [t; VInt k] => on1 "repeat_interleave" t (fun x => repeat_interleave x k) st | _ => stuck6 "repeat_interleave" end
  else if is f "$method.clamp_max" then
    match args with [t; VInt c] => on1 "clamp_max" t (fun x => clamp_max x c) st | _ => stuck6 "clamp_max" end
  else if is f "$method.any" then
    match args with [t; VInt d] => on1 "any" t (fun x => any1 x d) st | _ => stuck6 "any" end
  else if is f "$method.sum" then
    match args with [t; VInt d] => on1 "sum" t (fun x => sum1 x d) st | _ => stuck6 "sum" end
  else Stuck ("ext06: " ++ f).

Definition globals06 : list (string * val) := [("torch", torch_module)].

(* a call of another translated function: fresh frame, the caller's state is untouched *)
Definition call_body (body : stmt) (frame : list (string * val)) (st : state) : outcome val :=
  match Interp.run ext06_ops body frame with
  | Ok v _ => Ok v st
  | Exc n _ => Exc n st
  | Stuck w => Stuck w
  end.

Definition ext06 (f : string) (args : list val) (kw : list (string * val)) (st : state) : outcome val :=
  if is f "_lookup_calc_idx_log_probs" then
    match kw with
    | [] => if (List.length args =? List.length lookup_body_params)%nat
            then call_body lookup_body (combine lookup_body_params args ++ globals06) st
            else Stuck "_lookup_calc_idx_log_probs: arguments"
    | _ => Stuck "_lookup_calc_idx_log_probs: keywords"
    end
  else ext06_ops f args kw st.

(* ---- the model's inputs as tensors --------------------------------------------------------------------- *)
(* a model value k/8 as a float in lowest terms *)
Definition fl_of (v : Model.val) : fl :=
  match v with Model.Fin z => FQ (Qred (z # 8)) | Model.NInf => FNInf | Model.NaN => FNaN end.

Definition val_of (c : cell) : option Model.val :=
  match c with
  | CF (FQ q) => let z := (Qnum q * 8 / Zpos (Qden q))%Z in if Qeq_bool q (z # 8) then Some (Model.Fin z) else None
  | CF FNInf => Some Model.NInf
  | CF FNaN => Some Model.NaN
  | _ => None
  end.

Definition ivec (l : list Z) : tens6 := T6 [List.length l] (map CI l).
Definition fvec (l : list Model.val) : tens6 := T6 [List.length l] (map (fun v => CF (fl_of v)) l).

(* hist (T, B): rows, each of B entries *)
Definition hist_tensor (hist : list (list Z)) (B : nat) : tens6 := T6 [List.length hist; B] (map CI (List.concat hist)).

(* idx: a 0-dimensional tensor or a vector *)
Definition idx_tensor (ix : Model.hindex) : tens6 :=
  match ix with Model.Scalar i => T6 [] [CI i] | Model.Vec l => ivec l end.

(* the result: B rows of V values *)
Definition rows_tensor (B V : nat) (rows : list (list Model.val)) : tens6 :=
  T6 [B; V] (map (fun v => CF (fl_of v)) (List.concat rows)).

(* the arguments of _lookup_calc_idx_log_probs(hist, hidx, offsets, ids, logps, logbs, sos, V, N, G, S) + the module
   global `torch` *)
Definition vars06 (hist hidx offsets ids logps logbs : tens6) (sos V N G S : Z) : list (string * val) :=
  [("hist", enc6 hist); ("hidx", enc6 hidx); ("offsets", enc6 offsets); ("ids", enc6 ids);
   ("logps", enc6 logps); ("logbs", enc6 logbs); ("sos", VInt sos); ("V", VInt V); ("N", VInt N);
   ("G", VInt G); ("S", VInt S)] ++ globals06.

Definition lookup_vars (b : Model.bufs) (sh : Model.shape) (hist : list (list Z)) (B : nat) (ix : Model.hindex)
  : list (string * val) :=
  vars06 (hist_tensor hist B) (idx_tensor ix) (ivec (Model.offsets b)) (ivec (Model.ids b))
    (fvec (Model.logps b)) (fvec (Model.logbs b))
    (Model.sos sh) (Model.vocab sh) (Z.of_nat (Model.order sh)) (Model.gnodes sh) (Z.of_nat (Model.maxdesc sh)).

(* `self`: the attributes calc_idx_log_probs reads *)
Definition self_value (b : Model.bufs) (sh : Model.shape) : val :=
  VDict [(VStr "offsets", enc6 (ivec (Model.offsets b))); (VStr "ids", enc6 (ivec (Model.ids b)));
         (VStr "logps", enc6 (fvec (Model.logps b))); (VStr "logbs", enc6 (fvec (Model.logbs b)));
         (VStr "sos", VInt (Model.sos sh)); (VStr "vocab_size", VInt (Model.vocab sh));
         (VStr "max_ngram", VInt (Z.of_nat (Model.order sh))); (VStr "max_ngram_nodes", VInt (Model.gnodes sh));
         (VStr "max_direct_descendants", VInt (Z.of_nat (Model.maxdesc sh)))].

(* the arguments of LookupLanguageModel.calc_idx_log_probs(self, hist, prev, idx); prev = {} *)
Definition method_vars (b : Model.bufs) (sh : Model.shape) (hist : list (list Z)) (B : nat) (ix : Model.hindex)
  : list (string * val) :=
  [("self", self_value b sh); ("hist", enc6 (hist_tensor hist B)); ("prev", VDict []); ("idx", enc6 (idx_tensor ix))].

(* the interpreted sources *)
Definition run_lookup (b : Model.bufs) (sh : Model.shape) (hist : list (list Z)) (B : nat) (ix : Model.hindex)
  : outcome val := Interp.run ext06_ops lookup_body (lookup_vars b sh hist B ix).

Definition run_method (b : Model.bufs) (sh : Model.shape) (hist : list (list Z)) (B : nat) (ix : Model.hindex)
  : outcome val := Interp.run ext06 calc_idx_body (method_vars b sh hist B ix).

(* ---- reading the result back ----------------------------------------------------------------------------- *)
Fixpoint rows_of_data (n m : nat) (d : list Model.val) : list (list Model.val) :=
  match n with O => [] | S n' => firstn m d :: rows_of_data n' m (skipn m d) end.

Definition rows_of (v : val) : option (list (list Model.val)) :=
  match dec6 v with
  | Some t => match sh6 t, sequence (map val_of (dt6 t)) with
              | [n; m], Some d => if wf6 t then Some (rows_of_data n m d) else None
              | _, _ => None
              end
  | None => None
  end.

(* outer None: the interpreter got stuck or returned something that is not a (B, V) float tensor (+ the untouched
   prev); inner None: a Python exception (as Model.lookup_batch's None) *)
Definition src_lookup_batch (b : Model.bufs) (sh : Model.shape) (hist : list (list Z)) (B : nat) (ix : Model.hindex)
  : option (option (list (list Model.val))) :=
  match run_method b sh hist B ix with
  | Ok (VTuple [t; VDict []]) _ => option_map Some (rows_of t)
  | Ok _ _ => None
  | Exc _ _ => Some None
  | Stuck _ => None
  end.

(* SequentialLanguageModel.forward's index normalisation is NOT part of the translated text: the model's own
   [Model.norm_idx] stands for it here, exactly as in [Model.forward] *)
Definition src_forward (b : Model.bufs) (sh : Model.shape) (hist : list (list Z)) (B : nat) (ix : Model.hindex)
  : option (option Model.output) :=
  match Model.norm_idx (Model.zlen hist) B ix with
  | None => Some None
  | Some i' => option_map (option_map Model.AtIdx) (src_lookup_batch b sh hist B i')
  end.

(* same interface as the comparison c06.py makes for an index query:
   Model.out_eqb (Model.forward b sh hist B (Some ix)) impl *)
Definition src_lookup_check (b : Model.bufs) (sh : Model.shape) (hist : list (list Z)) (B : nat) (ix : Model.hindex)
  (impl : option Model.output) : bool :=
  match src_forward b sh hist B ix with
  | Some r => Model.out_eqb r impl
  | None => false
  end.
