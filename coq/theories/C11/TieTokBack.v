(* C11 source tie - token_to_transcript: interpreting the regenerated source term PV.Gen.C11Src.src_to_transcript on a long
   tensor of shape (R, 3), (R, 1) or (R,) (MiniTorch.OpsC11 as MiniPy values: the tuple of its rows) returns, item by item,
   the encoding of Model.token_to_transcript's transcript - every tensor, id2token None or a dict, every frame shift
   (None, or a rational that is not 0: the model's convention for a "falsy" frame_shift_ms).  Times: the source computes
   Qred (Qred (s * d) / 1000), the model s * d / 1000: equal as rationals ([num_rel]). *)
From Coq Require Import ZArith QArith List String Ascii Bool Lia.
From PV Require Import C11.Model MiniPy.Syntax MiniPy.Interp MiniPy.Lemmas MiniTorch.OpsC11 Gen.C11Src C11.SrcRun C11.TieBase.
Import ListNotations.
Local Open Scope string_scope.

#[local] Arguments Qred : simpl never.
#[local] Arguments Qmult : simpl never.
#[local] Arguments Qdiv : simpl never.
#[local] Arguments Qeq_bool : simpl never.
#[local] Arguments inject_Z : simpl never.

Ltac norm := repeat (cbn; match goal with |- context [Pos.to_nat ?p] =>
  let v := eval compute in (Pos.to_nat p) in change (Pos.to_nat p) with v end); cbn.

Definition tt_body : stmt :=
  match src_to_transcript with SSeq _ (SSeq (SFor _ _ b) _) => b | _ => SPass end.

Definition tbase (R I F : val) (vs : list val) : list (string * val) :=
  [("ref", R); ("id2token", I); ("frame_shift_ms", F); ("transcript", VList vs)].
Definition ttemps (a1 a2 a3 a4 a5 : val) : list (string * val) :=
  [("tup", a1); ("start", a2); ("end", a3); ("id_", a4); ("token", a5)].
Definition tshape (r : list (string * val)) : Prop := r = [] \/ exists a1 a2 a3 a4 a5, r = ttemps a1 a2 a3 a4 a5.

(* the model's per-row function *)
Definition tt_item (i2t : option (list (Z * tk))) (fs : option Q) (row : Z * Z * Z) : Model.item :=
  let '(i, s, e) := row in
  let t := match i2t with
           | None => TInt i
           | Some d => match assoc Z.eqb i d with Some t => t | None => TInt i end
           end in
  if ((s =? -1) || (e =? -1))%Z then Plain t
  else match fs with
       | Some d => Timed t (inject_Z s * d / 1000) (inject_Z e * d / 1000)
       | None => Timed t (inject_Z s) (inject_Z e)
       end.

Lemma model_is_map ref i2t fs : Model.token_to_transcript ref i2t fs = map (tt_item i2t fs) ref.
Proof. unfold Model.token_to_transcript. apply map_ext. intros [[i s] e]. reflexivity. Qed.

(* a value that stands for the rational q *)
Definition num_rel (q : Q) (v : val) : Prop := exists p, num_q v = Some p /\ p == q.
Definition item_rel (it : Model.item) (v : val) : Prop :=
  match it with
  | Plain t => v = enc_tk t
  | Timed t s e => exists vs ve, v = VTuple [enc_tk t; vs; ve] /\ num_rel s vs /\ num_rel e ve
  end.

(* a row of the tensor: [cols] = 3 for (R, 3), 1 for (R, 1), 0 for (R,) *)
Definition enc_row (cols : nat) (r : Z * Z * Z) : val :=
  match cols with
  | O => VInt (fst (fst r))
  | S O => VTuple [VInt (fst (fst r))]
  | _ => VTuple [VInt (fst (fst r)); VInt (snd (fst r)); VInt (snd r)]
  end.
Definition norm_row (cols : nat) (r : Z * Z * Z) : Z * Z * Z :=
  match cols with O | S O => (fst (fst r), -1, -1)%Z | _ => r end.

Lemma enc_ref_rows cols rows : enc_ref cols rows = VTuple (map (enc_row cols) rows).
Proof. destruct cols as [|[|c]]; reflexivity. Qed.

Lemma i2t_get i (l : list (Z * tk)) :
  dict_get (map (fun kv => (VInt (fst kv), enc_tk (snd kv))) l) (VInt i) = option_map enc_tk (assoc Z.eqb i l).
Proof. exact (al_get Z.eqb VInt enc_tk (fun a b => eq_refl) i l). Qed.

Definition fs_ok (fs : option Q) : Prop := match fs with Some d => Qeq_bool d 0 = false | None => True end.

Lemma q1000 : Qeq_bool (inject_Z 1000) 0 = false.
Proof. reflexivity. Qed.

Lemma time_rel z d : num_rel (inject_Z z * d / 1000) (VQ (Qred (Qred (inject_Z z * d) / inject_Z 1000))).
Proof.
  eexists. split; [reflexivity|]. rewrite !Qred_correct. reflexivity.
Qed.

Lemma int_rel z : num_rel (inject_Z z) (VInt z).
Proof. eexists. split; reflexivity. Qed.

Lemma tt_step R i2t fs cols row vs rest evs : tshape rest -> fs_ok fs -> (cols = 0 \/ cols = 1 \/ cols = 3)%nat ->
  exists v rest', tshape rest' /\
    exec ext11 tt_body (set_var "tup" (enc_row cols row) (mkState (tbase R (enc_i2t i2t) (enc_fs fs) vs ++ rest) evs))
    = Ok CNormal (mkState (tbase R (enc_i2t i2t) (enc_fs fs) (vs ++ [v]) ++ rest') evs)
    /\ item_rel (tt_item i2t fs (norm_row cols row)) v.
Proof.
  intros Hs Hfs Hc. destruct row as [[i s] e].
  unfold tt_body, src_to_transcript, tbase, tt_item.
  destruct Hc as [->|[->| ->]]; unfold enc_row, norm_row; cbn [fst snd].
  1,2: destruct i2t as [l|]; unfold enc_i2t;
       (destruct Hs as [->|(a1&a2&a3&a4&a5&->)]; unfold ttemps);
       norm; rewrite ?i2t_get; try (destruct (assoc Z.eqb i l) as [t|]); norm;
       do 2 eexists; (split; [|split; [reflexivity|reflexivity]]); right; unfold ttemps; do 5 eexists; reflexivity.
  destruct i2t as [l|]; unfold enc_i2t;
    (destruct Hs as [->|(a1&a2&a3&a4&a5&->)]; unfold ttemps);
    (destruct fs as [d|]; unfold enc_fs, fs_ok in *).
  all: norm; rewrite ?i2t_get; try (destruct (assoc Z.eqb i l) as [t|]); norm.
  all: destruct (s =? -1)%Z; norm; [do 2 eexists; (split; [|split; [reflexivity|reflexivity]]); right; unfold ttemps; do 5 eexists; reflexivity|].
  all: destruct (e =? -1)%Z; norm; [do 2 eexists; (split; [|split; [reflexivity|reflexivity]]); right; unfold ttemps; do 5 eexists; reflexivity|].
  all: rewrite ?Hfs; norm; rewrite ?q1000; norm.
  all: do 2 eexists; (split; [|split; [reflexivity|]]); [right; unfold ttemps; do 5 eexists; reflexivity|].
  all: do 2 eexists; split; [reflexivity|]; split; first [apply time_rel|apply int_rel].
Qed.

Lemma tt_loop R i2t fs cols : tshape [] -> fs_ok fs -> (cols = 0 \/ cols = 1 \/ cols = 3)%nat ->
  forall rows vs rest evs, tshape rest ->
  exists ws rest', tshape rest' /\
    for_loop ext11 "tup" tt_body (map (enc_row cols) rows) (mkState (tbase R (enc_i2t i2t) (enc_fs fs) vs ++ rest) evs)
    = Ok CNormal (mkState (tbase R (enc_i2t i2t) (enc_fs fs) (vs ++ ws) ++ rest') evs)
    /\ Forall2 item_rel (map (tt_item i2t fs) (map (norm_row cols) rows)) ws.
Proof.
  intros _ Hfs Hc. induction rows as [|row rows IH]; intros vs rest evs Hs.
  - exists [], rest. rewrite app_nil_r. split; [exact Hs|]. split; [reflexivity|constructor].
  - cbn [map for_loop].
    destruct (tt_step R i2t fs cols row vs rest evs Hs Hfs Hc) as (v & rest1 & Hs1 & Hx & Hr).
    rewrite Hx. cbn [bind].
    destruct (IH (vs ++ [v])%list rest1 evs Hs1) as (ws & rest2 & Hs2 & Hy & Hrs).
    exists (v :: ws), rest2. split; [exact Hs2|]. split.
    + rewrite Hy. rewrite <- app_assoc. reflexivity.
    + constructor; assumption.
Qed.

(* the whole function *)
Theorem to_transcript_tie cols rows i2t fs : fs_ok fs -> (cols = 0 \/ cols = 1 \/ cols = 3)%nat ->
  exists ws st, run_to_transcript (enc_ref cols rows) (enc_i2t i2t) (enc_fs fs) = Ok (VList ws) st /\
                Forall2 item_rel (Model.token_to_transcript (map (norm_row cols) rows) i2t fs) ws.
Proof.
  intros Hfs Hc. unfold run_to_transcript, Interp.run. rewrite model_is_map, enc_ref_rows.
  set (R := VTuple (map (enc_row cols) rows)).
  change src_to_transcript with
    (SSeq (SAssign [TName "transcript"] (EListLit []))
       (SSeq (SFor "tup" (EName "ref") tt_body) (SReturn (EName "transcript")))).
  rewrite exec_seq.
  change (exec ext11 (SAssign [TName "transcript"] (EListLit [])) ?s)
    with (Ok CNormal (mkState (tbase R (enc_i2t i2t) (enc_fs fs) [] ++ []) [])).
  cbn [bind]. rewrite exec_seq, exec_for.
  change (eval ext11 (EName "ref") ?s) with (Ok R s).
  cbn [bind]. change (iter_items R) with (Some (map (enc_row cols) rows)). cbn iota.
  destruct (tt_loop R i2t fs cols (or_introl eq_refl) Hfs Hc rows [] [] [] (or_introl eq_refl))
    as (ws & rest' & Hs & Hl & Hrel).
  rewrite Hl. cbn [bind app]. exists ws. eexists. split; [reflexivity|exact Hrel].
Qed.
